(* C09 end to end: recorded real runs (Proofs/RE_CtlExamples.v, reproduced observation by observation by the model)
   meet every hypothesis of the theorems of Proofs/RE_Defer.v, and the hypotheses are needed: schedules that break one
   of them, evaluated on the model.  Everything here is closed by vm_compute. *)
From Coq Require Import List String ZArith Bool Arith.
From BV Require Import Engine.RE Engine.REInst Proofs.RE_Ctl Proofs.RE_Hold Proofs.RE_Shape Proofs.RE_CtlExamples Proofs.RE_Defer.
From BV Require Proofs.RE_ExitE2E Proofs.RE_Inv.
Import ListNotations.

Definition bad1 (o : obs) : bool := match o with OBad 1 => true | _ => false end.
Lemma nobad_b l : forallb (fun o => negb (bad1 o)) l = true -> ~ In (OBad 1) l.
Proof.
  induction l as [|x l IH]; cbn; intros H E; [exact E|]. apply andb_true_iff in H as [H1 H2].
  destruct E as [E|E]; [subst x; discriminate H1 | exact (IH H2 E)].
Qed.

(* the hypotheses of [deferred_pause_end_to_end] on the tape instance of the model *)
Definition e2e_hyps tapes ledger paus stag rec (evs0 evsA evsG evsH : list event) : Prop :=
  let P := TP in let presume := t_resume tapes in let plan_of := t_plan_of in let D := nat in let dev := t_dev ledger in
  let s0 := fst (run P presume plan_of D dev (init P D 0 paus stag rec) evs0) in
  let sr := fst (step P presume plan_of D dev s0 (EvReqPause true)) in
  let sA := fst (run P presume plan_of D dev sr evsA) in
  let oA := snd (run P presume plan_of D dev sr evsA) in
  let oK := snd (step P presume plan_of D dev sA EvTask) in
  RE_ExitE2E.nobad P presume plan_of D dev (init P D 0 paus stag rec)
    (evs0 ++ EvReqPause true :: evsA ++ EvTask :: evsG ++ EvTask :: evsH ++ [EvTask]) /\
  allowed (state P D s0) Pausing = true /\ pc P D s0 <> PcCmd KCkptSleep /\
  forallb calm evsA = true /\ forallb calm evsG = true /\ no_task evsG = true /\
  forallb calm evsH = true /\ no_task evsH = true /\ clean oA = true /\
  exists a ck b, oK = a ++ OMsg ck :: b /\ clean a = true /\ mcmd ck = CCheckpoint /\
                 (forall b', b <> OResp (RExn EIMS) :: b').

Ltac hyps_tac a ck b :=
  unfold e2e_hyps; cbv zeta;
  split; [apply nobad_b; vm_compute; reflexivity|];
  split; [vm_compute; reflexivity|];
  split; [vm_compute; intros E; discriminate E|];
  repeat (split; [vm_compute; reflexivity|]);
  exists a, ck, b;
  split; [vm_compute; reflexivity|]; split; [vm_compute; reflexivity|]; split; [reflexivity|];
  intros b' E; discriminate E.

(* ex_defer: open_run, checkpoint, <deferred pause requested>, null, checkpoint, null, close_run; then resume *)
Example defer_e2e_recorded :
  check ex_defer_tapes ex_defer_ledger ex_defer_paus ex_defer_stag ex_defer_rec ex_defer_evs ex_defer_obs = true /\
  ex_defer_evs = firstn 5 ex_defer_evs ++ EvReqPause true :: [EvTask] ++ EvTask :: [] ++ EvTask :: [] ++ [EvTask] ++ skipn 10 ex_defer_evs /\
  e2e_hyps ex_defer_tapes ex_defer_ledger ex_defer_paus ex_defer_stag ex_defer_rec (firstn 5 ex_defer_evs) [EvTask] [] [].
Proof.
  split; [vm_compute; reflexivity|]. split; [vm_compute; reflexivity|].
  hyps_tac [OPlanIn 0 (Send VNone)] {| mid := Some 3; mcmd := CCheckpoint; mobj := None; mrun := 0 |} [OTask WFuture].
Qed.

(* ... and the theorem, applied to it, yields what the recording shows: paused at that checkpoint, the call raises
   RunEngineInterrupted with state paused, resume() pushes the empty replay plan *)
Example defer_e2e_recorded_concl :
  let s10 := fst (irun ex_defer_tapes ex_defer_ledger ex_defer_paus ex_defer_stag ex_defer_rec (firstn 10 ex_defer_evs)) in
  state TP nat s10 = Paused /\ cache TP nat s10 = Some [] /\
  snd (step TP (t_resume ex_defer_tapes) t_plan_of nat (t_dev ex_defer_ledger) s10 (EvMainDone (ACall 0))) =
    [OOut OutInterrupted Paused false true] /\
  plans TP nat (fst (step TP (t_resume ex_defer_tapes) t_plan_of nat (t_dev ex_defer_ledger) s10 (EvMain AResume))) =
    FList [] :: plans TP nat s10.
Proof.
  destruct defer_e2e_recorded as (_ & _ & H). unfold e2e_hyps in H. cbv zeta in H.
  destruct H as (H1 & H2 & H3 & H4 & H5 & H6 & H7 & H8 & H9 & a & ck & b & H10 & H11 & H12 & H13).
  pose proof (deferred_pause_end_to_end TP (t_resume ex_defer_tapes) t_plan_of nat (t_dev ex_defer_ledger) 0
                ex_defer_paus ex_defer_stag ex_defer_rec (firstn 5 ex_defer_evs) [EvTask] [] []
                H1 H2 H3 H4 H5 H6 H7 H8 H9 a ck b H10 H11 H12 H13) as T.
  cbv zeta in T. destruct T as (_ & _ & _ & _ & _ & _ & _ & _ & _ & _ & _ & _ & _ & _ & _ & _ & _ & T).
  destruct T as [(x & ds & dd & Hx)|T].
  { exfalso. unfold t_dev in Hx. cbn in Hx. destruct ds; discriminate Hx. }
  destruct T as (T1 & _ & _ & T4 & _ & _ & _ & T8 & T9 & _).
  assert (E : fst (irun ex_defer_tapes ex_defer_ledger ex_defer_paus ex_defer_stag ex_defer_rec (firstn 10 ex_defer_evs)) =
              fst (step TP (t_resume ex_defer_tapes) t_plan_of nat (t_dev ex_defer_ledger)
                (fst (run TP (t_resume ex_defer_tapes) t_plan_of nat (t_dev ex_defer_ledger)
                   (fst (step TP (t_resume ex_defer_tapes) t_plan_of nat (t_dev ex_defer_ledger)
                      (fst (run TP (t_resume ex_defer_tapes) t_plan_of nat (t_dev ex_defer_ledger)
                         (fst (step TP (t_resume ex_defer_tapes) t_plan_of nat (t_dev ex_defer_ledger)
                            (fst (run TP (t_resume ex_defer_tapes) t_plan_of nat (t_dev ex_defer_ledger)
                               (fst (step TP (t_resume ex_defer_tapes) t_plan_of nat (t_dev ex_defer_ledger)
                                  (fst (run TP (t_resume ex_defer_tapes) t_plan_of nat (t_dev ex_defer_ledger)
                                     (init TP nat 0 ex_defer_paus ex_defer_stag ex_defer_rec) (firstn 5 ex_defer_evs)))
                                  (EvReqPause true))) [EvTask])) EvTask)) [])) EvTask)) [])) EvTask))
    by (vm_compute; reflexivity).
  cbv zeta. rewrite E. split; [exact T1|]. split; [exact T4|]. split; [|exact T9].
  rewrite (T8 (ACall 0) eq_refl). rewrite <- E. vm_compute. reflexivity.
Qed.

(* ex_c09a: open_run, checkpoint, clear_checkpoint, <deferred pause requested>, null, checkpoint, ...: no checkpoint is in
   effect when the checkpoint message arrives *)
Example defer_c09a_recorded :
  check ex_c09a_tapes ex_c09a_ledger ex_c09a_paus ex_c09a_stag ex_c09a_rec ex_c09a_evs ex_c09a_obs = true /\
  ex_c09a_evs = firstn 6 ex_c09a_evs ++ EvReqPause true :: [EvTask] ++ EvTask :: [] ++ EvTask :: [] ++ [EvTask] ++ skipn 11 ex_c09a_evs /\
  e2e_hyps ex_c09a_tapes ex_c09a_ledger ex_c09a_paus ex_c09a_stag ex_c09a_rec (firstn 6 ex_c09a_evs) [EvTask] [] [] /\
  cache TP nat (fst (irun ex_c09a_tapes ex_c09a_ledger ex_c09a_paus ex_c09a_stag ex_c09a_rec (firstn 8 ex_c09a_evs))) = None /\
  state TP nat (fst (irun ex_c09a_tapes ex_c09a_ledger ex_c09a_paus ex_c09a_stag ex_c09a_rec (firstn 11 ex_c09a_evs))) = Paused.
Proof.
  split; [vm_compute; reflexivity|]. split; [vm_compute; reflexivity|]. split; [|split; vm_compute; reflexivity].
  hyps_tac [OPlanIn 0 (Send VNone)] {| mid := Some 4; mcmd := CCheckpoint; mobj := None; mrun := 0 |} [OTask WFuture].
Qed.

(* ex_defer_late: the request arrives after the last checkpoint: the plan completes, the flag is reported as pending *)
Example defer_pending_recorded :
  let P := TP in let presume := t_resume ex_defer_late_tapes in let D := nat in let dev := t_dev ex_defer_late_ledger in
  let s_i := init P D 0 ex_defer_late_paus ex_defer_late_stag ex_defer_late_rec in
  let evs0 := firstn 6 ex_defer_late_evs in
  let evsA := [EvTask; EvTask; EvTask; EvTask] in
  let s0 := fst (run P presume t_plan_of D dev s_i evs0) in
  let sr := fst (step P presume t_plan_of D dev s0 (EvReqPause true)) in
  let sA := fst (run P presume t_plan_of D dev sr evsA) in
  check ex_defer_late_tapes ex_defer_late_ledger ex_defer_late_paus ex_defer_late_stag ex_defer_late_rec ex_defer_late_evs ex_defer_late_obs = true /\
  ex_defer_late_evs = evs0 ++ EvReqPause true :: evsA ++ [EvMainDone (ACall 0)] /\
  RE_ExitE2E.nobad P presume t_plan_of D dev s_i (evs0 ++ EvReqPause true :: evsA) /\
  allowed (state P D s0) Pausing = true /\ pc P D s0 <> PcCmd KCkptSleep /\
  forallb calm evsA = true /\ clean (snd (run P presume t_plan_of D dev sr evsA)) = true /\
  pc P D sA = PcDone (TReturn (VUid 0)) /\ forallb calm [EvMainDone (ACall 0)] = true /\
  snd (step P presume t_plan_of D dev sA (EvMainDone (ACall 0))) = [OOut (OutReturn [0]) Idle true true].
Proof.
  cbv zeta. split; [vm_compute; reflexivity|]. split; [vm_compute; reflexivity|].
  split; [apply nobad_b; vm_compute; reflexivity|]. split; [vm_compute; reflexivity|].
  split; [vm_compute; intros E; discriminate E|]. repeat (split; [vm_compute; reflexivity|]). vm_compute; reflexivity.
Qed.

(* ------------------------------------------------------------------ the hypotheses are needed *)
Definition has_paused (l : list obs) : bool := existsb (fun o => match o with OState _ Paused => true | _ => false end) l.
Definition has_msg (n : nat) (l : list obs) : bool :=
  existsb (fun o => match o with OMsg m => match mid m with Some k => Nat.eqb k n | None => false end | _ => false end) l.
Definition pausing_at (l : list obs) : option nat :=
  (fix go (i : nat) (l : list obs) := match l with [] => None | OState _ Pausing :: _ => Some i | _ :: l' => go (S i) l' end) 0 l.
Definition irun_d := irun ex_defer_tapes ex_defer_ledger ex_defer_paus ex_defer_stag ex_defer_rec.

(* the first 8 events of ex_defer end with the step that processes the second checkpoint (grace sleep begun) *)
Example defer_needs_calm_grace :
  pc TP nat (fst (irun_d (firstn 8 ex_defer_evs))) = PcCmd KCkptSleep /\
  (* abort / stop / halt / a suspension landing in the grace sleep: the engine does not pause *)
  has_paused (snd (irun_d (firstn 8 ex_defer_evs ++ [EvReqAbort RsEmpty; EvTask; EvTask; EvTask; EvTask]))) = false /\
  has_paused (snd (irun_d (firstn 8 ex_defer_evs ++ [EvReqStop; EvTask; EvTask; EvTask; EvTask]))) = false /\
  has_paused (snd (irun_d (firstn 8 ex_defer_evs ++ [EvReqHalt; EvTask; EvTask; EvTask; EvTask]))) = false /\
  has_paused (snd (irun_d (firstn 8 ex_defer_evs ++ [EvReqSuspend 0 false false; EvTask; EvTask; EvTask; EvTask]))) = false /\
  (* the unperturbed continuation pauses *)
  has_paused (snd (irun_d (firstn 8 ex_defer_evs ++ [EvTask; EvTask]))) = true.
Proof.
  split; [vm_compute; reflexivity|]. split; [vm_compute; reflexivity|]. split; [vm_compute; reflexivity|].
  split; [vm_compute; reflexivity|]. split; [vm_compute; reflexivity|]. vm_compute. reflexivity.
Qed.

(* a hard pause between the request and the checkpoint: the engine pauses before message 3, the next checkpoint, is
   executed; an abort there: it never pauses *)
Example defer_needs_calm_before :
  has_paused (snd (irun_d (firstn 6 ex_defer_evs ++ [EvReqPause false; EvTask; EvTask; EvTask; EvTask]))) = true /\
  has_msg 3 (snd (irun_d (firstn 6 ex_defer_evs ++ [EvReqPause false; EvTask; EvTask; EvTask; EvTask]))) = false /\
  has_paused (snd (irun_d (firstn 6 ex_defer_evs ++ [EvReqAbort RsEmpty; EvTask; EvTask; EvTask; EvTask]))) = false.
Proof. repeat (split; [vm_compute; reflexivity|]); vm_compute; reflexivity. Qed.

(* a (second) deferred request accepted during the grace sleep of an earlier checkpoint: the engine pauses at that
   earlier checkpoint -- no checkpoint message is processed after this request *)
Example defer_needs_not_in_grace :
  let evs0 := firstn 8 ex_defer_evs in
  allowed (state TP nat (fst (irun_d evs0))) Pausing = true /\ pc TP nat (fst (irun_d evs0)) = PcCmd KCkptSleep /\
  snd (step TP (t_resume ex_defer_tapes) t_plan_of nat (t_dev ex_defer_ledger) (fst (irun_d evs0)) (EvReqPause true)) = [OReq true] /\
  has_paused (snd (run TP (t_resume ex_defer_tapes) t_plan_of nat (t_dev ex_defer_ledger) (fst (irun_d evs0)) [EvReqPause true; EvTask; EvTask])) = true /\
  clean (snd (run TP (t_resume ex_defer_tapes) t_plan_of nat (t_dev ex_defer_ledger) (fst (irun_d evs0)) [EvReqPause true; EvTask; EvTask])) = true.
Proof. cbv zeta. repeat (split; [vm_compute; reflexivity|]); vm_compute; reflexivity. Qed.
