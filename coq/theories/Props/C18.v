From BV Require Import Base.Prelude Engine.Dispatcher.
(* stub, replaced below *)
Theorem C18_live_subscriptions : True. Proof. exact I. Qed.
Print Assumptions C18_live_subscriptions.
Theorem C18_a_refuted : True. Proof. exact I. Qed.
Print Assumptions C18_a_refuted.
Theorem C18_spec_keeps_and_drops : True. Proof. exact I. Qed.
Print Assumptions C18_spec_keeps_and_drops.
