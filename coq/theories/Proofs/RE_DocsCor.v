(* Consequences of monitor acceptance, in plain terms (C01, C05, C14, C40):
   run structure of an accepted trace (fresh uids, documents inside start..stop, at most one stop,
   exactly one when nothing is left open), exact counts outside the finding class, the
   'interruptions' stream never behind, no records when recording is off, and the frame lemmas
   of the bundler-addressed messages. *)
From Coq Require Import List String ZArith Bool Arith Lia.
From BV Require Import Engine.RE Engine.REInst Engine.DocMon Proofs.RE_Docs Proofs.RE_DocsMon.
Import ListNotations.
Local Open Scope nat_scope.

(* ================================================================== run structure *)
Definition run_of (d : doc) : nat :=
  match d with DStart u | DDescr u _ _ | DEvent u _ _ _ | DIntr u _ | DStop u _ _ _ => u end.
Definition is_start (d : doc) : bool := match d with DStart _ => true | _ => false end.
Definition is_stop (d : doc) : bool := match d with DStop _ _ _ _ => true | _ => false end.

Fixpoint remove_first (u : nat) (l : list nat) : list nat :=
  match l with [] => [] | x :: l' => if Nat.eqb u x then l' else x :: remove_first u l' end.

(* the open runs and the next fresh uid *)
Definition dstate := (list nat * nat)%type.
Definition dstep (s : dstate) (d : doc) : option dstate :=
  match d with
  | DStart u => if Nat.eqb u (snd s) then Some (fst s ++ [u], S (snd s)) else None
  | DStop u _ _ _ => if mem_nat u (fst s) then Some (remove_first u (fst s), snd s) else None
  | _ => if mem_nat (run_of d) (fst s) then Some s else None
  end.
Fixpoint druns (s : dstate) (l : list doc) : option dstate :=
  match l with
  | [] => Some s
  | d :: l' => match dstep s d with Some s' => druns s' l' | None => None end
  end.

Definition docs_of (l : list obs) : list doc := flat_map (fun o => match o with ODoc d => [d] | _ => [] end) l.

Lemma druns_app s l1 l2 : druns s (l1 ++ l2) = match druns s l1 with Some s1 => druns s1 l2 | None => None end.
Proof. revert s; induction l1 as [|d l1 IH]; intros s; cbn; [reflexivity|]. destruct (dstep s d); [apply IH | reflexivity]. Qed.

Lemma docs_of_app a b : docs_of (a ++ b) = docs_of a ++ docs_of b.
Proof. unfold docs_of. apply flat_map_app. Qed.

Definition W (s : dstate) : Prop := NoDup (fst s) /\ forall u, In u (fst s) -> u < snd s.

Lemma mem_nat_in u l : mem_nat u l = true <-> In u l.
Proof.
  unfold mem_nat. rewrite existsb_exists. split.
  - intros (x & Hx & E). apply Nat.eqb_eq in E; subst; exact Hx.
  - intros H. exists u; split; [exact H | apply Nat.eqb_refl].
Qed.

Lemma remove_first_in u x l : In x (remove_first u l) -> In x l.
Proof.
  induction l as [|y l IH]; cbn; [tauto|]. destruct (Nat.eqb u y); [tauto|]. cbn. intros [H|H]; [left; exact H | right; apply IH, H].
Qed.
Lemma remove_first_nodup u l : NoDup l -> NoDup (remove_first u l) /\ ~ In u (remove_first u l).
Proof.
  induction 1 as [|y l Hn Hd IH]; cbn; [split; [constructor | tauto]|].
  destruct (Nat.eqb u y) eqn:E.
  - apply Nat.eqb_eq in E; subst. split; assumption.
  - apply Nat.eqb_neq in E. destruct IH as [I1 I2]. split.
    + constructor; [|exact I1]. intros H. apply Hn. eapply remove_first_in; exact H.
    + cbn. intros [H|H]; [apply E; symmetry; exact H | exact (I2 H)].
Qed.

Lemma dstep_W s d s' : dstep s d = Some s' -> W s ->
  W s' /\ snd s <= snd s' /\ run_of d < snd s' /\
  (forall u, In u (fst s') -> In u (fst s) \/ (d = DStart u)) /\
  (forall u, In u (fst s) -> In u (fst s') \/ (is_stop d = true /\ run_of d = u)).
Proof.
  destruct s as [op nx]. intros H [Hn Hlt]. unfold W. cbn [fst snd] in *.
  destruct d as [u|u name objs|u name n data|u n|u xs rs num]; cbn [dstep fst snd run_of is_stop] in H |- *.
  - destruct (Nat.eqb u nx) eqn:E; [|discriminate]. apply Nat.eqb_eq in E; subst. inversion H; subst; clear H. cbn [fst snd].
    split; [split|].
    + apply NoDup_snoc; [exact Hn|]. intros Hin. apply Hlt in Hin. lia.
    + intros u Hu. apply in_app_or in Hu as [Hu|[<-|[]]]; [apply Hlt in Hu; lia | lia].
    + splits; try lia.
      * intros u Hu. apply in_app_or in Hu as [Hu|[<-|[]]]; [left; exact Hu | right; reflexivity].
      * intros u Hu. left. apply in_or_app; left; exact Hu.
  - destruct (mem_nat u op) eqn:E; [|discriminate]. inversion H; subst; clear H. apply mem_nat_in in E. cbn [fst snd].
    split; [split; assumption|]. splits; try lia; [apply Hlt, E | intros; left; assumption | intros; left; assumption].
  - destruct (mem_nat u op) eqn:E; [|discriminate]. inversion H; subst; clear H. apply mem_nat_in in E. cbn [fst snd].
    split; [split; assumption|]. splits; try lia; [apply Hlt, E | intros; left; assumption | intros; left; assumption].
  - destruct (mem_nat u op) eqn:E; [|discriminate]. inversion H; subst; clear H. apply mem_nat_in in E. cbn [fst snd].
    split; [split; assumption|]. splits; try lia; [apply Hlt, E | intros; left; assumption | intros; left; assumption].
  - destruct (mem_nat u op) eqn:E; [|discriminate]. inversion H; subst; clear H. apply mem_nat_in in E. cbn [fst snd].
    destruct (remove_first_nodup u op Hn) as [R1 R2].
    split; [split; [exact R1 | intros x Hx; apply Hlt; eapply remove_first_in; exact Hx]|].
    splits; try lia; [apply Hlt, E | intros x Hx; left; eapply remove_first_in; exact Hx|].
    intros x Hx. destruct (Nat.eq_dec x u) as [->|Hne]; [right; split; reflexivity|]. left.
    clear -Hx Hne. induction op as [|y op IH]; cbn in *; [tauto|]. destruct (Nat.eqb u y) eqn:E.
    + apply Nat.eqb_eq in E; subst. destruct Hx as [Hx|Hx]; [congruence | exact Hx].
    + destruct Hx as [Hx|Hx]; [left; exact Hx | right; apply IH, Hx].
Qed.

(* a stopped run is not open afterwards *)
Lemma dstep_stop_closed s d s' : dstep s d = Some s' -> W s -> is_stop d = true -> ~ In (run_of d) (fst s').
Proof.
  destruct s as [op nx]. intros H [Hn _] Hs. destruct d as [x|x ? ?|x ? ? ?|x ?|x ? ? ?]; try discriminate Hs.
  cbn [dstep fst snd run_of] in *. destruct (mem_nat x op) eqn:E; [|discriminate H].
  inversion H; subst. cbn [fst]. apply remove_first_nodup, Hn.
Qed.

Lemma druns_W : forall l s s', druns s l = Some s' -> W s ->
  W s' /\ snd s <= snd s' /\ (forall d, In d l -> run_of d < snd s').
Proof.
  induction l as [|d l IH]; intros s s' H Hw; cbn in H.
  - inversion H; subst. splits; try assumption; try lia. intros d [].
  - destruct (dstep s d) as [s1|] eqn:E; [|discriminate].
    destruct (dstep_W _ _ _ E Hw) as (W1 & L1 & R1 & _). destruct (IH _ _ H W1) as (W2 & L2 & R2).
    splits; try assumption; try lia. intros d' [<-|Hd]; [lia | apply R2, Hd].
Qed.

(* a run that is not open and whose uid is already used never comes back *)
Lemma druns_dead : forall l s s' u, druns s l = Some s' -> W s -> u < snd s -> ~ In u (fst s) ->
  forall d, In d l -> run_of d <> u.
Proof.
  induction l as [|d l IH]; intros s s' u H Hw Hu Hn d' Hd; cbn in H; [destruct Hd|].
  destruct (dstep s d) as [s1|] eqn:E; [|discriminate].
  destruct (dstep_W _ _ _ E Hw) as (W1 & L1 & R1 & In1 & _).
  assert (Hd0 : run_of d <> u).
  { destruct s as [op nx]. destruct d as [x|x ? ?|x ? ? ?|x ?|x ? ? ?]; cbn [dstep fst snd run_of] in E |- *.
    - destruct (Nat.eqb x nx) eqn:Ex; [|discriminate]. apply Nat.eqb_eq in Ex. cbn in Hu. lia.
    - destruct (mem_nat x op) eqn:Ex; [|discriminate]. apply mem_nat_in in Ex. intros ->. exact (Hn Ex).
    - destruct (mem_nat x op) eqn:Ex; [|discriminate]. apply mem_nat_in in Ex. intros ->. exact (Hn Ex).
    - destruct (mem_nat x op) eqn:Ex; [|discriminate]. apply mem_nat_in in Ex. intros ->. exact (Hn Ex).
    - destruct (mem_nat x op) eqn:Ex; [|discriminate]. apply mem_nat_in in Ex. intros ->. exact (Hn Ex). }
  destruct Hd as [<-|Hd]; [exact Hd0|].
  eapply (IH s1 s' u H W1); [lia | | exact Hd].
  intros Hin. apply In1 in Hin as [Hin|Hin]; [exact (Hn Hin)|]. subst d. cbn in Hd0. congruence.
Qed.

Definition dinit : dstate := ([], 0).
Lemma W_init : W dinit. Proof. split; [constructor | intros u []]. Qed.

(* run structure of a trace accepted from the empty state *)
Theorem structure_before_start l1 u l2 s' :
  druns dinit (l1 ++ DStart u :: l2) = Some s' ->
  (forall d, In d l1 -> run_of d <> u) /\ (forall d, In d l2 -> is_start d = true -> run_of d <> u).
Proof.
  rewrite druns_app. destruct (druns dinit l1) as [s1|] eqn:E1; [|discriminate]. cbn [druns].
  destruct (dstep s1 (DStart u)) as [s2|] eqn:E2; [|discriminate]. intros H.
  destruct (druns_W _ _ _ E1 W_init) as (W1 & _ & R1).
  cbn in E2. destruct (Nat.eqb u (snd s1)) eqn:Eu; [|discriminate]. apply Nat.eqb_eq in Eu. inversion E2; subst s2; clear E2.
  split.
  - intros d Hd. specialize (R1 d Hd). lia.
  - intros d Hd Hs. apply in_split in Hd as (la & lb & ->). rewrite druns_app in H.
    destruct (druns (fst s1 ++ [u], S (snd s1)) la) as [s3|] eqn:E3; [|discriminate]. cbn [druns] in H.
    destruct d; try discriminate. cbn in H |- *. destruct (Nat.eqb run (snd s3)) eqn:Er; [|discriminate].
    apply Nat.eqb_eq in Er. assert (W2 : W (fst s1 ++ [u], S (snd s1))).
    { destruct W1 as [N1 L1]. split; cbn.
      - apply NoDup_snoc; [exact N1|]. intros Hin. apply L1 in Hin. lia.
      - intros x Hx. apply in_app_or in Hx as [Hx|[<-|[]]]; [apply L1 in Hx; lia | lia]. }
    destruct (druns_W _ _ _ E3 W2) as (_ & L3 & _). cbn in L3. lia.
Qed.

Theorem structure_after_stop l1 u xs rs num l2 s' :
  druns dinit (l1 ++ DStop u xs rs num :: l2) = Some s' -> forall d, In d l2 -> run_of d <> u.
Proof.
  rewrite druns_app. destruct (druns dinit l1) as [s1|] eqn:E1; [|discriminate]. cbn [druns].
  destruct (dstep s1 (DStop u xs rs num)) as [s2|] eqn:E2; [|discriminate]. intros H.
  destruct (druns_W _ _ _ E1 W_init) as (W1 & _ & _).
  destruct (dstep_W _ _ _ E2 W1) as (W2 & L2 & R2 & _).
  pose proof (dstep_stop_closed _ _ _ E2 W1 eq_refl) as Hc. cbn in Hc, R2.
  eapply druns_dead; [exact H | exact W2 | exact R2 | exact Hc].
Qed.

(* every started run that is not open at the end has been stopped *)
Lemma druns_started_stopped : forall l s s' u, druns s l = Some s' -> W s ->
  (In u (fst s) \/ In (DStart u) l) -> In u (fst s') \/ exists xs rs num, In (DStop u xs rs num) l.
Proof.
  induction l as [|d l IH]; intros s s' u H Hw Hu; cbn in H.
  - inversion H; subst. destruct Hu as [Hu|[]]. left; exact Hu.
  - destruct (dstep s d) as [s1|] eqn:E; [|discriminate].
    destruct (dstep_W _ _ _ E Hw) as (W1 & _ & _ & _ & Keep).
    assert (Hmid : In u (fst s1) \/ (is_stop d = true /\ run_of d = u) \/ In (DStart u) l).
    { destruct Hu as [Hu|[Hu|Hu]].
      - apply Keep in Hu as [Hu|Hu]; [left; exact Hu | right; left; exact Hu].
      - subst d. left. destruct s as [op nx]; cbn in E. destruct (Nat.eqb u nx); [|discriminate]. inversion E; subst. cbn.
        apply in_or_app; right; left; reflexivity.
      - right; right; exact Hu. }
    destruct Hmid as [Hm|[[Hs Hr]|Hm]].
    + destruct (IH _ _ u H W1 (or_introl Hm)) as [R|(xs & rs & num & R)]; [left; exact R | right; exists xs, rs, num; right; exact R].
    + right. destruct d; try discriminate. cbn in Hr; subst. exists st, rs, num. left; reflexivity.
    + destruct (IH _ _ u H W1 (or_intror Hm)) as [R|(xs & rs & num & R)]; [left; exact R | right; exists xs, rs, num; right; exact R].
Qed.

(* ================================================================== the monitor refines the run structure *)
Definition view (m : mon) : dstate := (map r_uid (m_open m), m_next m).

Lemma on_run_uids u f l l' :
  (forall r r', f r = Some r' -> r_uid r' = r_uid r) -> on_run u f l = Some l' ->
  mem_nat u (map r_uid l) = true /\ map r_uid l' = map r_uid l.
Proof.
  intros Hf. revert l'. induction l as [|r l IH]; intros l' H; cbn in H; [discriminate|].
  unfold mem_nat in *. cbn [map existsb]. destruct (Nat.eqb u (r_uid r)) eqn:E.
  - destruct (f r) as [r'|] eqn:Er; [|discriminate]. inversion H; subst. cbn. rewrite (Hf _ _ Er). split; reflexivity.
  - destruct (on_run u f l) as [l0|] eqn:El; [|discriminate]. inversion H; subst.
    destruct (IH _ eq_refl) as [I1 I2]. cbn. rewrite I1, I2. split; reflexivity.
Qed.

Lemma take_run_uids u l r rest :
  take_run u l = Some (r, rest) -> mem_nat u (map r_uid l) = true /\ map r_uid rest = remove_first u (map r_uid l).
Proof.
  revert r rest. induction l as [|x l IH]; intros r rest H; cbn in H; [discriminate|].
  unfold mem_nat in *. cbn [map existsb remove_first]. destruct (Nat.eqb u (r_uid x)) eqn:E.
  - inversion H; subst. split; reflexivity.
  - destruct (take_run u l) as [[y rest0]|] eqn:El; [|discriminate]. inversion H; subst.
    destruct (IH _ _ eq_refl) as [I1 I2]. cbn. rewrite I1, I2. split; reflexivity.
Qed.

Lemma r_event_uid name n r r' : r_event name n r = Some r' -> r_uid r' = r_uid r.
Proof. unfold r_event. destruct (s_event (sget r name) n); intros H; inversion H; reflexivity. Qed.

Lemma doc_effect_sim rec m d m' : doc_effect rec m d = Some m' -> dstep (view m) d = Some (view m').
Proof.
  unfold view. destruct d as [u|u name objs|u name n data|u n|u xs rs num]; cbn [doc_effect dstep fst snd run_of].
  - destruct (Nat.eqb u (m_next m)) eqn:Eu; [|discriminate]. apply Nat.eqb_eq in Eu. intros H; inversion H; subst; cbn. rewrite map_app. reflexivity.
  - destruct (on_run u _ (m_open m)) as [l'|] eqn:E; [|discriminate]. intros H; inversion H; subst; cbn.
    apply on_run_uids in E as [E1 E2]; [rewrite E1, E2; reflexivity|].
    intros r r' Hr. destruct (mem_nat name (r_descs r)); inversion Hr; reflexivity.
  - destruct (on_run u _ (m_open m)) as [l'|] eqn:E; [|discriminate]. intros H; inversion H; subst; cbn.
    apply on_run_uids in E as [E1 E2]; [rewrite E1, E2; reflexivity|].
    intros r r' Hr. destruct (mem_nat name (r_descs r)); [eapply r_event_uid; exact Hr | discriminate].
  - destruct (on_run u _ (m_open m)) as [l'|] eqn:E; [|discriminate]. intros H; inversion H; subst; cbn.
    apply on_run_uids in E as [E1 E2]; [rewrite E1, E2; reflexivity|].
    intros r r' Hr. destruct (r_intr r); [eapply r_event_uid; exact Hr | discriminate].
  - destruct (take_run u (m_open m)) as [[r rest]|] eqn:E; [|discriminate].
    destruct (r_stop_ok r num); [|discriminate]. intros H; inversion H; subst; cbn.
    apply take_run_uids in E as [E1 E2]. rewrite E1, E2. reflexivity.
Qed.

Lemma view_weaken m : view (weaken m) = view m.
Proof. unfold view, weaken; cbn. rewrite map_map. reflexivity. Qed.
Lemma view_set_expect m q : view (m_set_expect m q) = view m.
Proof. reflexivity. Qed.

Lemma mon_obs_sim rec m o m' : mon_obs rec m o = Some m' -> druns (view m) (docs_of [o]) = Some (view m').
Proof.
  unfold mon_obs. destruct (m_expect m) as [|d q] eqn:Ee.
  - destruct o as [mm|r|a b|d|dv mt|pid i|ot s df rs|w|ok|n]; try (intros H; inversion H; subst; reflexivity).
    + destruct (is_susp_msg mm); intros H; inversion H; subst; cbn; [rewrite view_set_expect, view_weaken|]; reflexivity.
    + destruct (rstate_eqb a (m_st m) && _); intros H; inversion H; subst; reflexivity.
    + cbn [docs_of flat_map app druns].
      assert (Hgen : doc_effect rec m d = Some m' -> match dstep (view m) d with Some s' => Some s' | None => None end = Some (view m')).
      { intros H. rewrite (doc_effect_sim _ _ _ _ H). reflexivity. }
      destruct d as [u|u name objs|u name n data|u n|u xs rs num]; try exact Hgen; try discriminate.
      destruct name as [|[|name]]; try exact Hgen. destruct objs; [discriminate | exact Hgen].
  - destruct o as [mm|r|a b|d'|dv mt|pid i|ot s df rs|w|ok|n]; try discriminate.
    destruct (doc_eq_dec d' d) as [->|]; [|discriminate]. cbn [docs_of flat_map app druns].
    destruct d as [u|u name objs|u name n data|u n|u xs rs num]; try discriminate.
    + destruct (on_run u _ (m_open m)) as [l'|] eqn:E; [|discriminate]. intros H; inversion H; subst.
      apply on_run_uids in E as [E1 E2]; [|intros r r' Hr; inversion Hr; reflexivity].
      unfold view; cbn [dstep fst snd run_of m_open m_next m_set_open m_set_expect]. rewrite E1, E2. reflexivity.
    + intros H. apply doc_effect_sim in H. rewrite view_set_expect in H. rewrite H. reflexivity.
Qed.

Lemma mon_run_sim rec : forall l m m', mon_run rec m l = Some m' -> druns (view m) (docs_of l) = Some (view m').
Proof.
  induction l as [|o l IH]; intros m m' H; cbn in H; [inversion H; reflexivity|].
  destruct (mon_obs rec m o) as [m1|] eqn:E; [|discriminate].
  change (o :: l) with ([o] ++ l). rewrite docs_of_app, druns_app, (mon_obs_sim _ _ _ _ E). apply IH, H.
Qed.

Lemma mon_steps_sim rec : forall l m m', mon_steps rec m l = Some m' ->
  druns (view m) (docs_of (flat_map snd l)) = Some (view m').
Proof.
  induction l as [|[e o] l IH]; intros m m' H; cbn in H; [inversion H; reflexivity|].
  destruct (mon_step rec m (e, o)) as [m1|] eqn:E; [|discriminate].
  cbn [flat_map snd]. rewrite docs_of_app, druns_app.
  unfold mon_step in E. cbn [fst snd] in E.
  match type of E with context [mon_run rec ?m0 o] => destruct (mon_run rec m0 o) as [m2|] eqn:E2; [|discriminate];
    assert (Hv : view m0 = view m) end.
  { destruct e as [a|a| | | | | | | | | | |]; try reflexivity. destruct a; try reflexivity.
    destruct (rstate_eqb (m_st m) Paused); [rewrite view_set_expect, view_weaken|]; reflexivity. }
  destruct (m_expect m2); [|discriminate]. inversion E; subst.
  apply mon_run_sim in E2. rewrite Hv in E2. rewrite E2. apply IH, H.
Qed.

(* ================================================================== invariants of accepted traces *)
Lemma on_run_forall (Q : rrec -> Prop) u f l l' :
  Forall Q l -> (forall r r', Q r -> f r = Some r' -> Q r') -> on_run u f l = Some l' -> Forall Q l'.
Proof.
  intros HQ Hf. revert l'. induction HQ as [|r l Hr HQ IH]; intros l' H; cbn in H; [discriminate|].
  destruct (Nat.eqb u (r_uid r)).
  - destruct (f r) as [r'|] eqn:Er; [|discriminate]. inversion H; subst. constructor; [eapply Hf; eassumption | exact HQ].
  - destruct (on_run u f l) as [l0|]; [|discriminate]. inversion H; subst. constructor; [exact Hr | apply IH; reflexivity].
Qed.

Lemma take_run_forall (Q : rrec -> Prop) u l r rest :
  Forall Q l -> take_run u l = Some (r, rest) -> Q r /\ Forall Q rest.
Proof.
  intros HQ. revert r rest. induction HQ as [|x l Hx HQ IH]; intros r rest H; cbn in H; [discriminate|].
  destruct (Nat.eqb u (r_uid x)).
  - inversion H; subst. split; assumption.
  - destruct (take_run u l) as [[y rest0]|]; [|discriminate]. inversion H; subst.
    destruct (IH _ _ eq_refl) as [I1 I2]. split; [exact I1 | constructor; assumption].
Qed.

(* a run-local predicate kept by every operation the monitor performs on a run record *)
Record run_inv (Q : rrec -> Prop) : Prop := {
  ri_new : forall u, Q (r_new u);
  ri_desc : forall r name, Q r -> Q (r_add_desc r name);
  ri_event : forall r name n r', Q r -> r_event name n r = Some r' -> Q r';
  ri_weaken : forall r, Q r -> Q (rw r) }.

Lemma doc_effect_open Q rec m d m' :
  run_inv Q -> Forall Q (m_open m) -> doc_effect rec m d = Some m' -> Forall Q (m_open m').
Proof.
  intros RI HQ. destruct d as [u|u name objs|u name n data|u n|u xs rs num]; cbn [doc_effect].
  - destruct (Nat.eqb u (m_next m)); [|discriminate]. intros H; inversion H; subst; cbn.
    apply Forall_app; split; [exact HQ | constructor; [apply (ri_new _ RI) | constructor]].
  - destruct (on_run u _ (m_open m)) as [l'|] eqn:E; [|discriminate]. intros H; inversion H; subst; cbn.
    eapply on_run_forall; [exact HQ | | exact E]. intros r r' Hr Hf. cbn beta in Hf.
    destruct (mem_nat name (r_descs r)); inversion Hf; subst. apply (ri_desc _ RI), Hr.
  - destruct (on_run u _ (m_open m)) as [l'|] eqn:E; [|discriminate]. intros H; inversion H; subst; cbn.
    eapply on_run_forall; [exact HQ | | exact E]. intros r r' Hr Hf. cbn beta in Hf.
    destruct (mem_nat name (r_descs r)); [|discriminate]. eapply (ri_event _ RI); eassumption.
  - destruct (on_run u _ (m_open m)) as [l'|] eqn:E; [|discriminate]. intros H; inversion H; subst; cbn.
    eapply on_run_forall; [exact HQ | | exact E]. intros r r' Hr Hf. cbn beta in Hf.
    destruct (r_intr r); [|discriminate]. eapply (ri_event _ RI); eassumption.
  - destruct (take_run u (m_open m)) as [[r rest]|] eqn:E; [|discriminate].
    destruct (r_stop_ok r num); [|discriminate]. intros H; inversion H; subst; cbn.
    eapply take_run_forall; eassumption.
Qed.

Lemma weaken_open Q m : run_inv Q -> Forall Q (m_open m) -> Forall Q (m_open (weaken m)).
Proof.
  intros RI HQ. unfold weaken; cbn. rewrite Forall_map. eapply Forall_impl; [|exact HQ]. intros r Hr. apply (ri_weaken _ RI), Hr.
Qed.

Lemma mon_obs_open Q rec m o m' :
  run_inv Q -> (forall r, Q r -> Q (r_set_intr r)) -> Forall Q (m_open m) -> mon_obs rec m o = Some m' -> Forall Q (m_open m').
Proof.
  intros RI Hintr HQ. unfold mon_obs. destruct (m_expect m) as [|d q] eqn:Ee.
  - destruct o as [mm|r|a b|d|dv mt|pid i|ot s df rs|w|ok|n]; try (intros H; inversion H; subst; exact HQ).
    + destruct (is_susp_msg mm); intros H; inversion H; subst; [|exact HQ]. apply (weaken_open Q m RI HQ).
    + destruct (rstate_eqb a (m_st m) && _); intros H; inversion H; subst; exact HQ.
    + assert (Hgen : doc_effect rec m d = Some m' -> Forall Q (m_open m')) by (apply doc_effect_open; assumption).
      destruct d as [u|u name objs|u name n data|u n|u xs rs num]; try exact Hgen; try discriminate.
      destruct name as [|[|name]]; try exact Hgen. destruct objs; [discriminate | exact Hgen].
  - destruct o as [mm|r|a b|d'|dv mt|pid i|ot s df rs|w|ok|n]; try discriminate.
    destruct (doc_eq_dec d' d) as [->|]; [|discriminate].
    destruct d as [u|u name objs|u name n data|u n|u xs rs num]; try discriminate.
    + destruct (on_run u _ (m_open m)) as [l'|] eqn:E; [|discriminate]. intros H; inversion H; subst; cbn.
      eapply on_run_forall; [exact HQ | | exact E]. intros r r' Hr Hf. cbn beta in Hf. inversion Hf; subst.
      apply Hintr, Hr.
    + intros H. eapply (doc_effect_open Q rec (m_set_expect m q)); [exact RI | exact HQ | exact H].
Qed.

Lemma mon_run_open Q rec : forall l m m',
  run_inv Q -> (forall r, Q r -> Q (r_set_intr r)) -> Forall Q (m_open m) -> mon_run rec m l = Some m' -> Forall Q (m_open m').
Proof.
  induction l as [|o l IH]; intros m m' RI Hi HQ H; cbn in H; [inversion H; subst; exact HQ|].
  destruct (mon_obs rec m o) as [m1|] eqn:E; [|discriminate].
  eapply IH; [exact RI | exact Hi | eapply mon_obs_open; eassumption | exact H].
Qed.

Lemma mon_steps_open Q rec : forall l m m',
  run_inv Q -> (forall r, Q r -> Q (r_set_intr r)) -> Forall Q (m_open m) -> mon_steps rec m l = Some m' -> Forall Q (m_open m').
Proof.
  induction l as [|[e o] l IH]; intros m m' RI Hi HQ H; cbn in H; [inversion H; subst; exact HQ|].
  destruct (mon_step rec m (e, o)) as [m1|] eqn:E; [|discriminate].
  eapply (IH m1); [exact RI | exact Hi | | exact H].
  unfold mon_step in E. cbn [fst snd] in E.
  match type of E with context [mon_run rec ?m0 o] => destruct (mon_run rec m0 o) as [m2|] eqn:E2; [|discriminate];
    assert (Hv : Forall Q (m_open m0)) end.
  { destruct e as [a|a| | | | | | | | | | |]; try exact HQ. destruct a; try exact HQ.
    destruct (rstate_eqb (m_st m) Paused); [|exact HQ]. apply (weaken_open Q m RI HQ). }
  destruct (m_expect m2); [|discriminate]. inversion E; subst. eapply mon_run_open; eassumption.
Qed.

(* the 'interruptions' stream of every open run is exact and never behind *)
Definition intr_exact (r : rrec) : Prop :=
  s_ex (sget r INTR) = true /\ s_c (sget r INTR) = s_top (sget r INTR).

Lemma intr_exact_inv : run_inv intr_exact.
Proof.
  constructor.
  - intros u. split; reflexivity.
  - intros r name H. exact H.
  - intros r name n r' [H1 H2] He. unfold r_event in He. destruct (s_event (sget r name) n) as [x|] eqn:Ex; [|discriminate].
    inversion He; subst. unfold intr_exact. rewrite sget_set. destruct (Nat.eqb INTR name) eqn:E; [|split; assumption].
    apply Nat.eqb_eq in E; subst name. unfold s_event in Ex. rewrite H1 in Ex.
    destruct (Nat.eqb n (s_c (sget r INTR))) eqn:En; [|discriminate]. apply Nat.eqb_eq in En. inversion Ex; subst; cbn.
    split; [reflexivity|]. rewrite <- H2. lia.
  - intros r [H1 H2]. unfold intr_exact. change (sget (rw r) INTR) with (sget (rw r) INTR). rewrite sget_rw_intr. split; assumption.
Qed.

(* counts are exact outside the finding class: a miscounted RunStop is a RunStop behind a rewind *)
Lemma stop_bad_behind r num : r_stop_ok r num = true -> r_miscount r num = true -> r_behind r num = true.
Proof.
  unfold r_stop_ok, r_miscount, r_behind. intros Hok Hbad. apply andb_true_iff in Hok as [Hok _].
  apply existsb_exists in Hbad as (kv & Hin & Hkv). apply existsb_exists. exists kv; split; [exact Hin|].
  rewrite forallb_forall in Hok. specialize (Hok kv Hin). unfold s_stop_ok in Hok. apply andb_true_iff in Hok as [H1 H2].
  unfold s_behind. apply negb_true_iff in Hkv. apply Nat.eqb_neq in Hkv. apply negb_true_iff.
  destruct (s_ex (sget r (fst kv))); [|reflexivity]. apply Nat.eqb_eq in H2. cbn.
  apply Nat.eqb_neq. congruence.
Qed.

Definition flags_ok (m : mon) : Prop := m_bad m = true -> m_flag m = true.

Lemma doc_effect_flags rec m d m' : doc_effect rec m d = Some m' -> flags_ok m -> flags_ok m'.
Proof.
  unfold flags_ok. destruct d as [u|u name objs|u name n data|u n|u xs rs num]; cbn [doc_effect].
  - destruct (Nat.eqb u (m_next m)); [|discriminate]. intros H; inversion H; subst; cbn; auto.
  - destruct (on_run u _ (m_open m)); [|discriminate]. intros H; inversion H; subst; cbn; auto.
  - destruct (on_run u _ (m_open m)); [|discriminate]. intros H; inversion H; subst; cbn; auto.
  - destruct (on_run u _ (m_open m)); [|discriminate]. intros H; inversion H; subst; cbn; auto.
  - destruct (take_run u (m_open m)) as [[r rest]|]; [|discriminate].
    destruct (r_stop_ok r num) eqn:Eok; [|discriminate]. intros H; inversion H; subst; cbn. intros Hf Hb.
    apply orb_true_iff in Hb as [Hb|Hb]; apply orb_true_iff; [left; auto | right; apply stop_bad_behind; assumption].
Qed.

Lemma mon_obs_flags rec m o m' : mon_obs rec m o = Some m' -> flags_ok m -> flags_ok m'.
Proof.
  unfold mon_obs. destruct (m_expect m) as [|d q] eqn:Ee.
  - destruct o as [mm|r|a b|d|dv mt|pid i|ot s df rs|w|ok|n]; try solve [intros H; inversion H; subst; auto].
    + destruct (is_susp_msg mm); intros H; inversion H; subst; auto.
    + destruct (rstate_eqb a (m_st m) && _); intros H; inversion H; subst; auto.
    + assert (Hgen : doc_effect rec m d = Some m' -> flags_ok m -> flags_ok m') by apply doc_effect_flags.
      destruct d as [u|u name objs|u name n data|u n|u xs rs num]; try exact Hgen; try discriminate.
      destruct name as [|[|name]]; try exact Hgen. destruct objs; [discriminate | exact Hgen].
  - destruct o as [mm|r|a b|d'|dv mt|pid i|ot s df rs|w|ok|n]; try discriminate.
    destruct (doc_eq_dec d' d) as [->|]; [|discriminate].
    destruct d as [u|u name objs|u name n data|u n|u xs rs num]; try discriminate.
    + destruct (on_run u _ (m_open m)); [|discriminate]. intros H; inversion H; subst; auto.
    + intros H. exact (doc_effect_flags rec (m_set_expect m q) _ _ H).
Qed.

Lemma mon_run_flags rec : forall o m0 m1, mon_run rec m0 o = Some m1 -> flags_ok m0 -> flags_ok m1.
Proof.
  induction o as [|x o IH]; intros m0 m1 E2 Hv; cbn in E2; [inversion E2; subst; exact Hv|].
  destruct (mon_obs rec m0 x) as [m3|] eqn:E3; [|discriminate]. eapply IH; [exact E2 | eapply mon_obs_flags; eassumption].
Qed.

Lemma mon_steps_flags rec : forall l m m', mon_steps rec m l = Some m' -> flags_ok m -> flags_ok m'.
Proof.
  induction l as [|[e o] l IH]; intros m m' H Hf; cbn in H; [inversion H; subst; exact Hf|].
  destruct (mon_step rec m (e, o)) as [m1|] eqn:E; [|discriminate]. eapply (IH m1); [exact H|].
  unfold mon_step in E. cbn [fst snd] in E.
  match type of E with context [mon_run rec ?m0 o] => destruct (mon_run rec m0 o) as [m2|] eqn:E2; [|discriminate];
    assert (Hv : flags_ok m0) end.
  { destruct e as [a|a| | | | | | | | | | |]; try exact Hf. destruct a; try exact Hf.
    destruct (rstate_eqb (m_st m) Paused); exact Hf. }
  destruct (m_expect m2); [|discriminate]. inversion E; subst. eapply mon_run_flags; eassumption.
Qed.

(* ------------------------------------------------------------------ recording disabled: no records at all *)
Definition no_record (o : obs) : Prop :=
  match o with ODoc (DIntr _ _) => False | ODoc (DDescr _ name []) => name <> INTR | _ => True end.
Definition norec (m : mon) : Prop := m_expect m = [] /\ Forall (fun r => r_intr r = false) (m_open m).

Lemma norec_inv : run_inv (fun r => r_intr r = false).
Proof.
  constructor.
  - intros u. reflexivity.
  - intros r name H. exact H.
  - intros r name n r' H He. apply r_event_shape in He as (x & ->). exact H.
  - intros r H. exact H.
Qed.

Lemma intr_expect_norec m : Forall (fun r => r_intr r = false) (m_open m) -> intr_expect m = [].
Proof.
  unfold intr_expect. induction 1 as [|r l Hr HF IH]; [reflexivity|]. cbn. rewrite Hr, IH. reflexivity.
Qed.

Lemma norec_obs m o m' : mon_obs false m o = Some m' -> norec m -> norec m' /\ no_record o.
Proof.
  intros H [He HQ]. unfold mon_obs in H. rewrite He in H.
  destruct o as [mm|r|a b|d|dv mt|pid i|ot s df rs|w|ok|n]; try (inversion H; subst; split; [split; assumption | exact I]).
  - destruct (is_susp_msg mm); inversion H; subst; [|split; [split; assumption | exact I]].
    split; [|exact I]. split; [cbn; apply intr_expect_norec, HQ | apply (weaken_open _ m norec_inv HQ)].
  - destruct (rstate_eqb a (m_st m) && _); inversion H; subst. split; [|exact I]. split; [|exact HQ].
    cbn. destruct (rstate_eqb b Pausing); [apply intr_expect_norec, HQ | reflexivity].
  - assert (Hgen : doc_effect false m d = Some m' -> norec m').
    { intros Hd. split; [|eapply doc_effect_open; [exact norec_inv | exact HQ | exact Hd]].
      destruct d as [u|u name objs|u name n data|u n|u xs rs num]; cbn [doc_effect] in Hd.
      - destruct (Nat.eqb u (m_next m)); inversion Hd; reflexivity.
      - destruct (on_run u _ (m_open m)); inversion Hd; exact He.
      - destruct (on_run u _ (m_open m)); inversion Hd; exact He.
      - destruct (on_run u _ (m_open m)); inversion Hd; exact He.
      - destruct (take_run u (m_open m)) as [[r rest]|]; [|discriminate]. destruct (r_stop_ok r num); inversion Hd; exact He. }
    destruct d as [u|u name objs|u name n data|u n|u xs rs num]; try (split; [exact (Hgen H) | exact I]); try discriminate.
    destruct name as [|[|name]]; try (split; [exact (Hgen H) | destruct objs; cbn; try exact I; unfold INTR; lia]).
    destruct objs; [discriminate | split; [exact (Hgen H) | exact I]].
Qed.

Lemma norec_run : forall l m m', mon_run false m l = Some m' -> norec m -> norec m' /\ Forall no_record l.
Proof.
  induction l as [|o l IH]; intros m m' H Hn; cbn in H; [inversion H; subst; split; [exact Hn | constructor]|].
  destruct (mon_obs false m o) as [m1|] eqn:E; [|discriminate].
  destruct (norec_obs _ _ _ E Hn) as [N1 R1]. destruct (IH _ _ H N1) as [N2 R2]. split; [exact N2 | constructor; assumption].
Qed.

Lemma norec_steps : forall l m m', mon_steps false m l = Some m' -> norec m -> norec m' /\ Forall no_record (flat_map snd l).
Proof.
  induction l as [|[e o] l IH]; intros m m' H Hn; cbn in H; [inversion H; subst; split; [exact Hn | constructor]|].
  destruct (mon_step false m (e, o)) as [m1|] eqn:E; [|discriminate].
  unfold mon_step in E. cbn [fst snd] in E.
  match type of E with context [mon_run false ?m0 o] => destruct (mon_run false m0 o) as [m2|] eqn:E2; [|discriminate];
    assert (Hv : norec m0) end.
  { destruct Hn as [He HQ]. destruct e as [a|a| | | | | | | | | | |]; try (split; assumption). destruct a; try (split; assumption).
    destruct (rstate_eqb (m_st m) Paused); [|split; assumption].
    split; [cbn; apply intr_expect_norec, HQ | apply (weaken_open _ m norec_inv HQ)]. }
  destruct (m_expect m2); [|discriminate]. inversion E; subst.
  destruct (norec_run _ _ _ E2 Hv) as [N1 R1]. destruct (IH _ _ H N1) as [N2 R2].
  split; [exact N2|]. cbn [flat_map snd]. apply Forall_app; split; assumption.
Qed.

(* ================================================================== frame lemmas (C14) *)
Lemma alookup_map_b {X Y} (f : X -> Y) k (l : list (nat * X)) :
  alookup k (map (fun kb => (fst kb, f (snd kb))) l) = option_map f (alookup k l).
Proof. induction l as [|[k0 v] l IH]; cbn; [reflexivity|]. destruct (Nat.eqb k k0); [reflexivity | exact IH]. Qed.

Lemma alookup_aremove_other {X} k k' (l : list (nat * X)) : k <> k' -> alookup k (aremove k' l) = alookup k l.
Proof.
  intros Hne. induction l as [|[k0 v] l IH]; cbn; [reflexivity|]. destruct (Nat.eqb k' k0) eqn:E; cbn.
  - apply Nat.eqb_eq in E; subst. destruct (Nat.eqb k k0) eqn:E2; [apply Nat.eqb_eq in E2; congruence | reflexivity].
  - destruct (Nat.eqb k k0); [reflexivity | exact IH].
Qed.

Lemma alookup_aset_other {X} k k' (v : X) l : k <> k' -> alookup k (aset k' v l) = alookup k l.
Proof. intros H. rewrite alookup_aset. apply Nat.eqb_neq in H. rewrite H. reflexivity. Qed.

Lemma keys_aset_present {X} k (v b : X) l : alookup k l = Some b -> map fst (aset k v l) = map fst l.
Proof. intros H. rewrite keys_aset. unfold amem. rewrite H. reflexivity. Qed.

Definition bundler_msg (c : cmd) : bool :=
  match c with CCreate _ | CRead | CSave | CDrop => true | _ => false end.

Section Frames.
Variable P : Type.
Variable presume : P -> input -> outcome P.
Variable plan_of : nat -> P.
Variable D : Type.
Variable dev : D -> nat -> devmeth -> D * devres.
Notation st := (RE.st P D).

(* what a message addressed to run key [k] may change: only the bundler under [k] *)
Definition only_key (k : nat) (s s' : st) : Prop :=
  (forall k', k' <> k -> alookup k' (bundlers P D s') = alookup k' (bundlers P D s)) /\
  map fst (bundlers P D s') = map fst (bundlers P D s) /\
  uid_supply P D s' = uid_supply P D s /\ run_uids P D s' = run_uids P D s.

Lemma only_key_refl k s : only_key k s s.
Proof. unfold only_key; repeat split; reflexivity. Qed.

Lemma only_key_put k (s : st) b b' : alookup k (bundlers P D s) = Some b -> only_key k s (put_bundler P D s k b').
Proof.
  intros H. unfold only_key, put_bundler; cbn. repeat split.
  - intros k' Hne. apply alookup_aset_other, Hne.
  - eapply keys_aset_present; exact H.
Qed.

Definition docs_for (o : list obs) (u : nat) : Prop := forall d, In (ODoc d) o -> run_of d = u.

Theorem frame_msg (s : st) m s' c o :
  bundler_msg (mcmd m) = true -> exec_cmd P D dev s m = (s', c, o) ->
  only_key (mrun m) s s' /\
  (forall d, In (ODoc d) o -> exists b, alookup (mrun m) (bundlers P D s) = Some b /\ run_of d = buid b).
Proof.
  intros Hb. unfold exec_cmd, get_bundler. destruct (mcmd m) eqn:Hm; try discriminate.
  - (* create *)
    destruct (alookup (mrun m) (bundlers P D s)) as [b|] eqn:Eb; [|intros H; inversion H; subst; split; [apply only_key_refl | intros d []]].
    destruct (bbundling b); intros H; inversion H; subst; (split; [|intros d []]); [apply only_key_refl | eapply only_key_put; exact Eb].
  - (* read *)
    destruct (mobj m) as [d|]; [|intros H; inversion H; subst; split; [apply only_key_refl | intros d []]].
    unfold dcall. destruct (dev (dst P D s) d MRead) as [d' r]. cbn [bundlers set_dst upd2].
    assert (Hnd : forall x, In (ODoc x) [ODev d MRead] -> False) by (intros x [Hx|[]]; discriminate).
    assert (Hk : only_key (mrun m) s (set_dst P D s d')) by (unfold only_key; repeat split; reflexivity).
    destruct r; try (intros H; inversion H; subst; split; [exact Hk | intros x Hx; destruct (Hnd x Hx)]).
    destruct (alookup (mrun m) (bundlers P D s)) as [b|] eqn:Eb;
      [|intros H; inversion H; subst; split; [exact Hk | intros x Hx; destruct (Hnd x Hx)]].
    destruct (bbundling b); [|intros H; inversion H; subst; split; [exact Hk | intros x Hx; destruct (Hnd x Hx)]].
    destruct (negb (mem_nat d (bcached b))); [intros H; inversion H; subst; split; [exact Hk | intros x Hx; destruct (Hnd x Hx)]|].
    unfold finish_read, get_bundler. cbn [bundlers set_dst upd2]. rewrite Eb.
    destruct (mem_nat d (bobjs b)); intros H; inversion H; subst; (split; [|intros x Hx; destruct (Hnd x Hx)]); [exact Hk|].
    unfold only_key, put_bundler; cbn. repeat split.
    + intros k' Hne. apply alookup_aset_other, Hne.
    + eapply keys_aset_present; exact Eb.
  - (* save *)
    destruct (alookup (mrun m) (bundlers P D s)) as [b|] eqn:Eb; [|intros H; inversion H; subst; split; [apply only_key_refl | intros d []]].
    destruct (negb (bbundling b)); [intros H; inversion H; subst; split; [apply only_key_refl | intros d []]|].
    destruct (bobjs b) as [|d0 ds]; [intros H; inversion H; subst; split; [eapply only_key_put; exact Eb | intros d []]|].
    cbn [bdescs b_set_bundle bseq bobjs breads bintr].
    destruct (alookup (bname b) (bdescs b)) as [objs|].
    + destruct (negb (list_eq_sorted objs (d0 :: ds))); intros H; inversion H; subst;
        (split; [eapply only_key_put; exact Eb|]); [intros d []|].
      intros d [Hd|[]]. inversion Hd; subst. exists b; split; reflexivity.
    + intros H; inversion H; subst. split; [eapply only_key_put; exact Eb|].
      intros d [Hd|[Hd|[]]]; inversion Hd; subst; exists b; split; reflexivity.
  - (* drop *)
    destruct (alookup (mrun m) (bundlers P D s)) as [b|] eqn:Eb; [|intros H; inversion H; subst; split; [apply only_key_refl | intros d []]].
    destruct (negb (bbundling b)); intros H; inversion H; subst; (split; [|intros d []]); [apply only_key_refl | eapply only_key_put; exact Eb].
Qed.

(* open_run on a key that is already open: refused, nothing changes, nothing is emitted *)
Theorem frame_open_dup (s : st) m :
  mcmd m = COpenRun -> amem (mrun m) (bundlers P D s) = true ->
  exec_cmd P D dev s m = (s, Done (RExn EIMS), []).
Proof. intros Hm Hk. unfold exec_cmd. rewrite Hm, Hk. reflexivity. Qed.

(* open_run on a free key: a fresh run; the other bundlers are untouched *)
Theorem frame_open_new (s : st) m s' c o :
  mcmd m = COpenRun -> amem (mrun m) (bundlers P D s) = false -> exec_cmd P D dev s m = (s', c, o) ->
  (forall k, k <> mrun m -> alookup k (bundlers P D s') = alookup k (bundlers P D s)) /\
  c = Done (RVal (VUid (uid_supply P D s))) /\ uid_supply P D s' = S (uid_supply P D s) /\
  run_uids P D s' = run_uids P D s ++ [uid_supply P D s] /\
  (exists b, alookup (mrun m) (bundlers P D s') = Some b /\ buid b = uid_supply P D s) /\
  docs_for o (uid_supply P D s).
Proof.
  intros Hm Hk. unfold exec_cmd. rewrite Hm, Hk.
  destruct (record_intr P D s); intros H; inversion H; subst; clear H; unfold put_bundler; cbn; repeat split.
  - intros k Hne. apply alookup_aset_other, Hne.
  - eexists; split; [rewrite alookup_aset, Nat.eqb_refl; reflexivity | reflexivity].
  - intros d [Hd|[Hd|[]]]; inversion Hd; reflexivity.
  - intros k Hne. apply alookup_aset_other, Hne.
  - eexists; split; [rewrite alookup_aset, Nat.eqb_refl; reflexivity | reflexivity].
  - intros d [Hd|[]]; inversion Hd; reflexivity.
Qed.

(* close_run: the run's RunStop; every other bundler keeps everything except that its checkpoint
   snapshot may be refreshed (closing a run is a checkpoint: the one engine-wide coupling) *)
Theorem frame_close (s : st) m es rs s' c o :
  mcmd m = CCloseRun es rs -> exec_cmd P D dev s m = (s', c, o) ->
  match alookup (mrun m) (bundlers P D s) with
  | None => s' = s /\ c = Done (RExn EIMS) /\ o = []
  | Some b =>
      (exists g, (g = b_snapshot \/ g = (fun x => x)) /\
                 forall k, k <> mrun m -> alookup k (bundlers P D s') = option_map g (alookup k (bundlers P D s))) /\
      uid_supply P D s' = uid_supply P D s /\ run_uids P D s' = run_uids P D s /\
      c = Done (RVal (VUid (buid b))) /\ exists xs n, o = [ODoc (DStop (buid b) xs rs n)]
  end.
Proof.
  intros Hm. unfold exec_cmd, get_bundler. rewrite Hm.
  destruct (alookup (mrun m) (bundlers P D s)) as [b|] eqn:Eb; intros H; inversion H; subst; clear H; [|repeat split].
  unfold reset_checkpoint. cbn [cache set_bundlers upd2].
  destruct (cache P D s).
  - repeat split; try (eexists; eexists; reflexivity).
    exists b_snapshot. split; [left; reflexivity|]. intros k Hne. unfold map_bundlers; cbn.
    rewrite alookup_map_b, alookup_aremove_other by exact Hne. reflexivity.
  - repeat split; try (eexists; eexists; reflexivity).
    exists (fun x => x). split; [right; reflexivity|]. intros k Hne. cbn.
    rewrite alookup_aremove_other by exact Hne. destruct (alookup k (bundlers P D s)); reflexivity.
Qed.

(* what the snapshot touches *)
Lemma b_snapshot_keeps b :
  buid (b_snapshot b) = buid b /\ bopen (b_snapshot b) = bopen b /\ bbundling (b_snapshot b) = bbundling b /\
  bname (b_snapshot b) = bname b /\ bobjs (b_snapshot b) = bobjs b /\ breads (b_snapshot b) = breads b /\
  bseq (b_snapshot b) = bseq b /\ bdescs (b_snapshot b) = bdescs b /\ bintr (b_snapshot b) = bintr b /\
  bcached (b_snapshot b) = bcached b.
Proof. repeat split. Qed.
End Frames.

(* ================================================================== the engine model, for all schedules *)
Section Engine.
Variable P : Type.
Variable presume : P -> input -> outcome P.
Variable plan_of : nat -> P.
Variable D : Type.
Variable dev : D -> nat -> devmeth -> D * devres.

Notation run0 d paus stag rec evs := (run P presume plan_of D dev (init P D d paus stag rec) evs).
Notation steps0 d paus stag rec evs := (run_steps P presume plan_of D dev (init P D d paus stag rec) evs).

Lemma run0_steps d paus stag rec evs :
  run0 d paus stag rec evs = (fst (steps0 d paus stag rec evs), flat_map snd (snd (steps0 d paus stag rec evs))).
Proof. apply run_steps_run. Qed.

(* the documents of any run, in order, form started/stopped runs with fresh uids; the runs open at
   the end are exactly the bundlers of the final state *)
Theorem run_structure d paus stag rec evs :
  exists ds, druns dinit (docs_of (snd (run0 d paus stag rec evs))) = Some ds /\
             fst ds = map (fun kb => buid (snd kb)) (bundlers P D (fst (run0 d paus stag rec evs))) /\
             snd ds = uid_supply P D (fst (run0 d paus stag rec evs)).
Proof.
  destruct (run_docs_accepted P presume plan_of D dev d paus stag rec evs) as (m' & E & _ & E2 & E3).
  apply mon_steps_sim in E. rewrite run0_steps. cbn [fst snd]. exists (view m'). splits.
  - exact E.
  - exact E3.
  - exact E2.
Qed.

(* uids are fresh: nothing of run u before its RunStart, and no second RunStart *)
Theorem docs_start_first d paus stag rec evs l1 u l2 :
  docs_of (snd (run0 d paus stag rec evs)) = l1 ++ DStart u :: l2 ->
  (forall x, In x l1 -> run_of x <> u) /\ (forall x, In x l2 -> is_start x = true -> run_of x <> u).
Proof.
  intros E. destruct (run_structure d paus stag rec evs) as (ds & Hd & _). rewrite E in Hd.
  eapply structure_before_start; exact Hd.
Qed.

(* nothing of run u after its RunStop: in particular at most one RunStop *)
Theorem docs_stop_last d paus stag rec evs l1 u xs rs num l2 :
  docs_of (snd (run0 d paus stag rec evs)) = l1 ++ DStop u xs rs num :: l2 ->
  forall x, In x l2 -> run_of x <> u.
Proof.
  intros E. destruct (run_structure d paus stag rec evs) as (ds & Hd & _). rewrite E in Hd.
  eapply structure_after_stop; exact Hd.
Qed.

(* every document belongs to a run started earlier *)
Theorem docs_inside_run d paus stag rec evs l1 x l2 :
  docs_of (snd (run0 d paus stag rec evs)) = l1 ++ x :: l2 -> is_start x = false -> In (DStart (run_of x)) l1.
Proof.
  intros E Hs. destruct (run_structure d paus stag rec evs) as (ds & Hd & _). rewrite E in Hd.
  rewrite druns_app in Hd. destruct (druns dinit l1) as [s1|] eqn:E1; [|discriminate]. cbn [druns] in Hd.
  destruct (dstep s1 x) as [s2|] eqn:E2; [|discriminate].
  assert (Hin : In (run_of x) (fst s1)).
  { destruct x as [u|u ? ?|u ? ? ?|u ?|u ? ? ?]; try discriminate; cbn [dstep run_of] in E2 |- *;
      (destruct (mem_nat u (fst s1)) eqn:Em; [apply mem_nat_in, Em | discriminate]). }
  clear -E1 Hin. revert Hin. generalize (run_of x) as u. intros u.
  assert (G : forall l s s', druns s l = Some s' -> In u (fst s') -> In u (fst s) \/ In (DStart u) l).
  { induction l as [|d l IH]; intros s s' H Hu; cbn in H; [inversion H; subst; left; exact Hu|].
    destruct (dstep s d) as [sm|] eqn:Ed; [|discriminate]. destruct (IH _ _ H Hu) as [R|R]; [|right; right; exact R].
    destruct s as [op nx]. destruct d as [v|v ? ?|v ? ? ?|v ?|v ? ? ?]; cbn [dstep fst snd run_of] in Ed.
    - destruct (Nat.eqb v nx); [|discriminate]. inversion Ed; subst. cbn in R. apply in_app_or in R as [R|[<-|[]]]; [left; exact R | right; left; reflexivity].
    - destruct (mem_nat v op); [|discriminate]. inversion Ed; subst. left; exact R.
    - destruct (mem_nat v op); [|discriminate]. inversion Ed; subst. left; exact R.
    - destruct (mem_nat v op); [|discriminate]. inversion Ed; subst. left; exact R.
    - destruct (mem_nat v op); [|discriminate]. inversion Ed; subst. cbn in R. left. eapply remove_first_in; exact R. }
  intros Hin. destruct (G _ _ _ E1 Hin) as [[]|R]. exact R.
Qed.

(* once no bundler is left, every started run has its RunStop *)
Theorem docs_all_stopped d paus stag rec evs :
  bundlers P D (fst (run0 d paus stag rec evs)) = [] ->
  forall u, In (DStart u) (docs_of (snd (run0 d paus stag rec evs))) ->
  exists xs rs num, In (DStop u xs rs num) (docs_of (snd (run0 d paus stag rec evs))).
Proof.
  intros Hb u Hu. destruct (run_structure d paus stag rec evs) as (ds & Hd & Ho & _). rewrite Hb in Ho. cbn in Ho.
  destruct (druns_started_stopped _ _ _ u Hd W_init (or_intror Hu)) as [R|R]; [rewrite Ho in R; destruct R | exact R].
Qed.

Theorem docs_structure_all d paus stag rec evs :
  let r := run0 d paus stag rec evs in
  (forall l1 u l2, docs_of (snd r) = l1 ++ DStart u :: l2 ->
      (forall x, In x l1 -> run_of x <> u) /\ (forall x, In x l2 -> is_start x = true -> run_of x <> u)) /\
  (forall l1 u xs rs num l2, docs_of (snd r) = l1 ++ DStop u xs rs num :: l2 -> forall x, In x l2 -> run_of x <> u) /\
  (forall l1 x l2, docs_of (snd r) = l1 ++ x :: l2 -> is_start x = false -> In (DStart (run_of x)) l1) /\
  (bundlers P D (fst r) = [] ->
     forall u, In (DStart u) (docs_of (snd r)) -> exists xs rs num, In (DStop u xs rs num) (docs_of (snd r))).
Proof.
  intros r. repeat split.
  - eapply docs_start_first; eassumption.
  - eapply docs_start_first; eassumption.
  - eapply docs_stop_last.
  - eapply docs_inside_run.
  - apply docs_all_stopped.
Qed.

(* the state invariant this file does not prove (Proofs/RE_Inv.v, another builder): an idle engine
   has no bundler left, unless the model ran out of fuel (reported as OBad 1) *)
Definition need_inv_idle_no_bundlers : Prop :=
  forall d paus stag rec evs,
    ~ In (OBad 1) (snd (run0 d paus stag rec evs)) ->
    state P D (fst (run0 d paus stag rec evs)) = Idle -> bundlers P D (fst (run0 d paus stag rec evs)) = [].

Theorem docs_all_stopped_when_idle :
  need_inv_idle_no_bundlers ->
  forall d paus stag rec evs,
    ~ In (OBad 1) (snd (run0 d paus stag rec evs)) -> state P D (fst (run0 d paus stag rec evs)) = Idle ->
    forall u, In (DStart u) (docs_of (snd (run0 d paus stag rec evs))) ->
    exists xs rs num, In (DStop u xs rs num) (docs_of (snd (run0 d paus stag rec evs))).
Proof. intros Hinv d paus stag rec evs Hb Hi. apply docs_all_stopped. apply Hinv; assumption. Qed.

(* C05: a miscounted RunStop is a RunStop behind a rewind (finding class b) *)
Theorem counts_exact_outside_b d paus stag rec evs :
  miscounted rec (snd (steps0 d paus stag rec evs)) = true -> stopped_behind rec (snd (steps0 d paus stag rec evs)) = true.
Proof.
  unfold miscounted, stopped_behind. destruct (mon_steps rec mon0 (snd (steps0 d paus stag rec evs))) as [m'|] eqn:E; [|discriminate].
  apply (mon_steps_flags _ _ _ _ E). intros H; discriminate.
Qed.

(* C05 / C40: the interruptions stream of every open run is exact and never behind, at every point *)
Theorem interruptions_exact d paus stag rec evs :
  exists m', mon_steps rec mon0 (snd (steps0 d paus stag rec evs)) = Some m' /\ Forall intr_exact (m_open m').
Proof.
  destruct (run_docs_accepted P presume plan_of D dev d paus stag rec evs) as (m' & E & _).
  exists m'. split; [exact E|].
  refine (mon_steps_open intr_exact rec _ mon0 m' intr_exact_inv _ _ E); [intros r H; exact H | constructor].
Qed.

(* C40: with recording off no interruption record and no interruptions descriptor is ever emitted *)
Theorem no_records_when_disabled d paus stag evs :
  Forall no_record (snd (run0 d paus stag false evs)).
Proof.
  destruct (run_docs_accepted P presume plan_of D dev d paus stag false evs) as (m' & E & _).
  rewrite run0_steps. cbn [snd]. eapply norec_steps; [exact E|]. split; [reflexivity | constructor].
Qed.
End Engine.
