"""C02 - exit status, reason and raised exception reflect how the run ended."""
from harness.props.engine_common import *  # noqa: F401,F403
from harness.props import docs_common as dc
from harness.props import engine_common as ec

ID = "C02"
PROP_FILE = "Props/C02.v"
THEOREMS = ["C02_exit_mapping", "C02_plan_end_decides", "C02_finalize_closes_open_runs", "C02_status_stable_until_finalize",
            "C02_abort_request_sets_reason", "C02_final_sleep_step", "C02_decision_reaches_stops", "C02_fail_closes_at_once",
            "C02_outcome_of_call", "C02_failed_status_origin", "C02_interrupted_sticky", "C02_stop_halt_request_marks"]
COQ_IMPORTS = dc.COQ_IMPORTS
RULE = dc.RULE + (" || C02 judges single-cause runs only: exactly one of {plan returned, stop, abort, halt, pause/suspension in a "
                  "non-resumable section, unhandled exception}, with a plan that lets the thrown control exception propagate; "
                  "mixed causes are left to the model correspondence")
cases = dc.cases
coq_term = dc.coq_term

CONTROL = ("RequestAbort", "RequestStop", "PlanHalt", "FailedPause", "GeneratorExit", "CancelledError")


def engine_stops(obs):
    """RunStop documents emitted by the engine itself (not while a close_run message is processed)"""
    res, in_close = [], False
    for o in obs["obs"]:
        if o[0] == "msg":
            in_close = o[2]["cmd"] == "close_run"
        elif o[0] == "resp":
            in_close = False
        elif o[0] == "doc" and o[1] == "stop" and not in_close:
            res.append(o)
    return res


def classify(case, obs):
    """-> (cause, detail) for single-cause runs, (None, why) otherwise"""
    if len(case.get("calls", [None])) != 1:
        return None, "several calls"
    sched = obs["sched"]
    # a refused abort still leaves its reason behind, so refused requests count as causes too
    term = [e[1] for e in sched if e[0] == "req_done" and e[1] in ("abort", "stop", "halt")]
    soft = [e[1] for e in sched if (e[0] == "req_done" and e[1] in ("pause", "suspend")) or
            (e[0] == "inject" and e[1] in ("pause", "defer", "suspend"))]
    soft += [1 for o in obs["obs"] if o[0] == "msg" and o[2]["cmd"] in ("pause", "_start_suspender")]
    tape = obs["tapes"].get("0") or []
    if not tape:
        return None, "plan never ran"
    inp, out = tape[-1]
    thrown = [i[1] for i, _ in tape if i[0] == "throw"]
    fp = "FailedPause" in thrown
    if len(term) > 1 or (term and fp):
        return None, "several terminal causes"
    if term:
        kind = term[0]
        exn = {"abort": "RequestAbort", "stop": "RequestStop", "halt": "PlanHalt"}[kind]
        if [t for t in thrown if t != exn and t in CONTROL]:
            return None, "other control exception thrown"
        if inp == ["throw", exn] and out[0] == "raise" and out[1] == exn:
            return kind, None
        return None, "the plan did not end by propagating " + exn
    if fp:
        if inp == ["throw", "FailedPause"] and out[0] == "raise" and out[1] == "FailedPause":
            return "failed_pause", None
        return None, "the plan did not propagate FailedPause"
    if out[0] == "ret":
        if soft or thrown:
            return None, "interruptions or exceptions on the way"
        return "return", None
    if out[0] == "raise" and out[1] not in CONTROL:
        if any(t in CONTROL for t in thrown):
            return None, "control exception converted"
        return "exception", out[1]
    return None, "unclassified end %r" % (out,)


EXPECT = {"return": "success", "stop": "success", "abort": "abort", "halt": "abort", "failed_pause": "abort", "exception": "fail"}


def oracle(case, obs):
    e = dc.driver_error(obs)
    if e:
        return e
    if dc.transient(obs):
        return None        # class C07-c: the engine never went idle again
    cause, detail = classify(case, obs)
    if cause is None:
        return None
    outs = ec.outs_of(obs)
    if not outs:
        return "no blocking call outcome logged"
    if outs[-1]["state"] != "idle":
        return None        # the run has not ended (still paused at the end of the script)
    # the call that was blocked in RE(...) / RE.resume() when the run ended, or before abort()/stop()/halt() ended it
    blocked = [o for o in outs if o["action"] in ("call", "resume")]
    if not blocked:
        return "no RE()/resume() outcome logged"
    last = blocked[-1]
    left = dc.mon(case, obs)["open"]
    if left:
        return "run(s) %s still open when the plan ended by %s got no RunStop" % (left, cause)
    for s in engine_stops(obs):
        st, reason = s[3], s[4]
        if st != EXPECT[cause]:
            return "run %s left open when the plan ended by %s: RunStop exit_status %r, expected %r" % (s[2], cause, st, EXPECT[cause])
        if cause == "exception":
            if not reason or reason in ("because", "main"):
                return "run %s failed with %s but RunStop reason is %r" % (s[2], detail, reason)
            if detail in ("EUser1", "EUser2", "EDev") and reason != "msg-" + detail:
                return "run %s failed with %s but RunStop reason is %r, not the exception text" % (s[2], detail, reason)
        elif cause == "abort":
            if reason not in ("because", "main"):
                return "aborted run %s: RunStop reason %r is not the reason given to abort()" % (s[2], reason)
        elif reason not in ("", None):
            return "run %s ended by %s but RunStop carries reason %r" % (s[2], cause, reason)
    if cause == "return":
        if last["kind"] != "return":
            return "plan completed normally but the call ended with %s" % (last["raw"][2:5],)
    elif cause == "exception":
        if last["kind"] != "raise" or last["exn"] != detail:
            return "unhandled %s but the call ended with %s" % (detail, last["raw"][2:5])
        if detail == "FailedStatus" and last["raw"][4] != "EDev":
            return "FailedStatus not chained to the device's exception (cause %r)" % (last["raw"][4],)
    else:
        if last["kind"] != "interrupted":
            return "run ended by %s but the call ended with %s instead of RunEngineInterrupted" % (cause, last["raw"][2:5])
    return None


def finding(case, obs):
    return None


def nontrivial(case, obs):
    if obs.get("errors"):
        return False
    return classify(case, obs)[0] is not None and bool(engine_stops(obs))
