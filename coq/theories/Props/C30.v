(* C30 -- suspenders trip and release exactly on their documented conditions.
   All statements hold for every value type T with arbitrary Python-style operations
   ltb (<), eqb (==), truthy (bool()); only the exclusivity statements need an order law
   (co-transitivity of <, which every non-NaN number type has; proved for the rational
   instance the correspondence runs: C30_rational_instance_is_ordered). *)
From BV Require Import Base.Prelude Pure.SuspCond Proofs.SuspCond.
From Coq Require Import QArith.

(* the constructor accepts exactly the documented parameter tuples ... *)
Theorem C30_constructor_validates_as_documented :
  forall T (ltb : T -> T -> bool) (a : args T),
    (exists su, construct T ltb a = Some su) <-> doc_valid T ltb a = true.
Proof. exact construct_accepts_iff_valid. Qed.
Print Assumptions C30_constructor_validates_as_documented.

(* ... stores every threshold / band limit / expected value exactly as given -- whatever
   its truth value -- and falls back to a default only for None ... *)
Theorem C30_given_values_honoured :
  forall T (ltb : T -> T -> bool) (a : args T) su, construct T ltb a = Some su ->
    match a with
    | ABoolHigh => su = SBoolHigh
    | ABoolLow => su = SBoolLow
    | AFloor s (Some r) => su = SFloor s r
    | AFloor s None => su = SFloor s s
    | ACeil s (Some r) => su = SCeil s r
    | ACeil s None => su = SCeil s s
    | AWhenOutsideBand b t | AInBand b t => su = SOutside b t
    | AOutBand b t => su = SInside b t
    | AWhenChanged (Some e) al _ => su = SChanged e al
    | AWhenChanged None al sv => su = SChanged sv al
    end.
Proof. exact given_values_stored. Qed.
Print Assumptions C30_given_values_honoured.

(* ... so that _should_suspend/_should_resume are the documented conditions on the
   arguments as given (separate resume threshold included) *)
Theorem C30_conditions_as_documented :
  forall T ltb eqb truthy (a : args T) su, construct T ltb a = Some su ->
    forall v, should_suspend T ltb eqb truthy su v = doc_suspend T ltb eqb truthy a v
           /\ should_resume T ltb eqb truthy su v = doc_resume T ltb eqb truthy a v.
Proof. exact conditions_as_documented. Qed.
Print Assumptions C30_conditions_as_documented.

(* the two conditions are never true together *)
Theorem C30_never_both :
  forall T ltb eqb truthy,
    (forall a b c : T, ltb a b = true -> ltb a c = true \/ ltb c b = true) ->
    forall (a : args T) su, construct T ltb a = Some su ->
    forall v, should_suspend T ltb eqb truthy su v && should_resume T ltb eqb truthy su v = false.
Proof. exact never_both. Qed.
Print Assumptions C30_never_both.

(* for every installed suspender and every sequence of reported values (any engine state,
   any loop behaviour): tripped = the suspend condition at the most recent value at which
   the suspender took a decision; unchanged if there was none *)
Theorem C30_tripped_is_last_decision :
  forall T ltb eqb truthy (su : susp T) (cs : list (T * env)) st, st_installed st = true ->
    st_tripped (run_values T ltb eqb truthy su st cs) =
    match last_decisive T ltb eqb truthy su (map fst cs) with
    | Some v => should_suspend T ltb eqb truthy su v
    | None => st_tripped st
    end.
Proof. exact tripped_last_decisive. Qed.
Print Assumptions C30_tripped_is_last_decision.

(* resumption (ev.set) is scheduled only when the resume condition holds -- and then the
   suspend condition does not, the released event is the pending one, and the suspender is
   no longer tripped *)
Theorem C30_release_only_on_resume :
  forall T ltb eqb truthy (su : susp T) st v en e,
    In (ORelease e) (snd (call T ltb eqb truthy su st v en)) ->
    should_resume T ltb eqb truthy su v = true /\ should_suspend T ltb eqb truthy su v = false
    /\ st_ev st = Some e
    /\ st_tripped (fst (call T ltb eqb truthy su st v en)) = false
    /\ st_ev (fst (call T ltb eqb truthy su st v en)) = None.
Proof. exact release_only_on_resume. Qed.
Print Assumptions C30_release_only_on_resume.

(* a suspension is requested only when the suspend condition holds, the engine is running
   and no event was pending; it is requested for a fresh event and leaves tripped set *)
Theorem C30_request_only_on_suspend :
  forall T ltb eqb truthy (su : susp T) st v en e,
    In (OReq e) (snd (call T ltb eqb truthy su st v en)) ->
    should_suspend T ltb eqb truthy su v = true /\ running en = true
    /\ st_ev st = None /\ e = st_next st
    /\ st_tripped (fst (call T ltb eqb truthy su st v en)) = true
    /\ st_ev (fst (call T ltb eqb truthy su st v en)) = Some e.
Proof. exact request_only_on_suspend. Qed.
Print Assumptions C30_request_only_on_suspend.

(* a value in the hysteresis gap (neither condition) changes and schedules nothing *)
Theorem C30_indecisive_value_is_noop :
  forall T ltb eqb truthy (su : susp T) st v en,
    decisive T ltb eqb truthy su v = false -> call T ltb eqb truthy su st v en = (st, []).
Proof. exact indecisive_is_noop. Qed.
Print Assumptions C30_indecisive_value_is_noop.

(* remove(): untripped, pending event released, later values ignored *)
Theorem C30_remove_releases :
  forall T ltb eqb truthy (su : susp T) st,
    let r := step T ltb eqb truthy su st OpRemove in
    st_tripped (fst r) = false /\ st_installed (fst r) = false
    /\ (st_installed st = true -> st_ev (fst r) = None /\ snd r = set_event st)
    /\ (forall v en, call T ltb eqb truthy su (fst r) v en = (fst r, [])).
Proof. exact remove_spec. Qed.
Print Assumptions C30_remove_releases.

(* the instance the correspondence evaluates meets the order hypothesis of C30_never_both *)
Theorem C30_rational_instance_is_ordered :
  forall a b c : Q, Qltb a b = true -> Qltb a c = true \/ Qltb c b = true.
Proof. exact Qltb_cotrans. Qed.
Print Assumptions C30_rational_instance_is_ordered.

(* non-vacuity: a floor suspender with a separate resume threshold is accepted, has a
   hysteresis gap, and a value sequence crossing it trips and releases *)
Example C30_nonvacuous :
  exists su, Qconstruct (AFloor 0%Q (Some 2%Q)) = Some su
    /\ decisive Q Qltb Qeq_bool Qtruthy su 1%Q = false
    /\ last_decisive Q Qltb Qeq_bool Qtruthy su [(-1)%Q; 1%Q] = Some (-1)%Q
    /\ snd (run Q Qltb Qeq_bool Qtruthy su init_state
              [OpInstall 3%Q (mkEnv true true); OpValue (-1)%Q (mkEnv true true);
               OpValue 1%Q (mkEnv true true); OpValue 2%Q (mkEnv true true)])
       = [([], mkS true None false 0); ([OReq 0%nat], mkS true (Some 0%nat) true 1);
          ([], mkS true (Some 0%nat) true 1); ([ORelease 0%nat], mkS true None false 1)].
Proof. eexists; repeat split; vm_compute; reflexivity. Qed.

(* regression for the repaired defect C30-a (fixes/C30-a.diff): with the constructor as it
   was (`expected_value or signal.value`) an explicit expected value 0 was not honoured *)
Example C30_a_old_constructor_refuted :
  exists a su, Qconstruct_old a = Some su /\
    Qshould_suspend su 0%Q <> doc_suspend Q Qltb Qeq_bool Qtruthy a 0%Q.
Proof. exact old_constructor_drops_falsy_expected_value. Qed.
