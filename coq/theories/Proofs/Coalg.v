(* Generic facts about traces of (logged) coalgebras. *)
From BV Require Import Base.Prelude Gen.Coalg.

Section Bisim.
  Context {A B : Type}.
  Variable la : A -> input -> outcome A * list call.
  Variable lb : B -> input -> outcome B * list call.
  Variable R : A -> B -> Prop.

  Definition out_rel (oa : outcome A) (ob : outcome B) : Prop :=
    match oa, ob with
    | Yielded m a', Yielded m' b' => m = m' /\ R a' b'
    | Returned v, Returned v' => v = v'
    | Raised e, Raised e' => e = e'
    | OutOfFuel, OutOfFuel => True
    | _, _ => False
    end.

  Definition step_rel (ra : outcome A * list call) (rb : outcome B * list call) : Prop :=
    snd ra = snd rb /\ out_rel (fst ra) (fst rb).

  Hypothesis step : forall a b, R a b -> forall i, step_rel (la a i) (lb b i).

  (* related states produce the same observations and the same calls, for every script *)
  Lemma bisim_ltrace : forall s a b, R a b -> ltrace la a s = ltrace lb b s.
  Proof.
    induction s as [|i s IH]; intros a b H; [reflexivity|].
    destruct (step a b H i) as [Hc Ho].
    destruct i as [v|e|]; cbn [ltrace]; rewrite Hc;
      destruct (fst (la a _)) as [m a'|v1|e1|], (fst (lb b _)) as [m' b'|v2|e2|]; cbn in Ho;
      try contradiction;
      try match type of Ho with _ /\ _ => destruct Ho as [Hm Ho] end; subst; try reflexivity.
    - f_equal. now apply IH.
    - f_equal. now apply IH.
  Qed.
End Bisim.

Lemma ltrace_obs :
  forall (Q : Type) (lr : Q -> input -> outcome Q * list call) s q,
    map fst (ltrace lr q s) = trace (unlog lr) q s.
Proof.
  induction s as [|i s IH]; intros q; [reflexivity|].
  destruct i as [v|e|]; cbn [ltrace trace]; unfold unlog at 1.
  - destruct (fst (lr q (Send v))); cbn; try reflexivity. f_equal. apply IH.
  - destruct (fst (lr q (Throw e))); cbn; try reflexivity. f_equal. apply IH.
  - reflexivity.
Qed.

Lemma trace_ext :
  forall (Q : Type) (r1 r2 : Q -> input -> outcome Q), (forall q i, r1 q i = r2 q i) ->
    forall s q, trace r1 q s = trace r2 q s.
Proof.
  intros Q r1 r2 H. induction s as [|i s IH]; intros q; [reflexivity|].
  destruct i; cbn [trace]; rewrite H; try reflexivity;
    destruct (r2 q _); try reflexivity; f_equal; apply IH.
Qed.
