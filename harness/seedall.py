"""Run every seeded defect under seeded/ through its property's quick check (scratch worktree each) and write
seeded/RESULTS.json + seeded/RESULTS.md.  Usage: python -m harness.seedall [jobs]
(SEEDALL_ONLY=<regex> re-runs only the matching seeds and keeps the recorded verdicts of the others)"""
import concurrent.futures as cf
import json
import os
import re
import subprocess
import sys

V = os.path.dirname(os.path.dirname(os.path.abspath(__file__)))


def one(name):
    d = os.path.join(V, "seeded", name)
    meta = json.load(open(os.path.join(d, "meta.json")))
    if str(meta.get("status", "")).startswith("obsolete"):
        return name, {"property": meta["property"], "verdict": "OBSOLETE", "detail": meta["status"], "summary": meta.get("summary", "")}
    cb = str(meta.get("caught_by", ""))
    if cb == "none":
        return name, {"property": meta["property"], "verdict": "NOT-COVERED", "detail": meta.get("note", ""), "summary": meta.get("summary", ""),
                      "needs": meta.get("needs", "")}
    env = dict(os.environ)
    if re.fullmatch(r"C\d\d", cb) and cb != meta["property"]:
        env["SEEDTEST_PROP"] = cb           # the changed code is another property's subject: that property's check is run
    try:
        r = subprocess.run(["/venv/bin/python", "-m", "harness.seedtest", d], cwd=V, capture_output=True, text=True, timeout=4000, env=env)
        out = r.stdout.strip().splitlines()
    except subprocess.TimeoutExpired:
        out = ["TIMEOUT"]
    first = out[0] if out else "?"
    verdict = first.split(" ")[0]
    if "SEEDTEST_PROP" in env and verdict == "CAUGHT":
        verdict = "CAUGHT-BY-" + cb
    return name, {"property": meta["property"], "verdict": verdict, "detail": first, "replay": (out[1].strip() if len(out) > 1 else ""),
                  "summary": meta.get("summary", ""), "needs": meta.get("needs", "")}


def main():
    jobs = int(sys.argv[1]) if len(sys.argv) > 1 else 2
    names = sorted((n for n in os.listdir(os.path.join(V, "seeded")) if os.path.isdir(os.path.join(V, "seeded", n))),
                   key=lambda s: [int(x) if x.isdigit() else x for x in re.split(r"(\d+)", s)])
    res = {}
    only = os.environ.get("SEEDALL_ONLY")          # regex: re-run only these seeds, keep the recorded verdict of the others
    if only:
        old = json.load(open(os.path.join(V, "seeded", "RESULTS.json")))
        res = {n: old[n] for n in names if n in old and not re.search(only, n)}
        todo = [n for n in names if n not in res]
    else:
        todo = names
    with cf.ThreadPoolExecutor(jobs) as ex:
        for name, r in ex.map(one, todo):
            res[name] = r
            print(name, r["verdict"], flush=True)
    res = {n: res[n] for n in names if n in res}
    json.dump(res, open(os.path.join(V, "seeded", "RESULTS.json"), "w"), indent=1)
    L = ["# Seeded defects and the checks that catch them", "",
         "Produced by `python -m harness.seedall` (each seed applied in a scratch worktree of /repo, the property's quick check run against it).", "",
         "| seed | property | verdict | what the change does | needs |", "|---|---|---|---|---|"]
    for n, r in res.items():
        v = r["verdict"] + (" (no-failing-input-found)" if "no-failing-input-found" in r.get("detail", "") else "")
        L.append("| %s | %s | %s | %s | %s |" % (n, r["property"], v, str(r.get("summary", "")).replace("|", "/")[:160], str(r.get("needs", "")).replace("|", "/")[:120]))
    c = {}
    for r in res.values():
        c[r["verdict"]] = c.get(r["verdict"], 0) + 1
    L += ["", "Totals: " + ", ".join("%s %d" % kv for kv in sorted(c.items()))]
    open(os.path.join(V, "seeded", "RESULTS.md"), "w").write("\n".join(L) + "\n")


if __name__ == "__main__":
    main()
