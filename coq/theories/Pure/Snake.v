(* Model of bluesky.utils.snake_cyclers (src/bluesky/utils/__init__.py) at list level,
   as coded: per axis  v2[:total]  with  v2 = tile(repeat(v or v++rev v, num_repeats), num_tiles),
   columns zipped by cycler `+`; the no-snake shortcut is the plain cycler product.
   Axis values are the integer labels 0..L-1 (positions in the axis' own cycler).
   No proofs in this file. *)
From BV Require Import Base.Prelude.

Definition prodl (l : list nat) : nat := fold_right Nat.mul 1 l.

Definition tile {A} (n : nat) (l : list A) : list A := concat (repeat l n).          (* np.tile *)
Definition repeat_each {A} (r : nat) (l : list A) : list A :=                        (* np.repeat *)
  flat_map (fun x => repeat x r) l.

Definition axis_col (lens : list nat) (i : nat) (snake : bool) : list nat :=
  let L := nth i lens 0 in
  let v := seq 0 L in
  let v' := if snake then v ++ rev v else v in
  firstn (prodl lens) (tile (prodl (firstn i lens)) (repeat_each (prodl (skipn (S i) lens)) v')).

(* cycler `*` : outer product, left factor slowest *)
Fixpoint product (lens : list nat) : list (list nat) :=
  match lens with
  | [] => [[]]
  | L :: rest => flat_map (fun i => map (cons i) (product rest)) (seq 0 L)
  end.

(* cycler `+` : zip of equal-length columns; unequal lengths raise ValueError (None) *)
Definition zip_cols (total : nat) (cols : list (list nat)) : option (list (list nat)) :=
  if forallb (fun c => length c =? total) cols
  then Some (map (fun t => map (fun c => nth t c 0) cols) (seq 0 total))
  else None.

Definition snake_cyclers (lens : list nat) (flags : list bool) : option (list (list nat)) :=
  if negb (length lens =? length flags) then None           (* ValueError *)
  else if (length lens =? 0) then None                      (* reduce() of an empty list: TypeError *)
  else if negb (existsb (fun b => b) (tl flags)) then Some (product lens)
  else zip_cols (prodl lens)
         (map (fun p => axis_col lens (fst p) (snd p)) (combine (seq 0 (length lens)) flags)).

(* the documented trajectory, in closed form *)
Definition digit (lens : list nat) (k t : nat) : nat :=
  (t / prodl (skipn (S k) lens)) mod (nth k lens 0).
Definition slower (lens : list nat) (k t : nat) : nat :=     (* the number formed by the slower digits *)
  t / (prodl (skipn (S k) lens) * nth k lens 0).
Definition idx (lens : list nat) (flags : list bool) (k t : nat) : nat :=
  if nth k flags false && Nat.odd (slower lens k t)
  then nth k lens 0 - 1 - digit lens k t else digit lens k t.
Definition point (lens : list nat) (flags : list bool) (t : nat) : list nat :=
  map (fun k => idx lens flags k t) (seq 0 (length lens)).

(* specification vocabulary used by Props/C26.v *)
Definition valid_lens (lens : list nat) : Prop := lens <> [] /\ Forall (fun L => 1 <= L) lens.
Definition adj (a b : nat) : Prop := a = b + 1 \/ b = a + 1.       (* differ by exactly one *)
Definition coord (p : list nat) (k : nat) : nat := nth k p 0.

Definition olln_beq := option_beq llnat_beq.
