"""C14 - concurrent runs with different run keys stay independent."""
from harness.props.engine_common import *  # noqa: F401,F403
from harness.props import docs_common as dc
from harness.props import engine_common as ec

ID = "C14"
PROP_FILE = "Props/C14.v"
THEOREMS = ["C14_message_touches_only_its_run", "C14_close_run_frame", "C14_open_run_frame", "C14_duplicate_open_refused",
            "C14_runs_well_formed_separately"]
COQ_IMPORTS = dc.COQ_IMPORTS
RULE = dc.RULE
cases = dc.cases
coq_term = dc.coq_term


def oracle(case, obs):
    e = dc.driver_error(obs)
    if e:
        return e
    res = dc.mon(case, obs)
    # every message applied to the run with its key; duplicate open refused without effect;
    # each run's documents satisfy the lifecycle and numbering guarantees on their own
    return dc.docs_monitor.first(res, ("keys", "grammar", "number", "intr"))


def finding(case, obs):
    return None


def nontrivial(case, obs):
    keys = {o[2]["run"] for o in obs.get("obs", []) if o[0] == "msg" and o[2]["cmd"] == "open_run"}
    return len(keys) > 1
