(* Gen/Paired.v -- the paired-action wrappers of bluesky.preprocessors (C23):
     run_wrapper (352-371), subs_wrapper (374-424), suspend_wrapper (427-460), stage_wrapper (965-1013),
   with the plan stubs they call (open_run, close_run, stage_all, unstage_all; plan_stubs.py) and the device
   helpers ancestry / root_ancestor / separate_devices (utils/__init__.py 718-803).  MODEL ONLY (no proofs).
   lazily_stage_wrapper lives in Gen/Insert.v, monitor_during / fly_during in Gen/During.v.

   MESSAGES.  Gen/Coalg.v has  msg := nat  (the identity of a Msg object).  What a message *says* is a
   [mview]; the link is a pair of Section variables
        view : msg -> mview        (reading a Msg object)        -- used by the theorems only
        mk   : mview -> msg        (the Msg object a wrapper creates for this content)
   with the hypothesis  view (mk v) = v  in the theorems (Proofs/Paired.v gives a concrete instance built on
   Coq.Arith.Cantor, so the hypothesis is satisfiable).  Messages of the wrapped plan are arbitrary ids.
   A wrapper that creates two Msg objects with equal content gets the same id twice here; object identity
   only matters to plan_mutator's msgs_seen, and every msg_proc in this file family answers (None, None)
   on wrapper-made messages, for which "seen" and "not seen" behave alike.

   BUILDING BLOCKS (all plain coalgebras  X -> input -> outcome X, Gen/Coalg.v)
     lplan        a generator that yields a fixed list of messages, remembers the responses, and -- if
                  [lp_wait] is given and some response is a Status object -- finally yields that wait message:
                  stage_all / unstage_all (plan_stubs.py 1130-1163, 1215-1245), _subscribe, _unsubscribe,
                  _install, _remove, open_run, close_run.    [is_status : val -> bool] = isinstance(ret, Status)
     pp_*         `yield from prefix(); return (yield from plan)`   (_inner_plan / inner of subs_wrapper,
                  suspend_wrapper, stage_wrapper); its store = the responses the prefix has received so far
     s2_* / fw_*  "body, then a follow-up plan chosen by how the body ended": finalize_wrapper(body, final(store)) with
                  pause_for_debug = False is the instance [fw_resume], where the final plan is a *function of the
                  store the body left behind* (closures shared between body and final plan: `tokens`).
                  Proofs/Paired.v: for a store-independent final plan it IS [cw_resume ... (finalize_opts false)],
                  the machine C22 proves equal to the transcribed source of finalize_wrapper.
     d_*          `return (yield from X)`: the wrapper's own generator around the finalize_wrapper generator
   WRAPPERS
     stage_wrapper_init / sw_resume      cw_resume (C22) over body = pp(stage_all roots, plan), final = unstage_all (rev roots),
                                         roots = separate_devices (map root_ancestor devices)
     suspend_wrapper_init / sw_resume    same with install / remove messages (same order, no wait)
     subs_wrapper_init / subs_resume     fw over body = pp(_subscribe, plan), final tokens = _unsubscribe over
                                         [set_iter tokens] (CPython's iteration order of the set: a Section variable)
     run_wrapper_init / rw_resume        open_run, then cw_resume (C22) = contingency_wrapper(plan,
                                         except_plan = close_run(status of e), else_plan = close_run()), returns the uid
   Groups: stage_all / unstage_all draw a fresh uuid each; here they are the constants G_STAGE / G_UNSTAGE (the tie
   renames uuids by the role of the first message carrying them and checks they are used consistently). *)
From Coq Require Import String.
From BV Require Import Base.Prelude Gen.Coalg Gen.PyGen Gen.Wrappers.
From BVgen Require Tables.

Definition dev := nat.

Inductive mview :=
  | VOpen
  | VClose (exit_status : option string) (reason : option exn)   (* reason = str(e), e of this class *)
  | VStage (d : dev) (g : nat)
  | VUnstage (d : dev) (g : nat)
  | VWait (g : nat)
  | VSubscribe (f name : nat)
  | VUnsubscribe (tok : val)
  | VInstall (s : nat)
  | VRemove (s : nat)
  | VMonitor (d : dev)            (* name = d.name + "_monitor" *)
  | VUnmonitor (d : dev)
  | VKickoff (d : dev) (g : nat)
  | VComplete (d : dev) (g : nat)
  | VCollect (d : dev)
  | VCmd (c : nat) (d : dev).     (* any other message on a device: c = 0 read, 1 set, 2 trigger, >= 3 others *)

Definition G_STAGE : nat := 100.
Definition G_UNSTAGE : nat := 101.
Definition G_KICKOFF : nat := 102.
Definition G_COMPLETE : nat := 103.

(* ------------------------------------------------------------------ devices: a finite parent forest *)
(* [parent d] = d.parent.  ancestry() loops `while True` up the parents; [fuel] bounds the walk and running out
   (a parent cycle: Python never returns) answers None.  *)
Section Forest.
  Variable parent : dev -> option dev.

  Fixpoint ancestry (fuel : nat) (d : dev) : option (list dev) :=
    match fuel with
    | O => None
    | S f =>
        match parent d with
        | None => Some [d]
        | Some p => match ancestry f p with Some l => Some (d :: l) | None => None end
        end
    end.

  Fixpoint last_opt (l : list dev) : option dev :=
    match l with [] => None | [x] => Some x | _ :: r => last_opt r end.

  Definition root_ancestor (fuel : nat) (d : dev) : option dev :=
    match ancestry fuel d with Some l => last_opt l | None => None end.

  Definition mem_dev (d : dev) (l : list dev) : bool := existsb (Nat.eqb d) l.

  Fixpoint remove_first (d : dev) (l : list dev) : list dev :=
    match l with [] => [] | x :: r => if Nat.eqb d x then r else x :: remove_first d r end.

  (* the inner `for existing_det in result[:]` of separate_devices: [snap] = what is left of the snapshot,
     [result] = the list being edited; None = out of fuel in an ancestry() *)
  Fixpoint sep_inner (fuel : nat) (det : dev) (snap result : list dev) : option (list dev) :=
    match snap with
    | [] => Some (result ++ [det])                                   (* for ... else: append *)
    | ex :: rest =>
        match ancestry fuel det, ancestry fuel ex with
        | Some adet, Some aex =>
            if mem_dev ex adet then Some result                       (* break *)
            else if mem_dev det aex then sep_inner fuel det rest (remove_first ex result)
            else sep_inner fuel det rest result
        | _, _ => None
        end
    end.

  Fixpoint sep_outer (fuel : nat) (devices result : list dev) : option (list dev) :=
    match devices with
    | [] => Some result
    | det :: r =>
        match sep_inner fuel det result result with
        | Some result' => sep_outer fuel r result'
        | None => None
        end
    end.

  Definition separate_devices (fuel : nat) (devices : list dev) : option (list dev) := sep_outer fuel devices [].

  Fixpoint map_opt {A B} (f : A -> option B) (l : list A) : option (list B) :=
    match l with
    | [] => Some []
    | x :: r => match f x, map_opt f r with Some y, Some ys => Some (y :: ys) | _, _ => None end
    end.

  (* stage_wrapper's first line: separate_devices(root_ancestor(device) for device in devices) *)
  Definition stage_roots (fuel : nat) (devices : list dev) : option (list dev) :=
    match map_opt (root_ancestor fuel) devices with
    | Some rs => separate_devices fuel rs
    | None => None
    end.
End Forest.

(* first-occurrence de-duplication (what separate_devices does to a list of roots) *)
Fixpoint dedup (l : list dev) (seen : list dev) : list dev :=
  match l with
  | [] => []
  | x :: r => if existsb (Nat.eqb x) seen then dedup r seen else x :: dedup r (x :: seen)
  end.

(* ------------------------------------------------------------------ list plans *)
Section ListPlan.
  Variable is_status : val -> bool.

  Inductive lplan :=
    | LPStart (todo : list msg) (wait : option msg)
    | LPAt (todo : list msg) (acc : list val) (wait : option msg)     (* a message is out; todo = what follows *)
    | LPWait (acc : list val).                                        (* the trailing wait is out *)

  Definition lp_acc (l : lplan) : list val :=
    match l with LPStart _ _ => [] | LPAt _ acc _ => acc | LPWait acc => acc end.

  Definition lp_advance (todo : list msg) (acc : list val) (wait : option msg) : outcome lplan :=
    match todo with
    | m :: r => Yielded m (LPAt r acc wait)
    | [] =>
        match wait with
        | Some w => if existsb is_status acc then Yielded w (LPWait acc) else Returned VNone
        | None => Returned VNone
        end
    end.

  Definition lp_resume (l : lplan) (i : input) : outcome lplan :=
    match l with
    | LPStart todo wait =>
        match i with
        | Send VNone => lp_advance todo [] wait
        | Send _ => Raised ETypeError
        | Throw e => Raised e
        | Close => Raised EGeneratorExit
        end
    | LPAt todo acc wait =>
        match i with
        | Send v => lp_advance todo (acc ++ [v]) wait
        | Throw e => Raised e
        | Close => Raised EGeneratorExit
        end
    | LPWait acc =>
        match i with
        | Send _ => Returned VNone
        | Throw e => Raised e
        | Close => Raised EGeneratorExit
        end
    end.

  (* the responses received so far, after this step (the closure variable the plan fills: `tokens`) *)
  Definition lp_store (l : lplan) (i : input) : list val :=
    match l, i with
    | LPAt _ acc _, Send v => acc ++ [v]
    | _, _ => lp_acc l
    end.
End ListPlan.

(* ------------------------------------------------------------------ prefix; plan *)
Section PrefixPlan.
  Context {P : Type}.
  Variable resume : P -> input -> outcome P.
  Variable is_status : val -> bool.

  (*  def inner():  yield from prefix();  return (yield from plan)  *)
  Inductive pp_state :=
    | PPStart (l : lplan) (p : P)
    | PPPre (l : lplan) (p : P)
    | PPPlan (acc : list val) (p : P).

  Definition pp_plan_result (acc : list val) (o : outcome P) : outcome pp_state :=
    map_outcome (PPPlan acc) o.

  (* the prefix delivered [o]; [acc] = its responses after the step *)
  Definition pp_pre_result (o : outcome lplan) (acc : list val) (p : P) : outcome pp_state :=
    match o with
    | Yielded m l' => Yielded m (PPPre l' p)
    | Returned _ => pp_plan_result acc (resume p (Send VNone))      (* next statement: yield from plan *)
    | Raised e => Raised e
    | OutOfFuel => OutOfFuel
    end.

  Definition pp_close_plan (acc : list val) (p : P) (e : exn) : outcome pp_state :=
    match close_result (resume p Close) with
    | CloseOk => Raised e
    | CloseRaised e' => Raised e'
    | CloseFuel => OutOfFuel
    end.

  Definition pp_resume (s : pp_state) (i : input) : outcome pp_state :=
    match s with
    | PPStart l p =>
        match i with
        | Send VNone => pp_pre_result (lp_resume is_status l (Send VNone)) (lp_store l (Send VNone)) p
        | Send _ => Raised ETypeError
        | Throw e => Raised e
        | Close => Raised EGeneratorExit
        end
    | PPPre l p =>
        match i with
        | Send v => pp_pre_result (lp_resume is_status l (Send v)) (lp_store l (Send v)) p
        | Throw e => Raised e          (* the prefix has no handlers; a GeneratorExit kind closes it and is re-raised *)
        | Close => Raised EGeneratorExit
        end
    | PPPlan acc p =>
        match i with
        | Send v => pp_plan_result acc (resume p (Send v))
        | Throw e => if is_GeneratorExit e then pp_close_plan acc p e else pp_plan_result acc (resume p (Throw e))
        | Close => pp_close_plan acc p EGeneratorExit
        end
    end.

  Definition pp_store (s : pp_state) (i : input) : list val :=
    match s with
    | PPStart l _ => lp_store l i
    | PPPre l _ => lp_store l i
    | PPPlan acc _ => acc
    end.
End PrefixPlan.

Arguments PPStart {P} l p.
Arguments PPPre {P} l p.
Arguments PPPlan {P} acc p.

(* ------------------------------------------------------------------ body, then a follow-up plan *)
(* The common shape of try/finally and try/except/else around `yield from body`, as a machine:
     S2Body   the body runs; inputs are forwarded (a GeneratorExit kind / close() closes it first)
     S2Next   the body has terminated; [next] chose a follow-up plan q from how it terminated (and from the store
              the body left behind) and a pending completion c; q runs; when it returns the wrapper completes with c,
              when it raises, that exception replaces c.
   [next] answering None ends the wrapper the way the body ended.
   Instances: finalize_wrapper with a final plan reading a closure ([fw_next], below); Proofs/Paired.v shows that
   C22's machine [cw_resume] with finalize_opts (any final plan) and with run_wrapper's options is this machine too. *)
Inductive term := TRet (v : val) | TExc (e : exn) | TFuel.

Definition term_obs (t : term) : obs :=
  match t with TRet v => OReturn v | TExc e => ORaise e | TFuel => OFuel end.

Definition term_outcome {X} (t : term) : outcome X :=
  match t with TRet v => Returned v | TExc e => Raised e | TFuel => OutOfFuel end.

Definition compl_outcome {X} (c : completion) : outcome X :=
  match c with CRet v => Returned v | CExc e => Raised e | CNormal => Returned VNone end.

Section Seq2.
  Context {B F S : Type}.
  Variable bres : B -> input -> outcome B.
  Variable bstore : B -> input -> S.          (* the store after that step of the body *)
  Variable fres : F -> input -> outcome F.
  Variable next : S -> term -> option (F * completion).

  Inductive s2 :=
    | S2Start (b : B)
    | S2Body (b : B)
    | S2Next (q : F) (c : completion).

  Definition s2_next_result (c : completion) (r : outcome F) : outcome s2 :=
    match r with
    | Yielded m q => Yielded m (S2Next q c)
    | Returned _ => compl_outcome c
    | Raised e => Raised e
    | OutOfFuel => OutOfFuel
    end.

  (* the body terminated with t, leaving store s *)
  Definition s2_after (s : S) (t : term) : outcome s2 :=
    match next s t with
    | Some (q, c) => s2_next_result c (fres q (Send VNone))
    | None => term_outcome t
    end.

  Definition s2_body_result (s : S) (r : outcome B) : outcome s2 :=
    match r with
    | Yielded m b' => Yielded m (S2Body b')
    | Returned v => s2_after s (TRet v)
    | Raised e => s2_after s (TExc e)
    | OutOfFuel => OutOfFuel
    end.

  Definition s2_close_body (b : B) (e : exn) : outcome s2 :=
    match close_result (bres b Close) with
    | CloseOk => s2_after (bstore b Close) (TExc e)
    | CloseRaised e' => s2_after (bstore b Close) (TExc e')
    | CloseFuel => OutOfFuel
    end.

  Definition s2_close_next (q : F) (e : exn) : outcome s2 :=
    match close_result (fres q Close) with
    | CloseOk => Raised e
    | CloseRaised e' => Raised e'
    | CloseFuel => OutOfFuel
    end.

  Definition s2_resume (st : s2) (i : input) : outcome s2 :=
    match st with
    | S2Start b =>
        match i with
        | Send VNone => s2_body_result (bstore b (Send VNone)) (bres b (Send VNone))
        | Send _ => Raised ETypeError
        | Throw e => Raised e
        | Close => Raised EGeneratorExit
        end
    | S2Body b =>
        match i with
        | Send v => s2_body_result (bstore b (Send v)) (bres b (Send v))
        | Throw e =>
            if is_GeneratorExit e then s2_close_body b e
            else s2_body_result (bstore b (Throw e)) (bres b (Throw e))
        | Close => s2_close_body b EGeneratorExit
        end
    | S2Next q c =>
        match i with
        | Send v => s2_next_result c (fres q (Send v))
        | Throw e => if is_GeneratorExit e then s2_close_next q e else s2_next_result c (fres q (Throw e))
        | Close => s2_close_next q EGeneratorExit
        end
    end.
End Seq2.

Arguments S2Start {B F} b.
Arguments S2Body {B F} b.
Arguments S2Next {B F} q c.

(* finalize_wrapper(body, final) with pause_for_debug = False, where the final plan -- a generator created before
   the body runs but started after it -- reads a closure variable the body fills (its store): the final plan runs
   unless the body ended with a GeneratorExit kind *)
Definition fw_next {F S} (fin : S -> F) (s : S) (t : term) : option (F * completion) :=
  match t with
  | TRet v => Some (fin s, CRet v)
  | TExc e => if is_GeneratorExit e then None else Some (fin s, CExc e)
  | TFuel => None
  end.

Definition fw_resume {B F S} (bres : B -> input -> outcome B) (bstore : B -> input -> S)
           (fres : F -> input -> outcome F) (fin : S -> F) : @s2 B F -> input -> outcome (@s2 B F) :=
  s2_resume bres bstore fres (fw_next fin).

(* ------------------------------------------------------------------ reference traces *)
(* Scripts that neither close nor halt the wrapper: no Close, no thrown GeneratorExit kind. *)
Definition plain_input (i : input) : bool :=
  match i with Send _ => true | Throw e => negb (is_GeneratorExit e) | Close => false end.
Definition plain (s : list input) : bool := forallb plain_input s.

Section Split.
  Context {X S : Type}.
  Variable res : X -> input -> outcome X.
  Variable store : X -> input -> S.

  (* drive x with the script: the messages it yields and -- if it terminates -- how, the store it leaves and the
     inputs not consumed *)
  Fixpoint split (x : X) (s : list input) : list msg * option (term * S * list input) :=
    match s with
    | [] => ([], None)
    | i :: r =>
        match res x i with
        | Yielded m x' => let '(ms, e) := split x' r in (m :: ms, e)
        | Returned v => ([], Some (TRet v, store x i, r))
        | Raised e => ([], Some (TExc e, store x i, r))
        | OutOfFuel => ([], Some (TFuel, store x i, r))
        end
    end.
End Split.

Definition no_store {X} : X -> input -> unit := fun _ _ => tt.

(* a termination after which cleanup runs: a return, or an exception that is not a GeneratorExit kind *)
Definition plain_end (t : term) : option completion :=
  match t with
  | TRet v => Some (CRet v)
  | TExc e => if is_GeneratorExit e then None else Some (CExc e)
  | TFuel => None
  end.

Definition compl_obs (c : completion) : obs :=
  match c with CRet v => OReturn v | CExc e => ORaise e | CNormal => OReturn VNone end.

Section Seq2Ref.
  Context {B F S : Type}.
  Variable bres : B -> input -> outcome B.
  Variable bstore : B -> input -> S.
  Variable fres : F -> input -> outcome F.
  Variable next : S -> term -> option (F * completion).

  (* the follow-up plan q runs on s; the wrapper then completes with c *)
  Definition next_ref (q : F) (c : completion) (s : list input) : list obs :=
    let '(ms, e) := split fres no_store q s in
    map OYield ms ++
    match e with
    | None => []
    | Some (TRet _, _, _) => [compl_obs c]
    | Some (TExc e', _, _) => [ORaise e']
    | Some (TFuel, _, _) => [OFuel]
    end.

  Definition s2_ref (b : B) (s : list input) : list obs :=
    let '(ms, e) := split bres bstore b s in
    map OYield ms ++
    match e with
    | None => []
    | Some (TFuel, _, _) => [OFuel]
    | Some (t, st, rest) =>
        match next st t with
        | Some (q, c) => next_ref q c (Send VNone :: rest)
        | None => [term_obs t]
        end
    end.
End Seq2Ref.

(* ------------------------------------------------------------------ return (yield from X) *)
(* The last statement of stage_wrapper / subs_wrapper / suspend_wrapper: the wrapper is itself a generator that
   delegates to the finalize_wrapper generator.  Transparent for send and for thrown non-GeneratorExit kinds; a
   thrown GeneratorExit kind (PlanHalt!) or close() instead *closes* the delegate -- which turns a delegate that
   yields (e.g. starts its cleanup) into RuntimeError -- and is then re-raised. *)
Section Deleg.
  Context {X : Type}.
  Variable xres : X -> input -> outcome X.

  Inductive dstate := DStart (x : X) | DRun (x : X).

  Definition d_close (x : X) (e : exn) : outcome dstate :=
    match close_result (xres x Close) with
    | CloseOk => Raised e
    | CloseRaised e' => Raised e'
    | CloseFuel => OutOfFuel
    end.

  Definition d_resume (s : dstate) (i : input) : outcome dstate :=
    match s with
    | DStart x =>
        match i with
        | Send VNone => map_outcome DRun (xres x (Send VNone))
        | Send _ => Raised ETypeError
        | Throw e => Raised e
        | Close => Raised EGeneratorExit
        end
    | DRun x =>
        match i with
        | Send v => map_outcome DRun (xres x (Send v))
        | Throw e => if is_GeneratorExit e then d_close x e else map_outcome DRun (xres x (Throw e))
        | Close => d_close x EGeneratorExit
        end
    end.
End Deleg.

Arguments DStart {X} x.
Arguments DRun {X} x.

(* ------------------------------------------------------------------ the wrappers *)
Section PairedWrappers.
  Context {P : Type}.
  Variable resume : P -> input -> outcome P.
  Variable mk : mview -> msg.
  Variable is_status : val -> bool.

  (* --- stage_wrapper / suspend_wrapper: finalize_wrapper(inner(), undo()) with fixed message lists.
     One type for "a plan the wrapper made": the body or a list plan. *)
  Inductive wplan :=
    | WBody (s : @pp_state P)
    | WList (l : lplan).

  Definition w_resume (w : wplan) (i : input) : outcome wplan :=
    match w with
    | WBody s => map_outcome WBody (pp_resume resume is_status s i)
    | WList l => map_outcome WList (lp_resume is_status l i)
    end.

  Definition sw_phase := @phase wplan.
  Definition sw_state := @dstate sw_phase.

  (* finalize_wrapper as proved in C22: skip = true, finalize_opts false, base handler, hole numbers 1 2 1 *)
  Definition fin_resume (undo : lplan) : sw_phase -> input -> outcome sw_phase :=
    cw_resume w_resume true (finalize_opts false) true 1 2 1 (fun _ => WList undo) (WList undo) (WList undo).
  (* ... inside the wrapper's own generator:  return (yield from finalize_wrapper(...)) *)
  Definition sw_resume (undo : lplan) : sw_state -> input -> outcome sw_state := d_resume (fin_resume undo).

  Definition stage_msgs (roots : list dev) : list msg := map (fun d => mk (VStage d G_STAGE)) roots.
  Definition unstage_msgs (roots : list dev) : list msg := map (fun d => mk (VUnstage d G_UNSTAGE)) (rev roots).

  Definition stage_do (roots : list dev) : lplan := LPStart (stage_msgs roots) (Some (mk (VWait G_STAGE))).
  Definition stage_undo (roots : list dev) : lplan := LPStart (unstage_msgs roots) (Some (mk (VWait G_UNSTAGE))).

  (* stage_wrapper(plan, devices) once `devices` has been reduced to [roots] *)
  Definition stage_wrapper_init (roots : list dev) (p : P) : sw_state :=
    DStart (PhStart (WBody (PPStart (stage_do roots) p))).
  Definition stage_wrapper_resume (roots : list dev) := sw_resume (stage_undo roots).

  Definition install_msgs (susps : list nat) : list msg := map (fun s => mk (VInstall s)) susps.
  Definition remove_msgs (susps : list nat) : list msg := map (fun s => mk (VRemove s)) susps.

  Definition suspend_wrapper_init (susps : list nat) (p : P) : sw_state :=
    DStart (PhStart (WBody (PPStart (LPStart (install_msgs susps) None) p))).
  Definition suspend_wrapper_resume (susps : list nat) := sw_resume (LPStart (remove_msgs susps) None).

  (* --- subs_wrapper: the final plan iterates over the set of tokens the prefix has received *)
  Variable set_iter : list val -> list val.     (* list(set built by adding these in order) in CPython *)

  Definition subscribe_msgs (subs : list (nat * nat)) : list msg :=
    map (fun fn => mk (VSubscribe (fst fn) (snd fn))) subs.
  Definition unsubscribe_plan (tokens : list val) : lplan :=
    LPStart (map (fun t => mk (VUnsubscribe t)) (set_iter tokens)) None.

  Definition subs_phase := @s2 (@pp_state P) lplan.
  Definition subs_state := @dstate subs_phase.

  Definition subs_fin_resume : subs_phase -> input -> outcome subs_phase :=
    fw_resume (pp_resume resume is_status) pp_store (lp_resume is_status) unsubscribe_plan.
  Definition subs_wrapper_init (subs : list (nat * nat)) (p : P) : subs_state :=
    DStart (S2Start (PPStart (LPStart (subscribe_msgs subs) None) p)).
  Definition subs_resume : subs_state -> input -> outcome subs_state := d_resume subs_fin_resume.

  (* --- run_wrapper *)
  Fixpoint str_assoc (k : string) (l : list (string * string)) : option string :=
    match l with
    | [] => None
    | (k', v) :: r => if String.eqb k k' then Some v else str_assoc k r
    end.

  Definition control_name (e : exn) : string :=
    match e with ERequestAbort => "RequestAbort"%string | ERequestStop => "RequestStop"%string | _ => ""%string end.

  (* except_plan(e): close_run(exit_status=e.exit_status) for control exceptions (class attributes, regenerated
     table), close_run(exit_status='fail', reason=str(e)) otherwise *)
  Definition close_view (e : exn) : mview :=
    if is_control e then VClose (str_assoc (control_name e) Tables.exit_status_table) None
    else VClose (Some "fail"%string) (Some e).

  Inductive rplan :=
    | RPlan (p : P)
    | RClose (l : lplan).

  Definition r_resume (r : rplan) (i : input) : outcome rplan :=
    match r with
    | RPlan p => map_outcome RPlan (resume p i)
    | RClose l => map_outcome RClose (lp_resume is_status l i)
    end.

  Definition close_plan (v : mview) : rplan := RClose (LPStart [mk v] None).

  Definition run_opts : cw_opts := mkOpts true true false true false.

  (* contingency_wrapper(plan, except_plan=except_plan, else_plan=close_run) as proved in C22 *)
  Definition rc_resume : @phase rplan -> input -> outcome (@phase rplan) :=
    cw_resume r_resume true run_opts false 1 2 3
              (fun e => close_plan (close_view e)) (close_plan (VClose None None)) (close_plan (VClose None None)).

  Inductive rw_state :=
    | RwStart (p : P)
    | RwOpen (p : P)                               (* Msg('open_run') is out *)
    | RwCont (uid : val) (ph : @phase rplan).      (* delegating to the contingency_wrapper generator *)

  Definition rw_cont_result (uid : val) (o : outcome (@phase rplan)) : outcome rw_state :=
    match o with
    | Yielded m ph' => Yielded m (RwCont uid ph')
    | Returned _ => Returned uid                   (* return rs_uid *)
    | Raised e => Raised e
    | OutOfFuel => OutOfFuel
    end.

  Definition rw_close_cont (ph : @phase rplan) (e : exn) : outcome rw_state :=
    match close_result (rc_resume ph Close) with
    | CloseOk => Raised e
    | CloseRaised e' => Raised e'
    | CloseFuel => OutOfFuel
    end.

  Definition rw_resume (s : rw_state) (i : input) : outcome rw_state :=
    match s with
    | RwStart p =>
        match i with
        | Send VNone => Yielded (mk VOpen) (RwOpen p)
        | Send _ => Raised ETypeError
        | Throw e => Raised e
        | Close => Raised EGeneratorExit
        end
    | RwOpen p =>
        match i with
        | Send uid => rw_cont_result uid (rc_resume (PhStart (RPlan p)) (Send VNone))
        | Throw e => Raised e
        | Close => Raised EGeneratorExit
        end
    | RwCont uid ph =>
        match i with
        | Send v => rw_cont_result uid (rc_resume ph (Send v))
        | Throw e => if is_GeneratorExit e then rw_close_cont ph e else rw_cont_result uid (rc_resume ph (Throw e))
        | Close => rw_close_cont ph EGeneratorExit
        end
    end.

  Definition run_wrapper_init (p : P) : rw_state := RwStart p.

  (* ---------------- reference traces of the wrappers (scripts: after the Send None that starts the wrapper) *)
  Definition lp_split := split (lp_resume is_status) lp_store.

  Definition retag (acc : list val) (e : option (term * unit * list input)) : option (term * list val * list input) :=
    match e with Some (t, _, r) => Some (t, acc, r) | None => None end.

  (* the body `yield from prefix(); return (yield from plan)` driven by s: its messages, and -- if it ended -- how,
     the responses the prefix had received by then, and the inputs left over *)
  Definition body_ref (pre : lplan) (p : P) (s : list input) : list msg * option (term * list val * list input) :=
    let '(ms1, e1) := lp_split pre s in
    match e1 with
    | None => (ms1, None)
    | Some (TRet _, acc, rest) =>
        let '(ms2, e2) := split resume no_store p (Send VNone :: rest) in (ms1 ++ ms2, retag acc e2)
    | Some (t, acc, rest) => (ms1, Some (t, acc, rest))
    end.

  (* the undo plan runs; afterwards the wrapper completes with c *)
  Definition undo_ref (undo : lplan) (c : completion) (rest : list input) : list obs :=
    next_ref (lp_resume is_status) undo c (Send VNone :: rest).

  (* do-prefix; wrapped plan; undo(responses the prefix received): the three phases in order *)
  Definition paired_ref (pre : lplan) (undo : list val -> lplan) (p : P) (s : list input) : list obs :=
    let '(ms1, e1) := lp_split pre (Send VNone :: s) in
    map OYield ms1 ++
    match e1 with
    | None => []
    | Some (TRet _, acc, rest) =>
        let '(ms2, e2) := split resume no_store p (Send VNone :: rest) in
        map OYield ms2 ++
        match e2 with
        | None => []
        | Some (TRet v, _, rest2) => undo_ref (undo acc) (CRet v) rest2
        | Some (TExc e, _, rest2) => if is_GeneratorExit e then [ORaise e] else undo_ref (undo acc) (CExc e) rest2
        | Some (TFuel, _, _) => [OFuel]
        end
    | Some (TExc e, acc, rest) => if is_GeneratorExit e then [ORaise e] else undo_ref (undo acc) (CExc e) rest
    | Some (TFuel, _, _) => [OFuel]
    end.

  Definition stage_ref (roots : list dev) := paired_ref (stage_do roots) (fun _ => stage_undo roots).
  Definition suspend_ref (susps : list nat) :=
    paired_ref (LPStart (install_msgs susps) None) (fun _ => LPStart (remove_msgs susps) None).
  Definition subs_ref (subs : list (nat * nat)) := paired_ref (LPStart (subscribe_msgs subs) None) unsubscribe_plan.

  Definition ret_obs (uid : val) (o : obs) : obs := match o with OReturn _ => OReturn uid | _ => o end.

  (* what follows the wrapped plan in run_wrapper: close_run() after a return, close_run(status of e) after an
     Exception kind, nothing after anything else *)
  Definition run_next (_ : unit) (t : term) : option (rplan * completion) :=
    match t with
    | TRet v => Some (close_plan (VClose None None), CRet v)
    | TExc e =>
        if is_GeneratorExit e then None
        else if is_Exception e then Some (close_plan (close_view e), CExc e) else None
    | TFuel => None
    end.

  (* run_wrapper after the Send None that produced Msg('open_run') *)
  Definition run_ref (p : P) (s : list input) : list obs :=
    match s with
    | [] => []
    | Send uid :: rest =>
        map (ret_obs uid) (s2_ref r_resume no_store r_resume run_next (RPlan p) (Send VNone :: rest))
    | Throw e :: _ => [ORaise e]
    | Close :: _ => [OClosed]
    end.
End PairedWrappers.

Arguments WBody {P} s.
Arguments WList {P} l.
Arguments RPlan {P} p.
Arguments RClose {P} l.
Arguments RwStart {P} p.
Arguments RwOpen {P} p.
Arguments RwCont {P} uid ph.
