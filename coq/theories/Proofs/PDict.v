(* Proofs for C43 (model: Pure/PDict.v): the two-level ordered implementation refines the
   plain-map specification, for every history. *)
From BV Require Import Base.Prelude Pure.PDict.
From Coq Require Import NArith.
Local Open Scope N_scope.

Definition keys (m : amap) : list key := map fst m.

(* ---- lookups through the list operations ---------------------------------------- *)
Lemma lookup_in_keys : forall k m, lookup k m <> None <-> In k (keys m).
Proof.
  intros k m. induction m as [|[k' v] r IH]; cbn.
  - split; [congruence | intros []].
  - destruct (N.eqb_spec k' k) as [E|E].
    + subst. split; [now left | discriminate].
    + rewrite IH. split; [now right | intros [X|X]; [contradiction | exact X]].
Qed.

Lemma lookup_none_notin : forall k m, lookup k m = None <-> ~ In k (keys m).
Proof.
  intros k m. rewrite <- lookup_in_keys. destruct (lookup k m); split; try congruence.
  intros H. exfalso. apply H. discriminate.
Qed.

Lemma lookup_remove : forall x k m, lookup x (remove k m) = if N.eqb x k then None else lookup x m.
Proof.
  intros x k m. induction m as [|[k' v] r IH]; cbn.
  - now destruct (N.eqb x k).
  - destruct (N.eqb_spec k' k) as [E|E].
    + subst k'. rewrite IH. destruct (N.eqb_spec x k) as [E2|E2]; [reflexivity|].
      destruct (N.eqb_spec k x); [congruence | reflexivity].
    + cbn. destruct (N.eqb_spec k' x) as [E2|E2].
      * subst k'. destruct (N.eqb_spec x k); [congruence | reflexivity].
      * exact IH.
Qed.

Lemma lookup_dict_set : forall x k v m, lookup x (dict_set k v m) = if N.eqb x k then Some v else lookup x m.
Proof.
  intros x k v m. induction m as [|[k' v'] r IH]; cbn.
  - rewrite (N.eqb_sym k x). reflexivity.
  - destruct (N.eqb_spec k' k) as [E|E]; cbn.
    + subst k'. rewrite (N.eqb_sym k x). destruct (N.eqb x k); reflexivity.
    + destruct (N.eqb_spec k' x) as [E2|E2].
      * subst k'. destruct (N.eqb_spec x k); [congruence | reflexivity].
      * exact IH.
Qed.

Lemma lookup_app : forall x a b, lookup x (a ++ b) = match lookup x a with Some v => Some v | None => lookup x b end.
Proof.
  intros x a b. induction a as [|[k v] r IH]; cbn; [reflexivity|]. destruct (N.eqb k x); [reflexivity | exact IH].
Qed.

Lemma lookup_file_set : forall x k v m, lookup x (file_set k v m) = if N.eqb x k then Some v else lookup x m.
Proof.
  intros x k v m. unfold file_set. rewrite lookup_app, lookup_remove. cbn. rewrite (N.eqb_sym k x).
  destruct (N.eqb x k); [reflexivity|]. destruct (lookup x m); reflexivity.
Qed.

Lemma lookup_reorder : forall order x m, lookup x (reorder order m) = lookup x m.
Proof.
  induction order as [|k r IH]; intros x m; cbn; [reflexivity|].
  destruct (lookup k m) as [v|] eqn:E; [|apply IH]. cbn.
  destruct (N.eqb_spec k x) as [E2|E2].
  - subst. now rewrite E.
  - rewrite IH, lookup_remove. destruct (N.eqb_spec x k); [congruence | reflexivity].
Qed.

(* ---- no duplicate keys ------------------------------------------------------------ *)
Definition nodup (m : amap) : Prop := NoDup (keys m).

Lemma NoDup_snoc : forall (l : list key) k, NoDup l -> ~ In k l -> NoDup (l ++ [k]).
Proof.
  induction l as [|a l IH]; intros k H HN; cbn.
  - constructor; [intros [] | constructor].
  - inversion H; subst. constructor.
    + intros X. apply in_app_or in X as [X|[X|[]]]; [contradiction | subst; apply HN; now left].
    + apply IH; [assumption | intros X; apply HN; now right].
Qed.

Lemma keys_remove_in : forall x k m, In x (keys (remove k m)) -> In x (keys m) /\ x <> k.
Proof.
  intros x k m H. apply lookup_in_keys in H. rewrite lookup_remove in H.
  destruct (N.eqb_spec x k); [congruence|]. split; [now apply lookup_in_keys | assumption].
Qed.

Lemma nodup_remove : forall k m, nodup m -> nodup (remove k m).
Proof.
  intros k m. unfold nodup. induction m as [|[k' v] r IH]; cbn; intros H; [constructor|].
  inversion H; subst. destruct (N.eqb k' k); [now apply IH|]. cbn. constructor; [|now apply IH].
  intros X. apply keys_remove_in in X as [X _]. contradiction.
Qed.

Lemma nodup_dict_set : forall k v m, nodup m -> nodup (dict_set k v m).
Proof.
  intros k v m. unfold nodup. induction m as [|[k' v'] r IH]; cbn; intros H.
  - constructor; [intros [] | constructor].
  - inversion H; subst. destruct (N.eqb_spec k' k) as [E|E]; cbn.
    + constructor; assumption.
    + constructor; [|now apply IH]. intros X. apply lookup_in_keys in X. rewrite lookup_dict_set in X.
      destruct (N.eqb_spec k' k); [congruence|]. apply lookup_in_keys in X. contradiction.
Qed.

Lemma nodup_file_set : forall k v m, nodup m -> nodup (file_set k v m).
Proof.
  intros k v m H. unfold nodup, file_set, keys. rewrite map_app. cbn. apply NoDup_snoc.
  - now apply nodup_remove.
  - intros X. apply keys_remove_in in X as [_ X]. congruence.
Qed.

Lemma nodup_reorder : forall order m, nodup m -> nodup (reorder order m).
Proof.
  induction order as [|k r IH]; intros m H; cbn; [exact H|].
  destruct (lookup k m) as [v|] eqn:E; [|now apply IH]. unfold nodup. cbn. constructor.
  - intros X. apply lookup_in_keys in X. rewrite lookup_reorder, lookup_remove, N.eqb_refl in X. congruence.
  - apply IH. now apply nodup_remove.
Qed.

(* dict.popitem on a duplicate-free dict: the pair it returns was the binding of that key, and
   what is left is the dict without it *)
Lemma pop_last_some : forall m k v c, nodup m -> pop_last m = Some (k, v, c) ->
  lookup k m = Some v /\ (forall x, lookup x c = if N.eqb x k then None else lookup x m) /\ nodup c
  /\ length m = S (length c).
Proof.
  intros m k v c H E. unfold pop_last in E. destruct (rev m) as [|[k' v'] r] eqn:Er; [discriminate|].
  inversion E; subst. assert (Em : m = rev r ++ [(k, v)]).
  { rewrite <- (rev_involutive m), Er. reflexivity. }
  subst m. unfold nodup, keys in H. rewrite map_app in H. cbn in H.
  apply NoDup_remove in H as [H1 H2]. rewrite app_nil_r in *.
  assert (L : lookup k (rev r) = None) by (apply lookup_none_notin; exact H2).
  repeat split.
  - rewrite lookup_app, L. cbn. now rewrite N.eqb_refl.
  - intros x. rewrite lookup_app. destruct (N.eqb_spec x k) as [E2|E2].
    + now subst.
    + cbn. destruct (N.eqb_spec k x); [congruence|]. destruct (lookup x (rev r)); reflexivity.
  - exact H1.
  - rewrite app_length. cbn. lia.
Qed.

Lemma pop_last_none : forall m, pop_last m = None -> m = [].
Proof.
  intros m E. unfold pop_last in E. destruct (rev m) as [|[k v] r] eqn:Er; [|discriminate].
  rewrite <- (rev_involutive m), Er. reflexivity.
Qed.

(* ---- the refinement relation --------------------------------------------------------- *)
Record R (s : st) (p : sp) : Prop := mk_R {
  R_cache : forall k, lookup k (cache s) = cur p k;
  R_disk : forall k, lookup k (disk s) = wr p k;
  R_nd_cache : nodup (cache s);
  R_nd_disk : nodup (disk s);
  R_dom : forall k, cur p k = None <-> wr p k = None
}.

Lemma R_init : R init sp_init.
Proof. constructor; cbn; try reflexivity; try constructor; intros; reflexivity. Qed.

Lemma R_set : forall s p k v, R s p -> R (do_set s k v) (sp_set p k v).
Proof.
  intros s p k v [Hc Hd Nc Nd Dom]. constructor; cbn.
  - intros x. rewrite lookup_dict_set, Hc. reflexivity.
  - intros x. rewrite lookup_file_set, Hd. reflexivity.
  - now apply nodup_dict_set.
  - now apply nodup_file_set.
  - intros x. unfold fupd. destruct (N.eqb x k); [split; discriminate | apply Dom].
Qed.

Lemma R_del_present : forall s p k v, R s p -> cur p k = Some v ->
  do_del s k = (mk_st (remove k (disk s)) (remove k (cache s)), ROk)
  /\ R (mk_st (remove k (disk s)) (remove k (cache s))) (sp_del p k).
Proof.
  intros s p k v [Hc Hd Nc Nd Dom] E. split.
  - unfold do_del. rewrite Hc, E. rewrite Hd. destruct (wr p k) eqn:Ew; [reflexivity|].
    apply Dom in Ew. congruence.
  - constructor; cbn.
    + intros x. rewrite lookup_remove, Hc. reflexivity.
    + intros x. rewrite lookup_remove, Hd. reflexivity.
    + now apply nodup_remove.
    + now apply nodup_remove.
    + intros x. unfold fdel. destruct (N.eqb x k); [tauto | apply Dom].
Qed.

Lemma R_popitem : forall s p, R s p ->
  let '(s', r) := do_popitem s in R s' (spec_step p OPopItem r) /\ spec_res p OPopItem r
  /\ (r <> RKeyError -> length (cache s) = S (length (cache s'))) /\ (r = RKeyError -> cache s = []).
Proof.
  intros s p HR. pose proof HR as [Hc Hd Nc Nd Dom]. unfold do_popitem.
  destruct (pop_last (cache s)) as [[[k v] c]|] eqn:E.
  - destruct (pop_last_some _ _ _ _ Nc E) as [L [Lc [Ncc Len]]].
    assert (Ck : cur p k = Some v) by (now rewrite <- Hc).
    rewrite Hd. destruct (wr p k) eqn:Ew; [|apply Dom in Ew; congruence].
    repeat split; cbn; try assumption; try congruence.
    + intros x. rewrite Lc, Hc. reflexivity.
    + intros x. rewrite lookup_remove, Hd. reflexivity.
    + now apply nodup_remove.
    + unfold fdel. destruct (N.eqb k0 k); [tauto | apply Dom].
    + unfold fdel. destruct (N.eqb k0 k); [tauto | apply Dom].
  - apply pop_last_none in E. repeat split; cbn; try assumption; try congruence; try apply Dom.
    intros k. rewrite <- Hc, E. reflexivity.
Qed.

Lemma R_clear : forall n s p, R s p -> length (cache s) = n ->
  R (do_clear n s) (mk_sp fempty fempty).
Proof.
  induction n as [|n IH]; intros s p HR Len; cbn.
  - destruct HR as [Hc Hd Nc Nd Dom]. destruct (cache s) eqn:Ec; [|discriminate].
    assert (W : forall k, wr p k = None) by (intros k; apply Dom; rewrite <- Hc; reflexivity).
    constructor; cbn; try assumption; try tauto.
    + rewrite Ec. reflexivity.
    + intros k. rewrite Hd. apply W.
    + rewrite Ec. constructor.
  - pose proof (R_popitem s p HR) as X. destruct (do_popitem s) as [s' r].
    destruct X as [HR' [_ [L1 L2]]]. destruct r.
    + apply (IH s' _ HR'). specialize (L1 ltac:(discriminate)). lia.
    + specialize (L2 eq_refl). rewrite L2 in Len. discriminate.
    + apply (IH s' _ HR'). specialize (L1 ltac:(discriminate)). lia.
    + apply (IH s' _ HR'). specialize (L1 ltac:(discriminate)). lia.
    + apply (IH s' _ HR'). specialize (L1 ltac:(discriminate)). lia.
Qed.

Lemma lookup_sync : forall items d x, nodup items ->
  lookup x (fold_left (fun d kv => file_set (fst kv) (snd kv) d) items d)
  = match lookup x items with Some v => Some v | None => lookup x d end.
Proof.
  induction items as [|[k v] r IH]; intros d x H; cbn; [reflexivity|].
  unfold nodup in H. cbn in H. inversion H; subst. rewrite IH by assumption.
  destruct (N.eqb_spec k x) as [E|E].
  - subst. assert (L : lookup x r = None) by (now apply lookup_none_notin). rewrite L.
    rewrite lookup_file_set, N.eqb_refl. reflexivity.
  - destruct (lookup x r); [reflexivity|]. rewrite lookup_file_set.
    destruct (N.eqb_spec x k); [congruence | reflexivity].
Qed.

Lemma nodup_sync : forall items d, nodup d ->
  nodup (fold_left (fun d kv => file_set (fst kv) (snd kv) d) items d).
Proof. induction items as [|[k v] r IH]; intros d H; cbn; [exact H|]. apply IH. now apply nodup_file_set. Qed.

Lemma R_sync : forall s p, R s p -> R (sync s) (mk_sp (cur p) (fover (cur p) (wr p))).
Proof.
  intros s p [Hc Hd Nc Nd Dom]. constructor; cbn; try assumption.
  - intros k. rewrite lookup_sync by assumption. unfold fover. rewrite Hc, Hd. reflexivity.
  - now apply nodup_sync.
  - intros k. unfold fover. destruct (cur p k) eqn:E; [split; discriminate|]. split; [intros _; now apply Dom | reflexivity].
Qed.

Lemma fover_dom : forall p, (forall k, cur p k = None <-> wr p k = None) -> forall k, fover (cur p) (wr p) k = cur p k.
Proof. intros p Dom k. unfold fover. destruct (cur p k) eqn:E; [reflexivity|]. now apply Dom. Qed.

Lemma R_update : forall kvs s p, R s p ->
  R (fold_left (fun s kv => do_set s (fst kv) (snd kv)) kvs s)
    (fold_left (fun s kv => sp_set s (fst kv) (snd kv)) kvs p).
Proof. induction kvs as [|[k v] r IH]; intros s p H; cbn; [exact H|]. apply IH. now apply R_set. Qed.

Lemma R_reopen : forall s w order, (forall k, lookup k (disk s) = w k) -> nodup (disk s) ->
  R (mk_st (reorder order (disk s)) (reorder order (disk s))) (mk_sp w w).
Proof.
  intros s w order H N. constructor; cbn; try tauto.
  - intros k. now rewrite lookup_reorder.
  - intros k. now rewrite lookup_reorder.
  - now apply nodup_reorder.
  - now apply nodup_reorder.
Qed.

(* one operation: the relation is kept and the answer is the specified one *)
Theorem step_refines : forall s p o, R s p ->
  let '(s', r) := step s o in R s' (spec_step p o r) /\ spec_res p o r.
Proof.
  intros s p o HR. pose proof HR as [Hc Hd Nc Nd Dom]. destruct o; cbn [step spec_step spec_res].
  - (* set *) split; [now apply R_set | reflexivity].
  - (* del *) destruct (cur p k) as [v|] eqn:E.
    + destruct (R_del_present s p k v HR E) as [E1 E2]. rewrite E1. split; [exact E2 | reflexivity].
    + unfold do_del. rewrite Hc, E. split; [exact HR | reflexivity].
  - (* pop *) rewrite Hc. destruct (cur p k) as [v|] eqn:E.
    + destruct (R_del_present s p k v HR E) as [E1 E2]. rewrite E1. split; [exact E2 | reflexivity].
    + split; [exact HR | reflexivity].
  - (* pop with default *) rewrite Hc. destruct (cur p k) as [v|] eqn:E.
    + destruct (R_del_present s p k v HR E) as [E1 E2]. rewrite E1. split; [exact E2 | reflexivity].
    + split; [exact HR | reflexivity].
  - (* popitem *) pose proof (R_popitem s p HR) as X. destruct (do_popitem s) as [s' r]. tauto.
  - (* clear *) split; [now apply (R_clear _ s p) | reflexivity].
  - (* update *) split; [now apply R_update | reflexivity].
  - (* setdefault *) rewrite Hc. destruct (cur p k) as [v'|] eqn:E.
    + split; [exact HR | reflexivity].
    + split; [now apply R_set | reflexivity].
  - (* get *) rewrite Hc. destruct (cur p k); (split; [exact HR | reflexivity]).
  - (* flush *) split; [now apply R_sync | reflexivity].
  - (* reload *) split; [|reflexivity]. constructor; cbn; try assumption; tauto.
  - (* mutate *) rewrite Hc. destruct (cur p k) as [old|] eqn:E.
    + destruct (compat old v); (split; [|reflexivity]); [|exact HR].
      constructor; cbn; try assumption.
      * intros x. rewrite lookup_dict_set, Hc. reflexivity.
      * now apply nodup_dict_set.
      * intros x. unfold fupd. destruct (N.eqb_spec x k) as [E2|E2]; [|apply Dom].
        subst. split; [discriminate|]. intros W. apply Dom in W. congruence.
    + split; [exact HR | reflexivity].
  - (* reopen *) split; [|reflexivity]. destruct graceful.
    + pose proof (R_sync s p HR) as [_ Hd' _ Nd' _]. cbn in Hd'. now apply R_reopen.
    + now apply R_reopen.
Qed.

Fixpoint results_ok (p : sp) (h : list op) (rs : list res) : Prop :=
  match h, rs with
  | o :: h', r :: rs' => spec_res p o r /\ results_ok (spec_step p o r) h' rs'
  | [], [] => True
  | _, _ => False
  end.

Theorem run_refines : forall h s p, R s p ->
  let '(s', rs) := run s h in R s' (spec_run p h rs) /\ results_ok p h rs.
Proof.
  induction h as [|o h IH]; intros s p HR; cbn.
  - tauto.
  - pose proof (step_refines s p o HR) as X. destruct (step s o) as [s1 r]. destruct X as [HR1 Hr].
    pose proof (IH s1 _ HR1) as Y. destruct (run s1 h) as [s2 rs]. cbn. tauto.
Qed.

(* the property, from an empty directory: after any history (which may itself contain reopen
   points of both kinds), reopening yields exactly the specification's state -- the current
   values when the old instance was collected, the last written values when it was not *)
Theorem reopen_last_written : forall h g order,
  let '(s, rs) := run init h in
  let p := spec_run sp_init h rs in
  let s' := fst (step s (OReopen g order)) in
  forall k, lookup k (cache s') = (if g then cur p k else wr p k) /\ lookup k (disk s') = lookup k (cache s').
Proof.
  intros h g order. pose proof (run_refines h init sp_init R_init) as X.
  destruct (run init h) as [s rs]. destruct X as [HR _]. intros p s' k.
  pose proof (step_refines s p (OReopen g order) HR) as Y. fold p in HR. subst s'.
  destruct (step s (OReopen g order)) as [s1 r]. destruct Y as [[Hc Hd _ _ _] _]. cbn [fst].
  cbn [spec_step cur wr] in Hc, Hd. rewrite Hc, Hd. split; [|reflexivity].
  destruct g; [|reflexivity]. apply fover_dom. apply (R_dom _ _ HR).
Qed.

(* ---- "most recently": operations that do not touch a key leave its written value alone ---- *)
Definition touches (k : key) (o : op) (r : res) : bool :=
  match o with
  | OSet k' _ | ODel k' | OPop k' | OPopD k' _ | OSetDefault k' _ => N.eqb k' k
  | OPopItem => match r with RPair k' _ => N.eqb k' k | _ => false end
  | OClear | OFlush => true
  | OUpdate kvs => existsb (fun kv => N.eqb (fst kv) k) kvs
  | OGet _ | OReload | OMutate _ _ => false
  | OReopen graceful _ => graceful
  end.

Lemma wr_update_untouched : forall kvs p k, existsb (fun kv => N.eqb (fst kv) k) kvs = false ->
  wr (fold_left (fun s kv => sp_set s (fst kv) (snd kv)) kvs p) k = wr p k.
Proof.
  induction kvs as [|[k' v] r IH]; intros p k H; cbn in *; [reflexivity|].
  apply orb_false_iff in H as [H1 H2]. rewrite IH by exact H2. cbn. unfold fupd.
  rewrite N.eqb_sym, H1. reflexivity.
Qed.

Theorem untouched_step : forall p o r k, touches k o r = false -> wr (spec_step p o r) k = wr p k.
Proof.
  intros p o r k H. destruct o; cbn in *; try discriminate; try reflexivity.
  - unfold fupd. now rewrite N.eqb_sym, H.
  - destruct (cur p k0); [|reflexivity]. cbn. unfold fdel. now rewrite N.eqb_sym, H.
  - destruct (cur p k0); [|reflexivity]. cbn. unfold fdel. now rewrite N.eqb_sym, H.
  - destruct (cur p k0); [|reflexivity]. cbn. unfold fdel. now rewrite N.eqb_sym, H.
  - destruct r; try reflexivity. cbn. unfold fdel. now rewrite N.eqb_sym, H.
  - now apply wr_update_untouched.
  - destruct (cur p k0); [reflexivity|]. cbn. unfold fupd. now rewrite N.eqb_sym, H.
  - destruct (cur p k0); [|reflexivity]. destruct (compat v0 v); reflexivity.
  - subst. reflexivity.
Qed.

Fixpoint untouched (k : key) (h : list op) (rs : list res) : bool :=
  match h, rs with
  | o :: h', r :: rs' => negb (touches k o r) && untouched k h' rs'
  | _, _ => true
  end.

Theorem untouched_run : forall h rs p k, untouched k h rs = true -> wr (spec_run p h rs) k = wr p k.
Proof.
  induction h as [|o h IH]; intros rs p k H; [reflexivity|]. destruct rs as [|r rs]; [reflexivity|].
  cbn in *. apply andb_true_iff in H as [H1 H2]. apply negb_true_iff in H1.
  rewrite IH by exact H2. now apply untouched_step.
Qed.

