(* C23: monitor_during / fly_during for ARBITRARY scripts.  plan_mutator with a list-inserting processor is the
   expansion [exp_resume] (Gen/During.v) for every input kind: proved on C21's reference semantics (InsertSpec,
   typed frames, no caches) and transported to the plan_mutator machine by C21's simulation [lresume_sim]. *)
From BV Require Import Base.Prelude Gen.Coalg Gen.Mutators Gen.InsertSpec Gen.Paired Gen.During.
From BV Require Import Proofs.Coalg Proofs.InsertSpec Proofs.Paired Proofs.During.

Section LayerFull.
  Context {Q : Type}.
  Variable qres : Q -> input -> outcome Q.
  Variable is_status : val -> bool.
  Variable ins : msg -> option (list msg) * option (list msg).
  Hypothesis ins_inserted :
    forall m a, In a (olist (fst (ins m)) ++ olist (snd (ins m))) -> ins a = (None, None).

  Notation dres := (dp_resume qres is_status).
  Notation proc := (list_proc ins).
  Notation cleanl := (clean ins).

  Definition tail_fr (n : nat) (post : option (list msg)) : option (nat * pent (@dplan Q)) :=
    option_map (fun t => (S n, EPlan t)) (option_map (fun l => DList (LPStart l None)) post).
  Definition hostF (q : Q) : sframe (@dplan Q) := mkFr 0 (EPlan (DHostP q)) RHost.
  Definition listF (n : nat) (todo : list msg) (acc : list val) (r : role (@dplan Q)) : sframe (@dplan Q) :=
    mkFr n (EPlan (DList (LPAt todo acc None))) r.

  Inductive RI : @is_state (@dplan Q) unit -> @estate Q -> Prop :=
    | RI_start q : RI (ISStart (DHostP q) tt) (EStart q)
    | RI_host q seen rv k m : RI (ISRun (mkIS seen [hostF q] rv k tt) m) (EOwn q seen None)
    | RI_single q seen post rv n k m :
        cleanl post ->
        RI (ISRun (mkIS seen [mkFr n ESingle1 (RHead (tail_fr n (Some post))); hostF q] rv k tt) m) (EOwn q seen (Some post))
    | RI_pre q seen todo m0 post acc rv n k m :
        cleanl todo -> cleanl (olist post) -> mem_nat m0 seen = true ->
        RI (ISRun (mkIS seen [listF n (todo ++ [m0]) acc (RHead (tail_fr n post)); hostF q] rv k tt) m) (EPre q seen todo m0 post)
    | RI_own q seen post acc rv n k m :
        cleanl (olist post) ->
        RI (ISRun (mkIS seen [listF n [] acc (RHead (tail_fr n post)); hostF q] rv k tt) m) (EOwn q seen post)
    | RI_post q seen todo saved acc rv t k m :
        cleanl todo ->
        RI (ISRun (mkIS seen [listF t todo acc (RTail saved); hostF q] rv k tt) m) (EPost q seen todo saved).

  Lemma is_loop_S :
    forall f (st : @is_run (@dplan Q) unit) pend log,
      is_loop dres proc (S f) st pend log =
      match is_iter dres proc st pend with
      | JCont st' pend' calls => is_loop dres proc f st' pend' (log ++ calls)
      | JOut o calls => (o, log ++ calls)
      end.
  Proof. reflexivity. Qed.

  Lemma on_msg_clean :
    forall (st : @is_run (@dplan Q) unit) a calls, ins a = (None, None) ->
      on_msg proc st a calls =
      JOut (Yielded a (ISRun (mkIS (e_mark a (s_seen st)) (s_frames st) (s_retv st) (s_next st) (s_ps st)) a)) calls.
  Proof.
    intros st a calls H. unfold on_msg, e_mark. destruct (mem_nat a (s_seen st)).
    - destruct st; reflexivity.
    - unfold list_proc. rewrite H. cbn. destruct st. destruct s_ps. reflexivity.
  Qed.

  Lemma on_msg_seen :
    forall (st : @is_run (@dplan Q) unit) a calls, mem_nat a (s_seen st) = true ->
      on_msg proc st a calls = JOut (Yielded a (ISRun st a)) calls.
  Proof. intros st a calls H. unfold on_msg. now rewrite H. Qed.

  (* the host is the only frame and receives [pend] (a send, or a thrown exception) *)
  Lemma host_full :
    forall fuel q seen pend rv k log, pend <> Close ->
      out_rel RI (fst (is_loop dres proc (4 + fuel) (mkIS seen [hostF q] rv k tt) pend log))
                 (e_host ins seen (qres q pend)).
  Proof.
    intros fuel q seen pend rv k log Hc.
    cbn [Nat.add]. rewrite is_loop_S. unfold is_iter, hostF. cbn [s_frames f_ent f_id f_role ent_resume dp_resume].
    destruct (qres q pend) as [m q'|v|e|]; cbn [map_outcome e_host].
    - unfold on_msg, with_frames. cbn [s_seen s_ps s_next s_retv s_frames].
      destruct (mem_nat m seen) eqn:Hs.
      + cbn. split; [reflexivity|]. constructor.
      + unfold list_proc. destruct (ins m) as [[pre|] post] eqn:Hi; cbn [option_map].
        * destruct (clean_ins_pre ins ins_inserted m pre post Hi) as [Cpre Cpost].
          rewrite is_loop_S. unfold is_iter. cbn [s_frames f_ent f_id f_role ent_resume dp_resume lp_resume].
          destruct pre as [|a pre']; cbn [app lp_advance map_outcome e_pre].
          -- unfold with_frames. cbn [s_seen s_ps s_next s_retv s_frames].
             rewrite on_msg_seen by apply mem_nat_head. cbn. split; [reflexivity|].
             apply (RI_own q' (m :: seen) post [] rv k (S (S k)) m Cpost).
          -- inversion Cpre as [|? ? Ha Cpre']; subst. unfold with_frames. cbn [s_seen s_ps s_next s_retv s_frames].
             rewrite (on_msg_clean _ a _ Ha). cbn. split; [reflexivity|].
             apply (RI_pre q' (e_mark a (m :: seen)) pre' m post [] rv k (S (S k)) a Cpre' Cpost).
             apply mem_nat_mark, mem_nat_head.
        * destruct post as [post|]; cbn [option_map].
          -- pose proof (clean_ins_post ins ins_inserted m (Some post) Hi) as Cpost.
             rewrite is_loop_S. unfold is_iter. cbn [s_frames f_ent f_id f_role ent_resume].
             unfold with_frames. cbn [s_seen s_ps s_next s_retv s_frames].
             rewrite on_msg_seen by apply mem_nat_head. cbn. split; [reflexivity|].
             now apply RI_single.
          -- cbn. split; [reflexivity|]. constructor.
    - unfold on_return. cbn. reflexivity.
    - destruct (is_Exception e); unfold on_raise; cbn; try reflexivity; destruct pend; cbn; reflexivity.
    - reflexivity.
  Qed.

  (* a tail generator is on top, about to receive x; it will go through [todo] *)
  Lemma post_full :
    forall fuel q seen (l : lplan) todo acc' saved x rv t k log,
      cleanl todo -> lp_resume is_status l (Send x) = lp_advance is_status todo acc' None ->
      out_rel RI
        (fst (is_loop dres proc (6 + fuel) (mkIS seen [mkFr t (EPlan (DList l)) (RTail saved); hostF q] rv k tt) (Send x) log))
        (e_post qres ins q seen todo saved).
  Proof.
    intros fuel q seen l todo acc' saved x rv t k log Hc Hl.
    cbn [Nat.add]. rewrite is_loop_S. unfold is_iter. cbn [s_frames f_ent f_id f_role ent_resume dp_resume].
    rewrite Hl. destruct todo as [|a todo']; cbn [lp_advance map_outcome e_post].
    - unfold on_return. cbn [f_role s_seen s_retv s_next s_ps passed_on].
      apply (host_full (1 + fuel)). discriminate.
    - inversion Hc as [|? ? Ha Hc']; subst. unfold with_frames. cbn [s_seen s_ps s_next s_retv s_frames f_id f_role].
      rewrite (on_msg_clean _ a _ Ha). cbn. split; [reflexivity|]. now apply RI_post.
  Qed.

  (* the head generator on top has just returned w, having been sent v *)
  Lemma head_done_full :
    forall fuel q seen post w v rv n k (hd : pent (@dplan Q)) log0 log,
      cleanl (olist post) ->
      out_rel RI
        (fst (match on_return (mkIS seen [mkFr n hd (RHead (tail_fr n post)); hostF q] rv k tt)
                              (mkFr n hd (RHead (tail_fr n post))) [hostF q] w (Send v) log with
              | JCont st' pend' calls => is_loop dres proc (7 + fuel) st' pend' (log0 ++ calls)
              | JOut o calls => (o, log0 ++ calls)
              end))
        (match post with Some l => e_post qres ins q seen l v | None => e_host ins seen (qres q (Send v)) end).
  Proof.
    intros fuel q seen post w v rv n k hd log0 log Hc. unfold on_return.
    destruct post as [l|]; cbn [tail_fr option_map f_role passed_on s_seen s_retv s_next s_ps].
    - apply (post_full (1 + fuel) q seen (LPStart l None) l [] v VNone); auto.
    - apply (host_full (3 + fuel)). discriminate.
  Qed.

  Lemma close_result_map :
    forall A B (f : A -> B) (o : outcome A), close_result (map_outcome f o) = close_result o.
  Proof. intros A B f [m a|v|e|]; reflexivity. Qed.

  (* close() / GeneratorExit kinds with a list plan (or single_gen) on top of the host *)
  Lemma close_two :
    forall seen top q rv k e,
      (exists n todo acc r, top = listF n todo acc r) \/ (exists n r, top = mkFr n ESingle1 r) ->
      out_rel RI (fst (is_generator_exit dres (mkIS seen [top; hostF q] rv k tt) e)) (e_close qres q e).
  Proof.
    intros seen top q rv k e Ht. unfold is_generator_exit, e_close. cbn [s_frames map rev app close_all f_id f_ent hostF].
    cbn [ent_resume dp_resume]. rewrite !close_result_map.
    destruct (close_result (qres q Close)); cbn; try reflexivity.
    destruct Ht as [(n & todo & acc & r & ->)|(n & r & ->)]; cbn; reflexivity.
  Qed.

  Lemma close_one :
    forall seen q rv k e,
      out_rel RI (fst (is_generator_exit dres (mkIS seen [hostF q] rv k tt) e)) (e_close qres q e).
  Proof.
    intros seen q rv k e. unfold is_generator_exit, e_close. cbn [s_frames map rev app close_all f_id f_ent hostF].
    cbn [ent_resume dp_resume]. rewrite !close_result_map.
    destruct (close_result (qres q Close)); cbn; reflexivity.
  Qed.

  (* a thrown Exception kind while an inserted generator is on top: it dies, the host gets the exception *)
  Lemma throw_two :
    forall fuel seen top q rv k e log,
      is_Exception e = true ->
      (exists n todo acc r, top = listF n todo acc r) \/ (exists n r, top = mkFr n ESingle1 r) ->
      out_rel RI (fst (is_loop dres proc (6 + fuel) (mkIS seen [top; hostF q] rv k tt) (Throw e) log))
                 (e_host ins seen (qres q (Throw e))).
  Proof.
    intros fuel seen top q rv k e log He Ht.
    cbn [Nat.add]. rewrite is_loop_S. unfold is_iter. cbn [s_frames].
    assert (E : ent_resume dres (f_ent top) (Throw e) = Raised e).
    { destruct Ht as [(n & todo & acc & r & ->)|(n & r & ->)]; reflexivity. }
    rewrite E, He. unfold on_raise, with_frames. cbn [s_seen s_retv s_next s_ps].
    apply (host_full (1 + fuel)). discriminate.
  Qed.

  Theorem layer_full_step :
    forall x y, RI x y -> forall i fuel,
      out_rel RI (fst (is_lresume dres proc (8 + fuel) x i)) (exp_resume qres ins y i).
  Proof.
    intros x y H i fuel. unfold is_lresume.
    destruct H as [q|q seen rv k m|q seen post rv n k m Hc|q seen todo m0 post acc rv n k m Hct Hcp Hm
                   |q seen post acc rv n k m Hc|q seen todo saved acc rv t k m Hc].
    - (* not started *)
      destruct i as [[|z]|e|]; cbn [exp_resume]; try (cbn; reflexivity).
      apply (host_full (4 + fuel)). discriminate.
    - (* the wrapped plan's own message is out, nothing inserted around it *)
      destruct i as [v|e|]; cbn [exp_resume e_host_of s_frames].
      + apply (host_full (4 + fuel)). discriminate.
      + destruct (is_GeneratorExit e); [apply close_one|].
        destruct (is_Exception e); [|cbn; reflexivity].
        apply (host_full (4 + fuel)). discriminate.
      + apply close_one.
    - (* single_gen(m) with a tail *)
      destruct i as [v|e|]; cbn [exp_resume e_host_of s_frames].
      + change (8 + fuel) with (S (7 + fuel)). rewrite is_loop_S. unfold is_iter. cbn [s_frames f_ent ent_resume].
        apply (head_done_full fuel q seen (Some post) v v rv n k ESingle1 [] [Call n (Send v)]). exact Hc.
      + destruct (is_GeneratorExit e); [apply close_two; right; eauto|].
        destruct (is_Exception e) eqn:He; [|cbn; reflexivity].
        apply (throw_two (2 + fuel)); [exact He|right; eauto].
      + apply close_two; right; eauto.
    - (* a message inserted before m0 is out *)
      destruct i as [v|e|]; cbn [exp_resume e_host_of s_frames].
      + cbn [Nat.add]. rewrite is_loop_S. unfold is_iter, listF. cbn [s_frames f_ent f_id f_role ent_resume dp_resume lp_resume].
        destruct todo as [|a todo']; cbn [app lp_advance map_outcome e_pre]; unfold with_frames; cbn [s_seen s_ps s_next s_retv s_frames].
        * rewrite on_msg_seen by exact Hm. cbn. split; [reflexivity|]. now apply RI_own.
        * inversion Hct as [|? ? Ha Hct']; subst.
          rewrite (on_msg_clean _ a _ Ha). cbn. split; [reflexivity|].
          apply RI_pre; auto. now apply mem_nat_mark.
      + destruct (is_GeneratorExit e); [apply close_two; left; unfold listF; eauto|].
        destruct (is_Exception e) eqn:He; [|cbn; reflexivity].
        apply (throw_two (2 + fuel)); [exact He|left; unfold listF; eauto].
      + apply close_two; left; unfold listF; eauto.
    - (* m itself, re-yielded by its head, is out *)
      destruct i as [v|e|]; cbn [exp_resume e_host_of s_frames].
      + change (8 + fuel) with (S (7 + fuel)). rewrite is_loop_S. unfold is_iter, listF.
        cbn [s_frames f_ent f_id f_role ent_resume dp_resume lp_resume lp_advance map_outcome].
        destruct post as [l|].
        * apply (head_done_full fuel q seen (Some l) VNone v rv n k _ [] [Call n (Send v)]). exact Hc.
        * apply (head_done_full fuel q seen None VNone v rv n k _ [] [Call n (Send v)]). exact Hc.
      + destruct post as [l|]; cbn [e_host_of];
          (destruct (is_GeneratorExit e); [apply close_two; left; unfold listF; eauto|]);
          (destruct (is_Exception e) eqn:He; [|cbn; reflexivity]);
          (apply (throw_two (2 + fuel)); [exact He|left; unfold listF; eauto]).
      + destruct post as [l|]; cbn [e_host_of]; apply close_two; left; unfold listF; eauto.
    - (* a message inserted after m is out *)
      destruct i as [v|e|]; cbn [exp_resume e_host_of s_frames].
      + apply (post_full (2 + fuel) q seen (LPAt todo acc None) todo (acc ++ [v]) saved v); auto.
      + destruct (is_GeneratorExit e); [apply close_two; left; unfold listF; eauto|].
        destruct (is_Exception e) eqn:He; [|cbn; reflexivity].
        apply (throw_two (2 + fuel)); [exact He|left; unfold listF; eauto].
      + apply close_two; left; unfold listF; eauto.
  Qed.
End LayerFull.

(* ------------------------------------------------------------------ composing simulations *)
Definition rcomp {A B C} (R1 : A -> B -> Prop) (R2 : B -> C -> Prop) : A -> C -> Prop :=
  fun a c => exists b, R1 a b /\ R2 b c.

Lemma out_rel_comp :
  forall A B C (R1 : A -> B -> Prop) (R2 : B -> C -> Prop) o1 o2 o3,
    out_rel R1 o1 o2 -> out_rel R2 o2 o3 -> out_rel (rcomp R1 R2) o1 o3.
Proof.
  intros A B C R1 R2 [m a|v|e|] [m2 b|v2|e2|] [m3 c|v3|e3|] H1 H2; cbn in *; try contradiction; try congruence; auto.
  destruct H1 as [-> H1], H2 as [-> H2]. split; [reflexivity|]. now exists b.
Qed.

Lemma out_rel_close_result :
  forall A B (R : A -> B -> Prop) o1 o2, out_rel R o1 o2 -> close_result o1 = close_result o2.
Proof. intros A B R [m a|v|e|] [m2 b|v2|e2|] H; cbn in *; try contradiction; try reflexivity. now subst. Qed.

(* the plan_mutator machine itself (C21: [lresume_sim] relates it to the reference for every input) *)
Section LayerMachine.
  Context {Q : Type}.
  Variable qres : Q -> input -> outcome Q.
  Variable is_status : val -> bool.
  Variable ins : msg -> option (list msg) * option (list msg).
  Hypothesis ins_inserted :
    forall m a, In a (olist (fst (ins m)) ++ olist (snd (ins m))) -> ins a = (None, None).

  Definition RL : @layer_state Q -> @estate Q -> Prop :=
    rcomp RY (RI ins).

  Lemma RL_init : forall q, RL (layer_init q) (EStart q).
  Proof. intros q. exists (is_init (DHostP q) tt). split; [cbn; auto|constructor]. Qed.

  Theorem layer_machine_step :
    forall a y, RL a y -> forall i fuel,
      out_rel RL (layer_resume qres is_status ins (8 + fuel) a i) (exp_resume qres ins y i).
  Proof.
    intros a y (b & H1 & H2) i fuel. unfold layer_resume, pm_resume.
    destruct (lresume_sim (dp_resume qres is_status) (list_proc ins) a b H1 (8 + fuel) i) as [_ Ho].
    eapply out_rel_comp; [exact Ho|].
    now apply layer_full_step.
  Qed.
End LayerMachine.

(* the expansion respects a change of host, for every input *)
Section ExpCongruenceFull.
  Context {Q1 Q2 : Type}.
  Variable res1 : Q1 -> input -> outcome Q1.
  Variable res2 : Q2 -> input -> outcome Q2.
  Variable ins : msg -> option (list msg) * option (list msg).
  Variable Rh : Q1 -> Q2 -> Prop.
  Hypothesis host_rel : forall a b, Rh a b -> forall i, out_rel Rh (res1 a i) (res2 b i).

  Notation REf := (RE Rh).

  Lemma e_close_rel : forall a b e, Rh a b -> out_rel REf (e_close res1 a e) (e_close res2 b e).
  Proof.
    intros a b e H. unfold e_close. rewrite (out_rel_close_result _ _ _ _ _ (host_rel a b H Close)).
    destruct (close_result (res2 b Close)); cbn; auto.
  Qed.

  Lemma exp_full_rel :
    forall x y, REf x y -> forall i, out_rel REf (exp_resume res1 ins x i) (exp_resume res2 ins y i).
  Proof.
    intros x y H i.
    assert (HS : forall v, out_rel REf (exp_resume res1 ins x (Send v)) (exp_resume res2 ins y (Send v))).
    { intros v. apply (exp_step_rel res1 res2 ins Rh); [|exact H]. intros a b Hab w. now apply host_rel. }
    destruct i as [v|e|]; [apply HS| |].
    - destruct H as [a b H|a b seen todo m post H|a b seen post H|a b seen todo saved H]; cbn [exp_resume e_host_of];
        try (cbn; reflexivity);
        try (destruct post);
        (destruct (is_GeneratorExit e); [now apply e_close_rel|]);
        (destruct (is_Exception e); [|cbn; reflexivity]);
        apply e_host_rel; now apply host_rel.
    - destruct H as [a b H|a b seen todo m post H|a b seen post H|a b seen todo saved H]; cbn [exp_resume e_host_of];
        try (cbn; reflexivity); try (destruct post); now apply e_close_rel.
  Qed.
End ExpCongruenceFull.

(* `return (yield from X)` respects a simulation of X *)
Section DelegCongruence.
  Context {X Y : Type}.
  Variable xres : X -> input -> outcome X.
  Variable yres : Y -> input -> outcome Y.
  Variable R : X -> Y -> Prop.
  Hypothesis step : forall a b, R a b -> forall i, out_rel R (xres a i) (yres b i).

  Inductive RDg : @dstate X -> @dstate Y -> Prop :=
    | RDg_start a b : R a b -> RDg (DStart a) (DStart b)
    | RDg_run a b : R a b -> RDg (DRun a) (DRun b).

  Lemma map_run_rel : forall o1 o2, out_rel R o1 o2 -> out_rel RDg (map_outcome DRun o1) (map_outcome DRun o2).
  Proof.
    intros [m a|v|e|] [m2 b|v2|e2|] H; cbn in *; try contradiction; auto.
    destruct H as [-> H]. split; [reflexivity|now constructor].
  Qed.

  Lemma d_step_rel : forall a b, RDg a b -> forall i, out_rel RDg (d_resume xres a i) (d_resume yres b i).
  Proof.
    intros a b H i.
    assert (HC : forall x y e, R x y -> out_rel RDg (d_close xres x e) (d_close yres y e)).
    { intros x y e Hxy. unfold d_close. rewrite (out_rel_close_result _ _ _ _ _ (step x y Hxy Close)).
      destruct (close_result (yres y Close)); cbn; auto. }
    destruct H as [x y H|x y H]; destruct i as [[|z]|e|]; cbn [d_resume]; try (cbn; reflexivity);
      try (apply map_run_rel; now apply step); try (now apply HC).
    destruct (is_GeneratorExit e); [now apply HC|apply map_run_rel; now apply step].
  Qed.
End DelegCongruence.

(* ------------------------------------------------------------------ monitor_during_wrapper / fly_during_wrapper, every script *)
Section DuringFullThm.
  Context {P : Type}.
  Variable resume : P -> input -> outcome P.
  Variable view : msg -> mview.
  Variable is_status : val -> bool.

  Theorem during_is_expansion_full :
    forall after before p s fuel,
      Forall (fun a => is_open view a = false) after -> Forall (fun a => is_close view a = false) before ->
      trace (during_resume resume view is_status (8 + fuel) after before) (during_init p) s
      = trace (d_resume (exp_resume (exp_resume resume (ins_after view after)) (ins_before view before)))
              (DStart (EStart (EStart p))) s.
  Proof.
    intros after before p s fuel HA HB.
    set (r1 := during1_resume resume view is_status (8 + fuel) after).
    set (L1 := @RL P (ins_after view after)).
    set (L2 := @RL (@during1 P) (ins_before view before)).
    set (R2 := rcomp L2 (RE L1)).
    assert (S1 : forall a y, L1 a y -> forall i, out_rel L1 (r1 a i) (exp_resume resume (ins_after view after) y i)).
    { intros a y H i. apply (layer_machine_step resume is_status (ins_after view after) (ins_after_clean view after HA) a y H i fuel). }
    assert (S2 : forall a c, R2 a c -> forall i,
               out_rel R2 (during2_resume resume view is_status (8 + fuel) after before a i)
                          (exp_resume (exp_resume resume (ins_after view after)) (ins_before view before) c i)).
    { intros a c (b & H1 & H2) i. eapply out_rel_comp.
      - apply (layer_machine_step r1 is_status (ins_before view before) (ins_before_clean view before HB) a b H1 i fuel).
      - apply (exp_full_rel r1 (exp_resume resume (ins_after view after)) (ins_before view before) L1 S1 b c H2 i). }
    unfold during_resume, during_init.
    apply (bisim_trace _ _ (RDg R2) (d_step_rel _ _ R2 S2)).
    constructor. exists (EStart (layer_init p)). split.
    - apply RL_init.
    - constructor. apply RL_init.
  Qed.
End DuringFullThm.

(* reading the expansion on failures: an exception thrown at ANY message of a block (inserted or the plan's own) reaches
   the wrapped plan at its original yield; the rest of the block is dropped; close closes the wrapped plan *)
Lemma expansion_throw :
  forall (Q : Type) (qres : Q -> input -> outcome Q) (ins : msg -> option (list msg) * option (list msg)) x q seen e,
    e_host_of x = Some (q, seen) -> is_GeneratorExit e = false -> is_Exception e = true ->
    exp_resume qres ins x (Throw e) = e_host ins seen (qres q (Throw e)).
Proof.
  intros Q qres ins x q seen e H HG HE.
  destruct x as [q0|q0 s0 todo m post|q0 s0 post|q0 s0 todo saved]; cbn in H; try discriminate;
    inversion H; subst; try (destruct post); cbn [exp_resume e_host_of]; now rewrite HG, HE.
Qed.

Lemma expansion_close :
  forall (Q : Type) (qres : Q -> input -> outcome Q) (ins : msg -> option (list msg) * option (list msg)) x q seen,
    e_host_of x = Some (q, seen) ->
    exp_resume qres ins x Close = e_close qres q EGeneratorExit /\
    forall e, is_GeneratorExit e = true -> exp_resume qres ins x (Throw e) = e_close qres q e.
Proof.
  intros Q qres ins x q seen H.
  destruct x as [q0|q0 s0 todo m post|q0 s0 post|q0 s0 todo saved]; cbn in H; try discriminate;
    inversion H; subst; try (destruct post); cbn [exp_resume e_host_of]; (split; [reflexivity|intros e HG; now rewrite HG]).
Qed.
