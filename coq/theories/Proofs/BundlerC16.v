(* Proofs for C16 (descriptors carry the configuration current when they were made; configure re-describes). *)
From BV Require Import Base.Prelude Engine.Bundler Engine.BundlerSpec Engine.BundlerObs Proofs.BundlerFrame Proofs.BundlerC15.
From Coq Require Import ZArith List Bool Lia.
Import ListNotations.

(* ---- value-aware bind rule *)
Lemma rel_bind_val (R : preorder) {A B} (m : M A) (k : A -> M B) (Q : A -> Prop) :
  (forall s s1 a, m s = (s1, Ok a) -> Q a) -> rel R m -> (forall a, Q a -> rel R (k a)) -> rel R (bind m k).
Proof.
  intros HQ Hm Hk s. unfold bind. specialize (Hm s). specialize (HQ s). destruct (m s) as [s1 [a|e]]; cbn in *.
  - eapply pr_trans; [exact Hm | apply Hk; eapply HQ; reflexivity].
  - exact Hm.
Qed.
Lemma rel_iterM_in (R : preorder) {X} (f : X -> M unit) l : (forall x, In x l -> rel R (f x)) -> rel R (iterM f l).
Proof.
  induction l as [|x l IH]; intros Hf; cbn [iterM]; [apply rel_ret|].
  apply rel_bind; [apply Hf; left; reflexivity | intros _; apply IH; intros y Hy; apply Hf; right; exact Hy].
Qed.

Definition is_stop (d : doc) : bool := match d with DStop _ _ _ _ _ => true | _ => false end.
Definition not_descr (d : doc) : bool := match d with DDescr _ => false | _ => true end.
Lemma compose_event_is_event d data f s s1 ev : compose_event d data f s = (s1, Ok ev) -> not_descr ev = true.
Proof. intros H. apply compose_event_ok in H. destruct H as (seq & _ & -> & _). reflexivity. Qed.
Lemma compose_stop_is_stop st r s s1 d : compose_stop st r s = (s1, Ok d) -> not_descr d = true.
Proof. unfold compose_stop, fresh_uid. intros H. minv. reflexivity. Qed.

(* like rel_go, knowing that composed events / stops are not descriptors *)
Ltac rel_go2 tac :=
  lazymatch goal with
  | |- rel _ (bind (compose_event _ _ _) _) =>
      apply (rel_bind_val _ _ _ (fun ev => not_descr ev = true));
      [ intros ? ? ?; apply compose_event_is_event | rel_go2 tac | intros ? ?; rel_go2 tac ]
  | |- rel _ (bind (compose_stop _ _) _) =>
      apply (rel_bind_val _ _ _ (fun ev => not_descr ev = true));
      [ intros ? ? ?; apply compose_stop_is_stop | rel_go2 tac | intros ? ?; rel_go2 tac ]
  | |- rel _ (bind _ _) => apply rel_bind; [ rel_go2 tac | intro; rel_go2 tac ]
  | |- rel _ (ret _) => apply rel_ret
  | |- rel _ (fail _) => apply rel_fail
  | |- rel _ get => apply rel_get
  | |- rel _ (guard _ _) => apply rel_guard
  | |- rel _ (of_opt _ _) => apply rel_of_opt
  | |- rel _ (of_res _) => apply rel_of_res
  | |- rel _ (modify _) => apply rel_modify; intro; tac
  | |- rel _ (iterM _ _) => apply rel_iterM; intro; rel_go2 tac
  | |- rel _ (swallow _) => apply rel_swallow; rel_go2 tac
  | |- rel _ (gather2 _ _) => apply rel_gather2; rel_go2 tac
  | |- rel _ (if ?b then _ else _) => destruct b; rel_go2 tac
  | |- rel _ (match ?x with _ => _ end) => destruct x; rel_go2 tac
  | |- rel _ (let _ := _ in _) => cbv zeta; rel_go2 tac
  | |- rel _ ?m =>
      first [ solve [auto with rel_db]
            | let h := head_of m in unfold h; rel_go2 tac ]
  end.

(* ---- latest_descr *)
Lemma latest_app a b nm :
  latest_descr (a ++ b) nm = match latest_descr b nm with Some d => Some d | None => latest_descr a nm end.
Proof.
  induction a as [|x a IH]; cbn [app latest_descr]; [destruct (latest_descr b nm); reflexivity|].
  rewrite IH. destruct (latest_descr b nm); [reflexivity|]. reflexivity.
Qed.
Lemma latest_snoc_other l x nm : not_descr x = true -> latest_descr (l ++ [x]) nm = latest_descr l nm.
Proof. intros H. rewrite latest_app. destruct x; try discriminate; reflexivity. Qed.
Lemma latest_snoc_descr l d nm :
  latest_descr (l ++ [DDescr d]) nm = if Nat.eqb (de_name d) nm then Some d else latest_descr l nm.
Proof. rewrite latest_app. cbn. destruct (Nat.eqb (de_name d) nm); reflexivity. Qed.

(* the registered descriptor of a stream is the latest descriptor emitted for that name *)
Definition latest_inv (tr : list doc) (s : bstate) : Prop :=
  (forall nm d, dget (b_descriptors s) nm = Some d ->
     Nat.eqb nm 0 = false /\ de_name d = nm /\ In (DDescr d) (tr ++ b_out s) /\
     latest_descr (tr ++ b_out s) nm = Some d) /\
  (forall nm, b_bundle_name s = Some nm -> Nat.eqb nm 0 = false).

Ltac linv_mod :=
  first
    [ inv_untouched
    | (* emit of a non-descriptor *)
      let H := fresh in
      intros [H ?]; split; [|assumption]; intros nm0 d0 Hg; cbn in *; destruct (H nm0 d0 Hg) as (? & ? & Hin & Hl);
      repeat split; try assumption;
      [ rewrite app_assoc; apply in_or_app; left; exact Hin
      | rewrite app_assoc, latest_snoc_other by (assumption || reflexivity); exact Hl ]
    | (* deletion of a descriptor *)
      let H := fresh in
      intros [H ?]; split; [|assumption]; intros nm0 d0 Hg; cbn in *; apply dget_ddel_some in Hg; exact (H nm0 d0 Hg) ].

Definition bn_frame : preorder.
Proof. refine (mkPre (fun s s' => b_bundle_name s' = b_bundle_name s) _ _); [auto | intros a b c H1 H2; congruence]. Defined.
Lemma bnf_prepare_stream nm od : rel bn_frame (prepare_stream nm od).
Proof. unfold prepare_stream. rel_go reflexivity. Qed.

Lemma linv_prepare_stream tr nm od : Nat.eqb nm 0 = false -> rel (inv_pre (latest_inv tr)) (prepare_stream nm od).
Proof.
  intros Hnm s [I J]. pose proof (bnf_prepare_stream nm od s) as Hb.
  destruct (prepare_stream nm od s) as [s' r] eqn:H. apply prepare_stream_spec in H. cbn [fst] in *.
  split; [|intros n0 Hn0; apply J; rewrite <- Hb; exact Hn0].
  destruct r as [d|e].
  - destruct H as (D1 & _ & _ & _ & _ & _ & F1 & F2 & _ & _). intros n d0. rewrite F1, F2, dget_dset.
    destruct (Nat.eqb nm n) eqn:En.
    + apply Nat.eqb_eq in En; subst n. intros Hd; inversion Hd; subst d0.
      split; [exact Hnm|]. split; [exact D1|]. split.
      * rewrite app_assoc. apply in_or_app. right. left. reflexivity.
      * rewrite app_assoc, latest_snoc_descr, D1, Nat.eqb_refl. reflexivity.
    + intros Hg. destruct (I n d0 Hg) as (A1 & A2 & A3 & A4). split; [exact A1|]. split; [exact A2|]. split.
      * rewrite app_assoc. apply in_or_app. left. exact A3.
      * rewrite app_assoc, latest_snoc_descr, D1, En. exact A4.
  - destruct H as [F1 F2]. intros n d0. rewrite F1, F2. apply I.
Qed.
#[export] Hint Resolve linv_prepare_stream : rel_db.

Lemma linv_ensure_all tr E l c : rel (inv_pre (latest_inv tr)) (ensure_cached_all E l c).
Proof. induction l; cbn -[bind ret]; rel_go2 linv_mod. Qed.
Lemma linv_pack_loop tr nm d l acc : rel (inv_pre (latest_inv tr)) (pack_loop nm d l acc).
Proof. revert acc. induction l; intro acc; cbn -[bind ret]; rel_go2 linv_mod. Qed.
Lemma linv_collect_all tr E l i : rel (inv_pre (latest_inv tr)) (collect_all_assets E l i).
Proof. induction l; cbn -[bind ret]; rel_go2 linv_mod. Qed.
#[export] Hint Resolve linv_ensure_all linv_pack_loop linv_collect_all : rel_db.

Lemma linv_create tr kw args : uses_name0 (OCreate kw args) = false -> rel (inv_pre (latest_inv tr)) (create kw args).
Proof.
  intros Hu. unfold uses_name0 in Hu. apply orb_false_iff in Hu. destruct Hu as [Hk Ha].
  unfold create.
  apply rel_bind; [apply rel_get|intro s0]. apply rel_bind; [apply rel_guard|intros _].
  apply rel_bind; [apply rel_modify; intro; linv_mod|intros _].
  apply (rel_bind_val _ _ _ (fun nm => Nat.eqb nm 0 = false)).
  - intros s s1 nm H. destruct kw as [n|].
    + minv. cbn in Hk. exact Hk.
    + destruct args as [|n [|? ?]]; minv. cbn in Ha. rewrite orb_false_r in Ha. rewrite Nat.eqb_sym. exact Ha.
  - destruct kw; [apply rel_ret|]. destruct args as [|? [|? ?]]; (apply rel_ret || apply rel_fail).
  - intros nm Hnm. apply rel_bind.
    + apply rel_modify. intros s [I J]. split; [exact I|]. cbn. intros n0 Hn0. inversion Hn0; subst. exact Hnm.
    + intros _. rel_go2 linv_mod.
Qed.

Lemma linv_monitor tr E o nm a : uses_name0 (OMonitor o nm a) = false -> rel (inv_pre (latest_inv tr)) (monitor E o nm a).
Proof. intros Hu. unfold uses_name0, interruptions_name in Hu. unfold monitor. rel_go2 linv_mod. Qed.

Lemma rel_bind_ret (R : preorder) {A B} (a : A) (k : A -> M B) : rel R (k a) -> rel R (bind (ret a) k).
Proof. intros H s. apply H. Qed.

Lemma rel_bind_fail (R : preorder) {A B} e (k : A -> M B) : rel R (bind (fail e) k).
Proof. intros s. apply pr_refl. Qed.

Lemma linv_declare tr E objs nm c : uses_name0 (ODeclareStream objs nm c) = false ->
  rel (inv_pre (latest_inv tr)) (declare_stream E objs nm c).
Proof.
  intros Hu. unfold declare_stream. destruct nm as [n|]; cbn [of_opt].
  - unfold uses_name0, interruptions_name in Hu. cbn in Hu. apply rel_bind_ret. rel_go2 linv_mod.
  - apply rel_bind_fail.
Qed.

Lemma compose_descriptor_name u nm dk ok cfg s s1 d : compose_descriptor u nm dk ok cfg s = (s1, Ok d) -> de_name d = nm.
Proof. intros H. apply compose_descriptor_ok in H. apply H. Qed.

Lemma linv_open_run tr : rel (inv_pre (latest_inv tr)) open_run.
Proof.
  unfold open_run.
  repeat (apply rel_bind; [rel_go2 linv_mod | intro]).
  match goal with |- rel _ (if ?b then _ else _) => destruct b; [|apply rel_ret] end.
  apply rel_bind; [rel_go2 linv_mod | intro iu].
  apply (rel_bind_val _ _ _ (fun d => de_name d = 0)).
  - intros ? ? ? H. apply compose_descriptor_name in H. exact H.
  - unfold compose_descriptor. rel_go2 linv_mod.
  - intros d Hd. apply rel_bind; [rel_go2 linv_mod | intros _].
    unfold emit. apply rel_modify. intros s [I J]. split; [|exact J].
    intros n d0 Hg. cbn in *. destruct (I n d0 Hg) as (A1 & A2 & A3 & A4). split; [exact A1|]. split; [exact A2|]. split.
    + rewrite app_assoc. apply in_or_app. left. exact A3.
    + rewrite app_assoc, latest_snoc_descr, Hd. rewrite Nat.eqb_sym, A1. exact A4.
Qed.

Lemma dget_in_keys {V} (d : dict V) k : In k (dkeys d) -> exists v, dget d k = Some v.
Proof.
  induction d as [|[k0 v0] d IH]; cbn; [intros []|].
  intros [->|Hin]; [rewrite Nat.eqb_refl; eauto|].
  destruct (Nat.eqb k k0); [eauto | apply IH; exact Hin].
Qed.

Ltac linv_mod2 :=
  first
    [ linv_mod
    | (* the bundle is closed: no bundle name any more *)
      let H := fresh in intros [H ?]; split; [exact H | cbn; intros ? Hd; discriminate Hd] ].

Lemma linv_save tr E : rel (inv_pre (latest_inv tr)) (save E).
Proof.
  intros s [I J]. unfold save. rewrite bind_get_eq, bind_guard_eq.
  destruct (b_bundling s); cbn [fst]; [|split; assumption].
  destruct (b_objs_read s) as [|o0 objs0].
  - cbn. split; [exact I | intros ? Hd; discriminate Hd].
  - rewrite bind_modify_eq, bind_of_opt_eq.
    destruct (b_bundle_name s) as [nm|] eqn:Hn.
    + pose proof (J nm eq_refl) as Hnm.
      match goal with |- latest_inv tr (fst (?m ?s0)) =>
        assert (R : rel (inv_pre (latest_inv tr)) m) by (unfold bundle_descriptor; rel_go2 linv_mod2); apply (R s0) end.
      split; [exact I | cbn; intros ? Hd; discriminate Hd].
    + cbn. split; [exact I | intros ? Hd; discriminate Hd].
Qed.

Lemma linv_configure tr E o v : rel (inv_pre (latest_inv tr)) (configure E o v).
Proof.
  intros s [I J]. unfold configure. rewrite bind_get_eq, bind_guard_eq.
  destruct (negb (b_bundling s)); cbn [fst]; [|split; assumption].
  unfold call. rewrite !bind_modify_eq.
  assert (G : forall s0, latest_inv tr s0 ->
            latest_inv tr (fst (bind get (fun s1 => iterM (fun nm : nat =>
               bind get (fun s2 => bind (of_opt (dget (b_descriptor_objs s2) nm) EKeyError)
                 (fun obj_set => if dmem obj_set o
                                 then bind (modify (fun s3 => set_b_descriptors (ddel (b_descriptors s3) nm) s3))
                                        (fun _ => bind (prepare_stream nm obj_set) (fun _ => ret tt))
                                 else ret tt))) (dkeys (b_descriptors s1))) s0))).
  { intros s0 [I0 J0]. rewrite bind_get_eq.
    apply (rel_iterM_in (inv_pre (latest_inv tr))); [|split; assumption].
    intros nm Hin. apply dget_in_keys in Hin. destruct Hin as (d & Hd). destruct (I0 nm d Hd) as (Hnm & _).
    rel_go2 linv_mod. }
  unfold cache_read_config. destruct (dv_configurable (E o)).
  - unfold call. rewrite bind_bind_eq, !bind_modify_eq. apply G. split; assumption.
  - rewrite bind_modify_eq. apply G. split; assumption.
Qed.

Lemma linv_exec tr E o : uses_name0 o = false -> rel (inv_pre (latest_inv tr)) (exec E o).
Proof.
  intros Hu. destruct o; cbn [exec];
    try (apply linv_create; exact Hu); try (apply linv_monitor; exact Hu); try (apply linv_declare; exact Hu);
    try apply linv_open_run; try apply linv_save; try apply linv_configure;
    rel_go2 linv_mod2.
Qed.

Lemma latest_in l nm d : latest_descr l nm = Some d -> In (DDescr d) l /\ de_name d = nm.
Proof.
  induction l as [|x l IH]; cbn; [discriminate|].
  destruct (latest_descr l nm) as [d'|].
  - intros H; inversion H; subst. destruct (IH eq_refl) as [A B]. split; [right; exact A | exact B].
  - destruct x; try discriminate. destruct (Nat.eqb (de_name d0) nm) eqn:En; [|discriminate].
    intros H; inversion H; subst. split; [left; reflexivity | apply Nat.eqb_eq; exact En].
Qed.

Theorem registered_is_latest E st ri h :
  no_name0 h ->
  forall nm d, dget (b_descriptors (final E (init st ri) h)) nm = Some d ->
  de_name d = nm /\ In (DDescr d) (trace E (init st ri) h) /\ latest_descr (trace E (init st ri) h) nm = Some d.
Proof.
  intros Hn.
  assert (G : latest_inv (trace E (init st ri) h) (clear_buffers (final E (init st ri) h))).
  { induction h as [|o h IH] using rev_ind.
    - split; [intros nm d H; discriminate | intros nm H; discriminate].
    - unfold no_name0 in Hn. rewrite forallb_app in Hn. apply andb_true_iff in Hn. destruct Hn as [Hh Ho].
      cbn in Ho. rewrite andb_true_r in Ho. apply negb_true_iff in Ho.
      specialize (IH Hh). rewrite final_snoc, trace_snoc. unfold step. cbn [fst snd].
      pose proof (linv_exec (trace E (init st ri) h) E o Ho (clear_buffers (final E (init st ri) h)) IH) as I1.
      destruct I1 as [I J]. split; [|exact J].
      intros nm d Hg. destruct (I nm d Hg) as (A1 & A2 & A3 & A4). cbn. rewrite app_nil_r. auto. }
  intros nm d Hg. destruct G as [I _]. destruct (I nm d Hg) as (_ & A2 & A3 & A4).
  cbn in A3, A4. rewrite app_nil_r in A3, A4. auto.
Qed.

(* ---- boolean equalities reflect equality *)
Lemma uid_eqb_eq a b : uid_eqb a b = true <-> a = b.
Proof.
  destruct a, b; cbn; split; intros H; try discriminate; try (apply Nat.eqb_eq in H; subst; reflexivity);
    inversion H; subst; apply Nat.eqb_refl.
Qed.
Lemma ext_eqb_eq a b : ext_eqb a b = true <-> a = b.
Proof. destruct a, b; cbn; split; intros H; try discriminate; reflexivity. Qed.
Lemma option_beq_eq {A} (eqb : A -> A -> bool) : (forall x y, eqb x y = true <-> x = y) ->
  forall a b, option_beq eqb a b = true <-> a = b.
Proof.
  intros H [x|] [y|]; cbn; split; intros E; try discriminate; try reflexivity.
  - apply H in E; subst; reflexivity.
  - inversion E; subst; apply H; reflexivity.
Qed.
Lemma prod_beq_eq {A B} (ea : A -> A -> bool) (eb : B -> B -> bool) :
  (forall x y, ea x y = true <-> x = y) -> (forall x y, eb x y = true <-> x = y) ->
  forall p q, prod_beq ea eb p q = true <-> p = q.
Proof.
  intros Ha Hb [a b] [c d]. unfold prod_beq. cbn. rewrite andb_true_iff, Ha, Hb. split.
  - intros [-> ->]; reflexivity.
  - intros H; inversion H; auto.
Qed.
Lemma dict_beq_eq {V} (eqv : V -> V -> bool) : (forall x y, eqv x y = true <-> x = y) ->
  forall a b, dict_beq eqv a b = true <-> a = b.
Proof. intros H. apply list_beq_eq. apply prod_beq_eq; [apply Nat.eqb_eq | exact H]. Qed.
Lemma descr_beq_eq a b : descr_beq a b = true -> a = b.
Proof.
  unfold descr_beq. rewrite !andb_true_iff. intros (((((H1 & H2) & H3) & H4) & H5) & H6).
  apply uid_eqb_eq in H1, H2. apply Nat.eqb_eq in H3.
  apply (dict_beq_eq _ (prod_beq_eq _ _ (option_beq_eq _ Nat.eqb_eq) ext_eqb_eq)) in H4.
  apply (dict_beq_eq _ (list_beq_eq _ Nat.eqb_eq)) in H5.
  apply (dict_beq_eq _ (option_beq_eq _ Z.eqb_eq)) in H6.
  destruct a, b; cbn in *; subst; reflexivity.
Qed.

(* ---- what a firing monitor emits *)
Definition clos_frame : preorder.
Proof. refine (mkPre (fun s s' => w_closures s' = w_closures s) _ _); [auto | intros a b c H1 H2; congruence]. Defined.

Definition out_only : preorder.
Proof. refine (mkPre (fun s s' => b_out s' = b_out s) _ _); [auto | intros a b c H1 H2; congruence]. Defined.

Definition closd_frame : preorder.
Proof.
  refine (mkPre (fun s s' => w_closures s' = w_closures s /\ b_descriptors s' = b_descriptors s) _ _);
    [auto | intros a b c [A1 A2] [B1 B2]; split; congruence].
Defined.

Lemma run_closure_docs cb r s s' r0 :
  run_closure cb r s = (s', r0) ->
  w_closures s' = w_closures s /\ b_descriptors s' = b_descriptors s /\
  exists out, b_out s' = b_out s ++ out /\
    forall x, In x out -> exists u seq data fl o' dc d,
      x = DEvent u (de_uid d) seq data fl /\ dget (w_closures s) cb = Some (o', dc) /\
      dget (b_descriptors s) (de_name dc) = Some d.
Proof.
  intros H.
  assert (F : rel closd_frame (run_closure cb r)) by (unfold run_closure; rel_go ltac:(split; reflexivity)).
  specialize (F s). rewrite H in F. cbn in F. destruct F as [F1 F2]. split; [exact F1|]. split; [exact F2|].
  unfold run_closure in H. rewrite bind_get_eq, bind_of_opt_eq in H.
  destruct (dget (w_closures s) cb) as [[o' dc]|] eqn:Hc.
  2:{ inversion H; subst. exists []. rewrite app_nil_r. split; [reflexivity | intros x []]. }
  cbn [snd] in H. rewrite bind_of_opt_eq in H.
  destruct (dget (b_descriptors s) (de_name dc)) as [d|] eqn:Hd.
  2:{ inversion H; subst. exists []. rewrite app_nil_r. split; [reflexivity | intros x []]. }
  unfold bind at 1 in H.
  destruct (compose_event d (dupdate [] r) [] s) as [s1 [ev|e]] eqn:Hce.
  - apply compose_event_ok in Hce. destruct Hce as (seq & _ & -> & _ & _ & _ & O & _).
    unfold emit, modify, bind, get, of_opt in H. cbn in H.
    match type of H with
    | context [dget ?m ?k] => destruct (dget m k) as [c|] eqn:Hk
    end; cbn in H; inversion H; subst; cbn; rewrite O;
      (eexists; split; [reflexivity|]; intros x [<-|[]]; repeat eexists; eauto).
  - assert (O : b_out s1 = b_out s).
    { assert (R : rel out_only (compose_event d (dupdate [] r) [])) by (unfold compose_event; rel_go ltac:(reflexivity)).
      specialize (R s). rewrite Hce in R. apply R. }
    inversion H; subst. exists []. rewrite app_nil_r. split; [exact O | intros x []].
Qed.

Lemma mon_event_docs o r : forall l s s' r0,
  iterM (fun oc : obj * nat => if Nat.eqb (fst oc) o then run_closure (snd oc) r else ret tt) l s = (s', r0) ->
  w_closures s' = w_closures s /\ b_descriptors s' = b_descriptors s /\
  exists out, b_out s' = b_out s ++ out /\
    forall x, In x out -> exists u seq data fl d nm,
      x = DEvent u (de_uid d) seq data fl /\ dget (b_descriptors s) nm = Some d.
Proof.
  induction l as [|[ob cb] l IH]; intros s s' r0 H; cbn [iterM] in H.
  - inversion H; subst. split; [reflexivity|]. split; [reflexivity|].
    exists []. rewrite app_nil_r. split; [reflexivity | intros x []].
  - unfold bind in H. cbn [fst snd] in H.
    destruct (Nat.eqb ob o) eqn:Eo.
    + destruct (run_closure cb r s) as [s1 r1] eqn:H1. apply run_closure_docs in H1.
      destruct H1 as (C1 & B1 & out1 & O1 & D1).
      assert (D1' : forall x, In x out1 -> exists u seq data fl d nm,
                      x = DEvent u (de_uid d) seq data fl /\ dget (b_descriptors s) nm = Some d).
      { intros x Hx. destruct (D1 x Hx) as (u & seq & data & fl & o' & dc & d & -> & _ & Hd).
        exists u, seq, data, fl, d, (de_name dc). auto. }
      destruct r1 as [[]|e].
      * apply IH in H. destruct H as (C2 & B2 & out2 & O2 & D2). split; [congruence|]. split; [congruence|].
        exists (out1 ++ out2). split; [rewrite O2, O1, app_assoc; reflexivity|].
        intros x Hx. apply in_app_or in Hx. destruct Hx as [Hx|Hx]; [apply D1'; exact Hx|].
        destruct (D2 x Hx) as (u & seq & data & fl & d & nm & -> & Hd). exists u, seq, data, fl, d, nm.
        split; [reflexivity | rewrite <- B1; exact Hd].
      * inversion H; subst. split; [exact C1|]. split; [exact B1|]. exists out1. split; [exact O1 | exact D1'].
    + cbn in H. apply IH in H. exact H.
Qed.

(* every event of a firing monitor references the descriptor registered for its stream: the latest one *)
Theorem monitor_events_latest E s tr o r s' docs res :
  latest_inv tr (clear_buffers s) -> step E s (OMonEvent o r) = (s', docs, res) ->
  forall x, In x docs -> exists u seq data fl d,
    x = DEvent u (de_uid d) seq data fl /\ In (DDescr d) tr /\ latest_descr tr (de_name d) = Some d.
Proof.
  intros [L _] Hs. apply step_inv in Hs. destruct Hs as (r0 & He & -> & _).
  cbn [exec] in He. unfold mon_event in He. rewrite bind_get_eq in He.
  apply mon_event_docs in He. destruct He as (_ & _ & out & O & D). cbn in O. subst out.
  intros x Hx. destruct (D x Hx) as (u & seq & data & fl & d & nm & -> & Hd).
  destruct (L nm d Hd) as (_ & A2 & A3 & A4). cbn in A3, A4. rewrite app_nil_r in A3, A4.
  exists u, seq, data, fl, d. rewrite A2. auto.
Qed.

(* ---- descriptor equality is reflexive *)
Lemma descr_beq_refl d : descr_beq d d = true.
Proof.
  unfold descr_beq. rewrite !andb_true_iff. repeat split.
  - apply uid_eqb_eq; reflexivity.
  - apply uid_eqb_eq; reflexivity.
  - apply Nat.eqb_refl.
  - apply (dict_beq_eq _ (prod_beq_eq _ _ (option_beq_eq _ Nat.eqb_eq) ext_eqb_eq)); reflexivity.
  - apply (dict_beq_eq _ (list_beq_eq _ Nat.eqb_eq)); reflexivity.
  - apply (dict_beq_eq _ (option_beq_eq _ Z.eqb_eq)); reflexivity.
Qed.



(* ------------------------------------------------------------------ configuration recorded in descriptors; configure; uid supply *)

(* like rel_go2, remembering the outcome of every test *)
Ltac rel_go3 tac :=
  lazymatch goal with
  | |- rel _ (bind (compose_event _ _ _) _) =>
      apply (rel_bind_val _ _ _ (fun ev => not_descr ev = true));
      [ intros ? ? ?; apply compose_event_is_event | rel_go3 tac | intros ? ?; rel_go3 tac ]
  | |- rel _ (bind (compose_stop _ _) _) =>
      apply (rel_bind_val _ _ _ (fun ev => not_descr ev = true));
      [ intros ? ? ?; apply compose_stop_is_stop | rel_go3 tac | intros ? ?; rel_go3 tac ]
  | |- rel _ (bind _ _) => apply rel_bind; [ rel_go3 tac | intro; rel_go3 tac ]
  | |- rel _ (ret _) => apply rel_ret
  | |- rel _ (fail _) => apply rel_fail
  | |- rel _ get => apply rel_get
  | |- rel _ (guard _ _) => apply rel_guard
  | |- rel _ (of_opt _ _) => apply rel_of_opt
  | |- rel _ (of_res _) => apply rel_of_res
  | |- rel _ (modify _) => apply rel_modify; intro; tac
  | |- rel _ (iterM _ _) => apply rel_iterM; intro; rel_go3 tac
  | |- rel _ (swallow _) => apply rel_swallow; rel_go3 tac
  | |- rel _ (gather2 _ _) => apply rel_gather2; rel_go3 tac
  | |- rel _ (if ?b then _ else _) => destruct b eqn:?; rel_go3 tac
  | |- rel _ (match ?x with _ => _ end) => destruct x eqn:?; rel_go3 tac
  | |- rel _ (let _ := _ in _) => cbv zeta; rel_go3 tac
  | |- rel _ ?m =>
      first [ solve [auto with rel_db]
            | let h := head_of m in unfold h; rel_go3 tac ]
  end.

Definition cfg_inv (E : env) (s : bstate) : Prop :=
  forall o v, dget (b_cfgval_cache s) o = Some v -> v = reported_cfg E s o.
Definition descr_cfg_ok (E : env) (s : bstate) (d : descr) : Prop :=
  dkeys (de_cfg d) = dkeys (de_objkeys d) /\
  forall o v, dget (de_cfg d) o = Some v -> v = reported_cfg E s o.
Definition cfgI (E : env) (s : bstate) : Prop :=
  cfg_inv E s /\ forall d, In (DDescr d) (b_out s) -> descr_cfg_ok E s d.

(* folds of dset *)
Lemma fold_dset_keys {X V W} (l : list X) (kf : X -> nat) (f : X -> V) (g : X -> W) :
  forall (a : dict V) (b : dict W), dkeys a = dkeys b ->
  dkeys (fold_left (fun acc x => dset acc (kf x) (f x)) l a) =
  dkeys (fold_left (fun acc x => dset acc (kf x) (g x)) l b).
Proof.
  induction l as [|x l IH]; intros a b H; cbn; [exact H|]. apply IH.
  clear -H. revert b H. induction a as [|[k v] a IHa]; intros [|[k' w] b] H; cbn in *; try discriminate; [reflexivity|].
  inversion H; subst. destruct (Nat.eqb (kf x) k'); cbn; [congruence|]. f_equal. apply IHa. assumption.
Qed.
Lemma fold_dset_get {X V} (l : list X) (kf : X -> nat) (f : X -> V) (P : nat -> V -> Prop) :
  (forall x, In x l -> P (kf x) (f x)) ->
  forall a, (forall k v, dget a k = Some v -> P k v) ->
  forall k v, dget (fold_left (fun acc x => dset acc (kf x) (f x)) l a) k = Some v -> P k v.
Proof.
  induction l as [|x l IH]; intros Hl a Ha k v; cbn; [apply Ha|].
  apply IH; [intros y Hy; apply Hl; right; exact Hy|].
  intros k0 v0. rewrite dget_dset. destruct (Nat.eqb (kf x) k0) eqn:Ek.
  - apply Nat.eqb_eq in Ek. subst k0. intros H; inversion H; subst. apply Hl. left. reflexivity.
  - apply Ha.
Qed.

Definition cfgw_frame : preorder.
Proof.
  refine (mkPre (fun s s' => b_cfgval_cache s' = b_cfgval_cache s /\ w_cfg s' = w_cfg s) _ _).
  - auto.
  - intros a b c [A1 A2] [B1 B2]; split; congruence.
Defined.
Lemma cwf_prepare_stream nm od : rel cfgw_frame (prepare_stream nm od).
Proof. unfold prepare_stream. rel_go ltac:(cbn; auto). Qed.

Lemma reported_cfg_ext E s s' o : w_cfg s' = w_cfg s -> reported_cfg E s' o = reported_cfg E s o.
Proof. intros H. unfold reported_cfg, dev_cfg. rewrite H. reflexivity. Qed.

Lemma prepare_loop_ok (od : dict dks) : forall s s1 u,
  iterM (fun od0 : obj * dks =>
           bind get (fun s => bind (of_opt (dget (b_cfgval_cache s) (fst od0)) EKeyError)
             (fun _ => guard (nmem (fst od0) (b_cfgdesc_cache s)) EKeyError))) od s = (s1, Ok u) ->
  forall x, In x od -> exists v, dget (b_cfgval_cache s) (fst x) = Some v.
Proof.
  induction od as [|y od IH]; intros s s1 u H x Hx; [destruct Hx|].
  cbn [iterM] in H. apply bind_ok in H. destruct H as (a & s2 & H1 & H2).
  rewrite bind_get_eq, bind_of_opt_eq in H1.
  match type of H1 with match ?t with _ => _ end = _ => destruct t as [v|] eqn:Ev end; [|discriminate H1].
  assert (s2 = s) by (destruct (nmem _ _); cbn in H1; inversion H1; reflexivity). subst s2.
  destruct Hx as [<-|Hx]; [exists v; exact Ev | eapply IH; eauto].
Qed.

Lemma cfgI_prepare_stream E nm od : rel (inv_pre (cfgI E)) (prepare_stream nm od).
Proof.
  intros s [C O]. pose proof (cwf_prepare_stream nm od s) as F.
  destruct (prepare_stream nm od s) as [s' r] eqn:H. cbn [fst] in *. destruct F as [F1 F2].
  pose proof H as Hs. apply prepare_stream_spec in Hs.
  assert (C' : cfg_inv E s').
  { intros o v. rewrite F1, (reported_cfg_ext E s s' o F2). apply C. }
  split; [exact C'|].
  destruct r as [d|e].
  - destruct Hs as (_ & _ & D3 & D4 & _ & _ & _ & O2 & _ & _).
    intros d' Hin. rewrite O2 in Hin. apply in_app_or in Hin. destruct Hin as [Hin|[Hd|[]]].
    + destruct (O d' Hin) as [K V]. split; [exact K|]. intros o v Hg. rewrite (reported_cfg_ext E s s' o F2). eapply V; eauto.
    + inversion Hd; subst d'. clear Hd.
      (* the loop found a cached configuration for every object of the stream *)
      unfold prepare_stream in H. apply bind_ok in H. destruct H as (a & s1 & HL & _).
      pose proof (prepare_loop_ok od s s1 a HL) as Hall.
      split.
      * rewrite D3, D4. unfold stream_cfg, stream_objkeys. apply fold_dset_keys. reflexivity.
      * intros o v Hg. rewrite D4 in Hg. rewrite (reported_cfg_ext E s s' o F2).
        unfold stream_cfg in Hg.
        apply (fold_dset_get od fst
                 (fun x => match dget (b_cfgval_cache s) (fst x) with Some v0 => v0 | None => None end)
                 (fun o0 v0 => v0 = reported_cfg E s o0)) in Hg; [exact Hg | | intros ? ? Hd; discriminate Hd].
        intros x Hx. destruct (Hall x Hx) as (v0 & Hv0). rewrite Hv0. apply C. exact Hv0.
  - destruct Hs as [_ O2]. intros d' Hin. rewrite O2 in Hin. destruct (O d' Hin) as [K V]. split; [exact K|].
    intros o v Hg. rewrite (reported_cfg_ext E s s' o F2). eapply V; eauto.
Qed.
#[export] Hint Resolve cfgI_prepare_stream : rel_db.

(* modify-goals: fields untouched, or one more non-descriptor document *)
Ltac cinv_mod :=
  first
    [ inv_untouched
    | let C := fresh in let O := fresh in let Hin := fresh in let Hx := fresh in
      intros [C O]; split; [exact C|]; intros d0 Hin; cbn in Hin;
      apply in_app_or in Hin; destruct Hin as [Hin|[Hx|[]]];
      [ exact (O d0 Hin) | first [ discriminate Hx | subst; discriminate ] ] ].

Lemma cfgI_cache_read_config E o : rel (inv_pre (cfgI E)) (cache_read_config E o).
Proof.
  intros s [C O]. unfold cache_read_config, call. destruct (dv_configurable (E o)) eqn:Hc; cbn.
  - split; [|exact O]. intros o' v. cbn. rewrite dget_dset. destruct (Nat.eqb o o') eqn:Eo.
    + apply Nat.eqb_eq in Eo. subst o'. intros H; inversion H; subst. unfold reported_cfg. rewrite Hc. reflexivity.
    + apply C.
  - split; [|exact O]. intros o' v. cbn. rewrite dget_dset. destruct (Nat.eqb o o') eqn:Eo.
    + apply Nat.eqb_eq in Eo. subst o'. intros H; inversion H; subst. unfold reported_cfg. rewrite Hc. reflexivity.
    + apply C.
Qed.
#[export] Hint Resolve cfgI_cache_read_config : rel_db.

Lemma cfgI_ensure_all E l c : rel (inv_pre (cfgI E)) (ensure_cached_all E l c).
Proof. induction l; cbn -[bind ret]; rel_go3 cinv_mod. Qed.
Lemma cfgI_pack_loop E nm d l acc : rel (inv_pre (cfgI E)) (pack_loop nm d l acc).
Proof. revert acc. induction l; intro acc; cbn -[bind ret]; rel_go3 cinv_mod. Qed.
Lemma cfgI_collect_all E l i : rel (inv_pre (cfgI E)) (collect_all_assets E l i).
Proof. induction l; cbn -[bind ret]; rel_go3 cinv_mod. Qed.
#[export] Hint Resolve cfgI_ensure_all cfgI_pack_loop cfgI_collect_all : rel_db.

Lemma cfgI_open_run E : rel (inv_pre (cfgI E)) open_run.
Proof.
  unfold open_run.
  repeat (apply rel_bind; [rel_go3 cinv_mod | intro]).
  match goal with |- rel _ (if ?b then _ else _) => destruct b; [|apply rel_ret] end.
  apply rel_bind; [rel_go3 cinv_mod | intro iu].
  apply (rel_bind_val _ _ _ (fun d => de_cfg d = [] /\ de_objkeys d = [])).
  - intros ? ? ? H. apply compose_descriptor_ok in H. destruct H as (_ & _ & H3 & H4 & _). auto.
  - unfold compose_descriptor. rel_go3 cinv_mod.
  - intros d [Hd1 Hd2]. apply rel_bind; [rel_go3 cinv_mod | intros _].
    unfold emit. apply rel_modify. intros s [C O]. split; [exact C|].
    intros d0 Hin. cbn in Hin. apply in_app_or in Hin. destruct Hin as [Hin|[Hx|[]]]; [exact (O d0 Hin)|].
    inversion Hx; subst d0. split; [rewrite Hd1, Hd2; reflexivity|]. intros o v Hg. rewrite Hd1 in Hg. discriminate Hg.
Qed.

Lemma cfgI_configure E o v : forall s, b_out s = [] -> cfgI E s -> cfgI E (fst (configure E o v s)).
Proof.
  intros s Hout [C O]. unfold configure. rewrite bind_get_eq, bind_guard_eq.
  destruct (negb (b_bundling s)); cbn [fst]; [|split; assumption].
  unfold call. rewrite !bind_modify_eq.
  (* the device is configured, then its configuration is read again *)
  match goal with |- cfgI E (fst (bind (cache_read_config E o) ?k ?s0)) =>
    assert (R : forall a, rel (inv_pre (cfgI E)) (k a)) by (intro; rel_go3 cinv_mod);
    assert (X : exists s1, cache_read_config E o s0 = (s1, Ok tt) /\ cfgI E s1)
  end.
  { unfold cache_read_config, call. destruct (dv_configurable (E o)) eqn:Hc; cbn; eexists; (split; [reflexivity|]).
    - split; [|cbn; rewrite Hout; intros d []].
      intros o' v'. cbn. rewrite dget_dset. destruct (Nat.eqb o o') eqn:Eo.
      + apply Nat.eqb_eq in Eo. subst o'. intros H; inversion H; subst. unfold reported_cfg. rewrite Hc. reflexivity.
      + intros H. rewrite (C o' v' H). unfold reported_cfg, dev_cfg. cbn. rewrite dget_dset, Eo. reflexivity.
    - split; [|cbn; rewrite Hout; intros d []].
      intros o' v'. cbn. rewrite dget_dset. destruct (Nat.eqb o o') eqn:Eo.
      + apply Nat.eqb_eq in Eo. subst o'. intros H; inversion H; subst. unfold reported_cfg. rewrite Hc. reflexivity.
      + intros H. rewrite (C o' v' H). unfold reported_cfg, dev_cfg. cbn. rewrite dget_dset, Eo. reflexivity. }
  destruct X as (s1 & X1 & X2). unfold bind at 1; rewrite X1. apply (R tt s1 X2).
Qed.

Lemma bind_eq_ok' {A B} (m : M A) (k : A -> M B) s s1 a : m s = (s1, Ok a) -> bind m k s = k a s1.
Proof. intros H. unfold bind. rewrite H. reflexivity. Qed.

Lemma cfgI_exec E o s : b_out s = [] -> cfgI E s -> cfgI E (fst (exec E o s)).
Proof.
  intros Hout I. destruct o; cbn [exec];
    try (apply cfgI_configure; assumption); try (apply cfgI_open_run; assumption);
    match goal with |- cfgI E (fst (?m s)) =>
      let R := fresh in assert (R : rel (inv_pre (cfgI E)) m) by (rel_go3 cinv_mod); exact (R s I) end.
Qed.

Lemma cfg_inv_reachable E s tr : reachable E s tr -> cfg_inv E s.
Proof.
  intros (st & ri & h & -> & _).
  apply (reach_ind (fun s _ => cfg_inv E s)).
  - intros o v H. discriminate H.
  - intros s tr0 o C. unfold step. cbn [fst].
    apply (cfgI_exec E o (clear_buffers s)); [reflexivity|]. split; [exact C | intros d []].
Qed.

(* every descriptor emitted records, for exactly the objects of its stream, what each reports as configuration *)
Theorem descriptor_records_configuration E s tr o s' docs r :
  reachable E s tr -> step E s o = (s', docs, r) ->
  forall d, In (DDescr d) docs ->
    dkeys (de_cfg d) = dkeys (de_objkeys d) /\
    forall ob v, dget (de_cfg d) ob = Some v -> v = reported_cfg E s' ob.
Proof.
  intros Hr Hs d Hin. apply cfg_inv_reachable in Hr.
  apply step_inv in Hs. destruct Hs as (r0 & He & -> & _).
  pose proof (cfgI_exec E o (clear_buffers s) eq_refl) as I. rewrite He in I. cbn [fst] in I.
  destruct I as [_ O]; [split; [exact Hr | intros d0 []]|]. exact (O d Hin).
Qed.

(* ---- registered descriptors agree with the object sets they were made from *)
Definition dobjs_inv (s : bstate) : Prop :=
  NoDup (dkeys (b_descriptors s)) /\
  forall nm d od, dget (b_descriptors s) nm = Some d -> dget (b_descriptor_objs s) nm = Some od ->
    de_keys d = stream_data_keys od /\ de_objkeys d = stream_objkeys od.

Lemma dkeys_dset_in {V} (d : dict V) k v x : In x (dkeys (dset d k v)) <-> x = k \/ In x (dkeys d).
Proof.
  induction d as [|[k0 v0] d IH]; cbn; [intuition|].
  destruct (Nat.eqb k k0) eqn:Ek; cbn.
  - apply Nat.eqb_eq in Ek. subst. intuition.
  - rewrite IH. intuition.
Qed.
Lemma nodup_dset {V} (d : dict V) k v : NoDup (dkeys d) -> NoDup (dkeys (dset d k v)).
Proof.
  induction d as [|[k0 v0] d IH]; cbn; intros H; [repeat constructor; intros []|].
  inversion H as [|? ? Hn Hd]; subst. destruct (Nat.eqb k k0) eqn:Ek; cbn.
  - apply Nat.eqb_eq in Ek. subst. constructor; assumption.
  - constructor; [|apply IH; exact Hd]. intros Hin. apply dkeys_dset_in in Hin. destruct Hin as [->|Hin].
    + rewrite Nat.eqb_refl in Ek. discriminate.
    + contradiction.
Qed.
Lemma dkeys_ddel_in {V} (d : dict V) k x : In x (dkeys (ddel d k)) -> In x (dkeys d).
Proof.
  induction d as [|[k0 v0] d IH]; cbn; [auto|]. destruct (Nat.eqb k k0); cbn; intuition.
Qed.
Lemma nodup_ddel {V} (d : dict V) k : NoDup (dkeys d) -> NoDup (dkeys (ddel d k)).
Proof.
  induction d as [|[k0 v0] d IH]; cbn; intros H; [constructor|].
  inversion H as [|? ? Hn Hd]; subst. destruct (Nat.eqb k k0); cbn; [apply IH; exact Hd|].
  constructor; [|apply IH; exact Hd]. intros Hin. apply Hn. eapply dkeys_ddel_in; eauto.
Qed.

Ltac doinv_mod :=
  first
    [ inv_untouched
    | let N := fresh in let H := fresh in
      intros [N H]; split; [cbn; apply nodup_ddel; exact N|];
      intros nm0 d0 od0 Hg Ho; cbn in *; apply dget_ddel_some in Hg; exact (H nm0 d0 od0 Hg Ho) ].

Lemma doinv_prepare_stream nm od : rel (inv_pre dobjs_inv) (prepare_stream nm od).
Proof.
  intros s [N I]. destruct (prepare_stream nm od s) as [s' r] eqn:H. cbn [fst].
  pose proof H as Hs. apply prepare_stream_spec in Hs.
  destruct r as [d|e].
  - destruct Hs as (_ & D2 & D3 & _ & _ & _ & F1 & _ & F3 & _).
    split; [rewrite F1; apply nodup_dset; exact N|].
    intros n d0 od0. rewrite F1, F3, !dget_dset. destruct (Nat.eqb nm n).
    + intros Hd Ho. inversion Hd; inversion Ho; subst. auto.
    + apply I.
  - destruct Hs as [F1 _].
    assert (F3 : b_descriptor_objs s' = b_descriptor_objs s).
    { unfold prepare_stream in H. apply bind_err in H. destruct H as [H|(a & s1 & H1 & H)].
      - pose proof (prepare_loop_state od s) as Hl. rewrite H in Hl. cbn in Hl. subst. reflexivity.
      - pose proof (prepare_loop_state od s) as Hl. rewrite H1 in Hl. cbn in Hl. subst s1.
        rewrite bind_get_eq in H. apply bind_err in H. destruct H as [H|(d & s2 & H2 & H)].
        + pose proof (cdf_compose_descriptor None nm (stream_data_keys od) (stream_objkeys od)
                        (stream_cfg (b_cfgval_cache s) od) s) as F. rewrite H in F. cbn in F.
          apply (f_equal b_descriptor_objs) in F. exact F.
        + unfold emit in H. rewrite !bind_modify_eq in H. discriminate H. }
    split; [rewrite F1; exact N|]. intros n d0 od0. rewrite F1, F3. apply I.
Qed.
#[export] Hint Resolve doinv_prepare_stream : rel_db.

Lemma doinv_ensure_all E l c : rel (inv_pre dobjs_inv) (ensure_cached_all E l c).
Proof. induction l; cbn -[bind ret]; rel_go doinv_mod. Qed.
Lemma doinv_pack_loop nm d l acc : rel (inv_pre dobjs_inv) (pack_loop nm d l acc).
Proof. revert acc. induction l; intro acc; cbn -[bind ret]; rel_go doinv_mod. Qed.
Lemma doinv_collect_all E l i : rel (inv_pre dobjs_inv) (collect_all_assets E l i).
Proof. induction l; cbn -[bind ret]; rel_go doinv_mod. Qed.
#[export] Hint Resolve doinv_ensure_all doinv_pack_loop doinv_collect_all : rel_db.

Lemma doinv_exec E o : rel (inv_pre dobjs_inv) (exec E o).
Proof. destruct o; cbn [exec]; rel_go doinv_mod. Qed.

Lemma dobjs_inv_reachable E s tr : reachable E s tr -> dobjs_inv s.
Proof.
  intros (st & ri & h & -> & _).
  apply (reach_ind (fun s _ => dobjs_inv s)).
  - split; [constructor | intros nm d od H; discriminate H].
  - intros s tr0 o I. unfold step. cbn [fst]. apply doinv_exec. exact I.
Qed.

(* ---- configure: the loop over the registered streams *)
Definition cfg_body (o : obj) (nm : nat) : M unit :=
  bind get (fun s => bind (of_opt (dget (b_descriptor_objs s) nm) EKeyError)
    (fun obj_set => if dmem obj_set o
                    then bind (modify (fun s1 => set_b_descriptors (ddel (b_descriptors s1) nm) s1))
                           (fun _ => bind (prepare_stream nm obj_set) (fun _ => ret tt))
                    else ret tt)).

Definition is_descr (d : doc) : bool := match d with DDescr _ => true | _ => false end.

Definition mono_frame : preorder.
Proof.
  refine (mkPre (fun s s' => b_cfgval_cache s' = b_cfgval_cache s /\ w_cfg s' = w_cfg s /\
                             b_next_uid s <= b_next_uid s') _ _).
  - auto.
  - intros a b c (A1 & A2 & A3) (B1 & B2 & B3); repeat split; try congruence. lia.
Defined.
Lemma mf_fresh_uid : rel mono_frame fresh_uid.
Proof. intros s. unfold fresh_uid. rewrite bind_get_eq, bind_modify_eq. cbn. auto. Qed.
#[export] Hint Resolve mf_fresh_uid : rel_db.
Lemma mf_prepare_stream nm od : rel mono_frame (prepare_stream nm od).
Proof. unfold prepare_stream. rel_go ltac:(cbn; auto). Qed.

Lemma cfg_body_ok o nm s s1 :
  cfg_body o nm s = (s1, Ok tt) ->
  exists od, dget (b_descriptor_objs s) nm = Some od /\
    if dmem od o then
      exists d, b_descriptors s1 = dset (ddel (b_descriptors s) nm) nm d /\ b_out s1 = b_out s ++ [DDescr d] /\
                b_descriptor_objs s1 = dset (b_descriptor_objs s) nm od /\ de_name d = nm /\
                de_keys d = stream_data_keys od /\ de_objkeys d = stream_objkeys od /\
                de_uid d = UGen (b_next_uid s) /\
                b_cfgval_cache s1 = b_cfgval_cache s /\ w_cfg s1 = w_cfg s /\ b_next_uid s <= b_next_uid s1
    else s1 = s.
Proof.
  unfold cfg_body. rewrite bind_get_eq, bind_of_opt_eq.
  destruct (dget (b_descriptor_objs s) nm) as [od|]; [|discriminate]. intros H. exists od. split; [reflexivity|].
  destruct (dmem od o).
  - rewrite bind_modify_eq in H. apply bind_ok in H. destruct H as (d & s2 & H1 & H2).
    apply ret_ok in H2. destruct H2 as [-> _].
    pose proof (mf_prepare_stream nm od (set_b_descriptors (ddel (b_descriptors s) nm) s)) as F. rewrite H1 in F. cbn in F. destruct F as (F1 & F2 & F3).
    apply prepare_stream_spec in H1. destruct H1 as (D1 & D2 & D3 & _ & _ & D6 & P1 & P2 & P3 & _).
    exists d. cbn in *. auto 12.
  - apply ret_ok in H. destruct H as [-> _]. reflexivity.
Qed.

Lemma cfg_loop o : forall l s s',
  NoDup l -> iterM (cfg_body o) l s = (s', Ok tt) ->
  (forall nm od, In nm l -> dget (b_descriptor_objs s) nm = Some od -> dmem od o = true ->
     exists d, In (DDescr d) (b_out s') /\ dget (b_descriptors s') nm = Some d /\ de_name d = nm /\
               de_keys d = stream_data_keys od /\ de_objkeys d = stream_objkeys od /\
               exists k, de_uid d = UGen k /\ b_next_uid s <= k) /\
  (forall nm, (~ In nm l \/ exists od, dget (b_descriptor_objs s) nm = Some od /\ dmem od o = false) ->
     dget (b_descriptors s') nm = dget (b_descriptors s) nm) /\
  (forall nm, dget (b_descriptor_objs s') nm = dget (b_descriptor_objs s) nm) /\
  b_cfgval_cache s' = b_cfgval_cache s /\ w_cfg s' = w_cfg s /\ b_next_uid s <= b_next_uid s' /\
  exists out, b_out s' = b_out s ++ out /\ forallb is_descr out = true.
Proof.
  induction l as [|nm l IH]; intros s s' Hnd H; cbn [iterM] in H.
  - apply ret_ok in H. destruct H as [-> _]. repeat split; auto; try (intros ? ? []).
    exists []. rewrite app_nil_r. auto.
  - apply bind_ok in H. destruct H as ([] & s1 & H1 & H2).
    inversion Hnd as [|? ? Hnotin Hnd']; subst.
    apply cfg_body_ok in H1. destruct H1 as (od1 & Ho1 & B).
    specialize (IH s1 s' Hnd' H2). destruct IH as (IA & IB & IC & ID1 & ID2 & ID3 & out2 & IO & IN).
    destruct (dmem od1 o) eqn:Em.
    + destruct B as (d & B1 & B2 & B3 & B4 & B5 & B6 & B7 & B8 & B9 & B10).
      assert (OBJ : forall n, dget (b_descriptor_objs s1) n = dget (b_descriptor_objs s) n).
      { intros n. rewrite B3, dget_dset. destruct (Nat.eqb nm n) eqn:En; [|reflexivity].
        apply Nat.eqb_eq in En. subst n. rewrite Ho1. reflexivity. }
      split; [|split; [|split; [|split; [|split; [|split]]]]].
      * intros n od [<-|Hin] Ho Hm.
        -- rewrite Ho1 in Ho. inversion Ho; subst od. exists d.
           split; [rewrite IO, B2; apply in_or_app; left; apply in_or_app; right; left; reflexivity|].
           split; [rewrite (IB nm (or_introl Hnotin)), B1; apply dget_dset_eq|].
           split; [exact B4|]. split; [exact B5|]. split; [exact B6|]. exists (b_next_uid s). split; [exact B7 | lia].
        -- rewrite <- OBJ in Ho. destruct (IA n od Hin Ho Hm) as (d' & A1 & A2 & A3 & A4 & A5 & k & A6 & A7).
           exists d'. repeat split; auto. exists k. split; [exact A6 | lia].
      * intros n Hn. assert (Hne : nm <> n).
        { intros <-. destruct Hn as [Hn|(od & Ho & Hm)]; [apply Hn; left; reflexivity|].
          rewrite Ho1 in Ho. inversion Ho; subst. congruence. }
        rewrite IB.
        -- rewrite B1, dget_dset_neq by exact Hne.
           clear -Hne. induction (b_descriptors s) as [|[k0 v0] dd IHd]; cbn; [reflexivity|].
           destruct (Nat.eqb nm k0) eqn:Ek; cbn.
           ++ apply Nat.eqb_eq in Ek. subst k0. destruct (Nat.eqb n nm) eqn:E2; [apply Nat.eqb_eq in E2; congruence | exact IHd].
           ++ destruct (Nat.eqb n k0); [reflexivity | exact IHd].
        -- destruct Hn as [Hn|(od & Ho & Hm)]; [left; intros Hin; apply Hn; right; exact Hin|].
           right. exists od. rewrite OBJ. auto.
      * intros n. rewrite IC. apply OBJ.
      * congruence.
      * congruence.
      * lia.
      * exists ([DDescr d] ++ out2). rewrite IO, B2, <- app_assoc. split; [reflexivity|]. cbn. exact IN.
    + subst s1. split; [|split; [|split; [|split; [|split; [|split]]]]]; auto.
      * intros n od [<-|Hin] Ho Hm; [rewrite Ho1 in Ho; inversion Ho; subst; congruence|]. apply IA; assumption.
      * intros n Hn. apply IB. destruct Hn as [Hn|Hn]; [|right; exact Hn].
        destruct (Nat.eq_dec nm n) as [<-|Hne]; [right; exists od1; auto | left; intros Hin; apply Hn; right; exact Hin].
      * exists out2. auto.
Qed.

Lemma fold_dset_in_keys {X V} (l : list X) (kf : X -> nat) (f : X -> V) k :
  forall a, (In k (dkeys a) \/ exists x, In x l /\ kf x = k) ->
  In k (dkeys (fold_left (fun acc x => dset acc (kf x) (f x)) l a)).
Proof.
  induction l as [|y l IH]; intros a H; cbn.
  - destruct H as [H|(x & [] & _)]. exact H.
  - apply IH. destruct H as [H|(x & [<-|Hx] & Hk)].
    + left. apply dkeys_dset_in. right. exact H.
    + left. apply dkeys_dset_in. left. symmetry. exact Hk.
    + right. exists x. auto.
Qed.
Lemma dmem_in_keys {V} (d : dict V) k : dmem d k = true -> exists v, In (k, v) d.
Proof.
  unfold dmem. induction d as [|[k0 v0] d IH]; cbn; [discriminate|].
  destruct (Nat.eqb k k0) eqn:Ek.
  - apply Nat.eqb_eq in Ek. subst. intros _. exists v0. left. reflexivity.
  - intros H. destruct (IH H) as (v & Hv). exists v. right. exact Hv.
Qed.

Definition crc_frame : preorder.
Proof.
  refine (mkPre (fun s s' => b_descriptors s' = b_descriptors s /\ b_descriptor_objs s' = b_descriptor_objs s /\
                             b_out s' = b_out s /\ b_next_uid s' = b_next_uid s /\ w_cfg s' = w_cfg s) _ _).
  - auto 6.
  - intros a b c (A1 & A2 & A3 & A4 & A5) (B1 & B2 & B3 & B4 & B5); repeat split; congruence.
Defined.
Lemma crcf_cache_read_config E o : rel crc_frame (cache_read_config E o).
Proof. unfold cache_read_config. rel_go ltac:(cbn; auto 6). Qed.

Theorem configure_redescribes E s tr o v s' docs :
  reachable E s tr -> step E s (OConfigure o v) = (s', docs, ROk) ->
  (forall nm d_old od, dget (b_descriptors s) nm = Some d_old -> dget (b_descriptor_objs s) nm = Some od ->
     if dmem od o then
       exists d', In (DDescr d') docs /\ dget (b_descriptors s') nm = Some d' /\ de_name d' = nm /\
                  de_keys d' = de_keys d_old /\ de_objkeys d' = de_objkeys d_old /\
                  (exists k, de_uid d' = UGen k /\ b_next_uid s <= k) /\
                  (dv_configurable (E o) = true -> dget (de_cfg d') o = Some (Some v))
     else dget (b_descriptors s') nm = Some d_old) /\
  forallb is_descr docs = true /\ dev_cfg s' o = v.
Proof.
  intros Hr Hs. pose proof (dobjs_inv_reachable _ _ _ Hr) as [ND DI].
  pose proof (descriptor_records_configuration _ _ _ _ _ _ _ Hr Hs) as CFG.
  apply step_inv in Hs. destruct Hs as (r0 & He & -> & Hr0). symmetry in Hr0. apply to_result_ok in Hr0. subst r0.
  cbn [exec] in He. unfold configure in He. rewrite bind_get_eq, bind_guard_eq in He.
  destruct (negb (b_bundling (clear_buffers s))); [|discriminate He].
  unfold call in He. rewrite !bind_modify_eq in He.
  apply bind_ok in He. destruct He as ([] & s2 & H1 & H2).
  match type of H1 with cache_read_config E o ?s1 = _ =>
    pose proof (crcf_cache_read_config E o s1) as F; rewrite H1 in F; cbn in F;
    destruct F as (F1 & F2 & F3 & F4 & F5) end.
  rewrite bind_get_eq in H2. change (iterM (cfg_body o) (dkeys (b_descriptors s2)) s2 = (s', Ok tt)) in H2.
  apply cfg_loop in H2; [|rewrite F1; exact ND].
  destruct H2 as (LA & LB & LC & LD1 & LD2 & LD3 & out & LO & LN).
  rewrite F3 in LO. cbn in LO.
  assert (Hcfg : dev_cfg s' o = v).
  { unfold dev_cfg. rewrite LD2, F5, dget_dset_eq. reflexivity. }
  split; [|split; [rewrite LO; exact LN | exact Hcfg]].
  intros nm d_old od Hd Ho. destruct (dmem od o) eqn:Em.
  - assert (Hin : In nm (dkeys (b_descriptors s2))).
    { rewrite F1. clear -Hd. induction (b_descriptors s) as [|[k0 v0] dd IH]; cbn in *; [discriminate|].
      destruct (Nat.eqb nm k0) eqn:Ek; [left; symmetry; apply Nat.eqb_eq; exact Ek | right; apply IH; exact Hd]. }
    rewrite <- F2 in Ho. destruct (LA nm od Hin Ho Em) as (d' & A1 & A2 & A3 & A4 & A5 & k & A6 & A7).
    rewrite F2 in Ho. destruct (DI nm d_old od Hd Ho) as [K1 K2].
    exists d'. split; [exact A1|]. split; [exact A2|]. split; [exact A3|]. split; [congruence|]. split; [congruence|].
    split; [exists k; split; [exact A6 | rewrite F4 in A7; exact A7]|].
    intros Hc. destruct (CFG d' A1) as [CK CV].
    assert (Hk : In o (dkeys (de_cfg d'))).
    { rewrite CK, A5. unfold stream_objkeys. apply fold_dset_in_keys. right.
      apply dmem_in_keys in Em. destruct Em as (dk & Hdk). exists (o, dk). auto. }
    apply dget_in_keys in Hk. destruct Hk as (x & Hx). rewrite Hx. f_equal.
    rewrite (CV o x Hx). unfold reported_cfg. rewrite Hc, Hcfg. reflexivity.
  - rewrite LB; [rewrite F1; exact Hd|]. right. exists od. rewrite F2. auto.
Qed.

(* ---- descriptor uids come from the supply: every one emitted so far is below it (so "uid >= supply" means new) *)
Definition uid_inv (tr : list doc) (s : bstate) : Prop :=
  forall d, In (DDescr d) (tr ++ b_out s) -> exists k, de_uid d = UGen k /\ k < b_next_uid s.

Ltac uinv_mod :=
  first
    [ inv_untouched
    | let H := fresh in let Hin := fresh in let Hx := fresh in
      intros H d0 Hin; cbn in Hin; rewrite app_assoc in Hin;
      apply in_app_or in Hin; destruct Hin as [Hin|[Hx|[]]];
      [ exact (H d0 Hin) | first [ discriminate Hx | subst; discriminate ] ] ].

Lemma uinv_fresh_uid tr : rel (inv_pre (uid_inv tr)) fresh_uid.
Proof.
  intros s H. unfold fresh_uid. rewrite bind_get_eq, bind_modify_eq. cbn.
  intros d Hin. destruct (H d Hin) as (k & K1 & K2). exists k. split; [exact K1 | cbn; lia].
Qed.
#[export] Hint Resolve uinv_fresh_uid : rel_db.

Definition nu_frame : preorder.
Proof. refine (mkPre (fun s s' => b_next_uid s' = b_next_uid s) _ _); [auto | intros a b c H1 H2; congruence]. Defined.

Lemma compose_descriptor_supply nm dk ok cfg s s1 d :
  compose_descriptor None nm dk ok cfg s = (s1, Ok d) -> b_next_uid s1 = S (b_next_uid s).
Proof.
  unfold compose_descriptor, fresh_uid. intros H. minv.
  match goal with H : (if dmem _ _ then _ else _) _ = _ |- _ => destruct (dmem (b_streams s) nm); minv; reflexivity end.
Qed.

Lemma uinv_prepare_stream tr nm od : rel (inv_pre (uid_inv tr)) (prepare_stream nm od).
Proof.
  intros s I. pose proof (mf_prepare_stream nm od s) as M.
  destruct (prepare_stream nm od s) as [s' r] eqn:H. cbn [fst] in *. destruct M as (_ & _ & M3).
  pose proof H as Hs. apply prepare_stream_spec in Hs.
  destruct r as [d|e].
  - destruct Hs as (_ & _ & _ & _ & _ & D6 & _ & O2 & _ & _).
    assert (Hn : b_next_uid s < b_next_uid s').
    { unfold prepare_stream in H. unfold emit in H. minv.
      match goal with H : iterM _ od s = (?x, Ok _) |- _ =>
        pose proof (prepare_loop_state od s) as Hl; rewrite H in Hl; cbn in Hl; subst x end.
      match goal with H : compose_descriptor None _ _ _ _ s = _ |- _ => apply compose_descriptor_supply in H; cbn; lia end. }
    intros d0 Hin. rewrite O2, app_assoc in Hin. apply in_app_or in Hin. destruct Hin as [Hin|[Hx|[]]].
    + destruct (I d0 Hin) as (k & K1 & K2). exists k. split; [exact K1 | lia].
    + inversion Hx; subst d0. exists (b_next_uid s). split; [exact D6 | exact Hn].
  - destruct Hs as [_ O2]. intros d0 Hin. rewrite O2 in Hin. destruct (I d0 Hin) as (k & K1 & K2).
    exists k. split; [exact K1 | lia].
Qed.
#[export] Hint Resolve uinv_prepare_stream : rel_db.

Lemma nuf_compose_descriptor_some u nm dk ok cfg : rel nu_frame (compose_descriptor (Some u) nm dk ok cfg).
Proof. unfold compose_descriptor. rel_go ltac:(reflexivity). Qed.
Definition outnu_frame : preorder.
Proof.
  refine (mkPre (fun s s' => b_next_uid s' = b_next_uid s /\ b_out s' = b_out s) _ _);
    [auto | intros a b c [A1 A2] [B1 B2]; split; congruence].
Defined.
Lemma onf_compose_descriptor_some u nm dk ok cfg : rel outnu_frame (compose_descriptor (Some u) nm dk ok cfg).
Proof. unfold compose_descriptor. rel_go ltac:(cbn; auto). Qed.

Lemma uinv_open_run tr : rel (inv_pre (uid_inv tr)) open_run.
Proof.
  unfold open_run.
  repeat (apply rel_bind; [rel_go3 uinv_mod | intro]).
  match goal with |- rel _ (if ?b then _ else _) => destruct b; [|apply rel_ret] end.
  intros s I. unfold fresh_uid. rewrite bind_bind_eq, bind_get_eq, bind_bind_eq, bind_modify_eq, bind_ret_eq.
  unfold bind at 1.
  match goal with |- context [compose_descriptor (Some ?u) ?a ?b ?c ?d ?s0] =>
    pose proof (onf_compose_descriptor_some u a b c d s0) as F;
    destruct (compose_descriptor (Some u) a b c d s0) as [s1 [dd|e]] eqn:Hc end; cbn in F; destruct F as [F1 F2].
  - apply compose_descriptor_ok in Hc. destruct Hc as (_ & _ & _ & _ & _ & Hu).
    rewrite bind_modify_eq. unfold emit, modify. cbn.
    intros d0 Hin. rewrite F2 in Hin. cbn in Hin. rewrite app_assoc in Hin.
    apply in_app_or in Hin. destruct Hin as [Hin|[Hx|[]]].
    + destruct (I d0 Hin) as (k & K1 & K2). exists k. split; [exact K1 | cbn; rewrite F1; cbn; lia].
    + inversion Hx; subst d0. exists (b_next_uid s). split; [exact Hu | cbn; rewrite F1; cbn; lia].
  - cbn. intros d0 Hin. rewrite F2 in Hin. cbn in Hin. destruct (I d0 Hin) as (k & K1 & K2).
    exists k. split; [exact K1 | cbn; rewrite F1; cbn; lia].
Qed.

Lemma uinv_ensure_all tr E l c : rel (inv_pre (uid_inv tr)) (ensure_cached_all E l c).
Proof. induction l; cbn -[bind ret]; rel_go3 uinv_mod. Qed.
Lemma uinv_pack_loop tr nm d l acc : rel (inv_pre (uid_inv tr)) (pack_loop nm d l acc).
Proof. revert acc. induction l; intro acc; cbn -[bind ret]; rel_go3 uinv_mod. Qed.
Lemma uinv_collect_all tr E l i : rel (inv_pre (uid_inv tr)) (collect_all_assets E l i).
Proof. induction l; cbn -[bind ret]; rel_go3 uinv_mod. Qed.
#[export] Hint Resolve uinv_ensure_all uinv_pack_loop uinv_collect_all : rel_db.

Lemma uinv_exec tr E o : rel (inv_pre (uid_inv tr)) (exec E o).
Proof. destruct o; cbn [exec]; try apply uinv_open_run; rel_go3 uinv_mod. Qed.

Theorem descriptor_uids_below_supply E s tr :
  reachable E s tr -> forall d, In (DDescr d) tr -> exists k, de_uid d = UGen k /\ k < b_next_uid s.
Proof.
  intros (st & ri & h & -> & ->).
  assert (G : uid_inv (trace E (init st ri) h) (clear_buffers (final E (init st ri) h))).
  { apply (reach_ind (fun s tr => uid_inv tr (clear_buffers s))).
    - intros d [].
    - intros s tr o I. unfold step. cbn [fst snd].
      pose proof (uinv_exec tr E o (clear_buffers s) I) as I1.
      intros d Hin. cbn in Hin. rewrite app_nil_r in Hin. exact (I1 d Hin). }
  intros d Hin. apply (G d). cbn. rewrite app_nil_r. exact Hin.
Qed.

(* ------------------------------------------------------------------ trace form: events follow their descriptors *)

(* ---- the interruptions descriptor has been emitted *)
Definition int_inv (tr : list doc) (s : bstate) : Prop :=
  forall d, b_int s = Some (Some d) -> de_name d = interruptions_name /\ In (DDescr d) (tr ++ b_out s).
Ltac iinv_mod :=
  first
    [ inv_untouched
    | let H := fresh in
      intros H d0 Hd; cbn in *; destruct (H d0 Hd) as [? Hin]; split; [assumption|];
      rewrite app_assoc; apply in_or_app; left; exact Hin
    | let H := fresh in intros H d0 Hd; cbn in Hd; discriminate Hd ].
Lemma iinv_open_run tr : rel (inv_pre (int_inv tr)) open_run.
Proof.
  unfold open_run.
  repeat (apply rel_bind; [rel_go3 iinv_mod | intro]).
  match goal with |- rel _ (if ?b then _ else _) => destruct b; [|apply rel_ret] end.
  apply rel_bind; [rel_go3 iinv_mod | intro iu].
  apply (rel_bind_val _ _ _ (fun d => de_name d = interruptions_name)).
  - intros ? ? ? H. apply compose_descriptor_name in H. exact H.
  - unfold compose_descriptor. rel_go3 iinv_mod.
  - intros d Hd. intros s I. rewrite bind_modify_eq. unfold emit, modify. cbn.
    intros d0 H0. cbn in H0. inversion H0; subst d0. split; [exact Hd|].
    apply in_or_app. right. apply in_or_app. right. left. reflexivity.
Qed.
Lemma iinv_ensure_all tr E l c : rel (inv_pre (int_inv tr)) (ensure_cached_all E l c).
Proof. induction l; cbn -[bind ret]; rel_go3 iinv_mod. Qed.
Lemma iinv_pack_loop tr nm d l acc : rel (inv_pre (int_inv tr)) (pack_loop nm d l acc).
Proof. revert acc. induction l; intro acc; cbn -[bind ret]; rel_go3 iinv_mod. Qed.
Lemma iinv_collect_all tr E l i : rel (inv_pre (int_inv tr)) (collect_all_assets E l i).
Proof. induction l; cbn -[bind ret]; rel_go3 iinv_mod. Qed.
#[export] Hint Resolve iinv_ensure_all iinv_pack_loop iinv_collect_all : rel_db.
Lemma iinv_exec tr E o : rel (inv_pre (int_inv tr)) (exec E o).
Proof. destruct o; cbn [exec]; try apply iinv_open_run; rel_go3 iinv_mod. Qed.

(* ---- which ops emit events *)
Definition event_op (o : op) : bool :=
  match o with OSave | OMonEvent _ _ | ORecordInterruption _ => true | _ => false end.

Lemma compose_stop_not_event st r s s1 d : compose_stop st r s = (s1, Ok d) -> is_event d = false.
Proof. unfold compose_stop, fresh_uid. intros H. minv. reflexivity. Qed.

Ltac noev_mod :=
  cbn;
  first [ exists []; rewrite app_nil_r; split; reflexivity
        | eexists [_]; split; [reflexivity|]; unfold no_event; cbn;
          first [ reflexivity
                | match goal with H : is_event _ = false |- _ => rewrite H; reflexivity end ] ].

Ltac rel_go4 tac :=
  lazymatch goal with
  | |- rel _ (bind (compose_stop _ _) _) =>
      apply (rel_bind_val _ _ _ (fun ev => is_event ev = false));
      [ intros ? ? ?; apply compose_stop_not_event | rel_go4 tac | intros ? ?; rel_go4 tac ]
  | |- rel _ (bind _ _) => apply rel_bind; [ rel_go4 tac | intro; rel_go4 tac ]
  | |- rel _ (ret _) => apply rel_ret
  | |- rel _ (fail _) => apply rel_fail
  | |- rel _ get => apply rel_get
  | |- rel _ (guard _ _) => apply rel_guard
  | |- rel _ (of_opt _ _) => apply rel_of_opt
  | |- rel _ (of_res _) => apply rel_of_res
  | |- rel _ (modify _) => apply rel_modify; intro; tac
  | |- rel _ (iterM _ _) => apply rel_iterM; intro; rel_go4 tac
  | |- rel _ (swallow _) => apply rel_swallow; rel_go4 tac
  | |- rel _ (gather2 _ _) => apply rel_gather2; rel_go4 tac
  | |- rel _ (if ?b then _ else _) => destruct b; rel_go4 tac
  | |- rel _ (match ?x with _ => _ end) => destruct x; rel_go4 tac
  | |- rel _ (let _ := _ in _) => cbv zeta; rel_go4 tac
  | |- rel _ ?m =>
      first [ solve [auto with rel_db]
            | let h := head_of m in unfold h; rel_go4 tac ]
  end.

Lemma noev_ensure_all E l c : rel out_ext_noev (ensure_cached_all E l c).
Proof. induction l; cbn -[bind ret]; rel_go4 noev_mod. Qed.
Lemma noev_pack_loop nm d l acc : rel out_ext_noev (pack_loop nm d l acc).
Proof. revert acc. induction l; intro acc; cbn -[bind ret]; rel_go4 noev_mod. Qed.
Lemma noev_collect_all E l i : rel out_ext_noev (collect_all_assets E l i).
Proof. induction l; cbn -[bind ret]; rel_go4 noev_mod. Qed.
#[export] Hint Resolve noev_ensure_all noev_pack_loop noev_collect_all : rel_db.

Lemma noev_exec E o : event_op o = false -> rel out_ext_noev (exec E o).
Proof. intros H. destruct o; try discriminate H; cbn [exec]; rel_go4 noev_mod. Qed.

(* ---- save: an event can only be the last document, and only when the op succeeds *)
Definition tail_event {A} (m : M A) : Prop :=
  forall s s' r, m s = (s', r) ->
  (exists l, b_out s' = b_out s ++ l /\ no_event l) \/
  (exists a pre ev, r = Ok a /\ b_out s' = b_out s ++ pre ++ [ev] /\ no_event pre /\ is_event ev = true).

Lemma te_noev {A} (m : M A) : rel out_ext_noev m -> tail_event m.
Proof. intros R s s' r H. left. specialize (R s). rewrite H in R. exact R. Qed.

Lemma te_bind {A B} (m : M A) (k : A -> M B) :
  rel out_ext_noev m -> (forall a, tail_event (k a)) -> tail_event (bind m k).
Proof.
  intros R K s s' r H. unfold bind in H. specialize (R s). destruct (m s) as [s1 [a|e]]; cbn in R.
  - destruct R as (l1 & O1 & N1). destruct (K a s1 s' r H) as [(l2 & O2 & N2)|(b & pre & ev & -> & O2 & N2 & Ev)].
    + left. exists (l1 ++ l2). rewrite O2, O1, app_assoc. split; [reflexivity|].
      unfold no_event in *. rewrite forallb_app, N1, N2. reflexivity.
    + right. exists b, (l1 ++ pre), ev. split; [reflexivity|]. rewrite O2, O1, <- !app_assoc. split; [reflexivity|].
      split; [|exact Ev]. unfold no_event in *. rewrite forallb_app, N1, N2. reflexivity.
  - inversion H; subst. left. exact R.
Qed.

Lemma te_compose_emit d data f : tail_event (bind (compose_event d data f) (fun ev => emit ev)).
Proof.
  intros s s' r H. unfold bind in H. destruct (compose_event d data f s) as [s1 [ev|e]] eqn:Hc.
  - apply compose_event_ok in Hc. destruct Hc as (seq & _ & -> & _ & _ & _ & O & _).
    unfold emit, modify in H. inversion H; subst. right. eexists tt, [], _. cbn. rewrite O.
    split; [reflexivity|]. split; [reflexivity|]. split; reflexivity.
  - assert (R : rel out_only (compose_event d data f)) by (unfold compose_event; rel_go ltac:(reflexivity)).
    specialize (R s). rewrite Hc in R. cbn in R. inversion H; subst. left. exists []. rewrite app_nil_r. split; [exact R | reflexivity].
Qed.

Ltac te_go :=
  lazymatch goal with
  | |- tail_event (bind (compose_event _ _ _) _) => apply te_compose_emit
  | |- tail_event (bind _ _) => apply te_bind; [ rel_go4 noev_mod | intro; te_go ]
  | |- tail_event (match ?x with _ => _ end) => destruct x; te_go
  | |- tail_event (if ?b then _ else _) => destruct b; te_go
  | |- tail_event _ => apply te_noev; rel_go4 noev_mod
  end.

Lemma te_save E : tail_event (save E).
Proof. unfold save. te_go. Qed.

(* ---- list facts *)
Lemma no_event_no_split l pre u de seq data fl post :
  no_event l -> l = pre ++ DEvent u de seq data fl :: post -> False.
Proof.
  intros N E. subst l. unfold no_event in N. rewrite forallb_app in N. apply andb_true_iff in N.
  destruct N as [_ N]. cbn in N. discriminate N.
Qed.
Lemma tail_event_split pre0 ev pre x post :
  no_event pre0 -> is_event x = true -> pre0 ++ [ev] = pre ++ x :: post -> pre = pre0 /\ x = ev /\ post = [].
Proof.
  revert pre. induction pre0 as [|y pre0 IH]; intros pre N Hx E.
  - destruct pre as [|z pre]; cbn in E.
    + inversion E; subst. auto.
    + inversion E as [[E1 E2]]. destruct pre; discriminate E2.
  - unfold no_event in N. cbn in N. apply andb_true_iff in N. destruct N as [Ny N].
    destruct pre as [|z pre]; cbn in E.
    + inversion E; subst. rewrite Hx in Ny. discriminate Ny.
    + inversion E; subst. destruct (IH pre N Hx H1) as (-> & -> & ->). auto.
Qed.
Lemma latest_app_nodescr tr l nm : forallb not_descr l = true -> latest_descr (tr ++ l) nm = latest_descr tr nm.
Proof.
  intros H. rewrite latest_app. replace (latest_descr l nm) with (@None descr); [reflexivity|].
  induction l as [|x l IH]; [reflexivity|]. cbn in *. apply andb_true_iff in H. destruct H as [Hx H].
  rewrite <- (IH H). destruct x; try discriminate; reflexivity.
Qed.

Definition ev_claim (pre : list doc) (de : uid) : Prop :=
  exists d, In (DDescr d) pre /\ de_uid d = de /\
            (de_name d = interruptions_name \/ latest_descr pre (de_name d) = Some d).

Lemma record_interruption_docs c s s' r :
  record_interruption c s = (s', r) ->
  b_out s' = b_out s \/
  exists u seq data fl d, b_int s = Some (Some d) /\ b_out s' = b_out s ++ [DEvent u (de_uid d) seq data fl].
Proof.
  unfold record_interruption. rewrite bind_get_eq, bind_of_opt_eq.
  destruct (b_int s) as [[d|]|]; try (intros H; inversion H; subst; left; reflexivity).
  intros H. unfold bind at 1 in H.
  destruct (compose_event d [(interruption_key, c)] [] s) as [s1 [ev|e]] eqn:Hc.
  - apply compose_event_ok in Hc. destruct Hc as (seq & _ & -> & _ & _ & _ & O & _).
    rewrite bind_modify_eq in H. unfold emit, modify in H. inversion H; subst. cbn. rewrite O.
    right. repeat eexists.
  - assert (R : rel out_only (compose_event d [(interruption_key, c)] [])) by (unfold compose_event; rel_go ltac:(reflexivity)).
    specialize (R s). rewrite Hc in R. cbn in R. inversion H; subst. left. exact R.
Qed.

Lemma latest_inv_descr_inv tr s : latest_inv tr s -> descr_inv tr s.
Proof. intros [I _] nm d H. destruct (I nm d H) as (_ & A & B & _). auto. Qed.

Lemma step_events E s tr o s' docs r :
  latest_inv tr (clear_buffers s) -> int_inv tr (clear_buffers s) ->
  uses_name0 o = false ->
  step E s o = (s', docs, r) ->
  forall pre u de seq data fl post, docs = pre ++ DEvent u de seq data fl :: post -> ev_claim (tr ++ pre) de.
Proof.
  intros L I Hu Hs pre u de seq data fl post Hd.
  destruct (event_op o) eqn:Eo.
  2:{ (* no event at all *)
      apply step_inv in Hs. destruct Hs as (r0 & He & -> & _).
      pose proof (noev_exec E o Eo (clear_buffers s)) as N. rewrite He in N. cbn in N.
      destruct N as (l & O & N). rewrite O in Hd. exfalso. eapply no_event_no_split; eauto. }
  destruct o; try discriminate Eo.
  - (* save *)
    pose proof Hs as Hs0. apply step_inv in Hs. destruct Hs as (r0 & He & -> & Hr).
    cbn [exec] in He. destruct (te_save E _ _ _ He) as [(l & O & N)|([] & pre0 & ev & -> & O & N & Ev)]; cbn in O.
    { rewrite O in Hd. exfalso. eapply no_event_no_split; eauto. }
    cbn in Hr. subst r.
    destruct (b_objs_read s) as [|o0 objs0] eqn:Hobjs.
    { exfalso. destruct (b_bundling s) eqn:Hb.
      - rewrite (save_empty E s Hb Hobjs) in Hs0.
        assert (Z0 : b_out s' = []) by (inversion Hs0; congruence). rewrite Z0 in O. destruct pre0; discriminate O.
      - rewrite (save_without_create E s Hb) in Hs0. inversion Hs0. }
    assert (Hne : b_objs_read s <> []) by (rewrite Hobjs; discriminate).
    destruct (save_emits_bundle_inv E s tr _ _ (latest_inv_descr_inv _ _ L) Hne Hs0)
      as (nm & d & pre1 & seq1 & u1 & _ & _ & D & N1 & Hin & Hn & Hreg & _).
    assert (Hd' : pre1 ++ [DEvent u1 (de_uid d) seq1 (merge_readings (b_read_cache s)) (filled_keys d)] =
                  pre ++ DEvent u de seq data fl :: post) by (rewrite <- D; exact Hd).
    apply tail_event_split in Hd'; [|exact N1 | reflexivity]. destruct Hd' as (-> & Hev & ->).
    inversion Hev; subst. exists d. split; [exact Hin|]. split; [reflexivity|]. right.
    pose proof (linv_exec tr E OSave Hu (clear_buffers s) L) as L1. cbn [exec] in L1. rewrite He in L1. cbn [fst] in L1.
    destruct L1 as [L1 _]. destruct (L1 _ _ Hreg) as (_ & _ & _ & L4).
    rewrite D, app_assoc, latest_snoc_other in L4 by reflexivity. exact L4.
  - (* a monitor fires *)
    pose proof (monitor_events_latest E s tr o r0 s' docs r L Hs) as M.
    assert (Hx : In (DEvent u de seq data fl) docs) by (rewrite Hd; apply in_or_app; right; left; reflexivity).
    destruct (M _ Hx) as (u' & seq' & data' & fl' & d & Heq & Hin & Hl). inversion Heq; subst.
    assert (Hpre : forallb not_descr pre = true).
    { apply forallb_forall. intros x Hxin. assert (Hxd : In x (pre ++ DEvent u' (de_uid d) seq' data' fl' :: post)) by (apply in_or_app; left; exact Hxin).
      destruct (M _ Hxd) as (? & ? & ? & ? & ? & -> & _). reflexivity. }
    exists d. split; [apply in_or_app; left; exact Hin|]. split; [reflexivity|]. right.
    rewrite latest_app_nodescr by exact Hpre. exact Hl.
  - (* an interruption is recorded *)
    apply step_inv in Hs. destruct Hs as (r0 & He & -> & _). cbn [exec] in He.
    apply record_interruption_docs in He. cbn in He.
    destruct He as [He|(u' & seq' & data' & fl' & d & Hi & He)].
    + rewrite He in Hd. destruct pre; discriminate Hd.
    + rewrite He in Hd. destruct pre as [|x pre]; cbn in Hd; [|inversion Hd as [[H1 H2]]; destruct pre; discriminate H2].
      inversion Hd; subst. destruct (I d Hi) as [Hn Hin]. cbn in Hin. rewrite app_nil_r in *.
      exists d. split; [exact Hin|]. split; [reflexivity|]. left. exact Hn.
Qed.

Lemma app_split {A} (a b pre : list A) x post :
  a ++ b = pre ++ x :: post ->
  (exists post', a = pre ++ x :: post' /\ post = post' ++ b) \/
  (exists pre', pre = a ++ pre' /\ b = pre' ++ x :: post).
Proof.
  revert pre. induction a as [|y a IH]; intros pre H.
  - right. exists pre. auto.
  - destruct pre as [|z pre]; cbn in H.
    + inversion H; subst. left. exists a. auto.
    + inversion H; subst. destruct (IH pre H2) as [(post' & -> & ->)|(pre' & -> & ->)].
      * left. exists post'. auto.
      * right. exists pre'. auto.
Qed.

Lemma run_cons_final E s o h : final E s (o :: h) = final E (fst (fst (step E s o))) h.
Proof. reflexivity. Qed.
Lemma run_cons_trace E s o h : trace E s (o :: h) = snd (fst (step E s o)) ++ trace E (fst (fst (step E s o))) h.
Proof. reflexivity. Qed.

Theorem events_follow_descriptors_main E st ri h :
  no_name0 h ->
  events_follow_descriptors (trace E (init st ri) h).
Proof.
  intros Hn.
  assert (G : latest_inv (trace E (init st ri) h) (clear_buffers (final E (init st ri) h)) /\
              int_inv (trace E (init st ri) h) (clear_buffers (final E (init st ri) h)) /\
              events_follow_descriptors (trace E (init st ri) h)).
  { induction h as [|o h IH] using rev_ind.
    - split; [split; [intros nm d H; discriminate | intros nm H; discriminate]|].
      split; [intros d H; discriminate|]. intros pre u de seq data fl post H. destruct pre; discriminate H.
    - unfold no_name0 in Hn. rewrite forallb_app in Hn. apply andb_true_iff in Hn. destruct Hn as [Hh Ho].
      cbn in Ho. rewrite andb_true_r in Ho. apply negb_true_iff in Ho.
      destruct (IH Hh) as (L & I & Ev). clear IH.
      rewrite final_snoc, trace_snoc.
      set (s := final E (init st ri) h) in *. set (tr := trace E (init st ri) h) in *.
      destruct (step E s o) as [[s' docs] r] eqn:Hs. cbn [fst snd].
      pose proof Hs as Hs1. apply step_inv in Hs1. destruct Hs1 as (r0 & He & Hdocs & _).
      split; [|split].
      + pose proof (linv_exec tr E o Ho (clear_buffers s) L) as L1. rewrite He in L1. cbn [fst] in L1.
        destruct L1 as [L1 J1]. split; [|exact J1].
        intros nm d Hg. destruct (L1 nm d Hg) as (A1 & A2 & A3 & A4). rewrite <- Hdocs in A3, A4.
        cbn. rewrite app_nil_r. auto.
      + pose proof (iinv_exec tr E o (clear_buffers s) I) as I1. rewrite He in I1. cbn [fst] in I1.
        intros d Hd. destruct (I1 d Hd) as [B1 B2]. rewrite <- Hdocs in B2. cbn. rewrite app_nil_r. auto.
      + intros pre u de seq data fl post Hd. apply app_split in Hd.
        destruct Hd as [(post' & Hd & _)|(pre' & -> & Hd)].
        * exact (Ev _ _ _ _ _ _ _ Hd).
        * exact (step_events E s tr o s' docs r L I Ho Hs _ _ _ _ _ _ _ Hd). }
  apply G.
Qed.

(* ---- regression: the history that violated the property before the repair of C16-a (monitor closures used to keep
   the compose_event of the descriptor that existed when monitoring started) *)
Definition c16a_devs : dict devspec :=
  [(1, mkDev true true true false false false false false false [(1, ExtNone)] [])].
Definition c16a_hist : list op :=
  [OOpenRun; OMonitor 1 5 false; OConfigure 1 42%Z; OMonEvent 1 [(1, 11%Z)]].
Lemma c16a_regression :
  events_follow_descriptors_b [] (trace (env_of c16a_devs) (init false false) c16a_hist) = true /\
  length (trace (env_of c16a_devs) (init false false) c16a_hist) = 4.
Proof. split; vm_compute; reflexivity. Qed.
