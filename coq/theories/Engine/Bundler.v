(* Executable op-level model of bluesky.bundlers.RunBundler (src/bluesky/bundlers.py) together with the
   event_model compose_* behaviour it relies on (shared per-stream counters: compose_descriptor sets the
   counter of a *new* stream name to 1 and rejects a known name with other data keys; compose_event takes
   seq_num = counter, checks the data keys against its descriptor, then stores seq_num+1; compose_stop
   reports counter-1 per stream and arms the poison pill) and with the two engine-side guards of
   run_engine.py (_checkpoint / _configure refuse while a bundle is open).

   State fields are named after the RunBundler attributes.  One [op] per public coroutine / method.
   [step E s op] returns the new state, the documents emitted by the op (in order) and Ok / the error kind;
   on an error the state keeps every mutation made before the raise and the documents emitted before it
   stay emitted, exactly as a Python exception leaves them.  Device behaviour: the static part (protocols
   implemented, describe / describe_collect results) is the environment [E : env]; dynamic answers (the
   reading handed to `read`, the asset documents and indices a detector reports) are carried by the op;
   the configuration value of a device lives in the device world [w_cfg] and changes only by [OConfigure].
   Python dicts are insertion-ordered association lists ([dict]); sets / frozensets of fake devices iterate
   by ascending id (their hash), modelled by sorted duplicate-free lists.
   uids: [UGen n] from the bundler's supply, [UDev n] chosen by a device.
   Paths not modelled (old-style flyers: describe_collect without a declared stream, EventCollectable /
   EventPageCollectable `collect()` / `collect_pages()`, nested describe_collect) return [EUnmodelled];
   theorems exclude that result explicitly and the generators do not produce it outside a marked stream.
   No proofs in this file. *)
From BV Require Import Base.Prelude.
From Coq Require Import ZArith List Bool.
Import ListNotations.

(* ------------------------------------------------------------------ insertion-ordered dicts keyed by nat *)
Definition dict (V : Type) := list (nat * V).

Fixpoint dget {V} (d : dict V) (k : nat) : option V :=
  match d with
  | [] => None
  | (k', v) :: d' => if Nat.eqb k k' then Some v else dget d' k
  end.
Definition dmem {V} (d : dict V) (k : nat) : bool :=
  match dget d k with Some _ => true | None => false end.
Fixpoint dset {V} (d : dict V) (k : nat) (v : V) : dict V :=
  match d with
  | [] => [(k, v)]
  | (k', v') :: d' => if Nat.eqb k k' then (k, v) :: d' else (k', v') :: dset d' k v
  end.
Fixpoint ddel {V} (d : dict V) (k : nat) : dict V :=
  match d with
  | [] => []
  | (k', v') :: d' => if Nat.eqb k k' then ddel d' k else (k', v') :: ddel d' k
  end.
Definition dkeys {V} (d : dict V) : list nat := map fst d.
(* d.update(d2) *)
Definition dupdate {V} (d d2 : dict V) : dict V :=
  fold_left (fun acc kv => dset acc (fst kv) (snd kv)) d2 d.

Definition nmem (x : nat) (l : list nat) : bool := existsb (Nat.eqb x) l.
Definition subsetb (a b : list nat) : bool := forallb (fun x => nmem x b) a.
Definition set_eqb (a b : list nat) : bool := subsetb a b && subsetb b a.
Definition disjointb (a b : list nat) : bool := forallb (fun x => negb (nmem x b)) a.
Definition nremove (x : nat) (l : list nat) : list nat := filter (fun y => negb (Nat.eqb x y)) l.
(* sorted duplicate-free insertion: iteration order of a set / frozenset of fake devices *)
Fixpoint sinsert (x : nat) (l : list nat) : list nat :=
  match l with
  | [] => [x]
  | y :: l' => if Nat.ltb x y then x :: l else if Nat.eqb x y then l else y :: sinsert x l'
  end.
Definition to_set (l : list nat) : list nat := fold_left (fun acc x => sinsert x acc) l [].

(* ------------------------------------------------------------------ basic types *)
Definition obj := nat.
Definition name := nat.        (* stream names; 0 is "interruptions" *)
Definition key := nat.         (* data keys; 0 is "interruption" *)
Definition val := Z.
Definition interruptions_name : name := 0.
Definition interruption_key : key := 0.

Inductive uid := UGen (n : nat) | UDev (n : nat).
Definition uid_eqb (a b : uid) : bool :=
  match a, b with
  | UGen x, UGen y => Nat.eqb x y
  | UDev x, UDev y => Nat.eqb x y
  | _, _ => false
  end.

Inductive ext := ExtNone | ExtStream | ExtOther.     (* no "external" / "STREAM:" / anything else *)
Definition is_stream (e : ext) : bool := match e with ExtStream => true | _ => false end.
Definition is_other (e : ext) : bool := match e with ExtOther => true | _ => false end.
Definition ext_eqb (a b : ext) : bool :=
  match a, b with ExtNone, ExtNone | ExtStream, ExtStream | ExtOther, ExtOther => true | _, _ => false end.

Definition dks := dict ext.                 (* result of describe(): key -> DataKey (only `external` matters) *)
Definition reading := dict val.             (* result of read(): key -> value *)

(* event descriptor; data_keys : key -> (object_name, external) *)
Record descr := mkDescr {
  de_uid : uid;
  de_run : uid;
  de_name : name;
  de_keys : dict (option obj * ext);
  de_objkeys : dict (list key);
  de_cfg : dict (option Z)
}.

Inductive asset :=                           (* what collect_asset_docs yields *)
| AStreamRes (u : nat) (k : key)
| AStreamDatum (u : nat) (sres : nat) (prefilled : bool) (seq_zero : bool) (a b : Z)
| AResource (u : nat)
| ADatum (u : nat) (r : nat)
| ABad (u : nat).

Inductive status := SSuccess | SAbort | SFail.

Inductive doc :=
| DStart (u : uid)
| DDescr (d : descr)
| DEvent (u : uid) (de : uid) (seq : Z) (data : dict val) (filled : list key)
| DStreamRes (u : uid) (run : uid) (k : key)
| DStreamDatum (u : uid) (sres : uid) (de : uid) (ia ib : Z) (sa sb : Z)
| DResource (u : uid) (run : uid)
| DDatum (u : uid) (r : uid)
| DStop (u : uid) (run : uid) (st : status) (reason : nat) (num_events : dict Z).

Inductive devcall :=
| CDescribe (o : obj) | CDescribeCfg (o : obj) | CReadCfg (o : obj) | CDescribeCollect (o : obj)
| CSubscribe (o : obj) (cb : nat) | CClearSub (o : obj) (cb : nat)
| CGetIndex (o : obj) | CCollectAssets (o : obj) (idx : option Z) | CConfigure (o : obj) (v : Z).

Inductive err :=
| EIllegalMessageSequence | EValueError | ERuntimeError | EAssertionError | EKeyError | EAttributeError
| EEventModelValueError | EEventModelValidationError | EEventModelError | ETypeError
| EUnmodelled.
Inductive result := ROk | RErr (e : err).

(* static description of a device: which protocols it implements and what it describes *)
Record devspec := mkDev {
  dv_readable : bool;
  dv_configurable : bool;
  dv_subscribable : bool;
  dv_collectable : bool;
  dv_flyable : bool;
  dv_wsa : bool;             (* WritesStreamAssets: collect_asset_docs(index), get_index *)
  dv_wea : bool;             (* WritesExternalAssets only: collect_asset_docs() *)
  dv_evc : bool;             (* EventCollectable: collect() *)
  dv_pgc : bool;             (* EventPageCollectable: collect_pages() *)
  dv_describe : dks;
  dv_dcollect : dks          (* flat (new style) describe_collect *)
}.
Definition env := obj -> devspec.

Inductive op :=
| OOpenRun
| OCloseRun (st : option status) (reason : nat)
| OCreate (kw : option name) (args : list name)
| ORead (o : obj) (r : reading) (assets : list asset)
| OSave
| ODrop
| OMonitor (o : obj) (nm : name) (has_args : bool)
| OUnmonitor (o : obj)
| OMonEvent (o : obj) (r : reading)             (* the device fires its subscribed callbacks *)
| OKickoff (o : obj)
| OCollect (objs : list (obj * Z * list asset)) (nm : option name) (stream_flag : bool)
| ODeclareStream (objs : list obj) (nm : option name) (collect : bool)
| OConfigure (o : obj) (v : Z)                  (* RunEngine._configure: guard, obj.configure, bundler.configure *)
| OCheckpoint                                   (* RunEngine._checkpoint: guard, reset_checkpoint_state *)
| ORecordInterruption (content : Z)
| ORewind
| OResetCheckpoint
| OClearCheckpoint
| OSuspendMonitors
| ORestoreMonitors
| OClearMonitors
| OBackstopCollect (resp : list (obj * list asset)).

(* ------------------------------------------------------------------ RunBundler state (+ event_model run state, supplies, device world, per-op output buffers); setters generated by harness/tools/gen_record.py *)
Record bstate := mkB {
  b_strict : bool;
  b_record_int : bool;
  b_bundling : bool;
  b_bundle_name : option name;
  b_run_uid : option uid;
  b_objs_read : list obj;
  b_read_cache : list reading;
  b_asset_cache : list asset;
  b_desc_cache : dict dks;
  b_dcoll_cache : dict dks;
  b_cfgdesc_cache : list obj;
  b_cfgval_cache : dict (option Z);
  b_descriptors : dict descr;
  b_descriptor_objs : dict (dict dks);
  b_seq : dict Z;
  b_seq_copy : dict Z;
  b_monitors : dict nat;
  b_mon_susp : nat;
  b_sres_keys : list (uid * key);
  b_run_open : bool;
  b_uncollected : list obj;
  b_declared : list (list obj * list name);
  b_local : list obj;
  b_int : option (option descr);
  b_int_counter : nat;
  b_composed : bool;
  b_streams : dict (list key);
  b_poison : bool;
  b_next_uid : nat;
  b_next_cb : nat;
  w_cfg : dict Z;
  w_subs : list (obj * nat);
  w_closures : dict (obj * descr);
  b_out : list doc;
  b_ledger : list devcall
}.

Definition set_b_strict (x : bool) (s : bstate) : bstate :=
  mkB x (b_record_int s) (b_bundling s) (b_bundle_name s) (b_run_uid s) (b_objs_read s) (b_read_cache s) (b_asset_cache s) (b_desc_cache s) (b_dcoll_cache s) (b_cfgdesc_cache s) (b_cfgval_cache s) (b_descriptors s) (b_descriptor_objs s) (b_seq s) (b_seq_copy s) (b_monitors s) (b_mon_susp s) (b_sres_keys s) (b_run_open s) (b_uncollected s) (b_declared s) (b_local s) (b_int s) (b_int_counter s) (b_composed s) (b_streams s) (b_poison s) (b_next_uid s) (b_next_cb s) (w_cfg s) (w_subs s) (w_closures s) (b_out s) (b_ledger s).
Definition set_b_record_int (x : bool) (s : bstate) : bstate :=
  mkB (b_strict s) x (b_bundling s) (b_bundle_name s) (b_run_uid s) (b_objs_read s) (b_read_cache s) (b_asset_cache s) (b_desc_cache s) (b_dcoll_cache s) (b_cfgdesc_cache s) (b_cfgval_cache s) (b_descriptors s) (b_descriptor_objs s) (b_seq s) (b_seq_copy s) (b_monitors s) (b_mon_susp s) (b_sres_keys s) (b_run_open s) (b_uncollected s) (b_declared s) (b_local s) (b_int s) (b_int_counter s) (b_composed s) (b_streams s) (b_poison s) (b_next_uid s) (b_next_cb s) (w_cfg s) (w_subs s) (w_closures s) (b_out s) (b_ledger s).
Definition set_b_bundling (x : bool) (s : bstate) : bstate :=
  mkB (b_strict s) (b_record_int s) x (b_bundle_name s) (b_run_uid s) (b_objs_read s) (b_read_cache s) (b_asset_cache s) (b_desc_cache s) (b_dcoll_cache s) (b_cfgdesc_cache s) (b_cfgval_cache s) (b_descriptors s) (b_descriptor_objs s) (b_seq s) (b_seq_copy s) (b_monitors s) (b_mon_susp s) (b_sres_keys s) (b_run_open s) (b_uncollected s) (b_declared s) (b_local s) (b_int s) (b_int_counter s) (b_composed s) (b_streams s) (b_poison s) (b_next_uid s) (b_next_cb s) (w_cfg s) (w_subs s) (w_closures s) (b_out s) (b_ledger s).
Definition set_b_bundle_name (x : option name) (s : bstate) : bstate :=
  mkB (b_strict s) (b_record_int s) (b_bundling s) x (b_run_uid s) (b_objs_read s) (b_read_cache s) (b_asset_cache s) (b_desc_cache s) (b_dcoll_cache s) (b_cfgdesc_cache s) (b_cfgval_cache s) (b_descriptors s) (b_descriptor_objs s) (b_seq s) (b_seq_copy s) (b_monitors s) (b_mon_susp s) (b_sres_keys s) (b_run_open s) (b_uncollected s) (b_declared s) (b_local s) (b_int s) (b_int_counter s) (b_composed s) (b_streams s) (b_poison s) (b_next_uid s) (b_next_cb s) (w_cfg s) (w_subs s) (w_closures s) (b_out s) (b_ledger s).
Definition set_b_run_uid (x : option uid) (s : bstate) : bstate :=
  mkB (b_strict s) (b_record_int s) (b_bundling s) (b_bundle_name s) x (b_objs_read s) (b_read_cache s) (b_asset_cache s) (b_desc_cache s) (b_dcoll_cache s) (b_cfgdesc_cache s) (b_cfgval_cache s) (b_descriptors s) (b_descriptor_objs s) (b_seq s) (b_seq_copy s) (b_monitors s) (b_mon_susp s) (b_sres_keys s) (b_run_open s) (b_uncollected s) (b_declared s) (b_local s) (b_int s) (b_int_counter s) (b_composed s) (b_streams s) (b_poison s) (b_next_uid s) (b_next_cb s) (w_cfg s) (w_subs s) (w_closures s) (b_out s) (b_ledger s).
Definition set_b_objs_read (x : list obj) (s : bstate) : bstate :=
  mkB (b_strict s) (b_record_int s) (b_bundling s) (b_bundle_name s) (b_run_uid s) x (b_read_cache s) (b_asset_cache s) (b_desc_cache s) (b_dcoll_cache s) (b_cfgdesc_cache s) (b_cfgval_cache s) (b_descriptors s) (b_descriptor_objs s) (b_seq s) (b_seq_copy s) (b_monitors s) (b_mon_susp s) (b_sres_keys s) (b_run_open s) (b_uncollected s) (b_declared s) (b_local s) (b_int s) (b_int_counter s) (b_composed s) (b_streams s) (b_poison s) (b_next_uid s) (b_next_cb s) (w_cfg s) (w_subs s) (w_closures s) (b_out s) (b_ledger s).
Definition set_b_read_cache (x : list reading) (s : bstate) : bstate :=
  mkB (b_strict s) (b_record_int s) (b_bundling s) (b_bundle_name s) (b_run_uid s) (b_objs_read s) x (b_asset_cache s) (b_desc_cache s) (b_dcoll_cache s) (b_cfgdesc_cache s) (b_cfgval_cache s) (b_descriptors s) (b_descriptor_objs s) (b_seq s) (b_seq_copy s) (b_monitors s) (b_mon_susp s) (b_sres_keys s) (b_run_open s) (b_uncollected s) (b_declared s) (b_local s) (b_int s) (b_int_counter s) (b_composed s) (b_streams s) (b_poison s) (b_next_uid s) (b_next_cb s) (w_cfg s) (w_subs s) (w_closures s) (b_out s) (b_ledger s).
Definition set_b_asset_cache (x : list asset) (s : bstate) : bstate :=
  mkB (b_strict s) (b_record_int s) (b_bundling s) (b_bundle_name s) (b_run_uid s) (b_objs_read s) (b_read_cache s) x (b_desc_cache s) (b_dcoll_cache s) (b_cfgdesc_cache s) (b_cfgval_cache s) (b_descriptors s) (b_descriptor_objs s) (b_seq s) (b_seq_copy s) (b_monitors s) (b_mon_susp s) (b_sres_keys s) (b_run_open s) (b_uncollected s) (b_declared s) (b_local s) (b_int s) (b_int_counter s) (b_composed s) (b_streams s) (b_poison s) (b_next_uid s) (b_next_cb s) (w_cfg s) (w_subs s) (w_closures s) (b_out s) (b_ledger s).
Definition set_b_desc_cache (x : dict dks) (s : bstate) : bstate :=
  mkB (b_strict s) (b_record_int s) (b_bundling s) (b_bundle_name s) (b_run_uid s) (b_objs_read s) (b_read_cache s) (b_asset_cache s) x (b_dcoll_cache s) (b_cfgdesc_cache s) (b_cfgval_cache s) (b_descriptors s) (b_descriptor_objs s) (b_seq s) (b_seq_copy s) (b_monitors s) (b_mon_susp s) (b_sres_keys s) (b_run_open s) (b_uncollected s) (b_declared s) (b_local s) (b_int s) (b_int_counter s) (b_composed s) (b_streams s) (b_poison s) (b_next_uid s) (b_next_cb s) (w_cfg s) (w_subs s) (w_closures s) (b_out s) (b_ledger s).
Definition set_b_dcoll_cache (x : dict dks) (s : bstate) : bstate :=
  mkB (b_strict s) (b_record_int s) (b_bundling s) (b_bundle_name s) (b_run_uid s) (b_objs_read s) (b_read_cache s) (b_asset_cache s) (b_desc_cache s) x (b_cfgdesc_cache s) (b_cfgval_cache s) (b_descriptors s) (b_descriptor_objs s) (b_seq s) (b_seq_copy s) (b_monitors s) (b_mon_susp s) (b_sres_keys s) (b_run_open s) (b_uncollected s) (b_declared s) (b_local s) (b_int s) (b_int_counter s) (b_composed s) (b_streams s) (b_poison s) (b_next_uid s) (b_next_cb s) (w_cfg s) (w_subs s) (w_closures s) (b_out s) (b_ledger s).
Definition set_b_cfgdesc_cache (x : list obj) (s : bstate) : bstate :=
  mkB (b_strict s) (b_record_int s) (b_bundling s) (b_bundle_name s) (b_run_uid s) (b_objs_read s) (b_read_cache s) (b_asset_cache s) (b_desc_cache s) (b_dcoll_cache s) x (b_cfgval_cache s) (b_descriptors s) (b_descriptor_objs s) (b_seq s) (b_seq_copy s) (b_monitors s) (b_mon_susp s) (b_sres_keys s) (b_run_open s) (b_uncollected s) (b_declared s) (b_local s) (b_int s) (b_int_counter s) (b_composed s) (b_streams s) (b_poison s) (b_next_uid s) (b_next_cb s) (w_cfg s) (w_subs s) (w_closures s) (b_out s) (b_ledger s).
Definition set_b_cfgval_cache (x : dict (option Z)) (s : bstate) : bstate :=
  mkB (b_strict s) (b_record_int s) (b_bundling s) (b_bundle_name s) (b_run_uid s) (b_objs_read s) (b_read_cache s) (b_asset_cache s) (b_desc_cache s) (b_dcoll_cache s) (b_cfgdesc_cache s) x (b_descriptors s) (b_descriptor_objs s) (b_seq s) (b_seq_copy s) (b_monitors s) (b_mon_susp s) (b_sres_keys s) (b_run_open s) (b_uncollected s) (b_declared s) (b_local s) (b_int s) (b_int_counter s) (b_composed s) (b_streams s) (b_poison s) (b_next_uid s) (b_next_cb s) (w_cfg s) (w_subs s) (w_closures s) (b_out s) (b_ledger s).
Definition set_b_descriptors (x : dict descr) (s : bstate) : bstate :=
  mkB (b_strict s) (b_record_int s) (b_bundling s) (b_bundle_name s) (b_run_uid s) (b_objs_read s) (b_read_cache s) (b_asset_cache s) (b_desc_cache s) (b_dcoll_cache s) (b_cfgdesc_cache s) (b_cfgval_cache s) x (b_descriptor_objs s) (b_seq s) (b_seq_copy s) (b_monitors s) (b_mon_susp s) (b_sres_keys s) (b_run_open s) (b_uncollected s) (b_declared s) (b_local s) (b_int s) (b_int_counter s) (b_composed s) (b_streams s) (b_poison s) (b_next_uid s) (b_next_cb s) (w_cfg s) (w_subs s) (w_closures s) (b_out s) (b_ledger s).
Definition set_b_descriptor_objs (x : dict (dict dks)) (s : bstate) : bstate :=
  mkB (b_strict s) (b_record_int s) (b_bundling s) (b_bundle_name s) (b_run_uid s) (b_objs_read s) (b_read_cache s) (b_asset_cache s) (b_desc_cache s) (b_dcoll_cache s) (b_cfgdesc_cache s) (b_cfgval_cache s) (b_descriptors s) x (b_seq s) (b_seq_copy s) (b_monitors s) (b_mon_susp s) (b_sres_keys s) (b_run_open s) (b_uncollected s) (b_declared s) (b_local s) (b_int s) (b_int_counter s) (b_composed s) (b_streams s) (b_poison s) (b_next_uid s) (b_next_cb s) (w_cfg s) (w_subs s) (w_closures s) (b_out s) (b_ledger s).
Definition set_b_seq (x : dict Z) (s : bstate) : bstate :=
  mkB (b_strict s) (b_record_int s) (b_bundling s) (b_bundle_name s) (b_run_uid s) (b_objs_read s) (b_read_cache s) (b_asset_cache s) (b_desc_cache s) (b_dcoll_cache s) (b_cfgdesc_cache s) (b_cfgval_cache s) (b_descriptors s) (b_descriptor_objs s) x (b_seq_copy s) (b_monitors s) (b_mon_susp s) (b_sres_keys s) (b_run_open s) (b_uncollected s) (b_declared s) (b_local s) (b_int s) (b_int_counter s) (b_composed s) (b_streams s) (b_poison s) (b_next_uid s) (b_next_cb s) (w_cfg s) (w_subs s) (w_closures s) (b_out s) (b_ledger s).
Definition set_b_seq_copy (x : dict Z) (s : bstate) : bstate :=
  mkB (b_strict s) (b_record_int s) (b_bundling s) (b_bundle_name s) (b_run_uid s) (b_objs_read s) (b_read_cache s) (b_asset_cache s) (b_desc_cache s) (b_dcoll_cache s) (b_cfgdesc_cache s) (b_cfgval_cache s) (b_descriptors s) (b_descriptor_objs s) (b_seq s) x (b_monitors s) (b_mon_susp s) (b_sres_keys s) (b_run_open s) (b_uncollected s) (b_declared s) (b_local s) (b_int s) (b_int_counter s) (b_composed s) (b_streams s) (b_poison s) (b_next_uid s) (b_next_cb s) (w_cfg s) (w_subs s) (w_closures s) (b_out s) (b_ledger s).
Definition set_b_monitors (x : dict nat) (s : bstate) : bstate :=
  mkB (b_strict s) (b_record_int s) (b_bundling s) (b_bundle_name s) (b_run_uid s) (b_objs_read s) (b_read_cache s) (b_asset_cache s) (b_desc_cache s) (b_dcoll_cache s) (b_cfgdesc_cache s) (b_cfgval_cache s) (b_descriptors s) (b_descriptor_objs s) (b_seq s) (b_seq_copy s) x (b_mon_susp s) (b_sres_keys s) (b_run_open s) (b_uncollected s) (b_declared s) (b_local s) (b_int s) (b_int_counter s) (b_composed s) (b_streams s) (b_poison s) (b_next_uid s) (b_next_cb s) (w_cfg s) (w_subs s) (w_closures s) (b_out s) (b_ledger s).
Definition set_b_mon_susp (x : nat) (s : bstate) : bstate :=
  mkB (b_strict s) (b_record_int s) (b_bundling s) (b_bundle_name s) (b_run_uid s) (b_objs_read s) (b_read_cache s) (b_asset_cache s) (b_desc_cache s) (b_dcoll_cache s) (b_cfgdesc_cache s) (b_cfgval_cache s) (b_descriptors s) (b_descriptor_objs s) (b_seq s) (b_seq_copy s) (b_monitors s) x (b_sres_keys s) (b_run_open s) (b_uncollected s) (b_declared s) (b_local s) (b_int s) (b_int_counter s) (b_composed s) (b_streams s) (b_poison s) (b_next_uid s) (b_next_cb s) (w_cfg s) (w_subs s) (w_closures s) (b_out s) (b_ledger s).
Definition set_b_sres_keys (x : list (uid * key)) (s : bstate) : bstate :=
  mkB (b_strict s) (b_record_int s) (b_bundling s) (b_bundle_name s) (b_run_uid s) (b_objs_read s) (b_read_cache s) (b_asset_cache s) (b_desc_cache s) (b_dcoll_cache s) (b_cfgdesc_cache s) (b_cfgval_cache s) (b_descriptors s) (b_descriptor_objs s) (b_seq s) (b_seq_copy s) (b_monitors s) (b_mon_susp s) x (b_run_open s) (b_uncollected s) (b_declared s) (b_local s) (b_int s) (b_int_counter s) (b_composed s) (b_streams s) (b_poison s) (b_next_uid s) (b_next_cb s) (w_cfg s) (w_subs s) (w_closures s) (b_out s) (b_ledger s).
Definition set_b_run_open (x : bool) (s : bstate) : bstate :=
  mkB (b_strict s) (b_record_int s) (b_bundling s) (b_bundle_name s) (b_run_uid s) (b_objs_read s) (b_read_cache s) (b_asset_cache s) (b_desc_cache s) (b_dcoll_cache s) (b_cfgdesc_cache s) (b_cfgval_cache s) (b_descriptors s) (b_descriptor_objs s) (b_seq s) (b_seq_copy s) (b_monitors s) (b_mon_susp s) (b_sres_keys s) x (b_uncollected s) (b_declared s) (b_local s) (b_int s) (b_int_counter s) (b_composed s) (b_streams s) (b_poison s) (b_next_uid s) (b_next_cb s) (w_cfg s) (w_subs s) (w_closures s) (b_out s) (b_ledger s).
Definition set_b_uncollected (x : list obj) (s : bstate) : bstate :=
  mkB (b_strict s) (b_record_int s) (b_bundling s) (b_bundle_name s) (b_run_uid s) (b_objs_read s) (b_read_cache s) (b_asset_cache s) (b_desc_cache s) (b_dcoll_cache s) (b_cfgdesc_cache s) (b_cfgval_cache s) (b_descriptors s) (b_descriptor_objs s) (b_seq s) (b_seq_copy s) (b_monitors s) (b_mon_susp s) (b_sres_keys s) (b_run_open s) x (b_declared s) (b_local s) (b_int s) (b_int_counter s) (b_composed s) (b_streams s) (b_poison s) (b_next_uid s) (b_next_cb s) (w_cfg s) (w_subs s) (w_closures s) (b_out s) (b_ledger s).
Definition set_b_declared (x : list (list obj * list name)) (s : bstate) : bstate :=
  mkB (b_strict s) (b_record_int s) (b_bundling s) (b_bundle_name s) (b_run_uid s) (b_objs_read s) (b_read_cache s) (b_asset_cache s) (b_desc_cache s) (b_dcoll_cache s) (b_cfgdesc_cache s) (b_cfgval_cache s) (b_descriptors s) (b_descriptor_objs s) (b_seq s) (b_seq_copy s) (b_monitors s) (b_mon_susp s) (b_sres_keys s) (b_run_open s) (b_uncollected s) x (b_local s) (b_int s) (b_int_counter s) (b_composed s) (b_streams s) (b_poison s) (b_next_uid s) (b_next_cb s) (w_cfg s) (w_subs s) (w_closures s) (b_out s) (b_ledger s).
Definition set_b_local (x : list obj) (s : bstate) : bstate :=
  mkB (b_strict s) (b_record_int s) (b_bundling s) (b_bundle_name s) (b_run_uid s) (b_objs_read s) (b_read_cache s) (b_asset_cache s) (b_desc_cache s) (b_dcoll_cache s) (b_cfgdesc_cache s) (b_cfgval_cache s) (b_descriptors s) (b_descriptor_objs s) (b_seq s) (b_seq_copy s) (b_monitors s) (b_mon_susp s) (b_sres_keys s) (b_run_open s) (b_uncollected s) (b_declared s) x (b_int s) (b_int_counter s) (b_composed s) (b_streams s) (b_poison s) (b_next_uid s) (b_next_cb s) (w_cfg s) (w_subs s) (w_closures s) (b_out s) (b_ledger s).
Definition set_b_int (x : option (option descr)) (s : bstate) : bstate :=
  mkB (b_strict s) (b_record_int s) (b_bundling s) (b_bundle_name s) (b_run_uid s) (b_objs_read s) (b_read_cache s) (b_asset_cache s) (b_desc_cache s) (b_dcoll_cache s) (b_cfgdesc_cache s) (b_cfgval_cache s) (b_descriptors s) (b_descriptor_objs s) (b_seq s) (b_seq_copy s) (b_monitors s) (b_mon_susp s) (b_sres_keys s) (b_run_open s) (b_uncollected s) (b_declared s) (b_local s) x (b_int_counter s) (b_composed s) (b_streams s) (b_poison s) (b_next_uid s) (b_next_cb s) (w_cfg s) (w_subs s) (w_closures s) (b_out s) (b_ledger s).
Definition set_b_int_counter (x : nat) (s : bstate) : bstate :=
  mkB (b_strict s) (b_record_int s) (b_bundling s) (b_bundle_name s) (b_run_uid s) (b_objs_read s) (b_read_cache s) (b_asset_cache s) (b_desc_cache s) (b_dcoll_cache s) (b_cfgdesc_cache s) (b_cfgval_cache s) (b_descriptors s) (b_descriptor_objs s) (b_seq s) (b_seq_copy s) (b_monitors s) (b_mon_susp s) (b_sres_keys s) (b_run_open s) (b_uncollected s) (b_declared s) (b_local s) (b_int s) x (b_composed s) (b_streams s) (b_poison s) (b_next_uid s) (b_next_cb s) (w_cfg s) (w_subs s) (w_closures s) (b_out s) (b_ledger s).
Definition set_b_composed (x : bool) (s : bstate) : bstate :=
  mkB (b_strict s) (b_record_int s) (b_bundling s) (b_bundle_name s) (b_run_uid s) (b_objs_read s) (b_read_cache s) (b_asset_cache s) (b_desc_cache s) (b_dcoll_cache s) (b_cfgdesc_cache s) (b_cfgval_cache s) (b_descriptors s) (b_descriptor_objs s) (b_seq s) (b_seq_copy s) (b_monitors s) (b_mon_susp s) (b_sres_keys s) (b_run_open s) (b_uncollected s) (b_declared s) (b_local s) (b_int s) (b_int_counter s) x (b_streams s) (b_poison s) (b_next_uid s) (b_next_cb s) (w_cfg s) (w_subs s) (w_closures s) (b_out s) (b_ledger s).
Definition set_b_streams (x : dict (list key)) (s : bstate) : bstate :=
  mkB (b_strict s) (b_record_int s) (b_bundling s) (b_bundle_name s) (b_run_uid s) (b_objs_read s) (b_read_cache s) (b_asset_cache s) (b_desc_cache s) (b_dcoll_cache s) (b_cfgdesc_cache s) (b_cfgval_cache s) (b_descriptors s) (b_descriptor_objs s) (b_seq s) (b_seq_copy s) (b_monitors s) (b_mon_susp s) (b_sres_keys s) (b_run_open s) (b_uncollected s) (b_declared s) (b_local s) (b_int s) (b_int_counter s) (b_composed s) x (b_poison s) (b_next_uid s) (b_next_cb s) (w_cfg s) (w_subs s) (w_closures s) (b_out s) (b_ledger s).
Definition set_b_poison (x : bool) (s : bstate) : bstate :=
  mkB (b_strict s) (b_record_int s) (b_bundling s) (b_bundle_name s) (b_run_uid s) (b_objs_read s) (b_read_cache s) (b_asset_cache s) (b_desc_cache s) (b_dcoll_cache s) (b_cfgdesc_cache s) (b_cfgval_cache s) (b_descriptors s) (b_descriptor_objs s) (b_seq s) (b_seq_copy s) (b_monitors s) (b_mon_susp s) (b_sres_keys s) (b_run_open s) (b_uncollected s) (b_declared s) (b_local s) (b_int s) (b_int_counter s) (b_composed s) (b_streams s) x (b_next_uid s) (b_next_cb s) (w_cfg s) (w_subs s) (w_closures s) (b_out s) (b_ledger s).
Definition set_b_next_uid (x : nat) (s : bstate) : bstate :=
  mkB (b_strict s) (b_record_int s) (b_bundling s) (b_bundle_name s) (b_run_uid s) (b_objs_read s) (b_read_cache s) (b_asset_cache s) (b_desc_cache s) (b_dcoll_cache s) (b_cfgdesc_cache s) (b_cfgval_cache s) (b_descriptors s) (b_descriptor_objs s) (b_seq s) (b_seq_copy s) (b_monitors s) (b_mon_susp s) (b_sres_keys s) (b_run_open s) (b_uncollected s) (b_declared s) (b_local s) (b_int s) (b_int_counter s) (b_composed s) (b_streams s) (b_poison s) x (b_next_cb s) (w_cfg s) (w_subs s) (w_closures s) (b_out s) (b_ledger s).
Definition set_b_next_cb (x : nat) (s : bstate) : bstate :=
  mkB (b_strict s) (b_record_int s) (b_bundling s) (b_bundle_name s) (b_run_uid s) (b_objs_read s) (b_read_cache s) (b_asset_cache s) (b_desc_cache s) (b_dcoll_cache s) (b_cfgdesc_cache s) (b_cfgval_cache s) (b_descriptors s) (b_descriptor_objs s) (b_seq s) (b_seq_copy s) (b_monitors s) (b_mon_susp s) (b_sres_keys s) (b_run_open s) (b_uncollected s) (b_declared s) (b_local s) (b_int s) (b_int_counter s) (b_composed s) (b_streams s) (b_poison s) (b_next_uid s) x (w_cfg s) (w_subs s) (w_closures s) (b_out s) (b_ledger s).
Definition set_w_cfg (x : dict Z) (s : bstate) : bstate :=
  mkB (b_strict s) (b_record_int s) (b_bundling s) (b_bundle_name s) (b_run_uid s) (b_objs_read s) (b_read_cache s) (b_asset_cache s) (b_desc_cache s) (b_dcoll_cache s) (b_cfgdesc_cache s) (b_cfgval_cache s) (b_descriptors s) (b_descriptor_objs s) (b_seq s) (b_seq_copy s) (b_monitors s) (b_mon_susp s) (b_sres_keys s) (b_run_open s) (b_uncollected s) (b_declared s) (b_local s) (b_int s) (b_int_counter s) (b_composed s) (b_streams s) (b_poison s) (b_next_uid s) (b_next_cb s) x (w_subs s) (w_closures s) (b_out s) (b_ledger s).
Definition set_w_subs (x : list (obj * nat)) (s : bstate) : bstate :=
  mkB (b_strict s) (b_record_int s) (b_bundling s) (b_bundle_name s) (b_run_uid s) (b_objs_read s) (b_read_cache s) (b_asset_cache s) (b_desc_cache s) (b_dcoll_cache s) (b_cfgdesc_cache s) (b_cfgval_cache s) (b_descriptors s) (b_descriptor_objs s) (b_seq s) (b_seq_copy s) (b_monitors s) (b_mon_susp s) (b_sres_keys s) (b_run_open s) (b_uncollected s) (b_declared s) (b_local s) (b_int s) (b_int_counter s) (b_composed s) (b_streams s) (b_poison s) (b_next_uid s) (b_next_cb s) (w_cfg s) x (w_closures s) (b_out s) (b_ledger s).
Definition set_w_closures (x : dict (obj * descr)) (s : bstate) : bstate :=
  mkB (b_strict s) (b_record_int s) (b_bundling s) (b_bundle_name s) (b_run_uid s) (b_objs_read s) (b_read_cache s) (b_asset_cache s) (b_desc_cache s) (b_dcoll_cache s) (b_cfgdesc_cache s) (b_cfgval_cache s) (b_descriptors s) (b_descriptor_objs s) (b_seq s) (b_seq_copy s) (b_monitors s) (b_mon_susp s) (b_sres_keys s) (b_run_open s) (b_uncollected s) (b_declared s) (b_local s) (b_int s) (b_int_counter s) (b_composed s) (b_streams s) (b_poison s) (b_next_uid s) (b_next_cb s) (w_cfg s) (w_subs s) x (b_out s) (b_ledger s).
Definition set_b_out (x : list doc) (s : bstate) : bstate :=
  mkB (b_strict s) (b_record_int s) (b_bundling s) (b_bundle_name s) (b_run_uid s) (b_objs_read s) (b_read_cache s) (b_asset_cache s) (b_desc_cache s) (b_dcoll_cache s) (b_cfgdesc_cache s) (b_cfgval_cache s) (b_descriptors s) (b_descriptor_objs s) (b_seq s) (b_seq_copy s) (b_monitors s) (b_mon_susp s) (b_sres_keys s) (b_run_open s) (b_uncollected s) (b_declared s) (b_local s) (b_int s) (b_int_counter s) (b_composed s) (b_streams s) (b_poison s) (b_next_uid s) (b_next_cb s) (w_cfg s) (w_subs s) (w_closures s) x (b_ledger s).
Definition set_b_ledger (x : list devcall) (s : bstate) : bstate :=
  mkB (b_strict s) (b_record_int s) (b_bundling s) (b_bundle_name s) (b_run_uid s) (b_objs_read s) (b_read_cache s) (b_asset_cache s) (b_desc_cache s) (b_dcoll_cache s) (b_cfgdesc_cache s) (b_cfgval_cache s) (b_descriptors s) (b_descriptor_objs s) (b_seq s) (b_seq_copy s) (b_monitors s) (b_mon_susp s) (b_sres_keys s) (b_run_open s) (b_uncollected s) (b_declared s) (b_local s) (b_int s) (b_int_counter s) (b_composed s) (b_streams s) (b_poison s) (b_next_uid s) (b_next_cb s) (w_cfg s) (w_subs s) (w_closures s) (b_out s) x.

(* ------------------------------------------------------------------ state + error monad.
   Every program below is built from: ret fail bind get modify (+ guard of_opt iterM swallow gather2). *)
Inductive res (A : Type) := Ok (a : A) | Err (e : err).
Arguments Ok {A} a.
Arguments Err {A} e.
Definition M (A : Type) := bstate -> bstate * res A.
Definition ret {A} (a : A) : M A := fun s => (s, Ok a).
Definition fail {A} (e : err) : M A := fun s => (s, Err e).
Definition bind {A B} (m : M A) (k : A -> M B) : M B := fun s =>
  match m s with
  | (s1, Ok a) => k a s1
  | (s1, Err e) => (s1, Err e)
  end.
Local Notation "x <- m ;; k" := (bind m (fun x => k)) (at level 61, m at next level, right associativity).
Local Notation "m ;;; k" := (bind m (fun _ => k)) (at level 61, right associativity).
Definition get : M bstate := fun s => (s, Ok s).
Definition modify (f : bstate -> bstate) : M unit := fun s => (f s, Ok tt).
Definition guard (b : bool) (e : err) : M unit := if b then ret tt else fail e.
Definition of_opt {A} (o : option A) (e : err) : M A :=
  match o with Some a => ret a | None => fail e end.
Definition of_res {A} (r : res A) : M A := match r with Ok a => ret a | Err e => fail e end.
Fixpoint iterM {X} (f : X -> M unit) (l : list X) : M unit :=
  match l with
  | [] => ret tt
  | x :: l' => f x ;;; iterM f l'
  end.
(* `try: m  except Exception: log` -- the error is swallowed, effects so far stay *)
Definition swallow (m : M unit) : M unit := fun s =>
  match m s with
  | (s1, Err EUnmodelled) => (s1, Err EUnmodelled)
  | (s1, _) => (s1, Ok tt)
  end.
(* asyncio.gather of two members that do not suspend: both run, the first exception in order is raised *)
Definition gather2 (m1 m2 : M unit) : M unit := fun s =>
  let '(s1, r1) := m1 s in
  let '(s2, r2) := m2 s1 in
  (s2, match r1 with Err e => Err e | Ok _ => r2 end).

Definition emit (d : doc) : M unit := modify (fun s => set_b_out (b_out s ++ [d]) s).
Definition call (c : devcall) : M unit := modify (fun s => set_b_ledger (b_ledger s ++ [c]) s).
Definition fresh_uid : M uid :=
  s <- get ;; modify (set_b_next_uid (S (b_next_uid s))) ;;; ret (UGen (b_next_uid s)).

(* ------------------------------------------------------------------ caches (_ensure_cached and friends) *)
Definition cache_describe (E : env) (o : obj) : M unit :=
  guard (dv_readable (E o)) EAssertionError ;;;             (* check_supports(obj, Readable) *)
  call (CDescribe o) ;;;
  modify (fun s => set_b_desc_cache (dset (b_desc_cache s) o (dv_describe (E o))) s).

Definition cache_describe_collect (E : env) (o : obj) : M unit :=
  guard (dv_collectable (E o)) EAssertionError ;;;
  call (CDescribeCollect o) ;;;
  modify (fun s => set_b_dcoll_cache (dset (b_dcoll_cache s) o (dv_dcollect (E o))) s).

Definition cache_describe_config (E : env) (o : obj) : M unit :=
  (if dv_configurable (E o) then call (CDescribeCfg o) else ret tt) ;;;
  modify (fun s => set_b_cfgdesc_cache (if nmem o (b_cfgdesc_cache s) then b_cfgdesc_cache s
                                        else b_cfgdesc_cache s ++ [o]) s).

Definition dev_cfg (s : bstate) (o : obj) : Z := match dget (w_cfg s) o with Some v => v | None => 0%Z end.

Definition cache_read_config (E : env) (o : obj) : M unit :=
  if dv_configurable (E o)
  then call (CReadCfg o) ;;;
       modify (fun s => set_b_cfgval_cache (dset (b_cfgval_cache s) o (Some (dev_cfg s o))) s)
  else modify (fun s => set_b_cfgval_cache (dset (b_cfgval_cache s) o None) s).

Definition describe_part (E : env) (o : obj) (collect : bool) : M unit :=
  s <- get ;;
  if negb collect && negb (dmem (b_desc_cache s) o) then cache_describe E o
  else if collect && negb (dmem (b_dcoll_cache s) o) then cache_describe_collect E o
  else ret tt.
Definition config_part (E : env) (o : obj) : M unit :=
  s <- get ;;
  if negb (nmem o (b_cfgdesc_cache s)) then cache_describe_config E o ;;; cache_read_config E o else ret tt.
(* gather of [describe-part; describe_configuration; read_configuration] *)
Definition ensure_cached (E : env) (o : obj) (collect : bool) : M unit :=
  gather2 (describe_part E o collect) (config_part E o).
Fixpoint ensure_cached_all (E : env) (l : list obj) (collect : bool) : M unit :=
  match l with
  | [] => ret tt
  | o :: l' => gather2 (ensure_cached E o collect) (ensure_cached_all E l' collect)
  end.

(* ------------------------------------------------------------------ event_model *)
Definition keys_no_stream (dk : dict (option obj * ext)) : list key :=
  map fst (filter (fun kv => negb (is_stream (snd (snd kv)))) dk).
Definition data_keys_no_stream (dk : dict (option obj * ext)) (data : dict val) : list key :=
  filter (fun k => match dget dk k with Some (_, e) => negb (is_stream e) | None => true end) (dkeys data).

(* ComposeDescriptor.__call__ *)
Definition compose_descriptor (u : option uid) (nm : name) (data_keys : dict (option obj * ext))
           (objkeys : dict (list key)) (cfg : dict (option Z)) : M descr :=
  s <- get ;;
  guard (b_composed s) EAttributeError ;;;                  (* self._compose_descriptor exists after open_run *)
  u' <- (match u with Some x => ret x | None => fresh_uid end) ;;
  run <- of_opt (b_run_uid s) EAttributeError ;;
  guard (match dget (b_streams s) nm with
         | Some ks => set_eqb ks (dkeys data_keys)
         | None => true end) EEventModelValidationError ;;;
  (if dmem (b_streams s) nm then ret tt
   else modify (fun s => set_b_seq (dset (b_seq s) nm 1%Z)
                           (set_b_streams (dset (b_streams s) nm (dkeys data_keys)) s))) ;;;
  ret (mkDescr u' run nm data_keys objkeys cfg).

(* ComposeEvent.__call__ for the bundle of descriptor d *)
Definition compose_event (d : descr) (data : dict val) (filled : list key) : M doc :=
  s <- get ;;
  seq <- of_opt (dget (b_seq s) (de_name d)) EKeyError ;;
  u <- fresh_uid ;;
  (* keys_without_stream_keys(data, descriptor_data_keys) indexes the descriptor with every data key *)
  guard (forallb (fun k => dmem (de_keys d) k) (dkeys data)) EKeyError ;;;
  guard (set_eqb (keys_no_stream (de_keys d)) (data_keys_no_stream (de_keys d) data))
        EEventModelValidationError ;;;
  guard (subsetb filled (dkeys data)) EEventModelValidationError ;;;
  modify (fun s => set_b_seq (dset (b_seq s) (de_name d) (seq + 1)%Z) s) ;;;
  ret (DEvent u (de_uid d) seq data filled).

(* ------------------------------------------------------------------ _prepare_stream *)
Definition with_objname (o : obj) (d : dks) : dict (option obj * ext) :=
  map (fun kv => (fst kv, (Some o, snd kv))) d.
Definition stream_data_keys (objs_dks : dict dks) : dict (option obj * ext) :=
  fold_left (fun acc od => dupdate acc (with_objname (fst od) (snd od))) objs_dks [].
Definition stream_objkeys (objs_dks : dict dks) : dict (list key) :=
  fold_left (fun acc od => dset acc (fst od) (dkeys (snd od))) objs_dks [].
Definition stream_cfg (cache : dict (option Z)) (objs_dks : dict dks) : dict (option Z) :=
  fold_left (fun acc od => dset acc (fst od) (match dget cache (fst od) with Some v => v | None => None end))
            objs_dks [].
(* counters of streams the bundler knows but the counter dict does not: set to 1 in both dicts *)
Definition fill_missing (names : list name) (sc : dict Z * dict Z) : dict Z * dict Z :=
  fold_left (fun sc nm => if dmem (fst sc) nm then sc else (dset (fst sc) nm 1%Z, dset (snd sc) nm 1%Z)) names sc.

Definition prepare_stream (nm : name) (objs_dks : dict dks) : M descr :=
  (* the loop over objs_dks: config lookups may raise KeyError before anything is composed *)
  iterM (fun od : obj * dks =>
           s <- get ;;
           _ <- of_opt (dget (b_cfgval_cache s) (fst od)) EKeyError ;;
           guard (nmem (fst od) (b_cfgdesc_cache s)) EKeyError) objs_dks ;;;
  s <- get ;;
  d <- compose_descriptor None nm (stream_data_keys objs_dks) (stream_objkeys objs_dks)
                          (stream_cfg (b_cfgval_cache s) objs_dks) ;;
  modify (fun s => set_b_descriptors (dset (b_descriptors s) nm d) s) ;;;
  emit (DDescr d) ;;;
  modify (fun s => set_b_descriptor_objs (dset (b_descriptor_objs s) nm objs_dks) s) ;;;
  modify (fun s => let sc := fill_missing [nm] (b_seq s, b_seq_copy s) in
                   set_b_seq_copy (snd sc) (set_b_seq (fst sc) s)) ;;;
  ret d.

(* ------------------------------------------------------------------ reset_checkpoint_state / rewind *)
Definition reset_checkpoint_state : M unit :=
  modify (fun s => set_b_seq_copy (dupdate (b_seq_copy s) (b_seq s)) s).

(* the counter of the "interruptions" stream survives a rewind (interruption records are never replayed) *)
Definition rewound_seq (seq copy : dict Z) : dict Z :=
  match dget seq interruptions_name with
  | Some v => dset (dupdate [] copy) interruptions_name v
  | None => dupdate [] copy
  end.
Definition rewind : M unit :=
  modify (fun s =>
    let sc := fill_missing (dkeys (b_descriptor_objs s)) (rewound_seq (b_seq s) (b_seq_copy s), b_seq_copy s) in
    set_b_bundling false (set_b_seq_copy (snd sc) (set_b_seq (fst sc) s))).

(* ------------------------------------------------------------------ open_run / close_run *)
Definition open_run : M unit :=
  modify (set_b_run_open true) ;;;
  u <- fresh_uid ;;
  modify (fun s => set_b_int (Some None) (set_b_int_counter 0 (set_b_run_uid (Some u) s))) ;;;
  (* compose_run: fresh `streams` and poison pill, the counter dict is shared and NOT cleared *)
  modify (fun s => set_b_composed true (set_b_streams [] (set_b_poison false s))) ;;;
  emit (DStart u) ;;;
  reset_checkpoint_state ;;;
  s <- get ;;
  if b_record_int s then
    iu <- fresh_uid ;;
    d <- compose_descriptor (Some iu) interruptions_name [(interruption_key, (None, ExtNone))] [] [] ;;
    modify (set_b_int (Some (Some d))) ;;;
    emit (DDescr d)
  else ret tt.

Definition clear_sub (o : obj) (cb : nat) : M unit :=
  call (CClearSub o cb) ;;;
  modify (fun s => set_w_subs (filter (fun oc => negb (Nat.eqb (fst oc) o && Nat.eqb (snd oc) cb)) (w_subs s)) s).
Definition subscribe (o : obj) (cb : nat) : M unit :=
  call (CSubscribe o cb) ;;;
  modify (fun s => set_w_subs (w_subs s ++ [(o, cb)]) s).

Definition compose_stop (st : status) (reason : nat) : M doc :=
  s <- get ;;
  guard (b_composed s) EAttributeError ;;;
  guard (negb (b_poison s)) EEventModelError ;;;
  modify (set_b_poison true) ;;;
  u <- fresh_uid ;;
  run <- of_opt (b_run_uid s) EAttributeError ;;
  ret (DStop u run st reason (map (fun kv => (fst kv, (snd kv - 1)%Z)) (b_seq s))).

Definition close_run (st : option status) (reason : nat) : M unit :=
  s <- get ;;
  guard (b_run_open s) EIllegalMessageSequence ;;;
  iterM (fun oc : obj * nat => clear_sub (fst oc) (snd oc) ;;;
                               modify (fun s => set_b_monitors (ddel (b_monitors s) (fst oc)) s))
        (b_monitors s) ;;;
  d <- compose_stop (match st with Some x => x | None => SSuccess end) reason ;;
  emit d ;;;
  reset_checkpoint_state ;;;
  modify (set_b_run_open false).

(* ------------------------------------------------------------------ create / read / drop *)
Definition create (kw : option name) (args : list name) : M unit :=
  s <- get ;;
  guard (negb (b_bundling s)) EIllegalMessageSequence ;;;
  modify (fun s => set_b_bundling true (set_b_objs_read [] (set_b_asset_cache [] (set_b_read_cache [] s)))) ;;;
  nm <- (match kw, args with
         | Some n, _ => ret n
         | None, [n] => ret n
         | None, _ => fail EValueError
         end) ;;
  modify (set_b_bundle_name (Some nm)) ;;;
  s <- get ;;
  if b_strict s then guard (dmem (b_descriptors s) nm) EIllegalMessageSequence else ret tt.

(* maybe_collect_asset_docs(msg, obj, index): what the device is asked; the answer is carried by the op *)
Definition collect_asset_docs (E : env) (o : obj) (idx : option Z) (answer : list asset) : M (list asset) :=
  if dv_wsa (E o) then call (CCollectAssets o idx) ;;; ret answer
  else if dv_wea (E o) then call (CCollectAssets o None) ;;; ret answer
  else ret [].

(* the collision check of read(): cur against every object already in the bundle *)
Definition check_collisions (cache : dict dks) (cur : dks) (objs_read : list obj) : M unit :=
  iterM (fun ro : obj =>
           known <- of_opt (dget cache ro) EKeyError ;;
           guard (disjointb (dkeys known) (dkeys cur)) EValueError) objs_read.

Definition read (E : env) (o : obj) (r : reading) (assets : list asset) : M unit :=
  s <- get ;;
  if b_bundling s then
    ensure_cached E o false ;;;
    s <- get ;;
    cur <- of_opt (dget (b_desc_cache s) o) EKeyError ;;
    check_collisions (b_desc_cache s) cur (b_objs_read s) ;;;
    modify (fun s => set_b_read_cache (b_read_cache s ++ [r]) (set_b_objs_read (b_objs_read s ++ [o]) s)) ;;;
    docs <- collect_asset_docs E o None assets ;;
    modify (fun s => set_b_asset_cache (b_asset_cache s ++ docs) s)
  else ret tt.

Definition drop : M unit :=
  s <- get ;;
  guard (b_bundling s) EIllegalMessageSequence ;;;
  modify (fun s => set_b_bundle_name None (set_b_bundling false s)).

(* ------------------------------------------------------------------ _pack_external_assets *)
Fixpoint ulookup (l : list (uid * key)) (u : uid) : option key :=
  match l with
  | [] => None
  | (u', k) :: l' => if uid_eqb u u' then Some k else ulookup l' u
  end.
Definition stream_keys (dk : dict (option obj * ext)) : list key :=
  map fst (filter (fun kv => is_stream (snd (snd kv))) dk).

(* one asset document; acc = (previous indices difference, data keys received) *)
Definition pack_one (nm : option name) (d : option descr) (a : asset) (acc : Z * list key) : M (Z * list key) :=
  match a with
  | AResource u =>
      s <- get ;;
      run <- of_opt (b_run_uid s) ERuntimeError ;;
      emit (DResource (UDev u) run) ;;; ret acc
  | AStreamRes u k =>
      s <- get ;;
      run <- of_opt (b_run_uid s) ERuntimeError ;;
      guard (negb (match ulookup (b_sres_keys s) (UDev u) with Some _ => true | None => false end)) ERuntimeError ;;;
      modify (fun s => set_b_sres_keys ((UDev u, k) :: b_sres_keys s) s) ;;;
      guard (match d with Some d => nmem k (stream_keys (de_keys d)) | None => false end) ERuntimeError ;;;
      emit (DStreamRes (UDev u) run k) ;;; ret acc
  | AStreamDatum u sres prefilled seq_zero ia ib =>
      guard (negb prefilled) ERuntimeError ;;;
      d' <- of_opt d ERuntimeError ;;
      s <- get ;;
      k <- of_opt (ulookup (b_sres_keys s) (UDev sres)) EKeyError ;;
      nm' <- of_opt nm ERuntimeError ;;
      (* _pack_seq_nums_into_stream_datum *)
      guard seq_zero EEventModelValueError ;;;
      guard (Z.eqb (fst acc) 0 || Z.eqb (fst acc) (ib - ia)) EEventModelValueError ;;;
      c <- of_opt (dget (b_seq s) nm') EKeyError ;;
      emit (DStreamDatum (UDev u) (UDev sres) (de_uid d') ia ib c (c + (ib - ia))%Z) ;;;
      ret ((ib - ia)%Z, if nmem k (snd acc) then snd acc else snd acc ++ [k])
  | ADatum u r => emit (DDatum (UDev u) (UDev r)) ;;; ret acc
  | ABad _ => fail ERuntimeError
  end.

Fixpoint pack_loop (nm : option name) (d : option descr) (l : list asset) (acc : Z * list key) : M (Z * list key) :=
  match l with
  | [] => ret acc
  | a :: l' => acc' <- pack_one nm d a acc ;; pack_loop nm d l' acc'
  end.

Definition pack_external_assets (assets : list asset) (nm : option name) : M Z :=
  s <- get ;;
  d <- (match nm with
        | Some n => d <- of_opt (dget (b_descriptors s) n) EKeyError ;; ret (Some d)
        | None => ret None
        end) ;;
  acc <- pack_loop nm d assets (0%Z, []) ;;
  guard (match d with
         | Some d' => match snd acc with
                      | [] => true
                      | _ => set_eqb (stream_keys (de_keys d')) (snd acc)
                      end
         | None => true
         end) ERuntimeError ;;;
  ret (fst acc).

(* ------------------------------------------------------------------ save *)
Definition merge_readings (l : list reading) : reading :=
  fold_left (fun acc r => dupdate acc r) l [].

(* {obj: self._describe_cache[obj] for obj in objs_read}  (KeyError = None) *)
Fixpoint lookup_dks (cache : dict dks) (l : list obj) (acc : dict dks) : option (dict dks) :=
  match l with
  | [] => Some acc
  | o :: l' => match dget cache o with
               | Some dk => lookup_dks cache l' (dset acc o dk)
               | None => None
               end
  end.

Definition filled_keys (d : descr) : list key :=
  map fst (filter (fun kv => is_other (snd (snd kv))) (de_keys d)).

(* the descriptor of the bundle's stream: the cached one (its object set must match) or a new one *)
Definition bundle_descriptor (E : env) (nm : name) (objs_read : list obj) : M descr :=
  s <- get ;;
  match dget (b_descriptors s) nm, dget (b_descriptor_objs s) nm with
  | Some d, Some d_objs =>
      guard (set_eqb (dkeys d_objs) objs_read) ERuntimeError ;;; ret d
  | _, _ =>
      iterM (fun o => ensure_cached E o (dv_collectable (E o))) objs_read ;;;
      s <- get ;;
      objs_dks <- of_opt (lookup_dks (b_desc_cache s) objs_read []) EKeyError ;;
      prepare_stream nm objs_dks
  end.

Definition save (E : env) : M unit :=
  s <- get ;;
  guard (b_bundling s) EIllegalMessageSequence ;;;
  match b_objs_read s with
  | [] => modify (fun s => set_b_bundle_name None (set_b_bundling false s))
  | _ =>
    modify (fun s => set_b_bundle_name None (set_b_bundling false s)) ;;;
    (* bundling without a stored name only after a failed create; a None stream name fails schema validation *)
    nm <- of_opt (b_bundle_name s) EUnmodelled ;;
    d <- bundle_descriptor E nm (b_objs_read s) ;;
    diff <- pack_external_assets (b_asset_cache s) (Some nm) ;;
    guard (negb (1 <? diff)%Z) ERuntimeError ;;;
    s' <- get ;;
    cur <- of_opt (dget (b_descriptors s') nm) EKeyError ;;
    ev <- compose_event d (merge_readings (b_read_cache s)) (filled_keys cur) ;;
    emit ev
  end.

(* ------------------------------------------------------------------ monitors *)
Definition monitor (E : env) (o : obj) (nm : name) (has_args : bool) : M unit :=
  guard (dv_subscribable (E o)) EAssertionError ;;;
  guard (negb has_args) EValueError ;;;
  s <- get ;;
  guard (negb (dmem (b_monitors s) o)) EIllegalMessageSequence ;;;
  ensure_cached E o false ;;;
  s <- get ;;
  dk <- of_opt (dget (b_desc_cache s) o) EKeyError ;;
  d <- prepare_stream nm [(o, dk)] ;;
  s0 <- get ;;
  modify (fun s => set_b_next_cb (S (b_next_cb s0)) (set_w_closures (dset (w_closures s) (b_next_cb s0) (o, d)) s)) ;;;
  modify (fun s => set_b_monitors (dset (b_monitors s) o (b_next_cb s0)) s) ;;;
  (* while a pause / suspension silences the monitors the subscription waits for restore_monitors *)
  if Nat.eqb (b_mon_susp s0) 0 then subscribe o (b_next_cb s0) else ret tt.

Definition unmonitor (E : env) (o : obj) : M unit :=
  guard (dv_subscribable (E o)) EAssertionError ;;;
  s <- get ;;
  cb <- of_opt (dget (b_monitors s) o) EIllegalMessageSequence ;;
  clear_sub o cb ;;;
  modify (fun s => set_b_monitors (ddel (b_monitors s) o) s) ;;;
  reset_checkpoint_state.

(* the closure emit_event of monitor(): it captures the stream name (here: the name of the descriptor made by
   monitor()) and composes its events with the descriptor registered for that name at call time
   (self._descriptors[name].compose_event; KeyError if none is registered) *)
Definition run_closure (cb : nat) (r : reading) : M unit :=
  s <- get ;;
  od <- of_opt (dget (w_closures s) cb) EUnmodelled ;;
  d <- of_opt (dget (b_descriptors s) (de_name (snd od))) EKeyError ;;
  ev <- compose_event d (dupdate [] r) [] ;;
  emit ev ;;;
  (* repair C05-c: monitor events are never replayed, the checkpoint snapshot of the stream's counter follows them
     (self._sequence_counters_copy[name] = self._sequence_counters[name]; the counter exists: compose_event read it) *)
  s' <- get ;;
  c <- of_opt (dget (b_seq s') (de_name (snd od))) EKeyError ;;
  modify (fun s => set_b_seq_copy (dset (b_seq_copy s) (de_name (snd od)) c) s).

Definition mon_event (o : obj) (r : reading) : M unit :=
  s <- get ;;
  iterM (fun oc : obj * nat => if Nat.eqb (fst oc) o then run_closure (snd oc) r else ret tt) (w_subs s).

(* pauses and suspensions may overlap (_monitor_suspensions counts them): only the first one unsubscribes, only
   the end of the last one subscribes again, and never without a matching suspend *)
Definition suspend_monitors : M unit :=
  s <- get ;;
  (if Nat.eqb (b_mon_susp s) 0
   then iterM (fun oc : obj * nat => clear_sub (fst oc) (snd oc)) (b_monitors s) else ret tt) ;;;
  modify (fun s => set_b_mon_susp (S (b_mon_susp s)) s).
Definition restore_monitors : M unit :=
  s <- get ;;
  if Nat.eqb (b_mon_susp s) 0 then ret tt
  else modify (fun s => set_b_mon_susp (pred (b_mon_susp s)) s) ;;;
       (if Nat.eqb (pred (b_mon_susp s)) 0
        then iterM (fun oc : obj * nat => subscribe (fst oc) (snd oc)) (b_monitors s) else ret tt).
Definition clear_monitors : M unit :=
  s <- get ;;
  iterM (fun oc : obj * nat => clear_sub (fst oc) (snd oc) ;;;
                               modify (fun s => set_b_monitors (ddel (b_monitors s) (fst oc)) s))
        (b_monitors s).

Definition record_interruption (content : Z) : M unit :=
  s <- get ;;
  i <- of_opt (b_int s) EAttributeError ;;
  match i with
  | None => ret tt
  | Some d =>
      ev <- compose_event d [(interruption_key, content)] [] ;;
      modify (fun s => set_b_int_counter (S (b_int_counter s)) s) ;;;
      emit ev
  end.

(* ------------------------------------------------------------------ declare_stream / collect / configure *)
(* {obj: data_keys} over the frozenset of declared objects *)
Fixpoint declare_dks (collect : bool) (desc dcoll : dict dks) (l : list obj) (acc : dict dks) : res (dict dks) :=
  match l with
  | [] => Ok acc
  | o :: l' =>
      if collect then
        match dget dcoll o with
        | None => Err EKeyError
        | Some [] => Err EAssertionError       (* describe_collect gave no stream for the declared name *)
        | Some dk => declare_dks collect desc dcoll l' (dset acc o dk)
        end
      else
        match dget desc o with
        | None => Err EKeyError
        | Some dk => declare_dks collect desc dcoll l' (dset acc o dk)
        end
  end.

(* self._declared_stream_names.setdefault(objs, []).append(name) *)
Fixpoint declared_add (l : list (list obj * list name)) (k : list obj) (n : name) : list (list obj * list name) :=
  match l with
  | [] => [(k, [n])]
  | (k', v) :: l' => if list_beq Nat.eqb k' k then (k', v ++ [n]) :: l' else (k', v) :: declared_add l' k n
  end.
Fixpoint declared_get (l : list (list obj * list name)) (k : list obj) : list name :=
  match l with
  | [] => []
  | (k', v) :: l' => if list_beq Nat.eqb k' k then v else declared_get l' k
  end.

Definition declare_stream (E : env) (objs : list obj) (nm : option name) (collect : bool) : M unit :=
  n <- of_opt nm EAssertionError ;;
  ensure_cached_all E (to_set objs) collect ;;;
  s <- get ;;
  objs_dks <- of_res (declare_dks collect (b_desc_cache s) (b_dcoll_cache s) (to_set objs) []) ;;
  modify (fun s => set_b_declared (declared_add (b_declared s) (to_set objs) n) s) ;;;
  _ <- prepare_stream n objs_dks ;;
  ret tt.

Definition zmin_list (l : list Z) : option Z :=
  match l with [] => None | x :: l' => Some (fold_left Z.min l' x) end.

Fixpoint collect_all_assets (E : env) (l : list (obj * Z * list asset)) (idx : option Z) : M (list asset) :=
  match l with
  | [] => ret []
  | x :: l' => a <- collect_asset_docs E (fst (fst x)) idx (snd x) ;;
               r <- collect_all_assets E l' idx ;; ret (a ++ r)
  end.

(* the stream a collect message is for *)
Definition resolve_stream (declared : list name) (nm : option name) : M (option name) :=
  match nm with
  | Some n => guard (nmem n declared) EAssertionError ;;; ret (Some n)
  | None => match declared with
            | [] => ret None
            | n :: rest => guard (forallb (Nat.eqb n) rest) EAssertionError ;;; ret (Some n)
            end
  end.

Definition collect (E : env) (objs : list (obj * Z * list asset)) (nm : option name) (stream_flag : bool) : M unit :=
  let os := map (fun x => fst (fst x)) objs in
  let multi := (1 <? length os)%nat in
  s <- get ;;
  guard (b_run_open s) EIllegalMessageSequence ;;;
  guard (negb stream_flag) ERuntimeError ;;;
  guard (match os with [] => false | _ => true end) EAssertionError ;;;      (* Msg('collect') : obj is None *)
  guard (forallb (fun o => dv_collectable (E o)) os) EAssertionError ;;;
  (if multi then guard (forallb (fun o => dv_wsa (E o)) os) EAssertionError else ret tt) ;;;
  modify (fun s => set_b_uncollected (fold_left (fun acc o => nremove o acc) os (b_uncollected s)) s) ;;;
  stream <- resolve_stream (declared_get (b_declared s) (to_set os)) nm ;;
  (* without a declared stream: old style, _describe_collect *)
  n <- (match stream with
        | Some n => ret n
        | None => if multi then fail EIllegalMessageSequence else fail EUnmodelled
        end) ;;
  (if multi then iterM (fun o => call (CGetIndex o)) os else ret tt) ;;;
  assets <- collect_all_assets E objs (if multi then zmin_list (map (fun x => snd (fst x)) objs) else None) ;;
  diff <- pack_external_assets assets (Some n) ;;
  (match os with
   | [o] =>
       if negb (dv_wsa (E o)) then
         s <- get ;;
         (if nmem o (b_local s) then ret tt
          else d_objs <- of_opt (dget (b_descriptor_objs s) n) EKeyError ;;
               _ <- of_opt (dget d_objs o) EKeyError ;;
               modify (fun s => set_b_local (b_local s ++ [o]) s)) ;;;
         (if dv_pgc (E o) || dv_evc (E o) then fail EUnmodelled else ret tt)
       else ret tt
   | _ => ret tt
   end) ;;;
  s <- get ;;
  c <- of_opt (dget (b_seq s) n) EKeyError ;;
  modify (fun s => set_b_seq (dset (b_seq s) n (c + diff)%Z) s).

Definition backstop_collect (E : env) (resp : list (obj * list asset)) : M unit :=
  s <- get ;;
  iterM (fun o =>
           swallow (collect E [(o, 0%Z, match find (fun oa => Nat.eqb (fst oa) o) resp with
                                        | Some oa => snd oa | None => [] end)] None false))
        (b_uncollected s).

(* RunBundler.configure, after RunEngine._configure's guard and obj.configure(value) *)
Definition configure (E : env) (o : obj) (v : Z) : M unit :=
  s <- get ;;
  guard (negb (b_bundling s)) EIllegalMessageSequence ;;;
  call (CConfigure o v) ;;;
  modify (fun s => set_w_cfg (dset (w_cfg s) o v) s) ;;;
  cache_read_config E o ;;;
  s <- get ;;
  iterM (fun nm =>
           s <- get ;;
           obj_set <- of_opt (dget (b_descriptor_objs s) nm) EKeyError ;;
           if dmem obj_set o then
             modify (fun s => set_b_descriptors (ddel (b_descriptors s) nm) s) ;;;
             _ <- prepare_stream nm obj_set ;; ret tt
           else ret tt)
        (dkeys (b_descriptors s)).

Definition checkpoint : M unit :=
  s <- get ;;
  guard (negb (b_bundling s)) EIllegalMessageSequence ;;;
  reset_checkpoint_state.

(* ------------------------------------------------------------------ step / run *)
Definition exec (E : env) (o : op) : M unit :=
  match o with
  | OOpenRun => open_run
  | OCloseRun st reason => close_run st reason
  | OCreate kw args => create kw args
  | ORead o r assets => read E o r assets
  | OSave => save E
  | ODrop => drop
  | OMonitor o nm has_args => monitor E o nm has_args
  | OUnmonitor o => unmonitor E o
  | OMonEvent o r => mon_event o r
  | OKickoff o => modify (fun s => set_b_uncollected (sinsert o (b_uncollected s)) s)
  | OCollect objs nm sf => collect E objs nm sf
  | ODeclareStream objs nm c => declare_stream E objs nm c
  | OConfigure o v => configure E o v
  | OCheckpoint => checkpoint
  | ORecordInterruption c => record_interruption c
  | ORewind => rewind
  | OResetCheckpoint => reset_checkpoint_state
  | OClearCheckpoint => modify (set_b_seq_copy [])
  | OSuspendMonitors => suspend_monitors
  | ORestoreMonitors => restore_monitors
  | OClearMonitors => clear_monitors
  | OBackstopCollect resp => backstop_collect E resp
  end.

Definition to_result (r : res unit) : result := match r with Ok _ => ROk | Err e => RErr e end.
Definition clear_buffers (s : bstate) : bstate := set_b_ledger [] (set_b_out [] s).

Definition step (E : env) (s : bstate) (o : op) : bstate * list doc * result :=
  let sr := exec E o (clear_buffers s) in
  (fst sr, b_out (fst sr), to_result (snd sr)).

Definition init (strict record_int : bool) : bstate :=
  mkB strict record_int false None None [] [] [] [] [] [] [] [] [] [] [] [] 0 [] false [] [] [] None 0
      false [] false 0 0 [] [] [] [] [].

(* the whole history: per op (documents, device calls, result) *)
Fixpoint run (E : env) (s : bstate) (h : list op) : bstate * list (list doc * list devcall * result) :=
  match h with
  | [] => (s, [])
  | o :: h' =>
      let sr := step E s o in
      let rest := run E (fst (fst sr)) h' in
      (fst rest, (snd (fst sr), b_ledger (fst (fst sr)), snd sr) :: snd rest)
  end.
Definition final (E : env) (s : bstate) (h : list op) : bstate := fst (run E s h).
Definition trace (E : env) (s : bstate) (h : list op) : list doc :=
  concat (map (fun x => fst (fst x)) (snd (run E s h))).
