(* C12 - device errors reach the plan at the message that caused them.
   Model: Engine/RE.v; monitors: Engine/RespMon.v ([chk]: the response discipline, [chk_status]: promptness of failed
   status objects) over the per-event trace [run_tr] of the model.
   (i)   a command that fails answers its message with an exception; the plan that yielded the message is thrown
         that exception at that yield - never sent a value - unless an exception injected by the engine or raised by
         a frame above it pre-empts it (then that one is thrown): part of [chk]; at the top of the loop the
         `_exception` slot, else the stash, else the exception response is what the top frame is thrown.
   (ii)  once a status object has failed (not pardoned) no further message is processed before an exception has been
         thrown into a plan: so the failure arrives at the current yield - at the wait on its group or earlier,
         never after a later checkpoint.
   (iii) an ordinary exception leaving the last frame ends the task, and the blocking call, with that exception. *)
From Coq Require Import List.
From BV Require Import Engine.RE Engine.REInst Engine.RespMon Proofs.RE_Small Proofs.RE_RespC Proofs.RE_Resp Proofs.RE_Status Proofs.RE_RespEx.
Import ListNotations.

(* nothing of the statement the model can express is left out; what it cannot express is listed in the manifest
   (wait(watch=...)/timeout=, real threads) *)
Definition C12_full : Prop :=
  (forall (P : Type) (presume : P -> input -> outcome P) (plan_of : nat -> P)
          (D : Type) (dev : D -> nat -> devmeth -> D * devres) (pid : nat),
     pid < 1000 -> (forall p i, presume p i <> Raised ECancelled) ->
     forall (d : D) (paus stag : list nat) (rec : bool) (evs : list event),
       let tr := snd (run_tr P presume plan_of D dev (init P D d paus stag rec) evs) in
       ~ In (OBad 1) (flat_map snd tr) -> exists fl, chk pid mon0 tr = Some fl) /\
  (forall (P : Type) (presume : P -> input -> outcome P) (plan_of : nat -> P)
          (D : Type) (dev : D -> nat -> devmeth -> D * devres)
          (d : D) (paus stag : list nat) (rec : bool) (evs : list event),
     chk_status false (snd (run_tr P presume plan_of D dev (init P D d paus stag rec) evs)) = true).

(* (i) trace form: every input of the plan of call pid is explained by the recorded response; in particular after an
   exception response the next input is a Throw (of that exception, an engine-injected one or one from a frame above) *)
Theorem C12_errors_thrown_at_yield :
  forall (P : Type) (presume : P -> input -> outcome P) (plan_of : nat -> P)
         (D : Type) (dev : D -> nat -> devmeth -> D * devres) (pid : nat),
    pid < 1000 -> (forall p i, presume p i <> Raised ECancelled) ->
    forall (d : D) (paus stag : list nat) (rec : bool) (evs : list event),
      let tr := snd (run_tr P presume plan_of D dev (init P D d paus stag rec) evs) in
      ~ In (OBad 1) (flat_map snd tr) -> exists fl, chk pid mon0 tr = Some fl.
Proof. exact inputs_explained. Qed.
Print Assumptions C12_errors_thrown_at_yield.

(* (i) step form: with nothing injected and nothing stashed, an exception response on top of the response stack is
   thrown into the frame on top of the plan stack *)
Theorem C12_exception_response_thrown :
  forall (P : Type) (presume : P -> input -> outcome P) (plan_of : nat -> P)
         (D : Type) (dev : D -> nat -> devmeth -> D * devres)
         (s : st P D) (e : exn) (rest : list resp) (top : frame P) (pl : list (frame P)),
    exc_slot P D s = None -> stashed P D s = None -> resps P D s = RExn e :: rest -> plans P D s = top :: pl ->
    dstep P presume plan_of D dev s CAfterSleep =
    aft_res P D (aft_s2 P D s) true (frame_resume P presume top (Throw e)).
Proof. exact exn_response_is_thrown. Qed.
Print Assumptions C12_exception_response_thrown.

(* (ii) for every plan, device behaviour and schedule: a failed status is followed by a throw into a plan (or a new
   call) before any further message is processed *)
Theorem C12_failed_status_prompt :
  forall (P : Type) (presume : P -> input -> outcome P) (plan_of : nat -> P)
         (D : Type) (dev : D -> nat -> devmeth -> D * devres)
         (d : D) (paus stag : list nat) (rec : bool) (evs : list event),
    chk_status false (snd (run_tr P presume plan_of D dev (init P D d paus stag rec) evs)) = true.
Proof. exact failed_status_prompt. Qed.
Print Assumptions C12_failed_status_prompt.

(* (ii) what the failure becomes and where it goes: the `_exception` slot holds FailedStatus, and the next time the
   loop reaches the top frame that is what the frame is thrown, whatever its pending response *)
Theorem C12_failed_status_thrown :
  forall (P : Type) (presume : P -> input -> outcome P) (plan_of : nat -> P)
         (D : Type) (dev : D -> nat -> devmeth -> D * devres) (s : st P D) (sid : nat),
    pardon P D s = false ->
    exc_slot P D (fst (step P presume plan_of D dev s (EvStatus sid false))) = Some EFailedStatus /\
    (forall (s1 : st P D) e r rest top pl,
        exc_slot P D s1 = Some e -> resps P D s1 = r :: rest -> plans P D s1 = top :: pl ->
        dstep P presume plan_of D dev s1 CAfterSleep =
        aft_res P D (aft_s2 P D s1) true (frame_resume P presume top (Throw e))).
Proof. exact failed_status_thrown. Qed.
Print Assumptions C12_failed_status_thrown.

(* (iii) an ordinary exception (an Exception other than RequestStop/RequestAbort/FailedPause) that leaves the last
   frame goes straight to the finally block, the task ends with it, and RE(...)/resume() raise it *)
Theorem C12_unhandled_exception_raised :
  forall (P : Type) (presume : P -> input -> outcome P) (plan_of : nat -> P)
         (D : Type) (dev : D -> nat -> devmeth -> D * devres),
    (forall (s : st P D) e s' c' o, ordinary e -> dstep P presume plan_of D dev s (CExit (XExn e)) = inl (s', c', o) ->
        c' = CFinalize (TReturn NO_RETURN) (Some e) /\ o = []) /\
    (forall (s : st P D) r e s' o, finalize P presume D dev s r (Some e) = (s', o) ->
        pc P D s' = PcDone (TRaise e) \/ pc P D s' = PcDone (TRaise ETransition)) /\
    (forall (s : st P D) a e, pc P D s = PcDone (TRaise e) -> e <> ECancelled -> main_err P D s = None ->
        match a with ACall _ | AResume => True | _ => False end ->
        exists st_ d r, snd (step P presume plan_of D dev s (EvMainDone a)) = [OOut (OutRaise e) st_ d r]).
Proof. exact unhandled_exception_raised. Qed.
Print Assumptions C12_unhandled_exception_raised.

(* non-vacuity: a real schedule in which a device fault is thrown into the plan (which handles it), with a
   suspension, a pause and a resume, satisfies the hypotheses and both monitors accept it *)
Example C12_instance : exists fl, chk 0 mon0 exn__tr = Some fl.
Proof. exact inputs_explained_instance. Qed.
Example C12_nonvacuous :
  tapes_ok exn__tapes = true /\ no_bad exn__tr = true /\ chk 0 mon0 exn__tr = Some [] /\
  chk_status false exn__tr = true /\
  existsb is_throw_in (flat_map snd exn__tr) = true /\ existsb is_value_in (flat_map snd exn__tr) = true /\
  existsb is_helper_in (flat_map snd exn__tr) = true.
Proof. exact resp_nonvacuous. Qed.
