(* Proofs for C33 (model: Pure/Framing.v). *)
From BV Require Import Base.Prelude Pure.Framing.
From Coq Require Import NArith.
Local Open Scope N_scope.

Lemma bytes_beq_eq : forall a b, bytes_beq a b = true <-> a = b.
Proof. apply list_beq_eq. intros x y. apply N.eqb_eq. Qed.

Lemma bytes_beq_refl : forall a, bytes_beq a a = true.
Proof. intros a. now apply bytes_beq_eq. Qed.

Lemma prefix_ok_notin : forall p, prefix_ok p = true <-> ~ In SP p.
Proof.
  intros p. unfold prefix_ok. rewrite negb_true_iff. split.
  - intros E HIn. assert (X : existsb (N.eqb SP) p = true).
    { apply existsb_exists. exists SP. split; [exact HIn | apply N.eqb_refl]. }
    congruence.
  - intros HN. destruct (existsb (N.eqb SP) p) eqn:E; [|reflexivity].
    apply existsb_exists in E as [x [HIn Hx]]. apply N.eqb_eq in Hx. subst x. contradiction.
Qed.

(* splitting at the first space finds exactly the space that was put there *)
Lemma split_first_app : forall x y, ~ In SP x -> split_first (x ++ SP :: y) = Some (x, y).
Proof.
  induction x as [|b x IH]; intros y HN; cbn.
  - reflexivity.
  - destruct (N.eqb b SP) eqn:E.
    + apply N.eqb_eq in E. exfalso. apply HN. left. exact E.
    + rewrite IH; [reflexivity|]. intros HIn. apply HN. right. exact HIn.
Qed.

(* conversely, whatever split_first returns re-assembles to the input and the head is space-free *)
Lemma split_first_sound : forall l x y, split_first l = Some (x, y) -> l = x ++ SP :: y /\ ~ In SP x.
Proof.
  induction l as [|b l IH]; intros x y E; cbn in E; [discriminate|].
  destruct (N.eqb b SP) eqn:Eb.
  - apply N.eqb_eq in Eb. inversion E; subst. split; [reflexivity | intros []].
  - destruct (split_first l) as [[x' y']|] eqn:El; [|discriminate].
    inversion E; subst. destruct (IH _ _ eq_refl) as [H1 H2]. split.
    + cbn. now rewrite H1 at 1.
    + intros [H|H]; [subst b; now rewrite N.eqb_refl in Eb | now apply H2].
Qed.

Lemma split_first_none : forall l, split_first l = None <-> ~ In SP l.
Proof.
  induction l as [|b l IH]; cbn.
  - split; [intros _ [] | reflexivity].
  - destruct (N.eqb b SP) eqn:Eb.
    + apply N.eqb_eq in Eb. split; [discriminate | intros H; exfalso; apply H; now left].
    + destruct (split_first l) as [[x y]|] eqn:El.
      * split; [discriminate|]. intros H. exfalso.
        destruct (split_first_sound _ _ _ El) as [H1 _]. apply H. right. rewrite H1.
        apply in_or_app. right. now left.
      * split; [|reflexivity]. intros _ [H|H]; [subst b; now rewrite N.eqb_refl in Eb|].
        now apply (proj1 IH).
Qed.

Theorem parse_frame : forall p n payload,
  ~ In SP p -> ~ In SP n -> parse (frame p n payload) = Some (p, n, payload).
Proof.
  intros p n payload Hp Hn. unfold parse, frame.
  rewrite split_first_app by exact Hp. rewrite split_first_app by exact Hn. reflexivity.
Qed.

(* parse is the inverse of frame on everything it accepts *)
Theorem parse_sound : forall m p n payload,
  parse m = Some (p, n, payload) -> m = frame p n payload /\ ~ In SP p /\ ~ In SP n.
Proof.
  intros m p n payload E. unfold parse in E.
  destruct (split_first m) as [[p' r]|] eqn:E1; [|discriminate].
  destruct (split_first r) as [[n' d']|] eqn:E2; [|discriminate].
  inversion E; subst. destruct (split_first_sound _ _ _ E1) as [H1 H2].
  destruct (split_first_sound _ _ _ E2) as [H3 H4]. subst. unfold frame. auto.
Qed.

(* fewer than two spaces <-> split fails *)
Fixpoint count_sp (l : bytes) : nat :=
  match l with [] => 0%nat | b :: t => if N.eqb b SP then S (count_sp t) else count_sp t end.

Lemma count_sp_0 : forall l, count_sp l = 0%nat <-> ~ In SP l.
Proof.
  induction l as [|b l IH]; cbn; [split; [intros _ []|reflexivity]|].
  destruct (N.eqb b SP) eqn:Eb.
  - apply N.eqb_eq in Eb. split; [discriminate | intros H; exfalso; apply H; now left].
  - rewrite IH. split; [intros H [X|X]; [subst; now rewrite N.eqb_refl in Eb | now apply H] | intros H X; apply H; now right].
Qed.

Lemma count_sp_app : forall a b, count_sp (a ++ b) = (count_sp a + count_sp b)%nat.
Proof. induction a as [|x a IH]; intros b; cbn; [reflexivity|]. destruct (N.eqb x SP); rewrite IH; reflexivity. Qed.

Theorem parse_none_iff : forall m, parse m = None <-> (count_sp m < 2)%nat.
Proof.
  intros m. unfold parse. destruct (split_first m) as [[p r]|] eqn:E1.
  - destruct (split_first_sound _ _ _ E1) as [H1 H2]. subst m.
    rewrite count_sp_app. cbn. rewrite (proj2 (count_sp_0 p) H2). cbn.
    destruct (split_first r) as [[n d]|] eqn:E2.
    + destruct (split_first_sound _ _ _ E2) as [H3 _]. subst r. rewrite count_sp_app. cbn.
      split; [discriminate | lia].
    + apply split_first_none in E2. apply count_sp_0 in E2. rewrite E2. split; [lia | reflexivity].
  - apply split_first_none in E1. apply count_sp_0 in E1. rewrite E1. split; [lia | reflexivity].
Qed.

(* ---- facts about the document-name table, computed by the kernel ---------------- *)
Definition name_fine (n : bytes) : bool := prefix_ok n && utf8_valid n && known_name n.
Lemma names_fine_all : forallb name_fine document_names = true.
Proof. vm_compute. reflexivity. Qed.

Lemma name_fine_in : forall n, In n document_names -> ~ In SP n /\ utf8_valid n = true /\ known_name n = true.
Proof.
  intros n HIn. pose proof (proj1 (forallb_forall _ _) names_fine_all n HIn) as H.
  unfold name_fine in H. apply andb_true_iff in H as [H H3]. apply andb_true_iff in H as [H1 H2].
  apply prefix_ok_notin in H1. auto.
Qed.

Lemma known_name_in : forall n, known_name n = true <-> In n document_names.
Proof.
  intros n. unfold known_name. rewrite existsb_exists. split.
  - intros [x [HIn E]]. apply bytes_beq_eq in E. now subst.
  - intros HIn. exists n. split; [exact HIn | apply bytes_beq_refl].
Qed.

Lemma ascii_utf8_valid : forall l, forallb (fun b => b <? 128) l = true -> utf8_valid l = true.
Proof.
  induction l as [|b l IH]; cbn; [reflexivity|]. intros H. apply andb_true_iff in H as [H1 H2].
  rewrite H1. now apply IH.
Qed.

(* ---- the dispatcher ----------------------------------------------------------- *)
Local Arguments known_name : simpl never.
Local Arguments utf8_valid : simpl never.
Local Arguments parse : simpl never.
Section Codec.
  Variable doc : Type.
  Variable ser : doc -> bytes.
  Variable deser : bytes -> option doc.
  Hypothesis deser_ser : forall d, deser (ser d) = Some d.

  Notation handle := (handle doc deser).
  Notation poll := (poll doc deser).
  Notation item := (item doc).
  Notation wire := (wire doc ser).
  Notation wire1 := (wire1 doc ser).
  Notation expected := (expected doc).

  Lemma matches_spec : forall q p, matches q p = true <-> (q = [] \/ p = q).
  Proof.
    intros q p. destruct q as [|b q]; cbn.
    - split; auto.
    - change (bytes_beq p (b :: q) = true <-> (b :: q = [] \/ p = b :: q)).
      rewrite bytes_beq_eq. split; [auto | intros [H|H]; [discriminate | exact H]].
  Qed.

  (* a published frame: delivered iff the prefix matches, with the name and document given *)
  Lemma handle_pub : forall q p n d, prefix_ok p = true -> In n document_names ->
    handle q (frame p n (ser d)) = if matches q p then Deliver n d else Skip.
  Proof.
    intros q p n d Hp Hn. destruct (name_fine_in n Hn) as [H1 [H2 H3]].
    unfold Framing.handle. rewrite parse_frame; [| now apply prefix_ok_notin | exact H1].
    rewrite H2. cbn [negb]. fold (matches q p). destruct (matches q p); [|reflexivity].
    rewrite deser_ser, H3. reflexivity.
  Qed.

  (* malformed for a dispatcher listening to q: stated on the frame, not via [handle] *)
  Definition malformedb (q m : bytes) : bool :=
    match parse m with
    | None => true                                           (* fewer than two spaces *)
    | Some (p, n, payload) =>
        negb (utf8_valid n)                                  (* undecodable name *)
        || (matches q p && (match deser payload with None => true | Some _ => false end   (* bad payload *)
                            || negb (known_name n)))         (* not a document name *)
    end.

  Definition cause_of (q m : bytes) : cause :=
    match parse m with
    | None => CSplit
    | Some (p, n, payload) =>
        if negb (utf8_valid n) then CName
        else match deser payload with None => CDeser | Some _ => CUnknown end
    end.

  Lemma handle_malformed : forall q m, malformedb q m = true -> handle q m = Bad (cause_of q m).
  Proof.
    intros q m H. unfold malformedb in H. unfold Framing.handle, cause_of.
    destruct (parse m) as [[[p n] payload]|]; [|reflexivity].
    destruct (negb (utf8_valid n)); [reflexivity|]. cbn [orb] in H.
    fold (matches q p). apply andb_true_iff in H as [Hm H]. rewrite Hm.
    destruct (deser payload); [|reflexivity]. cbn [orb] in H. apply negb_true_iff in H. rewrite H. reflexivity.
  Qed.

  (* and nothing else is: a frame that is not malformed is delivered or is someone else's *)
  Lemma handle_wellformed : forall q m, malformedb q m = false ->
    exists p n payload, parse m = Some (p, n, payload) /\
      ((matches q p = true /\ exists d, deser payload = Some d /\ handle q m = Deliver n d)
       \/ (matches q p = false /\ handle q m = Skip)).
  Proof.
    intros q m H. unfold malformedb in H. unfold Framing.handle.
    destruct (parse m) as [[[p n] payload]|]; [|discriminate].
    exists p, n, payload. split; [reflexivity|].
    apply orb_false_iff in H as [H1 H2]. rewrite H1. fold (matches q p).
    destruct (matches q p); [left | right; auto].
    cbn [andb] in H2. apply orb_false_iff in H2 as [H2 H3].
    destruct (deser payload) as [d|]; [|discriminate]. apply negb_false_iff in H3. rewrite H3.
    split; [reflexivity|]. exists d. auto.
  Qed.

  Definition item_ok (q : bytes) (i : item) : Prop :=
    match i with
    | Pub p n d => prefix_ok p = true /\ In n document_names
    | Junk m => malformedb q m = true
    end.
  Definition is_pub (i : item) : Prop := match i with Pub _ _ _ => True | Junk _ => False end.

  Lemma wire_app : forall items t, wire t items = t ++ map wire1 items.
  Proof.
    induction items as [|i items IH]; intros t; cbn.
    - now rewrite app_nil_r.
    - unfold Framing.wire in *. cbn. rewrite IH. unfold send. rewrite <- app_assoc. reflexivity.
  Qed.

  (* not strict: exactly the matching published documents, in order; the loop keeps running *)
  Lemma poll_nonstrict_frames : forall q items, Forall (item_ok q) items ->
    poll false q (map wire1 items) = (expected q items, Running).
  Proof.
    intros q items H. induction H as [|i items Hi _ IH]; cbn; [reflexivity|].
    destruct i as [p n d | m]; cbn in Hi |- *.
    - destruct Hi as [Hp Hn]. rewrite handle_pub by assumption.
      destruct (matches q p); rewrite IH; reflexivity.
    - rewrite handle_malformed by exact Hi. exact IH.
  Qed.

  Theorem poll_nonstrict : forall q items, Forall (item_ok q) items ->
    poll false q (wire [] items) = (expected q items, Running).
  Proof. intros. rewrite wire_app. cbn. now apply poll_nonstrict_frames. Qed.

  (* strict or not, a stream of published frames only is delivered completely *)
  Lemma poll_pubs_frames : forall strict q items, Forall (item_ok q) items -> Forall is_pub items ->
    poll strict q (map wire1 items) = (expected q items, Running).
  Proof.
    intros strict q items H. induction H as [|i items Hi _ IH]; intros HP; cbn; [reflexivity|].
    inversion HP as [|? ? Hpi HP']; subst.
    destruct i as [p n d | m]; cbn in Hi, Hpi |- *; [|contradiction].
    destruct Hi as [Hp Hn]. rewrite handle_pub by assumption.
    destruct (matches q p); rewrite (IH HP'); reflexivity.
  Qed.

  Theorem poll_pubs : forall strict q items, Forall (item_ok q) items -> Forall is_pub items ->
    poll strict q (wire [] items) = (expected q items, Running).
  Proof. intros. rewrite wire_app. cbn. now apply poll_pubs_frames. Qed.

  (* strict: the first malformed frame ends the loop; what was published before it has been
     delivered, it is not, and nothing after it is *)
  Theorem poll_strict_raises : forall q items m rest,
    Forall (item_ok q) items -> Forall is_pub items -> malformedb q m = true ->
    poll true q (wire [] (items ++ Junk m :: rest)) = (expected q items, Raised (cause_of q m)).
  Proof.
    intros q items m rest H HP Hm. rewrite wire_app. cbn [app]. rewrite map_app. cbn [map wire1].
    induction H as [|i items Hi _ IH]; cbn.
    - rewrite handle_malformed by exact Hm. reflexivity.
    - inversion HP as [|? ? Hpi HP']; subst.
      destruct i as [p n d | m']; cbn in Hi, Hpi |- *; [|contradiction].
      destruct Hi as [Hp Hn]. rewrite handle_pub by assumption.
      destruct (matches q p); rewrite (IH HP'); reflexivity.
  Qed.

  (* not strict, arbitrary frames (no hypothesis at all): every delivery is a frame of the
     stream whose prefix matched, with the parsed name and the deserialised payload, in order *)
  Fixpoint deliverable (q : bytes) (frames : list bytes) : list (bytes * doc) :=
    match frames with
    | [] => []
    | m :: r => match parse m with
                | Some (p, n, payload) =>
                    match deser payload with
                    | Some d => if utf8_valid n && matches q p && known_name n
                                then (n, d) :: deliverable q r else deliverable q r
                    | None => deliverable q r
                    end
                | None => deliverable q r
                end
    end.

  Theorem poll_nonstrict_any : forall q frames, poll false q frames = (deliverable q frames, Running).
  Proof.
    intros q frames. induction frames as [|m r IH]; cbn; [reflexivity|].
    unfold Framing.handle. destruct (parse m) as [[[p n] payload]|]; [|exact IH].
    fold (matches q p). destruct (utf8_valid n); cbn [negb andb].
    - destruct (matches q p); cbn [andb].
      + destruct (deser payload); [|exact IH]. destruct (known_name n); rewrite IH; reflexivity.
      + destruct (deser payload); exact IH.
    - destruct (deser payload); exact IH.
  Qed.
End Codec.
