"""C43 - PersistentDict keeps what was last written.

Runs the real bluesky.utils.PersistentDict on a temporary directory (under /tmp, removed afterwards)
through an operation history with reopen points (graceful = instance dropped and collected so the
weakref finalizer runs; crash = finalizer detached, as when the process is killed) and compares, after
EVERY operation, the result of the operation, the ordered content of the cache dict and the ordered
content of the zict.File directory mapping with the model (Pure/PDict.v) run on the same history.
"""
import gc
import itertools
import os
import shutil
import tempfile

from harness.drivers.io_common import build, canon, coq_bool, coq_list, rand_value

ID = "C43"
PROP_FILE = "Props/C43.v"
THEOREMS = ["C43_refines_spec", "C43_reopen_last_written", "C43_untouched_key_keeps_value"]
COQ_IMPORTS = "From BV Require Import Pure.PDict.\nFrom Coq Require Import NArith."
PARALLEL = False          # set per tier in cases(): a process pool only pays off for the thorough tier
MODELLED = ("PersistentDict (__setitem__/__delitem__/popitem/flush/reload/finalizer and the MutableMapping mixins pop/"
            "clear/update/setdefault) is modelled over two insertion-ordered association lists (the cache dict and "
            "zict.File's filenames dict, whose __setitem__ discards and re-adds the key); keys and values are numbers; "
            "msgpack/msgpack_numpy is the identity codec on the values used (values that do not round-trip exactly - "
            "tuples, non-str dict keys - and values msgpack rejects are outside the model); os.listdir order of a new "
            "instance is an input; garbage-collection timing of weakref.finalize is replaced by two explicit reopen "
            "kinds; torn writes inside zict.File and two live instances on one directory are not modelled.")
RULE = ("corpus (C43-a witness) first; exhaustive: every history of <=2 (quick) / <=3 (thorough) operations over a "
        "16-symbol alphabet (set/del/pop/popitem/clear/setdefault/update/flush/reload/mutate/resync = d[k] = d[k], the same object assigned again/reopen graceful/crash on "
        "keys {a,b}) followed by each reopen kind, the read-modify-write idiom (set, mutate in place, assign the same object) with every symbol at every position, plus a sample of length-3 (quick) / length-4 (thorough) ones; random "
        "histories of 5-40 operations over awkward keys ('', 'k/1', '#x', 'a#1', '%41', unicode) and random "
        "msgpack/numpy values of all kinds with reopen points everywhere. non-trivial = a reopen after at least one "
        "delete-like operation and one in-place mutation or reload.")

KEYPOOL = ["a", "b", "k/1", "sp ace", "né", "#x", "", "a#1", "%41", "日本", ".", "A"]


# ------------------------------------------------------------------------------ cases

def _kind(spec):
    if isinstance(spec, dict) and "__nd__" in spec:
        return 3
    if isinstance(spec, dict) and "__b__" not in spec:
        return 0
    if isinstance(spec, list):
        return 1
    return 2


def _valpool(rng, n):
    """{id: spec} with id mod 4 = kind, pairwise different values"""
    pool, seen, count = {}, set(), [0, 0, 0, 0]
    base = [{"color": "red"}, {"color": "red", "shape": "bar"}, [1, 2], [], 5, "txt", None, {}]
    tries = 0
    while len(pool) < n and tries < 400:
        tries += 1
        spec = base.pop(0) if base else rand_value(rng, "msgpack")
        c = canon(build(spec))
        if c in seen:
            continue
        seen.add(c)
        k = _kind(spec)
        pool[str(4 * count[k] + k)] = spec
        count[k] += 1
    return pool


SMALL_VALS = {"0": {"color": "red"}, "4": {"color": "red", "shape": "bar"}, "2": 7, "1": [1, 2], "5": []}


def _alphabet():
    return [["set", 0, 0], ["set", 0, 4], ["set", 1, 2], ["set", 1, 1], ["del", 0], ["pop", 1], ["popitem"], ["clear"],
            ["setdefault", 0, 4], ["update", [[0, 2], [1, 0]]], ["flush"], ["reload"], ["mutate", 0, 4],
            ["resync", 0], ["reopen", True], ["reopen", False]]


def cases(rng, tier):
    global PARALLEL
    PARALLEL = tier == "thorough"
    out = []
    alpha = _alphabet()
    full = 2 if tier == "quick" else 3
    for n in range(0, full + 1):
        for seq in itertools.product(alpha, repeat=n):
            for g in (True, False):
                out.append({"keys": ["a", "b"], "vals": SMALL_VALS, "ops": list(seq) + [["reopen", g], ["get", 0]]})
    # the documented way to persist an in-place change: x = d[k]; change x; d[k] = x  (the same object is assigned again)
    for a in alpha:
        for g in (True, False):
            for seq in ([["set", 0, 0], a, ["mutate", 0, 4], ["resync", 0]], [["set", 0, 0], ["mutate", 0, 4], a, ["resync", 0]],
                        [["set", 0, 0], ["mutate", 0, 4], ["resync", 0], a], [a, ["set", 0, 4], ["mutate", 0, 0], ["resync", 0]]):
                out.append({"keys": ["a", "b"], "vals": SMALL_VALS, "ops": seq + [["reopen", g], ["get", 0]]})
    for _ in range(500 if tier == "quick" else 6000):
        seq = [rng.choice(alpha) for _ in range(full + 1)]
        out.append({"keys": ["a", "b"], "vals": SMALL_VALS, "ops": seq + [["reopen", rng.random() < 0.5], ["popitem"]]})
    for _ in range(150 if tier == "quick" else 4000):
        keys = rng.sample(KEYPOOL, rng.randint(2, 5))
        vals = _valpool(rng, rng.randint(4, 10))
        ids = sorted(int(i) for i in vals)
        mut = [i for i in ids if i % 4 < 2]
        ops = []
        for _ in range(rng.randint(5, 40)):
            r = rng.random()
            k = rng.randrange(len(keys))
            if r < 0.28:
                ops.append(["set", k, rng.choice(ids)])
            elif r < 0.36:
                ops.append(["del", k])
            elif r < 0.42:
                ops.append(["pop", k])
            elif r < 0.45:
                ops.append(["popd", k, rng.choice(ids)])
            elif r < 0.50:
                ops.append(["popitem"])
            elif r < 0.52:
                ops.append(["clear"])
            elif r < 0.58:
                ops.append(["update", [[rng.randrange(len(keys)), rng.choice(ids)] for _ in range(rng.randint(0, 3))]])
            elif r < 0.63:
                ops.append(["setdefault", k, rng.choice(ids)])
            elif r < 0.66:
                ops.append(["get", k])
            elif r < 0.72:
                ops.append(["flush"])
            elif r < 0.79:
                ops.append(["reload"])
            elif r < 0.87:
                ops.append(["mutate", k, rng.choice(mut if mut and rng.random() < 0.85 else ids)])
            elif r < 0.91:
                ops.append(["resync", k])
            else:
                ops.append(["reopen", rng.random() < 0.6])
            if ops[-1][0] == "mutate" and rng.random() < 0.5:
                ops.append(["resync", k])
        ops.append(["reopen", rng.random() < 0.5])
        out.append({"keys": keys, "vals": vals, "ops": ops})
    return out


# ------------------------------------------------------------------------------ implementation

UNKNOWN = 999999


def impl(case):
    from bluesky.utils import PersistentDict
    keys = case["keys"]
    vals = {int(i): s for i, s in case["vals"].items()}
    ident = {canon(build(s)): i for i, s in vals.items()}

    def vid(v):
        return ident.get(canon(v), UNKNOWN)

    def kid(k):
        return keys.index(k) if k in keys else UNKNOWN

    top = tempfile.mkdtemp(prefix="verif_c43_", dir="/tmp")
    tmp = os.path.join(top, "store")        # does not exist yet: the first instance creates it
    d = None
    try:
        d = PersistentDict(tmp)
        steps, orders, dirs_ok = [], [], True
        for op in case["ops"]:
            name = op[0]
            res = "ok"
            try:
                if name == "set":
                    d[keys[op[1]]] = build(vals[op[2]])
                elif name == "del":
                    del d[keys[op[1]]]
                elif name == "pop":
                    res = ["val", vid(d.pop(keys[op[1]]))]
                elif name == "popd":
                    res = ["val", vid(d.pop(keys[op[1]], build(vals[op[2]])))]
                elif name == "popitem":
                    k, v = d.popitem()
                    res = ["pair", kid(k), vid(v)]
                elif name == "clear":
                    d.clear()
                elif name == "update":
                    pairs = [(keys[k], build(vals[v])) for k, v in op[1]]
                    if len({k for k, _ in pairs}) == len(pairs) and len(pairs) % 2 == 0:
                        d.update(dict(pairs))
                    else:
                        d.update(pairs)
                elif name == "setdefault":
                    res = ["val", vid(d.setdefault(keys[op[1]], build(vals[op[2]])))]
                elif name == "get":
                    res = ["val", vid(d[keys[op[1]]])]
                elif name == "flush":
                    d.flush()
                elif name == "reload":
                    d.reload()
                elif name == "mutate":
                    obj = d[keys[op[1]]]
                    new = build(vals[op[2]])
                    if isinstance(obj, dict) and isinstance(new, dict):
                        obj.clear()
                        obj.update(new)
                    elif isinstance(obj, list) and isinstance(new, list):
                        obj[:] = new
                    else:
                        res = "inapplicable"
                    del obj
                elif name == "resync":
                    d[keys[op[1]]] = d[keys[op[1]]]      # the very object the dict already holds
                elif name == "reopen":
                    if op[1]:
                        fin = d._finalizer
                        d = None                 # last reference: CPython collects it here
                        if fin.alive:
                            gc.collect()
                        if fin.alive:
                            raise RuntimeError("the harness could not get the instance collected")
                        del fin
                    else:
                        d._finalizer.detach()
                        d = None
                    d = PersistentDict(tmp)
                    orders.append([kid(k) for k in d])
                else:
                    raise ValueError(name)
            except KeyError:
                res = "KeyError"
            except Exception as e:            # anything else is outside the model: shows up as a mismatch
                res = "exc:" + type(e).__name__
            cache = [[kid(k), vid(v)] for k, v in d._cache.items()]
            disk = [[kid(k), vid(PersistentDict._load(d._file[k]))] for k in list(d._file)]
            # the File mapping must describe the directory as it really is
            from urllib.parse import unquote
            real = sorted(unquote(fn.split("#")[0]) for fn in os.listdir(tmp))
            dirs_ok = dirs_ok and real == sorted(d._file)
            steps.append({"res": res, "cache": cache, "disk": disk, "view": [[kid(k), vid(v)] for k, v in d.items()]})
        return {"steps": steps, "orders": orders, "dirs_ok": dirs_ok}
    finally:
        if d is not None:
            d._finalizer.detach()
        d = None
        shutil.rmtree(top, ignore_errors=True)


# ------------------------------------------------------------------------------ Coq side

def _kv(p):
    return "(%d, %d)" % (p[0], p[1])


def _op(op, order, before=()):
    n = op[0]
    if n == "resync":
        # d[k] = d[k]: a look-up (KeyError when absent) followed by a set of the value the dict holds at that moment
        held = [v for k, v in before if k == op[1]]
        return "OSet %d %d" % (op[1], held[0]) if held else "OGet %d" % op[1]
    if n == "set":
        return "OSet %d %d" % (op[1], op[2])
    if n == "del":
        return "ODel %d" % op[1]
    if n == "pop":
        return "OPop %d" % op[1]
    if n == "popd":
        return "OPopD %d %d" % (op[1], op[2])
    if n == "popitem":
        return "OPopItem"
    if n == "clear":
        return "OClear"
    if n == "update":
        return "OUpdate %s" % coq_list(op[1], _kv)
    if n == "setdefault":
        return "OSetDefault %d %d" % (op[1], op[2])
    if n == "get":
        return "OGet %d" % op[1]
    if n == "flush":
        return "OFlush"
    if n == "reload":
        return "OReload"
    if n == "mutate":
        return "OMutate %d %d" % (op[1], op[2])
    if n == "reopen":
        return "OReopen %s %s" % (coq_bool(op[1]), coq_list(order))
    raise ValueError(n)


def _res(r):
    if r == "ok":
        return "ROk"
    if r == "KeyError":
        return "RKeyError"
    if r == "inapplicable":
        return "RInapplicable"
    if isinstance(r, list) and r[0] == "val":
        return "RVal %d" % r[1]
    if isinstance(r, list) and r[0] == "pair":
        return "RPair %d %d" % (r[1], r[2])
    return None


def coq_term(case, obs):
    orders = list(obs["orders"])
    ops, exp, before = [], [], []
    for op, stp in zip(case["ops"], obs["steps"]):
        order = orders.pop(0) if op[0] == "reopen" and orders else []
        ops.append(_op(op, order, before))
        before = stp["cache"]
        r = _res(stp["res"])
        if r is None:
            return "false"
        exp.append("(%s, %s, %s)" % (r, coq_list(stp["cache"], _kv), coq_list(stp["disk"], _kv)))
    return "(trace_beq %s %s)%%N" % (coq_list(ops), coq_list(exp))


# ------------------------------------------------------------------------------ oracle: the property on plain dicts

def oracle(case, obs):
    if not obs["dirs_ok"]:
        return "zict.File's key table and the directory listing disagree"
    cur, wr = {}, {}
    for i, (op, stp) in enumerate(zip(case["ops"], obs["steps"])):
        n = op[0]
        want = "ok"
        if n == "set":
            cur[op[1]] = wr[op[1]] = op[2]
        elif n in ("del", "pop", "popd"):
            if op[1] in cur:
                want = "ok" if n == "del" else ["val", cur[op[1]]]
                cur.pop(op[1])
                wr.pop(op[1], None)
            else:
                want = ["val", op[2]] if n == "popd" else "KeyError"
        elif n == "popitem":
            r = stp["res"]
            if isinstance(r, list) and r[0] == "pair":
                if cur.get(r[1]) != r[2]:
                    return "step %d: popitem returned %s which the dict did not hold" % (i, r)
                cur.pop(r[1])
                wr.pop(r[1], None)
                want = r
            else:
                want = "KeyError"
                if cur:
                    return "step %d: popitem on a non-empty dict answered %s" % (i, r)
        elif n == "clear":
            cur.clear()
            wr.clear()
        elif n == "update":
            for k, v in op[1]:
                cur[k] = wr[k] = v
        elif n == "setdefault":
            if op[1] not in cur:
                cur[op[1]] = wr[op[1]] = op[2]
            want = ["val", cur[op[1]]]
        elif n == "get":
            want = ["val", cur[op[1]]] if op[1] in cur else "KeyError"
        elif n == "flush":
            wr.update(cur)
        elif n == "reload":
            cur = dict(wr)
        elif n == "mutate":
            if op[1] not in cur:
                want = "KeyError"
            elif cur[op[1]] % 4 == op[2] % 4 and op[2] % 4 < 2:
                cur[op[1]] = op[2]
            else:
                want = "inapplicable"
        elif n == "resync":
            if op[1] in cur:
                wr[op[1]] = cur[op[1]]
            else:
                want = "KeyError"
        elif n == "reopen":
            if op[1]:
                wr.update(cur)       # the documented sync of the full contents on collection
            cur = dict(wr)
            got = {k: v for k, v in stp["view"]}
            if got != cur or len(stp["view"]) != len(got):
                return ("step %d: reopened (%s) dict holds %s; last written state is %s" %
                        (i, "after collection" if op[1] else "after a crash", sorted(got.items()), sorted(cur.items())))
        if stp["res"] != want:
            return "step %d: %s answered %s, expected %s" % (i, op, stp["res"], want)
        if {k: v for k, v in stp["cache"]} != cur or len(stp["cache"]) != len(cur):
            return "step %d: after %s the dict holds %s, expected %s" % (i, op, stp["cache"], sorted(cur.items()))
        if {k: v for k, v in stp["disk"]} != wr or len(stp["disk"]) != len(wr):
            return "step %d: after %s the directory holds %s, last written state is %s" % (i, op, stp["disk"], sorted(wr.items()))
    return None


def finding(case, obs):
    return None


def nontrivial(case, obs):
    names = [o[0] for o in case["ops"]]
    return "reopen" in names and any(n in names for n in ("del", "pop", "popitem", "clear")) and \
        any(n in names for n in ("mutate", "reload"))


def describe(case):
    names = [o[0] for o in case["ops"]]
    return "ops=%d reopen=%d reload=%d mutate=%d keys=%d" % (
        min(len(names), 41) // 5 * 5, min(names.count("reopen"), 4), min(names.count("reload"), 3),
        min(names.count("mutate"), 3), len(case["keys"]))
