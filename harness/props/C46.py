"""C46 - TiledWriter stores exactly the run it was given.

Case format (JSON):  {"bs": int, "docs": [spec...], "kind": str, "expect": null|"KeyError"|..., "tiled": bool}
  ["start", uid, [[k, v]...], tags|null]          start doc = {"uid": uid, **pairs} (+ tiled_access_tags)
  ["desc", uid, name, time, [[key, m, ext]...], conf|null]
                                                  data_keys: shape [] (m = 0) or [m, 2]; ext -> "external"
  ["event", desc_uid, seq_num, time, [[k, v]...], [[k, v]...]]
  ["page", [event specs of one descriptor]]
  ["sres", uid, data_key, dataset]                application/x-hdf5, parameters {"dataset": dataset}
  ["sd", uid, sres_uid, desc_uid, i0, i1, q0, q1]
  ["stop", [[k, v]...]]                           the whole stop document
Values are ints or strings (exact on both sides).
"""
import copy
import itertools
import json
import os

ID = "C46"
PROP_FILE = "Props/C46.v"
THEOREMS = ["C46_internal_tables", "C46_external_arrays", "C46_external_seq_nums", "C46_metadata",
            "C46_arrays_distinct", "C46_a_refuted", "C46_one_array_per_pair", "C46_full_thm"]
_IMPORTS = ("From Coq Require Import String.\nFrom BV Require Import Pure.TiledBatch.\nImport List ListNotations.\n"
            "Local Open Scope string_scope.\nLocal Open Scope list_scope.")
# String literals are slow to elaborate in Coq (~0.7 ms each): every distinct string of the generated
# cases is defined once in the preamble of the cases files (w0, w1, ...) and referred to by name.
_VOCAB = {}


def __getattr__(name):          # COQ_IMPORTS is computed when core reads it (after all coq_term calls)
    if name == "COQ_IMPORTS":
        return _IMPORTS + "\n" + "\n".join('Definition w%d : string := "%s".' % (i, s) for s, i in _VOCAB.items())
    raise AttributeError(name)

PARALLEL = True
MODELLED = (
    "bluesky.callbacks.tiled_writer._RunWriter (all handlers, caches, batching, get_sres_node) and "
    "concatenate_stream_datums are modelled against an append-log client; the Tiled client is replaced by a "
    "recording double (harness/drivers/tiled_double.py) in the tie, and by the in-process Tiled catalog for a "
    "subset of internal-data runs in the thorough tier.  Trusted / not modelled: Tiled server and HTTP layer, "
    "pyarrow (Table.from_pylist takes the columns from the first row; type inference), the consolidator beyond "
    "row counting / asset counting / the dataset check of HDF5Consolidator (shapes and chunks are C36), "
    "RunRouter and RunNormalizer (only compared behaviourally: same client log with normalizer=None, same "
    "partitions / consumed stream datums / start / stop with the default normalizer), the `_validate` "
    "parameter branch of stop (never set in generated cases), truncate_json_overflow beyond ints (C38).")
RULE = (
    "corpus; exhaustive small scope: every interleaving pattern of <=4 events over <=2 streams x batch sizes "
    "{-1,0,1,2,3,5} (event and event_page forms, second same-name descriptor), every sequence of <=3 (thorough 4) "
    "stream datums drawn from adjacent/gapped/overlapping/out-of-order/empty ranges over <=2 stream resources x "
    "batch sizes; then seeded random multi-stream runs with internal and external data (quick 250, thorough 3000); "
    "malformed stream: event before descriptor, stream datum for unknown resource / descriptor, descriptor or stop "
    "before start, second StreamResource with another dataset, undeclared data key, uid/name collisions, "
    "full-data-key collisions (finding a).  non-trivial = the run is accepted and contains >=2 events or >=2 stream datums")

ERRS = {"KeyError": "EKey", "RuntimeError": "ERuntime", "ValueError": "EValue"}
BATCHES = [-1, 0, 1, 2, 3, 5]


# ----------------------------------------------------------------------------- documents

def build_docs(specs):
    """Real-looking document dicts from the case specs: list of (name, doc)."""
    import event_model
    out = []
    run = "no-start"
    nev = 0

    def event(s):
        nonlocal nev
        nev += 1
        return {"uid": "ev-%d" % nev, "descriptor": s[1], "seq_num": s[2], "time": s[3],
                "data": {k: v for k, v in s[4]}, "timestamps": {k: v for k, v in s[5]}, "filled": {}}

    for s in specs:
        t = s[0]
        if t == "start":
            run = s[1]
            d = {"uid": s[1]}
            d.update({k: v for k, v in s[2]})
            if s[3] is not None:
                d["tiled_access_tags"] = list(s[3])
            out.append(("start", d))
        elif t == "desc":
            dks = {}
            for k, m, ext in s[4]:
                dk = {"dtype": "array" if m else "number", "shape": [m, 2] if m else [], "source": "sim:" + k}
                if ext:
                    dk["external"] = "STREAM:"
                dks[k] = dk
            conf = {}
            if s[5] is not None:
                conf = {"det": {"data": {"c": s[5]}, "timestamps": {"c": 0},
                                "data_keys": {"c": {"dtype": "integer", "shape": [], "source": "sim:c"}}}}
            out.append(("descriptor", {"uid": s[1], "name": s[2], "time": s[3], "run_start": run, "data_keys": dks,
                                       "configuration": conf, "object_keys": {"det": [k for k, _, _ in s[4]]},
                                       "hints": {}}))
        elif t == "event":
            out.append(("event", event(s)))
        elif t == "page":
            out.append(("event_page", event_model.pack_event_page(*[event(e) for e in s[1]])))
        elif t == "sres":
            out.append(("stream_resource", {"uid": s[1], "data_key": s[2], "mimetype": "application/x-hdf5",
                                            "uri": "file://localhost/tmp/c46/%s.h5" % s[1],
                                            "parameters": {"dataset": s[3]}, "run_start": run}))
        elif t == "sd":
            out.append(("stream_datum", {"uid": s[1], "stream_resource": s[2], "descriptor": s[3],
                                         "indices": {"start": s[4], "stop": s[5]},
                                         "seq_nums": {"start": s[6], "stop": s[7]}}))
        elif t == "stop":
            out.append(("stop", {k: v for k, v in s[1]}))
        else:
            raise ValueError("bad doc spec %r" % (s,))
    return out


# ----------------------------------------------------------------------------- canonical log

class Uncanonical(Exception):
    pass


def _val(v):
    if isinstance(v, bool) or not isinstance(v, (int, str)):
        raise Uncanonical("value %r is not int/str" % (v,))
    return v


def _pairs(d):
    return [[k, _val(v)] for k, v in d.items()]


def _keys(data_keys):
    return [[k, (v["shape"][0] if v["shape"] else 0)] for k, v in data_keys.items()]


def _conf(c):
    if not c:
        return None
    return _val(c["det"]["data"]["c"])


def _sd(d):
    return [d["uid"], d["stream_resource"], d["descriptor"], d["indices"]["start"], d["indices"]["stop"],
            d["seq_nums"]["start"], d["seq_nums"]["stop"]]


def canonical_log(records, strict=True):
    """records of the double -> list of canonical entries (lists).  strict: descriptor metadata must be
    exactly what build_docs wrote (False for the normalizer path, which adds fields)."""
    log = []
    node_of = {}          # id(consolidator) -> (stream, key)
    pending = None        # consolidator constructed, node not created yet
    consumed = None       # (obj, doc) consumed, PUT not seen yet
    for r in records:
        op = r["op"]
        if consumed is not None and op != "put":
            log.append(["ConsumeWithoutPut", _sd(consumed[1])])
            consumed = None
        if op == "create_container" and not r["path"]:
            md = r["metadata"]
            if set(md) != {"start"} or r["specs"] != ["BlueskyRun"]:
                raise Uncanonical("root container %r" % (r,))
            log.append(["CreateRoot", r["key"], _pairs(md["start"]), r["access_tags"]])
        elif op == "create_container":
            md = r["metadata"]
            if len(r["path"]) != 1 or r["specs"] != ["BlueskyEventStream", "composite"]:
                raise Uncanonical("stream container %r" % (r,))
            if strict and set(md) != {"uid", "time", "data_keys", "configuration", "hints"}:
                raise Uncanonical("stream metadata keys %r" % (sorted(md),))
            log.append(["CreateStream", r["path"][0], r["key"], md["uid"], md["time"], _keys(md["data_keys"]),
                        _conf(md["configuration"]), r["access_tags"]])
        elif op == "update_metadata" and len(r["path"]) == 1:
            md = r["metadata"]
            if set(md) != {"start", "stop"} or r["drop_revision"] is not True:
                raise Uncanonical("root update %r" % (r,))
            log.append(["UpdateRoot", _pairs(md["start"]), _pairs(md["stop"])])
        elif op == "update_metadata":
            md = r["metadata"]
            if len(r["path"]) != 2 or set(md) != {"_config_updates"} or r["drop_revision"] is not True:
                raise Uncanonical("stream update %r" % (r,))
            ups = []
            for u in md["_config_updates"]:
                if not set(u) <= {"uid", "time", "configuration"}:
                    raise Uncanonical("config update %r" % (u,))
                ups.append([u["uid"], u["time"], _conf(u.get("configuration"))])
            log.append(["UpdateConfig", r["path"][1], ups])
        elif op == "create_appendable_table":
            if len(r["path"]) != 2 or r["key"] != "internal":
                raise Uncanonical("table %r" % (r,))
            log.append(["CreateTable", r["path"][1], r["columns"], _keys(r["metadata"]), r["access_tags"]])
        elif op == "append_partition":
            if len(r["path"]) != 3 or r["partition"] != 0:
                raise Uncanonical("append %r" % (r,))
            log.append(["Append", r["path"][1], [_pairs(row) for row in r["rows"]]])
        elif op == "cons_init":
            pending = r["obj"]
        elif op == "new":
            if len(r["path"]) != 2 or r["structure_family"] != "array" or len(r["data_sources"]) != 1 \
                    or r["metadata"] != {} or r["specs"] != []:
                raise Uncanonical("new %r" % (r,))
            ds = r["data_sources"][0]
            if pending is not None:
                node_of[id(pending)] = (r["path"][1], r["key"])
                pending = None
            if ds["mimetype"] != "application/x-hdf5" or ds["management"] != "external":
                raise Uncanonical("data source %r" % (ds,))
            log.append(["NewArray", r["path"][1], r["key"], ds["structure"]["shape"][0], len(ds["assets"]),
                        ds["parameters"]["dataset"], r["access_tags"]])
        elif op == "update_from_sres":
            node = node_of.get(id(r["obj"]), ("?", "?"))
            log.append(["UpdSres", node[0], node[1], r["arg"]["uid"]])
        elif op == "consume":
            consumed = (r["obj"], r["arg"])
        elif op == "put":
            parts = r["url"].split("/data_source/", 1)
            if len(parts) != 2:
                raise Uncanonical("put url %r" % (r["url"],))
            path = parts[1].split("/")
            ds = r["body"]["data_source"]
            if consumed is None:
                log.append(["PutWithoutConsume", path[1], path[2], ds["structure"]["shape"][0], len(ds["assets"])])
            else:
                if node_of.get(id(consumed[0])) != (path[1], path[2]):
                    raise Uncanonical("PUT on %r after consume by consolidator of %r" % (path, node_of.get(id(consumed[0]))))
                log.append(["Put", path[1], path[2], _sd(consumed[1]), ds["structure"]["shape"][0], len(ds["assets"])])
                consumed = None
        else:
            raise Uncanonical("unknown record %r" % (r,))
    if consumed is not None:
        log.append(["ConsumeWithoutPut", _sd(consumed[1])])
    return log


def read_final(rw):
    """Final caches etc. of the real _RunWriter object."""
    def nid(node):
        return "%s_%s" % (node.path[-2], node.path[-1])
    cons, seen = [], set()
    for k, c in rw._consolidators.items():
        if id(c) not in seen:
            seen.add(id(c))
            cons.append([nid(rw._sres_nodes[k]), [c._num_rows, len(c._seqnums_to_indices_map), len(c.assets)]])
    return {
        "icache": [[k, [_pairs(row) for row in rows]] for k, rows in rw._internal_data_cache.items()],
        "ecache": [[k, _sd(d)] for k, d in rw._external_data_cache.items()],
        "desc_nodes": [[k, n.item["id"]] for k, n in rw._desc_nodes.items()],
        "sres_nodes": [[k, nid(n)] for k, n in rw._sres_nodes.items()],
        "cons": cons,
        "tables": list(rw._internal_tables.keys()),
        "srcache": list(rw._stream_resource_cache.keys()),
        "data_keys": list(rw.data_keys.keys()),
    }


# ----------------------------------------------------------------------------- running the implementation

def run_direct(specs, bs):
    from bluesky.callbacks.tiled_writer import _RunWriter
    from harness.drivers.tiled_double import ClientDouble, ConsolidatorSpy
    client = ClientDouble()
    rw = _RunWriter(client, batch_size=bs)
    err = None
    with ConsolidatorSpy(client):
        for name, doc in build_docs(specs):
            try:
                rw(name, doc)
            except (KeyError, RuntimeError, ValueError) as e:
                err = type(e).__name__
                break
    return canonical_log(client.records), err, read_final(rw)


def run_tiled_writer(specs, bs, normalize):
    from bluesky.callbacks.tiled_writer import TiledWriter
    from harness.drivers.tiled_double import ClientDouble, ConsolidatorSpy
    client = ClientDouble()
    kw = {} if normalize else {"normalizer": None}
    tw = TiledWriter(client, batch_size=bs, **kw)
    err = None
    with ConsolidatorSpy(client):
        for name, doc in build_docs(specs):
            try:
                tw(name, doc)
            except Exception as e:
                err = type(e).__name__
                break
    return canonical_log(client.records, strict=not normalize), err


def project(log):
    """What must survive normalization: root metadata, partitions, consumed stream datums."""
    return [e for e in log if e[0] in ("CreateRoot", "UpdateRoot", "Append", "Put", "NewArray", "CreateTable")]


def impl(case):
    specs, bs = case["docs"], case["bs"]
    log, err, final = run_direct(specs, bs)
    obs = {"log": log, "err": err, "final": final}
    if err is None:
        log2, err2 = run_tiled_writer(specs, bs, normalize=False)
        obs["tw_same"] = (log2 == log and err2 is None)
        if not obs["tw_same"]:
            obs["tw_log"], obs["tw_err"] = log2, err2
        log3, err3 = run_tiled_writer(specs, bs, normalize=True)
        obs["norm_same"] = (project(log3) == project(log) and err3 is None)
        if not obs["norm_same"]:
            obs["norm_log"], obs["norm_err"] = project(log3), err3
    if case.get("tiled") and err is None:
        obs["tiled"] = run_real_tiled(specs, bs)
    return obs


_TILED = {}


def _tiled_client():
    """One in-process Tiled server (catalog in a temp dir) per worker process; every case writes into its own
    sub-container, so run uids may repeat between cases."""
    if "client" not in _TILED:
        import atexit
        import tempfile
        import warnings
        from tiled.catalog import in_memory
        from tiled.client import Context, from_context
        from tiled.server.app import build_app
        warnings.simplefilter("ignore")
        tmp = tempfile.TemporaryDirectory()
        catalog = in_memory(writable_storage={"filesystem": tmp.name, "sql": "duckdb:///%s/t.db" % tmp.name})
        ctx = Context.from_app(build_app(catalog))
        ctx.__enter__()
        _TILED.update(tmp=tmp, ctx=ctx, client=from_context(ctx), n=0)

        def close():
            try:
                ctx.__exit__(None, None, None)
                tmp.cleanup()
            except Exception:
                pass
        atexit.register(close)
    _TILED["n"] += 1
    return _TILED["client"].create_container(key="case-%d-%d" % (os.getpid(), _TILED["n"]))


def run_real_tiled(specs, bs):
    """Thorough tier: the same documents into the in-process Tiled catalog; tables and metadata read back."""
    from bluesky.callbacks.tiled_writer import TiledWriter
    client = _tiled_client()
    tw = TiledWriter(client, normalizer=None, batch_size=bs)
    docs = build_docs(specs)
    for name, doc in docs:
        tw(name, doc)
    uid = docs[0][1]["uid"]
    run = client[uid]
    out = {"start": _pairs(run.metadata["start"]), "stop": _pairs(run.metadata["stop"]), "streams": {}}
    for name in sorted(run):
        node = run[name].base if hasattr(run[name], "base") else run[name]
        if "internal" in node:
            df = node["internal"].read()
            cols = list(df.columns)
            rows = []
            for rec in df.to_dict("records"):
                rows.append([[c, (rec[c] if isinstance(rec[c], str) else int(rec[c]))] for c in cols])
            out["streams"][name] = rows
    return out


# ----------------------------------------------------------------------------- Coq terms

def qs(s):
    if '"' in s or "\\" in s or any(ord(c) < 32 or ord(c) > 126 for c in s):
        raise Uncanonical("string %r cannot be written as a Coq literal here" % (s,))
    if s not in _VOCAB:
        _VOCAB[s] = len(_VOCAB)
    return "w%d" % _VOCAB[s]


def qz(z):
    return "(%d)%%Z" % z


def ql(xs, f):
    return "[" + "; ".join(f(x) for x in xs) + "]"


def qv(v):
    return "VS %s" % qs(v) if isinstance(v, str) else "VZ %s" % qz(v)


def qpairs(ps):
    return ql(ps, lambda p: "(%s, %s)" % (qs(p[0]), qv(p[1])))


def qopt(x, f):
    return "None" if x is None else "(Some %s)" % f(x)


def qtags(t):
    return qopt(t, lambda l: ql(l, qs))


def qkeys(ks):
    return ql(ks, lambda p: "(%s, %s)" % (qs(p[0]), qz(p[1])))


def qsd(d):
    return "(mkSD %s %s %s %s %s %s %s)" % (qs(d[0]), qs(d[1]), qs(d[2]), qz(d[3]), qz(d[4]), qz(d[5]), qz(d[6]))


def qevent(s):
    return "(mkEv %s %s %s %s %s)" % (qs(s[1]), qz(s[2]), qz(s[3]), qpairs(s[4]), qpairs(s[5]))


def qdoc(s):
    t = s[0]
    if t == "start":
        return "DStart (mkStart %s %s %s)" % (qs(s[1]), qpairs(s[2]), qtags(s[3]))
    if t == "desc":
        return "DDescriptor (mkDesc %s %s %s %s %s)" % (qs(s[1]), qs(s[2]), qz(s[3]),
                                                        qkeys([[k, m] for k, m, _ in s[4]]), qopt(s[5], qz))
    if t == "event":
        return "DEvent " + qevent(s)
    if t == "page":
        return "DEventPage " + ql(s[1], qevent)
    if t == "sres":
        return "DSres (mkSR %s %s %s)" % (qs(s[1]), qs(s[2]), qs(s[3]))
    if t == "sd":
        return "DSdatum " + qsd(s[1:])
    if t == "stop":
        return "DStop " + qpairs(s[1])
    raise Uncanonical("doc spec %r" % (s,))


def qentry(e):
    t = e[0]
    if t == "CreateRoot":
        return "LCreateRoot %s %s %s" % (qs(e[1]), qpairs(e[2]), qtags(e[3]))
    if t == "CreateStream":
        return "LCreateStream %s %s %s %s %s %s %s" % (qs(e[1]), qs(e[2]), qs(e[3]), qz(e[4]), qkeys(e[5]),
                                                       qopt(e[6], qz), qtags(e[7]))
    if t == "UpdateConfig":
        return "LUpdateConfig %s %s" % (qs(e[1]), ql(e[2], lambda u: "(%s, %s, %s)" % (qs(u[0]), qz(u[1]), qopt(u[2], qz))))
    if t == "CreateTable":
        return "LCreateTable %s %s %s %s" % (qs(e[1]), ql(e[2], qs), qkeys(e[3]), qtags(e[4]))
    if t == "Append":
        return "LAppend %s %s" % (qs(e[1]), ql(e[2], qpairs))
    if t == "NewArray":
        return "LNewArray %s %s %s %d %s %s" % (qs(e[1]), qs(e[2]), qz(e[3]), e[4], qs(e[5]), qtags(e[6]))
    if t == "UpdSres":
        return "LUpdSres %s %s %s" % (qs(e[1]), qs(e[2]), qs(e[3]))
    if t == "Put":
        return "LPut %s %s %s %s %d" % (qs(e[1]), qs(e[2]), qsd(e[3]), qz(e[4]), e[5])
    if t == "UpdateRoot":
        return "LUpdateRoot %s %s" % (qpairs(e[1]), qpairs(e[2]))
    raise Uncanonical("log entry %r has no model counterpart" % (e,))


def qfinal(f):
    return "(mkFinal %s %s %s %s %s %s %s %s)" % (
        ql(f["icache"], lambda p: "(%s, %s)" % (qs(p[0]), ql(p[1], qpairs))),
        ql(f["ecache"], lambda p: "(%s, %s)" % (qs(p[0]), qsd(p[1]))),
        ql(f["desc_nodes"], lambda p: "(%s, %s)" % (qs(p[0]), qs(p[1]))),
        ql(f["sres_nodes"], lambda p: "(%s, %s)" % (qs(p[0]), qs(p[1]))),
        ql(f["cons"], lambda p: "(%s, (%s, %d, %d))" % (qs(p[0]), qz(p[1][0]), p[1][1], p[1][2])),
        ql(f["tables"], qs), ql(f["srcache"], qs), ql(f["data_keys"], qs))


def coq_term(case, obs):
    docs = ql(case["docs"], qdoc)
    try:
        log = ql(obs["log"], lambda e: "(" + qentry(e) + ")")
    except Uncanonical:
        return "false"      # the implementation did something the model has no entry for
    err = "None" if obs["err"] is None else "(Some %s)" % ERRS[obs["err"]]
    verdict = "true" if py_holds(case, obs) else "false"
    fnd = "true" if finding(case, obs) == "a" else "false"
    pairs = "true" if (wf_ext(case) and arrays_by_pair(case, obs)) else "false"
    return ("(let bs := %s in let docs : list doc := %s in agrees bs docs %s %s %s && Bool.eqb (c46_holds_b bs docs) %s "
            "&& Bool.eqb (finding_C46_a_b bs docs) %s "
            "&& Bool.eqb (wf_ext_b docs && arrays_by_pair_b docs (fst (run bs docs))) %s)"
            % (qz(case["bs"]), docs, log, err, qfinal(obs["final"]), verdict, fnd, pairs))


# ----------------------------------------------------------------------------- oracle (property, not model)

def _expand(a, b):
    return list(range(a, b))


def _rows_expected(case):
    """stream name -> rows in arrival order, straight from the case (uid -> name of the latest descriptor)."""
    name_of, rows = {}, {}
    for s in case["docs"]:
        if s[0] == "desc":
            name_of[s[1]] = s[2]
        evs = [s] if s[0] == "event" else (s[1] if s[0] == "page" else [])
        for e in evs:
            row = {"seq_num": e[2], "time": e[3]}
            row.update({k: v for k, v in e[4]})
            row.update({"ts_" + k: v for k, v in e[5]})
            rows.setdefault(name_of.get(e[1]), []).append([[k, v] for k, v in row.items()])
    return rows


def is_run(case):
    d = case["docs"]
    return (len(d) >= 2 and d[0][0] == "start" and d[-1][0] == "stop"
            and all(s[0] not in ("start", "stop") for s in d[1:-1]))


def property_failures(case, obs):
    """Restates C46 on the observed client log.  Returns a list of (part, message)."""
    bad = []
    log = obs["log"]
    docs = case["docs"]
    start, stop = docs[0], docs[-1]
    # (iii) metadata
    # ints beyond +-2^53 are clamped by truncate_json_overflow (documented; C38) in the start document only
    exp_start = [["uid", start[1]]] + [[k, _trunc(v)] for k, v in start[2]]
    if not log or log[0][0] != "CreateRoot" or log[0][1] != start[1] or log[0][2] != exp_start or log[0][3] != start[3]:
        bad.append(("metadata", "first client call is not create_container(start uid, start document)"))
    ups = [e for e in log if e[0] == "UpdateRoot"]
    if len(ups) != 1 or log[-1][0] != "UpdateRoot":
        bad.append(("metadata", "root metadata updated %d times / not last" % len(ups)))
    elif ups[0][1] != exp_start or ups[0][2] != [list(p) for p in stop[1]]:
        bad.append(("metadata", "stop/start metadata stored %r, given %r" % (ups[0][1:], [exp_start, stop[1]])))
    # (i) internal tables
    exp = _rows_expected(case)
    got = {}
    for e in log:
        if e[0] == "Append":
            if not e[2]:
                bad.append(("internal", "empty partition appended to %s" % e[1]))
            got.setdefault(e[1], []).extend(e[2])
    for name in sorted(set(exp) | set(got), key=str):
        if exp.get(name, []) != got.get(name, []):
            bad.append(("internal", "stream %s: table rows %r, events given %r" % (name, got.get(name, []), exp.get(name, []))))
    for name, rows in got.items():
        seqs = [dict(map(tuple, r))["seq_num"] for r in rows]
        eseqs = [dict(map(tuple, r))["seq_num"] for r in exp.get(name, [])]
        if eseqs == sorted(eseqs) and seqs != sorted(seqs):
            bad.append(("internal", "stream %s rows not in seq_num order" % name))
    if any(rows for _, rows in obs["final"]["icache"]):
        bad.append(("internal", "rows left in the internal cache after stop"))
    tabs = [e[1] for e in log if e[0] == "CreateTable"]
    if sorted(tabs) != sorted(got):
        bad.append(("internal", "tables created %r, streams with rows %r" % (tabs, sorted(got))))
    # (ii) external arrays: per (stream, data_key)
    name_of, dk_of = {}, {}
    recv = {}
    for s in docs:
        if s[0] == "desc":
            name_of[s[1]] = s[2]
        elif s[0] == "sres":
            dk_of[s[1]] = s[2]
        elif s[0] == "sd":
            recv.setdefault(s[2], []).append(s)
    # the array a stream resource belongs to: stream of the descriptor of its datums, its data_key
    arr_of = {}
    for sres, sds in recv.items():
        arr_of[sres] = (name_of.get(sds[0][3]), dk_of.get(sres))
    arrays = {}
    for sres, sds in recv.items():
        arrays.setdefault(arr_of[sres], []).extend(sds)
    consumed = {}
    for e in log:
        if e[0] == "Put":
            consumed.setdefault((e[1], e[2]), []).append(e)
    news = [(e[1], e[2]) for e in log if e[0] == "NewArray"]
    if sorted(news, key=str) != sorted(arrays, key=str) or len(set(news)) != len(news):
        bad.append(("arrays", "arrays created %r, external data keys with stream datums %r" % (sorted(news, key=str), sorted(arrays, key=str))))
    mult = {}
    for s in docs:
        if s[0] == "desc":
            for k, m, _ in s[4]:
                mult.setdefault((s[2], k), m)
    fin = dict((k, v) for k, v in obs["final"]["cons"])
    for arr in sorted(set(arrays) | set(consumed), key=str):
        r_ind = sorted(i for s in arrays.get(arr, []) for i in _expand(s[4], s[5]))
        c_ind = sorted(i for e in consumed.get(arr, []) for i in _expand(e[3][3], e[3][4]))
        if r_ind != c_ind:
            bad.append(("arrays", "array %r: indices consumed %r, received %r" % (arr, c_ind, r_ind)))
        r_seq = sorted(i for s in arrays.get(arr, []) for i in _expand(s[6], s[7]))
        c_seq = sorted(i for e in consumed.get(arr, []) for i in _expand(e[3][5], e[3][6]))
        if r_seq != c_seq:
            bad.append(("seq_nums", "array %r: seq_nums consumed %r, received %r" % (arr, c_seq, r_seq)))
        n = sum(s[5] - s[4] for s in arrays.get(arr, []))
        key = "%s_%s" % arr
        if key not in fin or fin[key][0] != n:
            bad.append(("arrays", "array %r: _num_rows %r, rows received %d" % (arr, fin.get(key), n)))
        if consumed.get(arr) and consumed[arr][-1][4] != n * mult.get(arr, 1):
            bad.append(("arrays", "array %r: stored length %r, expected %d" % (arr, consumed[arr][-1][4], n * mult.get(arr, 1))))
    put_sds = [e[3] for e in log if e[0] == "Put"]
    for _, d in obs["final"]["ecache"]:
        if d not in put_sds:
            bad.append(("arrays", "cached stream datum %r never written" % (d,)))
    return bad


def fdk_collision(case):
    """Finding class a: two different (stream name, data_key) pairs, both receiving stream datums,
    whose "<name>_<key>" strings coincide."""
    name_of, dk_of, pairs = {}, {}, set()
    for s in case["docs"]:
        if s[0] == "desc":
            name_of[s[1]] = s[2]
        elif s[0] == "sres":
            dk_of[s[1]] = s[2]
        elif s[0] == "sd" and s[3] in name_of and s[2] in dk_of:
            pairs.add((name_of[s[3]], dk_of[s[2]]))
    full = {}
    for p in pairs:
        full.setdefault("%s_%s" % p, set()).add(p)
    return any(len(v) > 1 for v in full.values())


def finding(case, obs):
    return "a" if fdk_collision(case) else None


def _spec_rows(case, n):
    dm, out = {}, []
    for s in case["docs"]:
        if s[0] == "desc":
            dm[s[1]] = s[2]
            continue
        evs = [s] if s[0] == "event" else (s[1] if s[0] == "page" else [])
        for e in evs:
            if dm.get(e[1]) == n:
                row = {"seq_num": e[2], "time": e[3]}
                row.update({k: v for k, v in e[4]})
                row.update({"ts_" + k: v for k, v in e[5]})
                out.append([[k, v] for k, v in row.items()])
    return out


def _perm(a, b):
    return sorted(a) == sorted(b)


def aligned(case):
    off = {}
    for s in case["docs"]:
        if s[0] == "sd":
            o = off.setdefault(s[2], s[6] - s[4])
            if s[6] != s[4] + o or s[7] != s[5] + o:
                return False
    return True


def ns_disjoint(case):
    names = {s[2] for s in case["docs"] if s[0] == "desc"}
    refs = set()
    for s in case["docs"]:
        if s[0] in ("desc", "event"):
            refs.add(s[1])
        elif s[0] == "page":
            refs.update(e[1] for e in s[1])
    return not (names & refs)


def sd_wf(case):
    return all(s[4] <= s[5] for s in case["docs"] if s[0] == "sd")


def py_holds(case, obs):
    """Transliteration of c46_holds_b (Pure/TiledBatch.v) evaluated on the OBSERVED log and final caches;
    the generated Coq term requires c46_holds_b of the model run to give the same verdict."""
    if obs["err"] is not None or not is_run(case):
        return True
    log, fin, docs = obs["log"], obs["final"], case["docs"]
    start, stop = docs[0], docs[-1]
    startmd = [["uid", start[1]]] + [[k, _trunc(v)] for k, v in start[2]]
    # metadata_b
    ok = bool(log) and log[0] == ["CreateRoot", start[1], startmd, start[3]] and len(log) >= 2 \
        and log[-1] == ["UpdateRoot", startmd, [list(p) for p in stop[1]]] \
        and not any(e[0] in ("UpdateRoot", "CreateRoot") for e in log[1:-1])
    # internal_b
    if ns_disjoint(case):
        names = [s[2] for s in docs if s[0] == "desc"] + [e[1] for e in log if e[0] in ("Append", "CreateTable")] \
            + [k for k, _ in fin["icache"]]
        parts = lambda n: [e[2] for e in log if e[0] == "Append" and e[1] == n]
        tabs = [e[1] for e in log if e[0] == "CreateTable"]
        ok = ok and all([r for p in parts(n) for r in p] == _spec_rows(case, n) for n in names)
        ok = ok and all(e[2] for e in log if e[0] == "Append")
        ok = ok and all(not rows for _, rows in fin["icache"])
        ok = ok and len(set(tabs)) == len(tabs)
        ok = ok and all((n in tabs) == bool(parts(n)) for n in names)
    # external_b / seq_b
    if sd_wf(case):
        putl = [e for e in log if e[0] == "Put"]
        cid_of = lambda e: "%s_%s" % (e[1], e[2])
        cids = [c for c, _ in fin["cons"]] + [cid_of(e) for e in putl]
        mapped = dict((k, v) for k, v in fin["sres_nodes"])
        sds = [s for s in docs if s[0] == "sd"]
        recv = lambda cid: [s for s in sds if mapped.get(s[2]) == cid]
        cons = dict((c, v) for c, v in fin["cons"])
        mult = {}
        for e in log:
            if e[0] == "NewArray":
                for c in log:
                    if c[0] == "CreateStream" and c[2] == e[1]:
                        mult["%s_%s" % (e[1], e[2])] = dict(map(tuple, c[5])).get(e[2])
        ok = ok and all(_perm([i for e in putl if cid_of(e) == cid for i in _expand(e[3][3], e[3][4])],
                              [i for s in recv(cid) for i in _expand(s[4], s[5])]) for cid in cids)
        for cid, v in fin["cons"]:
            ok = ok and v[0] == sum(s[5] - s[4] for s in recv(cid))
            shapes = [e[4] for e in putl if cid_of(e) == cid]
            ok = ok and (not shapes or shapes[-1] == v[0] * mult.get(cid, 0))
        ok = ok and all(cid_of(e) in cons for e in putl)
        ok = ok and all(mapped.get(s[2]) in cons for s in sds if s[4] < s[5])
        for u in [s[2] for s in sds] + [e[3][1] for e in putl]:
            ok = ok and _perm([i for e in putl if e[3][1] == u for i in _expand(e[3][3], e[3][4])],
                              [i for s in sds if s[2] == u for i in _expand(s[4], s[5])])
        ok = ok and all(any(d == e[3] for e in putl) for _, d in fin["ecache"])
        news = ["%s_%s" % (e[1], e[2]) for e in log if e[0] == "NewArray"]
        ok = ok and len(set(news)) == len(news) and all(c in news for c in cons)
        if aligned(case):
            ok = ok and all(_perm([i for e in putl if cid_of(e) == cid for i in _expand(e[3][5], e[3][6])],
                                  [i for s in recv(cid) for i in _expand(s[6], s[7])]) for cid in cids)
    return bool(ok)


def _pair_maps(case):
    dm, sr = {}, {}
    for s in case["docs"]:
        if s[0] == "desc":
            dm[s[1]] = s[2]
        elif s[0] == "sres":
            sr[s[1]] = s[2]
    return dm, sr


def wf_ext(case):
    """mirror of wf_ext_b"""
    docs = case["docs"]
    du = [s[1] for s in docs if s[0] == "desc"]
    su = [s[1] for s in docs if s[0] == "sres"]
    dm, sr = _pair_maps(case)
    sds = [s for s in docs if s[0] == "sd"]
    pair = lambda s: (dm[s[3]], sr[s[2]]) if s[3] in dm and s[2] in sr else None
    full = {"%s_%s" % pair(s) for s in sds if pair(s) is not None}
    return (len(set(du)) == len(du) and len(set(su)) == len(su) and not (set(su) & full)
            and all(pair(s) is not None for s in sds)
            and all(a[2] != b[2] or pair(a) == pair(b) for a in sds for b in sds))


def arrays_by_pair(case, obs):
    """mirror of arrays_by_pair_b on the observed log / final consolidators"""
    dm, sr = _pair_maps(case)
    sds = [s for s in case["docs"] if s[0] == "sd"]
    pair = lambda s: (dm[s[3]], sr[s[2]]) if s[3] in dm and s[2] in sr else None
    node_of = {"%s_%s" % (e[1], e[2]): (e[1], e[2]) for e in obs["log"] if e[0] == "NewArray"}
    cons = dict((c, v) for c, v in obs["final"]["cons"])
    for p in [pair(s) for s in sds if pair(s) is not None]:
        cid = "%s_%s" % p
        if cid not in cons or node_of.get(cid) != p:
            return False
        if cons[cid][0] != sum(s[5] - s[4] for s in sds if pair(s) == p):
            return False
    return True


def _trunc(v):
    if isinstance(v, int):
        return min(max(v, 1 - 2 ** 53), 2 ** 53 - 1)
    return v


def oracle(case, obs):
    exp = case.get("expect")
    if exp is not None:
        if obs["err"] != exp:
            return "malformed stream (%s): expected %s, implementation raised %r" % (case.get("kind"), exp, obs["err"])
        return None
    if case.get("kind", "").startswith("x-"):
        return None          # outside the hypotheses (collisions, ill-formed ranges): only the model tie applies
    if obs["err"] is not None:
        return "valid run rejected with %s" % obs["err"]
    if not is_run(case):
        return None
    fails = property_failures(case, obs)
    if not aligned(case):
        fails = [f for f in fails if f[0] != "seq_nums"]
    if fails:
        return "; ".join("%s: %s" % f for f in fails[:3])
    if not obs.get("tw_same", True):
        return "TiledWriter(normalizer=None) client log differs from _RunWriter's: %r / %r" % (obs.get("tw_err"), obs.get("tw_log"))
    if not obs.get("norm_same", True):
        return "TiledWriter with the default normalizer stores different partitions/arrays/metadata: %r / %r" % (
            obs.get("norm_err"), obs.get("norm_log"))
    if "tiled" in obs:
        t = obs["tiled"]
        start, stop = case["docs"][0], case["docs"][-1]
        if t["start"] != [["uid", start[1]]] + [[k, _trunc(v)] for k, v in start[2]] or t["stop"] != [list(p) for p in stop[1]]:
            return "Tiled catalog: run metadata read back %r / %r" % (t["start"], t["stop"])
        exp_rows = _rows_expected(case)
        if t["streams"] != {k: v for k, v in exp_rows.items() if v}:
            return "Tiled catalog: tables read back %r, events given %r" % (t["streams"], exp_rows)
    return None


def nontrivial(case, obs):
    if obs["err"] is not None:
        return False
    n_ev = sum(1 if s[0] == "event" else len(s[1]) if s[0] == "page" else 0 for s in case["docs"])
    n_sd = sum(1 for s in case["docs"] if s[0] == "sd")
    return n_ev >= 2 or n_sd >= 2


def describe(case):
    n_ev = sum(1 if s[0] == "event" else len(s[1]) if s[0] == "page" else 0 for s in case["docs"])
    n_sd = sum(1 for s in case["docs"] if s[0] == "sd")
    return "%s bs=%s ev=%s sd=%s" % (case.get("kind"), case["bs"], min(n_ev, 9) if n_ev < 9 else "9+", min(n_sd, 9) if n_sd < 9 else "9+")


# ----------------------------------------------------------------------------- case generation

def _start(tags=None, extra=()):
    return ["start", "run-1", [["time", 1000], ["scan_id", 3], ["plan_name", "count"]] + [list(p) for p in extra], tags]


def _stop(extra=()):
    return ["stop", [["uid", "stop-1"], ["time", 2000], ["run_start", "run-1"], ["exit_status", "success"],
                     ["reason", ""]] + [list(p) for p in extra]]


def _desc(uid, name, keys, conf=None, t=1001):
    return ["desc", uid, name, t, [list(k) for k in keys], conf]


def _ev(desc, seq, keys, base):
    """event with int data for every internal key (string for keys starting with 's')"""
    data = [[k, ("v%d" % (base + i) if k.startswith("s") else base + i)] for i, k in enumerate(keys)]
    ts = [[k, 5000 + base + i] for i, k in enumerate(keys)]
    return ["event", desc, seq, 1100 + base, data, ts]


def _paged(docs):
    """group maximal runs of consecutive events of one descriptor into event pages"""
    out = []
    for d in docs:
        if d[0] == "event" and out and out[-1][0] == "page" and out[-1][1][0][1] == d[1]:
            out[-1][1].append(d)
        elif d[0] == "event":
            out.append(["page", [d]])
        else:
            out.append(d)
    return out


def gen_internal(tier):
    """all interleavings of <= 4 events over <= 2 streams x all batch sizes; event / event_page forms;
    a second descriptor with the same name (configuration update) in the middle"""
    out = []
    P, B = ("dP", "primary", ["x", "sy"]), ("dB", "baseline", ["z"])
    for n in range(0, 5):
        for pat in itertools.product("PB", repeat=n):
            for variant in ("events", "pages", "cfg"):
                if variant == "cfg" and n < 2:
                    continue
                body = [_desc(P[0], P[1], [(k, 0, False) for k in P[2]], conf=4),
                        _desc(B[0], B[1], [(k, 0, False) for k in B[2]])]
                seq = {"P": 0, "B": 0}
                uid = {"P": P[0], "B": B[0]}
                for i, c in enumerate(pat):
                    if variant == "cfg" and i == n // 2:
                        body.append(_desc("dP2", P[1], [(k, 0, False) for k in P[2]], conf=7 + i, t=1500))
                        uid["P"] = "dP2"
                    seq[c] += 1
                    keys = P[2] if c == "P" else B[2]
                    body.append(_ev(uid[c], seq[c], keys, 10 * i))
                if variant == "pages":
                    body = _paged(body)
                for bs in BATCHES:
                    out.append({"bs": bs, "kind": "valid-int-" + variant, "docs": [_start()] + body + [_stop()],
                                "tiled": False})
    if tier == "thorough":
        for i, c in enumerate(out):
            c["tiled"] = (i % 5 == 0 and "cfg" not in c["kind"])
    return out


RANGES = [(0, 1), (1, 2), (2, 4), (1, 3), (5, 6), (2, 2)]


def gen_external(tier):
    """all sequences of <= 3 (thorough 4) stream datums over the range pool, on one or two stream resources
    (second resource = additional resource for the same data key), x batch sizes"""
    out = []
    maxlen = 3 if tier == "quick" else 4
    desc = _desc("dP", "primary", [("x", 0, False), ("img", 3, True)])
    for n in range(1, maxlen + 1):
        for rs in itertools.product(range(len(RANGES)), repeat=n):
            # resource assignment: all on sr1, or alternate sr1/sr2 (only for short sequences in quick)
            assigns = [tuple("sr1" for _ in rs)]
            if n >= 2 and (n <= 2 or tier == "thorough" and n <= 3):
                assigns.append(tuple("sr1" if i % 2 == 0 else "sr2" for i in range(n)))
            for asg in assigns:
                body = [desc, ["sres", "sr1", "img", "/entry/data"]]
                if "sr2" in asg:
                    body.append(["sres", "sr2", "img", "/entry/data"])
                for i, (r, sr) in enumerate(zip(rs, asg)):
                    a, b = RANGES[r]
                    body.append(["sd", "sd%d" % i, sr, "dP", a, b, a + 1, b + 1])
                bss = BATCHES if n <= 2 or (tier == "thorough" and n == 3) else [0, 2, 3, 5]
                for bs in bss:
                    out.append({"bs": bs, "kind": "valid-ext", "docs": [_start()] + body + [_stop()]})
    return out


def gen_random(rng, tier):
    out = []
    n = 250 if tier == "quick" else 3000
    for _ in range(n):
        bs = rng.choice(BATCHES + [2, 3, 4, 7, 10000])
        nstreams = rng.randint(1, 3)
        names = ["primary", "baseline", "fly"][:nstreams]
        streams = []
        body = []
        for si, name in enumerate(names):
            ikeys = rng.sample(["x", "y", "sz", "w"], rng.randint(1, 3))
            ekeys = rng.sample(["img", "spec", "roi"], rng.choice([0, 0, 1, 2]))
            keys = [(k, 0, False) for k in ikeys] + [(k, rng.randint(1, 3), True) for k in ekeys]
            st = {"name": name, "uid": "d%d" % si, "ikeys": ikeys, "ekeys": ekeys, "seq": 0, "keys": keys,
                  "sres": {}, "ndesc": 1}
            streams.append(st)
            body.append(_desc(st["uid"], name, keys, conf=rng.choice([None, rng.randint(1, 99)]), t=1001 + si))
        nsteps = rng.randint(0, 24)
        nsd = 0
        for step in range(nsteps):
            st = rng.choice(streams)
            r = rng.random()
            if r < 0.55 or not st["ekeys"]:
                st["seq"] += 1
                body.append(_ev(st["uid"], st["seq"], st["ikeys"], step))
            elif r < 0.62:
                st["ndesc"] += 1
                st["uid"] = "d%s_%d" % (st["name"][0], st["ndesc"])
                body.append(_desc(st["uid"], st["name"], st["keys"], conf=rng.choice([None, rng.randint(1, 99)]), t=1200 + step))
            else:
                k = rng.choice(st["ekeys"])
                key = (st["name"], k)
                cur = st["sres"].get(k)
                if cur is None or rng.random() < 0.12:
                    uid = "sr-%s-%s-%d" % (st["name"][0], k, step)
                    nxt = cur["next"] if cur else 0
                    cur = st["sres"][k] = {"uid": uid, "next": nxt if rng.random() < 0.5 else 0, "off": rng.choice([1, 1, 1, 0, 7])}
                    body.append(["sres", uid, k, "/entry/" + k])
                w = rng.choice([0, 1, 1, 1, 2, 3])
                a = cur["next"]
                kind = rng.random()
                if kind < 0.08:
                    a += rng.randint(1, 3)          # gap
                elif kind < 0.14 and a > 0:
                    a -= 1                          # overlap
                b = a + w
                cur["next"] = b
                nsd += 1
                body.append(["sd", "sd%d" % nsd, cur["uid"], st["uid"], a, b, a + cur["off"], b + cur["off"]])
        # occasionally deliver two stream datums out of order
        sd_idx = [i for i, d in enumerate(body) if d[0] == "sd"]
        if len(sd_idx) >= 2 and rng.random() < 0.3:
            i = rng.randrange(len(sd_idx) - 1)
            a, b = sd_idx[i], sd_idx[i + 1]
            if body[a][2] == body[b][2] and body[a][3] == body[b][3]:
                body[a], body[b] = body[b], body[a]
        if rng.random() < 0.3:
            body = _paged(body)
        tags = rng.choice([None, None, ["alice"], ["alice", "beamline"]])
        extra = rng.choice([(), (("sample", "Cu"),), (("big", 2 ** 60), ("neg", -(2 ** 70)))])
        out.append({"bs": bs, "kind": "valid-rand", "docs": [_start(tags, extra)] + body + [_stop((("num", 5),))]})
    return out


def gen_malformed():
    out = []
    P = _desc("dP", "primary", [("x", 0, False), ("img", 2, True)])
    ev = lambda i: _ev("dP", i, ["x"], i)
    sr = ["sres", "sr1", "img", "/entry/data"]
    sd = lambda i, a, b, s="sr1", d="dP": ["sd", "sd%d" % i, s, d, a, b, a + 1, b + 1]
    for bs in BATCHES:
        def add(kind, docs, expect):
            out.append({"bs": bs, "kind": kind, "docs": docs, "expect": expect})
        add("bad-event-before-descriptor", [_start(), ev(1), P, _stop()], "KeyError")
        add("bad-sd-unknown-resource", [_start(), P, sd(1, 0, 1), _stop()], "RuntimeError")
        add("bad-sd-unknown-resource-2", [_start(), P, sd(1, 0, 1), sd(2, 1, 2), sd(3, 4, 5), _stop()], "RuntimeError")
        add("bad-sd-resource-after" if bs <= 3 else "x-sd-resource-late", [_start(), P, sd(1, 0, 1), sd(2, 1, 3), sr, _stop()],
            "RuntimeError" if bs <= 3 else None)
        add("bad-stop-without-start", [_stop()], "RuntimeError")
        add("bad-descriptor-before-start", [P, _start(), _stop()], "RuntimeError")
        add("bad-second-dataset", [_start(), P, sr, ["sres", "sr2", "img", "/other"], sd(1, 0, 1), sd(2, 1, 2, "sr2"),
                                   _stop()], "ValueError")
        add("bad-second-dataset-batch", [_start(), P, sr, ["sres", "sr2", "img", "/other"], sd(1, 0, 1), sd(2, 0, 1, "sr2"),
                                         sd(3, 1, 4, "sr2"), sd(4, 1, 2), _stop()], "ValueError")
        add("bad-undeclared-data-key", [_start(), P, ["sres", "sr1", "nokey", "/entry/data"], sd(1, 0, 1), _stop()], "KeyError")
        add("bad-sd-unknown-descriptor", [_start(), P, sr, sd(1, 0, 1, "sr1", "nodesc"), _stop()], "KeyError")
        add("bad-sd-empty-descriptor", [_start(), P, sr, sd(1, 0, 1, "sr1", ""), _stop()], "RuntimeError")
        add("bad-key-only-in-second-descriptor",
            [_start(), _desc("dP", "primary", [("x", 0, False)]), _desc("dP2", "primary", [("x", 0, False), ("img", 2, True)]),
             sr, sd(1, 0, 1, "sr1", "dP2"), _stop()], "KeyError")
        # outside the hypotheses of the theorems: only the tie with the model (and c46_holds_b) applies
        def addx(kind, docs):
            out.append({"bs": bs, "kind": kind, "docs": docs})
        addx("x-uid-equals-name", [_start(), _desc("u1", "primary", [("x", 0, False)]), _ev("u1", 1, ["x"], 1),
                                   _desc("primary", "baseline", [("x", 0, False)]), _ev("u1", 2, ["x"], 2), _stop()])
        addx("x-event-by-name", [_start(), P, _ev("primary", 1, ["x"], 1), ev(2), _stop()])
        addx("x-reversed-range", [_start(), P, sr, sd(1, 5, 3), sd(2, 3, 4), sd(3, 4, 4), _stop()])
        addx("x-misaligned-seq", [_start(), P, sr, ["sd", "sd1", "sr1", "dP", 0, 2, 1, 3], ["sd", "sd2", "sr1", "dP", 2, 3, 10, 11], _stop()])
        addx("x-two-starts", [_start(), P, ev(1), ["start", "run-2", [["time", 1]], ["t"]], _desc("dQ", "other", [("x", 0, False)]),
                              ev(2), _stop(), _stop((("again", 1),))])
        addx("x-sres-uid-is-fdk", [_start(), P, _desc("dB", "baseline", [("img", 1, True)]), ["sres", "primary_img", "img", "/a"],
                                   ["sres", "sr1", "img", "/a"], sd(1, 0, 1, "primary_img", "dB"), sd(2, 0, 2, "sr1", "dP"), _stop()])
        addx("x-sres-two-streams", [_start(), P, _desc("dB", "baseline", [("img", 1, True)]), sr,
                                    sd(1, 0, 1, "sr1", "dP"), sd(2, 1, 2, "sr1", "dB"), sd(3, 2, 3, "sr1", "dB"), _stop()])
        addx("x-no-stop", [_start(), P, ev(1), sr, sd(1, 0, 1)])
        # dict semantics of the row: a data key named like a reserved column / like a ts_ column is overwritten in place
        addx("x-reserved-key", [_start(), _desc("dR", "primary", [("time", 0, False), ("x", 0, False)]),
                                ["event", "dR", 1, 1100, [["time", 5], ["x", 1]], [["time", 7], ["x", 2]]],
                                ["event", "dR", 2, 1101, [["time", 6], ["x", 3]], [["time", 8], ["x", 4]]], _stop()])
        addx("x-ts-key-clash", [_start(), _desc("dR", "primary", [("x", 0, False), ("ts_x", 0, False)]),
                                ["event", "dR", 1, 1100, [["x", 1], ["ts_x", 9]], [["x", 2], ["ts_x", 3]]], _stop()])
        addx("x-sres-redeclared", [_start(), P, sr, sd(1, 0, 1), ["sres", "sr1", "img", "/other"], sd(2, 1, 2), sd(3, 5, 6), _stop()])
        addx("x-events-different-keys", [_start(), P, ev(1), _stop()])
        # finding a: "<stream>_<key>" collision
        out.append({"bs": bs, "kind": "fdk-collision", "docs": [
            _start(), _desc("d1", "a_b", [("c", 1, True)]), _desc("d2", "a", [("b_c", 1, True)]),
            ["sres", "sr1", "c", "/d"], ["sres", "sr2", "b_c", "/d"],
            ["sd", "sd1", "sr1", "d1", 0, 2, 1, 3], ["sd", "sd2", "sr2", "d2", 0, 3, 1, 4], _stop()]})
    return out


def _preload():
    """Import the heavy modules once in the parent: the forked impl workers inherit them (16 concurrent cold
    imports of tiled/pyarrow cost ~40 s)."""
    import pyarrow
    pyarrow.set_cpu_count(1)
    pyarrow.set_io_thread_count(1)
    import event_model  # noqa: F401
    import bluesky.callbacks.tiled_writer  # noqa: F401
    import tiled.client.metadata_update  # noqa: F401
    import harness.drivers.tiled_double  # noqa: F401


def cases(rng, tier):
    _preload()
    out = gen_internal(tier) + gen_external(tier) + gen_random(rng, tier) + gen_malformed()
    return out


def model_search(rng, tier):
    """Proof or correspondence broken and the oracle found nothing: look for an input on which the model's
    boolean restatement c46_holds_b fails (evaluated in Coq)."""
    from harness import core
    cand = gen_internal("quick")[:400] + gen_external("quick")[:600] + gen_random(rng, "quick")
    terms = ["c46_holds_b %s %s" % (qz(c["bs"]), ql(c["docs"], qdoc)) for c in cand]
    ok, bad, _ = core.eval_cases_in_coq("C46search", __getattr__("COQ_IMPORTS"), terms)
    if ok and bad:
        return cand[bad[0]]
    return None
