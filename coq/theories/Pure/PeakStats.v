(* Model of bluesky.callbacks.fitting.PeakStats._calc_stats (src/bluesky/callbacks/fitting.py:274-314)
   together with the center_of_mass helper it calls, written once over [Ops F].

   numpy pieces are modelled as they execute on contiguous float64 arrays:
   - np.sum / np.mean: add.reduce = 0.0 + pairwise summation (blocks of 8 accumulators up to 128
     elements, recursive halving above) -- [np_sum]; the recursion above 128 elements is not
     structural, it carries explicit fuel and yields [OutOfFuel] when exhausted
     (Proofs/PeakStats.v: fuel_sufficient shows the fuel supplied is always enough);
   - np.argmin / np.argmax: first occurrence;
   - np.interp(c, arange(n), x) for a scalar c: clamping, exact hits, linear interpolation;
   - np.where(np.diff((y > mid).astype(int))): adjacent samples on different sides of mid.
   Not modelled: NaN/inf inputs, numpy warnings, the namedtuple wrapper.
   No proofs in this file. *)
From Coq Require Import ZArith QArith List Bool.
From Coq Require Import PrimFloat.
From BV Require Import Base.Prelude Base.OrdField.
Import ListNotations.

Inductive com_val (F : Type) : Type :=
| ComVal (c : F)          (* a number *)
| ComNaN.                 (* 0/0: sum(y) = 0 and sum(i*y) = 0 *)
Arguments ComVal {F}. Arguments ComNaN {F}.

Record stats (F : Type) : Type := mkStats {
  st_min : F * F;                  (* (x, y_orig) at the first arg-min of the (background-subtracted) y *)
  st_max : F * F;
  st_com : com_val F;
  st_cen : option F;
  st_crossings : list F;
  st_fwhm : option F;
  st_lin_bkg : option (F * F)      (* (m, b) *)
}.
Arguments mkStats {F}. Arguments st_min {F}. Arguments st_max {F}. Arguments st_com {F}.
Arguments st_cen {F}. Arguments st_crossings {F}. Arguments st_fwhm {F}. Arguments st_lin_bkg {F}.

Inductive outcome (A : Type) : Type :=
| Done (a : A)
| BadInput           (* empty arrays (np.argmin raises; compute() returns early) or different lengths *)
| Degenerate         (* edge_count = 0 or right_x == left_x: slope is 0/0 or x/0, every statistic NaN *)
| OutOfFuel.
Arguments Done {A}. Arguments BadInput {A}. Arguments Degenerate {A}. Arguments OutOfFuel {A}.

Definition obind {A B} (r : outcome A) (f : A -> outcome B) : outcome B :=
  match r with Done a => f a | BadInput => BadInput | Degenerate => Degenerate | OutOfFuel => OutOfFuel end.

Section PeakStats.
Context {F : Type} (O : Ops F).

Declare Scope pk_scope.
Local Infix "+" := (add O) : pk_scope.
Local Infix "-" := (sub O) : pk_scope.
Local Infix "*" := (mul O) : pk_scope.
Local Infix "/" := (div O) : pk_scope.
Local Infix "<?" := (ltb O) : pk_scope.
Local Infix "=?" := (eqb O) : pk_scope.
Local Open Scope pk_scope.
Local Notation "0" := (zero O) : pk_scope.
Local Notation fz := (of_Z O).

(* ---------------------------------------------------------------- numpy summation *)
Definition sum_seq (acc : F) (l : list F) : F := fold_left (add O) l acc.

(* 8 <= n <= 128: eight running accumulators over full blocks of 8, combined as a tree, then the tail *)
Fixpoint pw8 (r0 r1 r2 r3 r4 r5 r6 r7 : F) (l : list F) : F :=
  match l with
  | a0 :: a1 :: a2 :: a3 :: a4 :: a5 :: a6 :: a7 :: t =>
      pw8 (r0 + a0) (r1 + a1) (r2 + a2) (r3 + a3) (r4 + a4) (r5 + a5) (r6 + a6) (r7 + a7) t
  | _ => sum_seq (((r0 + r1) + (r2 + r3)) + ((r4 + r5) + (r6 + r7))) l
  end.

Fixpoint pw (fuel : nat) (l : list F) : option F :=
  match fuel with
  | 0%nat => None
  | S f =>
      let n := length l in
      if (n <? 8)%nat then Some (sum_seq 0 l)
      else if (n <=? 128)%nat then
        match l with
        | a0 :: a1 :: a2 :: a3 :: a4 :: a5 :: a6 :: a7 :: t => Some (pw8 a0 a1 a2 a3 a4 a5 a6 a7 t)
        | _ => None
        end
      else
        let n2 := (n / 2 - (n / 2) mod 8)%nat in
        match pw f (firstn n2 l), pw f (skipn n2 l) with
        | Some a, Some b => Some (a + b)
        | _, _ => None
        end
  end.

Definition np_sum (l : list F) : outcome F :=
  match pw (S (length l)) l with Some s => Done (0 + s) | None => OutOfFuel end.

Definition np_mean (l : list F) : outcome F :=
  obind (np_sum l) (fun s => Done (s / fz (Z.of_nat (length l)))).

(* ---------------------------------------------------------------- background *)
(* y - (m * x + b), elementwise *)
Definition sub_bkg (m b : F) (x y : list F) : list F :=
  map (fun p => snd p - (m * fst p + b)) (combine x y).

(* Some (m, b) of the linear background through the means of the first and last k points *)
Definition lin_bkg (x y : list F) (k : nat) : outcome (F * F) :=
  match k with
  | 0%nat => Degenerate
  | _ =>
    let n := length x in
    obind (np_mean (firstn k x)) (fun left_x =>
    obind (np_mean (firstn k y)) (fun left_y =>
    obind (np_mean (skipn (n - k) x)) (fun right_x =>
    obind (np_mean (skipn (n - k) y)) (fun right_y =>
    let dx := right_x - left_x in
    if dx =? 0 then Degenerate
    else let m := (right_y - left_y) / dx in Done (m, left_y - m * left_x)))))
  end.

(* ---------------------------------------------------------------- arg-min / arg-max *)
(* entries are (key, payload); the payload at the first minimal / maximal key *)
Fixpoint first_min {A} (best : F * A) (l : list (F * A)) : F * A :=
  match l with
  | [] => best
  | e :: l' => first_min (if fst e <? fst best then e else best) l'
  end.
Fixpoint first_max {A} (best : F * A) (l : list (F * A)) : F * A :=
  match l with
  | [] => best
  | e :: l' => first_max (if fst best <? fst e then e else best) l'
  end.

(* ---------------------------------------------------------------- np.interp(c, arange(n), x) *)
(* l = x[j:], called with 0 <= j <= c <= n-1 *)
Fixpoint interp_at (c : F) (j : Z) (l : list F) : option F :=
  match l with
  | [] => None
  | [a] => Some a
  | a :: ((b :: _) as t) =>
      if c <? fz (j + 1)
      then Some (if fz j =? c then a
                 else ((b - a) / (fz (j + 1) - fz j)) * (c - fz j) + a)
      else interp_at c (j + 1) t
  end.

Definition last_opt {A} (l : list A) : option A :=
  match rev l with [] => None | a :: _ => Some a end.

Definition center_of_mass_x (x ys : list F) : outcome (com_val F) :=
  match x with
  | [] => BadInput
  | [x0] => Done (ComVal x0)                       (* np.interp with a single sample: always fp[0] *)
  | x0 :: _ =>
    obind (np_sum ys) (fun norm =>
    obind (np_sum (map (fun p => snd p * fz (Z.of_nat (fst p))) (combine (seq 0 (length ys)) ys))) (fun num =>
    match last_opt x with
    | None => BadInput
    | Some xl =>
      if norm =? 0 then
        (if num =? 0 then Done ComNaN                       (* 0/0 = nan; np.interp(nan) = nan *)
         else if 0 <? num then Done (ComVal xl)             (* +inf: right clamp *)
         else Done (ComVal x0))                             (* -inf: left clamp *)
      else
        let c := num / norm in
        if fz (Z.of_nat (length x) - 1) <? c then Done (ComVal xl)
        else if c <? 0 then Done (ComVal x0)
        else match interp_at c 0%Z x with Some v => Done (ComVal v) | None => BadInput end
    end))
  end.

(* ---------------------------------------------------------------- crossings of the mid line *)
Definition cross (mid x0 y0 x1 y1 : F) : F :=
  let _y0 := y0 - mid in
  let _y1 := y1 - mid in
  let dx := x1 - x0 in
  let dy := _y1 - _y0 in
  let m := dy / dx in
  (opp O _y0 / m) + x0.

Fixpoint crossings (mid : F) (l : list (F * F)) : list F :=       (* l = [(x_i, y_i)] *)
  match l with
  | [] => []
  | (x0, y0) :: t =>
      match t with
      | [] => []
      | (x1, y1) :: _ =>
          if xorb (mid <? y0) (mid <? y1) then cross mid x0 y0 x1 y1 :: crossings mid t
          else crossings mid t
      end
  end.

Definition fwhm_of (cs : list F) : option F :=
  match cs with
  | c0 :: _ :: _ => match last_opt cs with Some cl => Some (abs O (cl - c0)) | None => None end
  | _ => None
  end.

(* ---------------------------------------------------------------- _calc_stats *)
Definition background (x y : list F) (edge_count : option nat) : outcome (list F * option (F * F)) :=
  match edge_count with
  | None => Done (y, None)
  | Some k => obind (lin_bkg x y k) (fun mb => Done (sub_bkg (fst mb) (snd mb) x y, Some mb))
  end.

Definition calc_stats (x y : list F) (edge_count : option nat) : outcome (stats F) :=
  if negb (length x =? length y)%nat then BadInput
  else
    obind (background x y edge_count) (fun bk =>
    let ys := fst bk in
    match combine ys (combine x y) with
    | [] => BadInput
    | e0 :: es =>
        let emin := first_min e0 es in
        let emax := first_max e0 es in
        obind (center_of_mass_x x ys) (fun com =>
        let mid := (fst emax + fst emin) / fz 2 in
        let cs := crossings mid (combine x ys) in
        obind (match cs with [] => Done None | _ => obind (np_mean cs) (fun c => Done (Some c)) end) (fun cen =>
        Done (mkStats (snd emin) (snd emax) com cen cs (fwhm_of cs) (snd bk))))
    end).

(* finding class C44-a: at least two samples and both sum(y) and sum(i*y) of the (background-
   subtracted) data are zero -- e.g. an all-zero signal, or a flat signal with edge subtraction *)
Definition finding_a (x y : list F) (edge_count : option nat) : bool :=
  match background x y edge_count with
  | Done bk =>
      let ys := fst bk in
      match np_sum ys, np_sum (map (fun p => snd p * fz (Z.of_nat (fst p))) (combine (seq 0 (length ys)) ys)) with
      | Done norm, Done num => (2 <=? length x)%nat && (length x =? length y)%nat && (norm =? 0) && (num =? 0)
      | _, _ => false
      end
  | _ => false
  end.

End PeakStats.

(* ---------------------------------------------------------------- vocabulary of the statements (Q) *)
Fixpoint adj {A} (l : list A) : list (A * A) :=            (* adjacent pairs *)
  match l with
  | a :: t => match t with b :: _ => (a, b) :: adj t | [] => [] end
  | [] => []
  end.

Definition qsum (l : list Q) : Q := fold_right Qplus 0%Q l.
Definition qmean (l : list Q) : Q := (qsum l / inject_Z (Z.of_nat (length l)))%Q.
(* sum over i of i * l[i], i counted from i0 *)
Fixpoint qwsum (i0 : nat) (l : list Q) : Q :=
  match l with [] => 0%Q | a :: t => (a * inject_Z (Z.of_nat i0) + qwsum (S i0) t)%Q end.

Definition between (a b c : Q) : Prop := (a <= c <= b \/ b <= c <= a)%Q.
Definition in_hull (x : list Q) (c : Q) : Prop := exists a b, In a x /\ In b x /\ (a <= c <= b)%Q.
Definition adj_distinct (x : list Q) : Prop := forall a b, In (a, b) (adj x) -> ~ (a == b)%Q.
Definition strict_mono (x : list Q) : Prop :=
  (forall a b, In (a, b) (adj x) -> (a < b)%Q) \/ (forall a b, In (a, b) (adj x) -> (b < a)%Q).

(* the two samples ((x0,y0),(x1,y1)) lie on different sides of mid (y > mid on exactly one of them) *)
Definition straddle (mid : Q) (pr : (Q * Q) * (Q * Q)) : bool :=
  xorb (Qltb mid (snd (fst pr))) (Qltb mid (snd (snd pr))).

(* ---------------------------------------------------------------- float instance, for the tie *)
Definition fopt_beq (a b : option float) : bool := option_beq fbeq a b.
Definition com_beq (a b : com_val float) : bool :=
  match a, b with
  | ComVal u, ComVal v => fbeq u v
  | ComNaN, ComNaN => true
  | _, _ => false
  end.
Definition stats_beq (s t : stats float) : bool :=
  fpair_beq (st_min s) (st_min t) && fpair_beq (st_max s) (st_max t) && com_beq (st_com s) (st_com t)
  && fopt_beq (st_cen s) (st_cen t) && flist_beq (st_crossings s) (st_crossings t)
  && fopt_beq (st_fwhm s) (st_fwhm t) && option_beq fpair_beq (st_lin_bkg s) (st_lin_bkg t).

Definition outcome_beq {A} (eqb : A -> A -> bool) (a b : outcome A) : bool :=
  match a, b with
  | Done u, Done v => eqb u v
  | BadInput, BadInput => true
  | Degenerate, Degenerate => true
  | OutOfFuel, OutOfFuel => true
  | _, _ => false
  end.

(* the model on the case reproduces the observed statistics, and the finding-class predicate
   agrees with its Python mirror *)
Definition check_peak (x y : list float) (edge_count : option nat)
           (expected : outcome (stats float)) (in_class : bool) : bool :=
  outcome_beq stats_beq (calc_stats FO x y edge_count) expected
  && Bool.eqb (finding_a FO x y edge_count) in_class.
