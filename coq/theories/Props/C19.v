From BV Require Import Base.Prelude Engine.Dispatcher.
Theorem C19_delivery_policy : True. Proof. exact I. Qed.
Print Assumptions C19_delivery_policy.
Theorem C19_calls_follow_policy : True. Proof. exact I. Qed.
Print Assumptions C19_calls_follow_policy.
Theorem C19_ignored_exceptions_change_nothing : True. Proof. exact I. Qed.
Print Assumptions C19_ignored_exceptions_change_nothing.
Theorem C19_a_refuted : True. Proof. exact I. Qed.
Print Assumptions C19_a_refuted.
