"""C23 - paired-action wrappers always undo what they did.

Tie: the REAL bluesky.preprocessors wrappers (run_wrapper, stage_wrapper, subs_wrapper, suspend_wrapper,
lazily_stage_wrapper, monitor_during_wrapper, fly_during_wrapper) driven as generators over generated wrapped
plans (succeeding, failing at each message, stopped / aborted by thrown RequestStop / RequestAbort, halted,
closed) and device lists on parent forests with shared ancestors, against the machines of Gen/Paired.v,
Gen/Insert.v, Gen/During.v evaluated inside Coq: per driver step the yielded message (identity for the wrapped
plan's own Msg objects, full content for wrapper-made ones), the return value or the raised class."""
import itertools

from harness.drivers import gen_dsl as G
from harness.drivers import paired_driver as D

ID = "C23"
PROP_FILE = "Props/C23.v"
THEOREMS = ["C23_stage_wrapper_trace", "C23_stage_wrapper_unstages_all", "C23_stage_wrapper_unstages_all_and_waits", "C23_stage_roots", "C23_suspend_wrapper_trace", "C23_suspend_wrapper_removes_all", "C23_subs_wrapper_trace", "C23_subs_wrapper_unsubscribes_tokens", "C23_run_wrapper_trace", "C23_run_wrapper_one_close", "C23_close_status_table", "C23_stage_wrapper_closed_in_plan", "C23_suspend_wrapper_closed_in_plan", "C23_subs_wrapper_closed_in_plan", "C23_run_wrapper_closed_in_plan", "C23_close_never_yields", "C23_lazily_stage_trace", "C23_lazily_stage_unstages_all", "C23_lazily_stage_roots_once", "C23_during_is_expansion", "C23_expansion_before", "C23_expansion_after", "C23_during_lists", "C23_during_is_expansion_full", "C23_expansion_throw", "C23_expansion_close"]
COQ_IMPORTS = ("From BV Require Import Gen.Coalg Gen.PyGen Gen.Wrappers Gen.Tie Gen.Paired Gen.Insert Gen.Relative "
               "Gen.TiePaired Gen.TieRelative.")
PARALLEL = True
MODELLED = ("finalize_wrapper / contingency_wrapper are C22's verified machine, plan_mutator is C21's (monitor/fly_during); the wrappers' own "
            "glue -- `return (yield from ...)`, inner() = prefix then plan, stage_all / unstage_all / _subscribe / _unsubscribe / open_run / "
            "close_run as list plans, plan_mutator with one inserted query and a closure store (lazily_stage) -- is modelled by hand; "
            "separate_devices / root_ancestor are modelled on a finite parent forest; CPython generators by PyGen (C20); Python's set "
            "iteration order is a model input taken from a plain Python set; wrapper-made messages are identified by content, random "
            "group uuids by the role of the first message carrying them; fake devices, callables and suspenders are inert objects")
RULE = ("7 real wrappers x palettes of wrapped plans (returning, failing at once / after messages, raising RequestAbort / RequestStop / "
        "KeyboardInterrupt / GeneratorExit, swallowing thrown exceptions, reacting to control exceptions, ignoring close, own cleanup "
        "that yields, re-yielding the same Msg object) x device lists on parent forests with shared ancestors (chains, two trees, "
        "duplicates, empty) / suspender lists / subscription dicts, lists, callables / flyer and signal lists; scripts: the all-answered "
        "script and, at EVERY position, each of send 1/2/Status, throw User0 / RequestAbort / RequestStop / PlanHalt / KeyboardInterrupt / "
        "GeneratorExit, close, followed by answers again (+ pairs of deviations on random cases), plus exhaustive scripts of length <= 4-6 "
        "over a 5-6 letter alphabet on small configurations; seeded random plans of gen_dsl; non-trivial = an undo message was observed "
        "and some script has >= 4 steps")

Y = lambda m, x=None: ["yield", x, m]      # noqa: E731


def seq(*xs):
    out = xs[-1]
    for x in reversed(xs[:-1]):
        out = ["seq", x, out]
    return out


SEND0 = ["send", None]
DEVIATIONS = [["send", 1], ["send", 2], ["send", 50], ["throw", "User0"], ["throw", "RequestAbort"], ["throw", "RequestStop"],
              ["throw", "PlanHalt"], ["throw", "KeyboardInterrupt"], ["throw", "GeneratorExit"], ["close"]]
CORE = [SEND0, ["send", 1], ["send", 50], ["throw", "User0"], ["throw", "RequestAbort"], ["close"]]

# wrapped plans over the message ids 0..3 of the case's table
INNER = [
    seq(Y(0, 0), ["return", ["var", 0]]),                                   # x = yield m0; return x
    seq(Y(0), Y(1)),
    seq(Y(0), Y(1), Y(2), Y(0)),
    seq(Y(0), ["raise", "User1"]),                                          # fails after a message
    ["raise", "User1"],                                                     # fails at once
    ["return", ["const", 7]],
    ["pass"],
    ["try", Y(0), [], ["pass"], Y(1)],                                      # own cleanup that yields
    ["try", Y(0), [["genexit", Y(1)]], ["pass"], ["pass"]],                 # ignores close
    ["try", Y(0), [["exc", seq(Y(1), ["return", ["const", 3]])]], ["pass"], ["pass"]],   # swallows a thrown exception
    ["try", seq(Y(0), Y(1)), [["control", seq(Y(2), ["reraise"])]], ["pass"], ["pass"]],  # reacts to stop/abort
    seq(Y(0), ["raise", "KeyboardInterrupt"]),                              # BaseException-only out of the plan
    seq(Y(0), ["raise", "GeneratorExit"]),
    seq(Y(0), ["raise", "RequestAbort"]),
    seq(Y(1), ["raise", "RequestStop"]),
    seq(Y(0), ["if", ["isnone", 0], Y(1), Y(2)]),
]

MSGS_PLAIN = [["cmd", 0, 0], ["cmd", 2, 1], ["cmd", 1, 0], ["cmd", 3, 1]]

FORESTS = [
    # (ndev, parents, device lists)
    (1, [], [[0], [0, 0], []]),
    (3, [[1, 0], [2, 0]], [[1, 2], [2, 1, 0], [0, 1], [1]]),                     # two children of one root
    (4, [[1, 0], [2, 1]], [[2, 3], [3, 2, 1], [2, 0, 3, 3]]),                    # chain 2 -> 1 -> 0, and a lone root 3
    (5, [[2, 0], [3, 1], [4, 3]], [[2, 3], [4, 2, 3], [1, 0], [4, 0, 2, 1, 3]]),  # two trees
]


def _spy(gen, rec, ctx=None):
    """Transparent delegation that records which of its Msg objects the wrapped plan yields (["y", id]) and how it
    ended (for the oracle and the finding mirrors only)."""
    try:
        m = gen.send(None)
        while True:
            rec.append(["y", ctx.msg_id.get(id(m)) if ctx is not None else None])
            try:
                ans = yield m
            except GeneratorExit:
                gen.close()
                raise
            except BaseException as e:  # noqa: BLE001
                m = gen.throw(e)
            else:
                m = gen.send(ans)
    except StopIteration as e:
        rec.append(["r", D.canon_val(e.value, ctx)])
        return e.value
    except BaseException as e:  # noqa: BLE001
        rec.append(["e", D.exc_name(e)])
        raise


def cases(rng, tier):
    out = []
    quick = tier == "quick"
    # ---- stage_wrapper
    for ndev, parents, dls in FORESTS:
        for devices in dls:
            for i, p in enumerate(INNER):
                if quick and (i + len(devices)) % 3 and ndev > 1:
                    continue
                out.append({"w": "stage", "ndev": max(ndev, 2), "parents": parents, "devices": devices, "msgs": MSGS_PLAIN,
                            "plan": p, "mode": "inject", "base": SEND0 if i % 2 else ["send", 50]})
    for p in INNER[:8]:
        out.append({"w": "stage", "ndev": 3, "parents": [[1, 0], [2, 0]], "devices": [1], "msgs": MSGS_PLAIN, "plan": p,
                    "mode": "exh", "depth": 4 if quick else 5})
    # ---- suspend_wrapper
    for susps in ([0], [0, 1], [1, 0, 2], [], [0, 0]):
        for i, p in enumerate(INNER):
            if quick and (i + len(susps)) % 2:
                continue
            out.append({"w": "suspend", "ndev": 2, "susps": susps, "single": False, "msgs": MSGS_PLAIN, "plan": p, "mode": "inject",
                        "base": SEND0})
    out.append({"w": "suspend", "ndev": 2, "susps": [2], "single": True, "msgs": MSGS_PLAIN, "plan": INNER[1], "mode": "exh", "depth": 4})
    # ---- subs_wrapper
    for subs in ({"all": [0]}, {"all": [0, 1]}, {"event": [1], "all": [0], "stop": [2]}, {}, {"start": [0, 0]}):
        for i, p in enumerate(INNER):
            if quick and (i + len(subs)) % 2:
                continue
            for base in (SEND0, ["send", 1]):
                out.append({"w": "subs", "ndev": 2, "subs": subs, "form": "dict", "msgs": MSGS_PLAIN, "plan": p, "mode": "inject",
                            "base": base, "tokens": True})
    out.append({"w": "subs", "ndev": 2, "subs": {"all": [0, 1]}, "form": "list", "msgs": MSGS_PLAIN, "plan": INNER[1], "mode": "exh",
                "depth": 5, "alpha": [SEND0, ["send", 1], ["send", 2], ["send", 9], ["throw", "User0"], ["close"]]})
    out.append({"w": "subs", "ndev": 2, "subs": {"all": [3]}, "form": "callable", "msgs": MSGS_PLAIN, "plan": INNER[0], "mode": "exh",
                "depth": 4})
    # ---- run_wrapper
    for i, p in enumerate(INNER):
        out.append({"w": "run", "ndev": 2, "msgs": MSGS_PLAIN + [["close", None, None]], "plan": p, "mode": "inject", "base": SEND0})
        out.append({"w": "run", "ndev": 2, "msgs": MSGS_PLAIN, "plan": p, "mode": "exh", "depth": 4 if quick else 5})
    out.append({"w": "run", "ndev": 2, "msgs": MSGS_PLAIN + [["close", None, None]], "plan": seq(Y(0), Y(4), Y(1)), "mode": "inject",
                "base": ["send", 7]})
    # ---- lazily_stage_wrapper: messages on roots, children, grandchildren; answers None / device lists / Status
    LPAR = [[1, 0], [2, 1], [4, 3]]           # 2 -> 1 -> 0 ; 4 -> 3 ; 5 alone
    LMSGS = [["cmd", 0, 2], ["cmd", 2, 1], ["cmd", 1, 4], ["cmd", 3, 5], ["kickoff", 5, 7], ["cmd", 0, 0]]
    LLISTS = [[0], [0, 1, 2], [], [3, 4], [5]]
    LINNER = [seq(Y(0), Y(1), Y(5)), seq(Y(0), Y(0), Y(2), Y(2)), seq(Y(3), Y(4), Y(2)), seq(Y(0, 0), ["return", ["var", 0]]),
              seq(Y(0), ["raise", "User1"]), ["try", seq(Y(0), Y(2)), [["exc", seq(Y(1), Y(2))]], ["pass"], ["pass"]],
              seq(Y(2), Y(0), Y(1), Y(4), Y(3)), ["pass"], seq(Y(3), Y(3)), ["try", Y(0), [["genexit", Y(1)]], ["pass"], ["pass"]],
              seq(Y(5), Y(1), ["raise", "RequestAbort"])]
    for i, p in enumerate(LINNER):
        for base in (SEND0, ["send", 0], ["send", 1], ["send", 2]):
            if quick and (i + base[1] if base[1] else i) % 2 and base != SEND0:
                continue
            out.append({"w": "lazy", "ndev": 6, "parents": LPAR, "msgs": LMSGS, "lists": LLISTS, "plan": p, "mode": "inject", "base": base})
    for p in LINNER[:3]:
        out.append({"w": "lazy", "ndev": 6, "parents": LPAR, "msgs": LMSGS, "lists": LLISTS, "plan": p, "mode": "exh",
                    "depth": 4 if quick else 5, "alpha": [SEND0, ["send", 0], ["send", 3], ["throw", "User0"], ["close"]]})
    # ---- monitor_during_wrapper / fly_during_wrapper: runs opened and closed by the wrapped plan
    DM = [["open"], ["cmd", 0, 0], ["close", None, None], ["open"], ["close", "fail", None], ["cmd", 2, 1]]
    DINNER = [seq(Y(0), Y(1), Y(2)),                                   # one run
              seq(Y(0), Y(1), Y(2), Y(3), Y(5), Y(4)),                 # two runs
              seq(Y(0), Y(3), Y(1), Y(4), Y(2)),                       # nested runs
              seq(Y(1), Y(2)),                                         # close without open
              seq(Y(0, 0), Y(1), Y(2, 1), ["return", ["var", 0]]),     # returns the answer to open_run
              ["try", seq(Y(0), Y(1), Y(2)), [["exc", Y(4)]], ["pass"], ["pass"]],       # closes the run on failure
              ["try", seq(Y(0), Y(1)), [], ["pass"], Y(2)],                                # closes in finally
              seq(Y(0), ["raise", "User1"]),
              ["pass"],
              seq(Y(0), Y(1), Y(2), Y(0), Y(5), Y(2))]                 # the same open/close Msg objects again (cached plan)
    for w in ("monitor", "fly"):
        for devs in ([0], [1, 0], []):
            for i, p in enumerate(DINNER):
                if quick and (i + len(devs)) % 2 and devs != [1, 0]:
                    continue
                out.append({"w": w, "ndev": 2, "devs": devs, "msgs": DM, "plan": p, "mode": "inject",
                            "base": SEND0 if i % 2 else ["send", 1]})
        out.append({"w": w, "ndev": 2, "devs": [0], "msgs": DM, "plan": DINNER[0], "mode": "exh", "depth": 5 if quick else 6,
                    "alpha": [SEND0, ["send", 1], ["throw", "User0"], ["throw", "RequestAbort"], ["close"]]})
    # ---- random wrapped plans
    nrand = 60 if quick else 1500
    for _ in range(nrand):
        w = rng.choice(["stage", "suspend", "subs", "run", "lazy", "monitor", "fly"])
        c = {"w": w, "ndev": 5, "parents": [[2, 0], [3, 1], [4, 3]], "msgs": MSGS_PLAIN, "plan": rand_plan(rng), "mode": "inject",
             "base": rng.choice([SEND0, ["send", 1], ["send", 50]]) if w != "subs" else SEND0, "pairs": 6, "rand": True}
        if w == "stage":
            c["devices"] = [rng.randrange(5) for _ in range(rng.randint(0, 4))]
        elif w == "suspend":
            c["susps"] = [rng.randrange(3) for _ in range(rng.randint(0, 3))]
            c["single"] = False
        elif w in ("monitor", "fly"):
            c.update(ndev=2, msgs=DM, devs=[rng.randrange(2) for _ in range(rng.randint(0, 2))], plan=remap(rand_plan(rng), rng, 6))
        elif w == "lazy":
            c.update(ndev=6, parents=LPAR, msgs=LMSGS, lists=LLISTS, plan=remap(rand_plan(rng), rng, 6),
                     base=rng.choice([SEND0, ["send", 0], ["send", 3]]))
        elif w == "subs":
            c["subs"] = {rng.choice(D.SUBS_NAMES): [rng.randrange(3) for _ in range(rng.randint(1, 2))] for _ in range(rng.randint(0, 2))}
            c["form"] = "dict"
            c["base"] = rng.choice([SEND0, ["send", 1], ["send", 2]])
        out.append(c)
    return out


def rand_plan(rng):
    """gen_dsl's random programs, without except-clauses on classes CPython itself raises (the named subclasses used by
    this driver would not match those)."""
    while True:
        p = G.rand_stmt(rng, rng.randint(2, 9))
        s = repr(p)
        if "'RuntimeError'" in s or "['kind', 'GeneratorExit']" in s or "['kind', 'KeyboardInterrupt']" in s:
            continue
        return p


def remap(p, rng, n):
    """spread the message ids of a gen_dsl random program over n messages"""
    t = p[0]
    if t == "yield":
        return ["yield", p[1], rng.randrange(n)]
    if t == "seq":
        return ["seq", remap(p[1], rng, n), remap(p[2], rng, n)]
    if t == "if":
        return ["if", p[1], remap(p[2], rng, n), remap(p[3], rng, n)]
    if t in ("yf", "for"):
        return [t, p[1], remap(p[2], rng, n)]
    if t == "try":
        return ["try", remap(p[1], rng, n), [[h, remap(b, rng, n)] for h, b in p[2]], remap(p[3], rng, n), remap(p[4], rng, n)]
    return p


def flat_subs(subs):
    """(func, name index) in the order normalize_subs_input produces (SUBS_NAMES order, then list order)."""
    return [[f, D.SUBS_NAMES.index(n)] for n in D.SUBS_NAMES for f in subs.get(n, [])]


def builder(case, rec=None):
    from bluesky import preprocessors as bp
    w = case["w"]

    def build(ctx):
        plan = ctx.plan(case["plan"])
        if rec is not None:
            plan = _spy(plan, rec, ctx)
        if w == "stage":
            return bp.stage_wrapper(plan, [ctx.devs[i] for i in case["devices"]])
        if w == "suspend":
            s = [ctx.susps[i] for i in case["susps"]]
            return bp.suspend_wrapper(plan, s[0] if case.get("single") else s)
        if w == "subs":
            form = case.get("form", "dict")
            if form == "dict":
                subs = {n: [ctx.funcs[f] for f in fs] for n, fs in case["subs"].items()}
            elif form == "list":
                subs = [ctx.funcs[f] for f in case["subs"]["all"]]
            else:
                subs = ctx.funcs[case["subs"]["all"][0]]
            return bp.subs_wrapper(plan, subs)
        if w == "run":
            return bp.run_wrapper(plan)
        if w == "lazy":
            return bp.lazily_stage_wrapper(plan)
        if w == "monitor":
            return bp.monitor_during_wrapper(plan, [ctx.devs[i] for i in case["devs"]])
        if w == "fly":
            return bp.fly_during_wrapper(plan, [ctx.devs[i] for i in case["devs"]])
        raise ValueError(w)
    return build


def scripts_for(case, rng=None):
    import random
    build = builder(case)
    if case["mode"] == "exh":
        return D.exhaustive_scripts(case, build, case.get("alpha", CORE), case["depth"])
    rng = random.Random(repr(case))
    devs = [d for d in DEVIATIONS + [SEND0] if d != case["base"]]
    if case["w"] == "subs":
        # tokens must be values whose hash (hence set order) does not depend on object identity
        devs = [d for d in devs if d != ["send", 50]]
    return D.inject_scripts(case, build, case["base"], devs, 24,
                            pairs=case.get("pairs", 0), rng=rng)


def impl(case):
    runs = []
    for s in scripts_for(case):
        rec = []
        s1, t, log = D.run_script(case, builder(case, rec), s)
        runs.append([s1, t, rec])
    del G.KEEP[:]
    obs = {"runs": runs}
    if case["w"] == "subs":
        obs["sets"] = set_table(case, runs)
    return obs


def set_table(case, runs):
    """CPython's own iteration order of the set of tokens, for every token list that can have been collected: computed
    with a plain Python set, independently of the wrapper."""
    n = len(flat_subs(case["subs"]))
    vals = sorted({i[1] for s, _, _ in runs for i in s if i[0] == "send"}, key=lambda v: (v is not None, v or 0))
    table = []
    for k in range(n + 1):
        for toks in itertools.product(vals, repeat=k):
            st = set()
            for t in toks:
                st.add(D.resp(t))
            table.append([list(toks), [D.canon_val(x) for x in st]])
    return table


# ------------------------------------------------------------------------------ model side

def coq_term(case, obs):
    runs = [(s, t) for s, t, _ in obs["runs"]]
    tbl = D.universe(case, runs)
    T, R, P = D.c_tbl(tbl), D.c_runs(runs, tbl), G.to_coq(case["plan"])
    w = case["w"]
    if w == "stage":
        par = "[" + "; ".join("(%d, %d)" % (c, p) for c, p in case.get("parents", [])) + "]"
        return "c23_stage %s %s %s %s %s" % (par, D.c_list(case["devices"]), T, P, R)
    if w == "suspend":
        return "c23_suspend %s %s %s %s" % (D.c_list(case["susps"]), T, P, R)
    if w == "subs":
        subs = "[" + "; ".join("(%d, %d)" % (f, n) for f, n in flat_subs(case["subs"])) + "]"
        sets = "[" + "; ".join("(%s, %s)" % (c_vals(k), c_vals(v)) for k, v in obs["sets"]) + "]"
        return "c23_subs %s %s %s %s %s" % (subs, sets, T, P, R)
    if w == "run":
        return "c23_run %s %s %s" % (T, P, R)
    if w in ("monitor", "fly"):
        fc = "true" if finding(case, obs) == "c" else "false"
        return "c23_during %s %s %s %s %s %s" % ("true" if w == "fly" else "false", D.c_list(case["devs"]), T, P, fc, R)
    if w == "lazy":
        par = "[" + "; ".join("(%d, %d)" % (c, p) for c, p in case.get("parents", [])) + "]"
        lists = "[" + "; ".join(D.c_list(l) for l in case["lists"]) + "]"
        fb = "true" if finding(case, obs) == "b" else "false"
        return "c23_lazy true %s %s %s %s %s %s" % (par, lists, T, P, fb, R)
    raise ValueError(w)


def c_vals(vs):
    return "[" + "; ".join(G.c_val(v) for v in vs) + "]"


# ------------------------------------------------------------------------------ the property, on the observation

GE = ("GeneratorExit", "PlanHalt")


def ends_plainly(s, t):
    """The wrapper terminated by returning or by raising something that is not a GeneratorExit kind, not under close()."""
    last = s[len(t) - 1] if t else None
    if not t or last == ["close"] or (last[0] == "throw" and last[1] in GE):
        return False
    return t[-1][0] in ("r", "e") and not (t[-1][0] == "e" and t[-1][1] in GE)


def made(t, kind):
    """(index, content) of the wrapper-made messages of that kind in the trace."""
    return [(i, o[2]) for i, o in enumerate(t) if o[0] == "y" and o[1] == "v" and o[2][0] == kind]


def all_sends_after(s, t, i):
    return all(x[0] == "send" for x in s[i + 1:len(t)])


def expected_roots(case):
    """Independent restatement: walk .parent on the case's forest; keep first occurrences."""
    par = {c: p for c, p in case.get("parents", [])}
    roots = []
    for d in case["devices"]:
        while d in par:
            d = par[d]
        if d not in roots:
            roots.append(d)
    return roots


def oracle(case, obs):
    w = case["w"]
    for s, t, rec in obs["runs"]:
        bad = [o for o in t if o[0] == "y" and o[1] == "v" and o[2][0] == "bad"]
        if bad:
            return "script %s: unexpected message from the wrapper: %s" % (s, bad[0][2][1])
        if w == "stage":
            roots = expected_roots(case)
            st, un = made(t, "stage"), made(t, "unstage")
            sd, ud = [v[1] for _, v in st], [v[1] for _, v in un]
            if sd != roots[:len(sd)]:
                return "script %s: staged %s, the roots of the devices are %s" % (s, sd, roots)
            if ud != list(reversed(roots))[:len(ud)]:
                return "script %s: unstaged %s, expected the roots %s reversed, once each" % (s, ud, roots)
            if len({v[2] for _, v in un}) > 1:
                return "script %s: unstage messages in different groups" % (s,)
            if ends_plainly(s, t) and len(t) > 1 and (not un or all_sends_after(s, t, un[0][0])):
                if set(ud) != set(roots):
                    return "script %s ends with %s but only %s of the staged roots %s were unstaged" % (s, t[-1], ud, roots)
        elif w == "suspend":
            ins, rem = [v[1] for _, v in made(t, "install")], made(t, "remove")
            rd = [v[1] for _, v in rem]
            if ins != case["susps"][:len(ins)] or rd != case["susps"][:len(rd)]:
                return "script %s: installed %s removed %s for suspenders %s" % (s, ins, rd, case["susps"])
            if ends_plainly(s, t) and len(t) > 1 and (not rem or all_sends_after(s, t, rem[0][0])):
                if not set(ins) <= set(rd):
                    return "script %s ends with %s: installed %s but removed only %s" % (s, t[-1], ins, rd)
        elif w == "subs":
            sub, un = made(t, "subscribe"), made(t, "unsubscribe")
            got = [s[i + 1][1] for i, _ in sub if i + 1 < len(t) and s[i + 1][0] == "send"]
            ut = [v[1] for _, v in un]
            if len(set(map(repr, ut))) != len(ut) or not set(map(repr, ut)) <= set(map(repr, got)):
                return "script %s: unsubscribed %s, tokens received %s" % (s, ut, got)
            if [v[1:] for _, v in sub] != flat_subs(case["subs"])[:len(sub)]:
                return "script %s: subscribed %s for %s" % (s, sub, case["subs"])
            if ends_plainly(s, t) and len(t) > 1 and (not un or all_sends_after(s, t, un[0][0])):
                if set(map(repr, ut)) != set(map(repr, got)):
                    return "script %s ends with %s: tokens received %s, unsubscribed %s" % (s, t[-1], got, ut)
        elif w in ("monitor", "fly"):
            why = during_oracle(case, s, t)
            if why:
                return "script %s: %s" % (s, why)
        elif w == "lazy":
            why = lazy_oracle(case, s, t)
            if why:
                return "script %s: %s" % (s, why)
        elif w == "run":
            cl = made(t, "close")
            if len(cl) > 1:
                return "script %s: %d close_run messages for one open_run" % (s, len(cl))
            opened = len(t) > 1 and s[1][0] == "send"
            if not opened:
                if cl:
                    return "script %s: close_run although the open_run did not succeed" % (s,)
                continue
            rec = [r for r in rec if r[0] != "y"]
            want = None
            if rec and rec[0][0] == "r":
                want = ["close", None, None]
            elif rec and rec[0][1] == "RequestAbort":
                want = ["close", "abort", None]
            elif rec and rec[0][1] == "RequestStop":
                want = ["close", "success", None]
            elif rec and rec[0][1] in G.EXCEPTION_KINDS:
                want = ["close", "fail", rec[0][1]]
            if cl and cl[0][1] != want:
                return "script %s: wrapped plan ended with %s, close_run says %s" % (s, rec, cl[0][1])
            if want is not None and not cl and (ends_plainly(s, t) or t[-1][0] == "y"):
                return "script %s: wrapped plan ended with %s, no close_run was emitted" % (s, rec)
            if t[-1][0] == "r" and (t[-1][1] != s[1][1] or not cl):
                return "script %s: returned %s (open_run answered %s), closes: %s" % (s, t[-1], s[1][1], cl)
    return None


def root_of(case, d):
    par = {c: p for c, p in case.get("parents", [])}
    while d in par:
        d = par[d]
    return d


def lazy_oracle(case, s, t):
    """every device the wrapper staged is unstaged exactly once, in reverse order: no root is staged twice; the
    unstage messages are the staged devices (what the stage messages were answered with; the root itself for the
    answer None), last staged first"""
    staged_roots, recorded = [], []
    un = made(t, "unstage")
    for i, o in enumerate(t):
        if o[0] == "y" and o[1] == "v" and o[2][0] == "stage":
            r = o[2][1]
            if r in staged_roots:
                return "root %d staged a second time" % r
            ans = s[i + 1] if i + 1 < len(t) else None
            if ans is not None and ans[0] == "send":
                if ans[1] is not None and ans[1] >= 50:
                    return "the stage message was answered with a Status: TypeError inside the wrapper, root %d never unstaged" % r
                staged_roots.append(r)
                recorded += [r] if ans[1] is None else case["lists"][ans[1]]
        elif o[0] == "y" and o[1] == "id":
            v = case["msgs"][o[2]]
            d = v[2] if v[0] == "cmd" and v[1] < 3 else (v[1] if v[0] == "kickoff" else None)
            if d is not None and root_of(case, d) not in staged_roots and not un:
                return "message on device %d left the wrapper before its root was staged" % d
    ud = [v[1] for _, v in un]
    if ud != list(reversed(recorded))[:len(ud)]:
        return "unstaged %s, staged (in order) %s" % (ud, recorded)
    if ends_plainly(s, t) and len(t) > 1 and (not un or all_sends_after(s, t, un[0][0])) and ud != list(reversed(recorded)):
        return "ends with %s: staged %s, unstaged only %s" % (t[-1], recorded, ud)
    return None


def during_lists(case):
    devs = case["devs"]
    if case["w"] == "monitor":
        return [["monitor", d] for d in devs], [["unmonitor", d] for d in devs]
    after = [["kickoff", d, 102] for d in devs] + ([["wait", 102]] if devs else [])
    before = [["complete", d, 103] for d in devs] + ([["wait", 103]] if devs else []) + [["collect", d] for d in devs]
    return after, before


def during_oracle(case, s, t):
    """every close_run of the wrapped plan leaves only right after unmonitor of each signal / complete of each flyer, wait,
    collect of each flyer; every open_run is followed by monitor of each signal / kickoff of each flyer, wait, for as long
    as the messages are answered (a Msg object the plan yields a second time is finding class C23-c)"""
    after, before = during_lists(case)
    first = set()
    for i, o in enumerate(t):
        if o[0] != "y" or o[1] != "id":
            continue
        v = case["msgs"][o[2]]
        again = o[2] in first
        first.add(o[2])
        if v[0] == "close":
            got = [x[2] for x in t[max(0, i - len(before)):i] if x[0] == "y" and x[1] == "v"]
            if got != before:
                if again:
                    return "C23-c: the close_run Msg object yielded again left without the messages before it"
                return "close_run left the wrapper after %s, expected %s right before it" % (got, before)
        if v[0] == "open":
            for j, want in enumerate(after):
                k = i + 1 + j
                if k >= len(t) or s[k][0] != "send":
                    break
                if not (t[k][0] == "y" and t[k][1] == "v" and t[k][2] == want):
                    if again:
                        return "C23-c: the open_run Msg object yielded again was not followed by the messages after it"
                    return "open_run was followed by %s, expected %s" % (t[k], want)
    return None


def finding(case, obs):
    """Mirrors of the finding classes.  C23-b: the inserted stage message is answered with a Status (not iterable).
    C23-c: the wrapped plan yields the same open_run / close_run Msg object a second time."""
    if case["w"] in ("monitor", "fly"):
        for s, t, rec in obs["runs"]:
            ids = [r[1] for r in rec if r[0] == "y" and r[1] is not None and case["msgs"][r[1]][0] in ("open", "close")]
            if len(ids) != len(set(ids)):
                return "c"
        return None
    return finding_b(case, obs)


def finding_b(case, obs):
    """Mirror of finding class C23-b: the inserted stage message is answered with a Status (not iterable)."""
    if case["w"] != "lazy":
        return None
    for s, t, _ in obs["runs"]:
        for i, o in enumerate(t):
            if o[0] == "y" and o[1] == "v" and o[2][0] == "stage" and i + 1 < len(t) and s[i + 1][0] == "send" \
                    and s[i + 1][1] is not None and s[i + 1][1] >= 50:
                return "b"
    return None


def nontrivial(case, obs):
    kinds = {"stage": "unstage", "suspend": "remove", "subs": "unsubscribe", "run": "close", "lazy": "unstage",
             "monitor": "unmonitor", "fly": "collect"}
    k = kinds.get(case["w"])
    return any(made(t, k) for _, t, _ in obs["runs"]) and any(len(t) >= 4 for _, t, _ in obs["runs"])


def describe(case):
    w = case["w"]
    extra = ""
    if w == "stage":
        extra = " devs=%d forest=%d" % (len(case["devices"]), len(case.get("parents", [])))
    elif w == "suspend":
        extra = " n=%d" % len(case["susps"])
    elif w == "subs":
        extra = " n=%d %s" % (len(flat_subs(case["subs"])), case.get("form", "dict"))
    return "%s %s%s%s" % (w, case["mode"], extra, " rand" if case.get("rand") else "")
