(* C12 (ii): once a status object has failed (and the failure is not pardoned), no further message is
   processed before an exception has been thrown into a plan - for all plans, devices and schedules.
   (iii): an exception that leaves the last frame ends the task, and the call, with that exception. *)
From Coq Require Import List ZArith Bool Arith Lia.
From BV Require Import Engine.RE Engine.REInst Engine.RespMon Proofs.RE_Small Proofs.RE_RespA Proofs.RE_RespB Proofs.RE_RespC.
Import ListNotations.
(* file-local implicit arguments for the model's functions (the model file itself is untouched) *)
Local Arguments upd {P D}.
Local Arguments set_state_raw {P D}.
Local Arguments set_pc {P D}.
Local Arguments set_must_cancel {P D}.
Local Arguments set_permit {P D}.
Local Arguments set_blocking {P D}.
Local Arguments set_plans {P D}.
Local Arguments set_resps {P D}.
Local Arguments set_cache {P D}.
Local Arguments set_rewindable {P D}.
Local Arguments set_exc_slot {P D}.
Local Arguments set_stashed {P D}.
Local Arguments set_interrupted {P D}.
Local Arguments set_deferred {P D}.
Local Arguments set_exit {P D}.
Local Arguments upd2 {P D}.
Local Arguments set_bundlers {P D}.
Local Arguments set_staged {P D}.
Local Arguments set_moved {P D}.
Local Arguments set_seen {P D}.
Local Arguments set_groups {P D}.
Local Arguments set_statuses {P D}.
Local Arguments set_futs {P D}.
Local Arguments set_uids {P D}.
Local Arguments set_pardon {P D}.
Local Arguments set_dst {P D}.
Local Arguments set_task_set {P D}.
Local Arguments set_ghost {P D}.
Local Arguments interrupt {P D}.
Local Arguments resumable {P D}.
Local Arguments set_state {P D}.
Local Arguments cancel_task {P D}.
Local Arguments map_bundlers {P D}.
Local Arguments record_interruptions {P D}.
Local Arguments reset_checkpoint {P D}.
Local Arguments rewind {P D}.
Local Arguments dcall {P D}.
Local Arguments stop_movables {P D}.
Local Arguments call_pausables {P D}.
Local Arguments get_bundler {P D}.
Local Arguments put_bundler {P D}.
Local Arguments any_bundling {P D}.
Local Arguments add_status {P D}.
Local Arguments request_pause {P D}.
Local Arguments request_pause_in_task {P D}.
Local Arguments finish_read {P D}.
Local Arguments mark_cached {P D}.
Local Arguments exec_cmd {P D}.
Local Arguments set_main {P D}.
Local Arguments set_mreq {P D}.
Local Arguments set_ers {P D}.
Local Arguments push_frame {P D}.
Local Arguments pop_plan {P D}.
Local Arguments replace_top {P D}.
Local Arguments all_resolved {P D}.
Local Arguments all_released {P D}.
Local Arguments close_runs {P D}.
Local Arguments FUEL {P D}.
Local Arguments req_result {P D}.
Local Arguments clear_call {P D}.
Local Arguments state {P D}.
Local Arguments pc {P D}.
Local Arguments must_cancel {P D}.
Local Arguments permit {P D}.
Local Arguments blocking {P D}.
Local Arguments task_set {P D}.
Local Arguments plans {P D}.
Local Arguments resps {P D}.
Local Arguments cache {P D}.
Local Arguments rewindable {P D}.
Local Arguments exc_slot {P D}.
Local Arguments stashed {P D}.
Local Arguments interrupted {P D}.
Local Arguments deferred {P D}.
Local Arguments exit_status {P D}.
Local Arguments reason {P D}.
Local Arguments bundlers {P D}.
Local Arguments staged {P D}.
Local Arguments moved {P D}.
Local Arguments pausables {P D}.
Local Arguments stageables {P D}.
Local Arguments seen {P D}.
Local Arguments groups {P D}.
Local Arguments statuses {P D}.
Local Arguments failed_seen {P D}.
Local Arguments futs {P D}.
Local Arguments uid_supply {P D}.
Local Arguments run_uids {P D}.
Local Arguments record_intr {P D}.
Local Arguments pardon {P D}.
Local Arguments mreq {P D}.
Local Arguments was_paused {P D}.
Local Arguments main_err {P D}.
Local Arguments exit_reason_set {P D}.
Local Arguments icause {P D}.
Local Arguments late_pause {P D}.
Local Arguments intr_err {P D}.
Local Arguments dst {P D}.
Local Arguments start_sub {P}.
Local Arguments helper_after_pre {P}.
Local Arguments helper_after_post {P}.
Local Arguments helper_set {P}.
Local Arguments helper_rewind_next {P}.
Local Arguments helper_resume {P}.
Local Arguments frame_resume {P}.
Local Arguments exec_start_suspender {P} plan_of {D} dev.
Local Arguments close_frames {P} presume {D}.
Local Arguments finalize {P} presume {D} dev.
Local Arguments drive {P} presume plan_of {D} dev.
Local Arguments task_step {P} presume plan_of {D} dev.
Local Arguments step {P} presume plan_of {D} dev.
Local Arguments run {P} presume plan_of {D} dev.

Ltac bm_hyp H :=
  match type of H with
  | context [match ?x with _ => _ end] => destruct x eqn:?
  end.
Ltac norm_hyps :=
  repeat match goal with
         | H : (if ?c then _ else _) = _ |- _ => destruct c eqn:?
         | H : match ?x with _ => _ end = (_, _) |- _ => destruct x eqn:?
         | H : (_, _) = (_, _) |- _ => inversion H; subst; clear H
         | H : Some _ = Some _ |- _ => inversion H; subst; clear H
         end.

Lemma s_list_app a x y : s_list a (x ++ y) = match s_list a x with None => None | Some a' => s_list a' y end.
Proof. revert a; induction x as [|o x IH]; intros a; cbn; [reflexivity|]. destruct (s_obs a o); [apply IH|reflexivity]. Qed.
Lemma s_list_quiet a o : Forall qobs o -> s_list a o = Some a.
Proof.
  induction 1 as [|x o Hx _ IH]; [reflexivity|]. cbn. destruct x; cbn in Hx; try contradiction; cbn; exact IH.
Qed.

Section Proofs.
Variable P : Type.
Variable presume : P -> input -> outcome P.
Variable plan_of : nat -> P.
Variable D : Type.
Variable dev : D -> nat -> devmeth -> D * devres.
Notation st := (st P D).

(* ------------------------------------------------------------------ the pardon flag is only touched by the finally block and a new call *)
Definition Pp (s s' : st) : Prop := pardon s' = pardon s.
Lemma set_state_Pp (s : st) x s' o : set_state s x = Some (s', o) -> Pp s s'.
Proof. unfold set_state. destruct (allowed (state s) x); intros H; inversion H; subst. reflexivity. Qed.
Lemma dcall_Pp (s : st) d m s' r o : dcall dev s d m = (s', r, o) -> Pp s s'.
Proof. unfold dcall. destruct (dev (dst s) d m). intros H; inversion H; subst. reflexivity. Qed.
Lemma stop_movables_Pp (s : st) s' o : stop_movables dev s = (s', o) -> Pp s s'.
Proof.
  unfold stop_movables.
  assert (G : forall l (s0 : st) o0 s1 o1,
             fold_left (fun acc d => let '(s0, os) := acc in
                                     let '(s1, _, o) := dcall dev s0 d MStop in (s1, os ++ o)) l (s0, o0) = (s1, o1) -> Pp s0 s1).
  { induction l as [|d l IH]; intros s0 o0 s1 o1 H; cbn in H.
    - inversion H; subst. reflexivity.
    - destruct (dcall dev s0 d MStop) as [[sa ra] oa] eqn:E. apply IH in H. apply dcall_Pp in E. unfold Pp in *. congruence. }
  intros H. eapply G; exact H.
Qed.
Lemma call_pausables_Pp (s : st) m s' e o : call_pausables dev s m = (s', e, o) -> Pp s s'.
Proof.
  unfold call_pausables.
  assert (G : forall l (s0 : st) e0 o0 s1 e1 o1,
             fold_left (fun acc d =>
               let '(s0, e, os) := acc in
               match e with
               | Some _ => acc
               | None => if mem_nat d (seen s0)
                         then let '(s1, r, o) := dcall dev s0 d m in
                              (s1, match r with DRaise x => Some x | _ => None end, os ++ o)
                         else acc
               end) l (s0, e0, o0) = (s1, e1, o1) -> Pp s0 s1).
  { induction l as [|d l IH]; intros s0 e0 o0 s1 e1 o1 H; cbn in H.
    - inversion H; subst. reflexivity.
    - destruct e0.
      + apply IH in H. exact H.
      + destruct (mem_nat d (seen s0)).
        * destruct (dcall dev s0 d m) as [[sa ra] oa] eqn:E. apply IH in H. apply dcall_Pp in E. unfold Pp in *. congruence.
        * apply IH in H. exact H. }
  intros H. eapply G; exact H.
Qed.
Lemma record_interruptions_Pp (s : st) s' o ok : record_interruptions s = (s', o, ok) -> Pp s s'.
Proof.
  unfold record_interruptions. destruct (record_intr_list (bundlers s)) as [[bs os] ok0]. intros H; inversion H; subst. reflexivity.
Qed.
Ltac use_Pp :=
  repeat match goal with
         | H : dcall _ _ _ _ = _ |- _ => apply dcall_Pp in H
         | H : set_state _ _ = Some _ |- _ => apply set_state_Pp in H
         | H : stop_movables _ _ = _ |- _ => apply stop_movables_Pp in H
         | H : call_pausables _ _ _ = _ |- _ => apply call_pausables_Pp in H
         | H : record_interruptions _ = _ |- _ => apply record_interruptions_Pp in H
         end.
Ltac unfold_pure := unfold reset_checkpoint, put_bundler, get_bundler, map_bundlers, add_status, mark_cached, finish_read, push_frame, rewind in *.
Ltac pp_close :=
  unfold Pp in *; unfold_pure; cbn in *;
  repeat (progress (repeat break_match_goal; cbn in *;
                    repeat match goal with H : pardon _ = _ |- _ => rewrite H; clear H end));
  try reflexivity; try congruence.

Lemma request_pause_Pp (s : st) d s' e o : request_pause s d = (s', e, o) -> Pp s s'.
Proof.
  unfold request_pause, cancel_task. intros H.
  repeat bm_hyp H; inversion H; subst; clear H; use_Pp; pp_close.
Qed.
Lemma request_pause_in_task_Pp (s : st) d s' e o : request_pause_in_task s d = (s', e, o) -> Pp s s'.
Proof.
  unfold request_pause_in_task. destruct (request_pause s d) as [[s1 e1] o1] eqn:E.
  apply request_pause_Pp in E. intros H; inversion H; subst; clear H. destruct (resumable s); exact E.
Qed.
Lemma exec_cmd_Pp (s : st) m s' c o : exec_cmd dev s m = (s', c, o) -> Pp s s'.
Proof.
  unfold exec_cmd. intros H. destruct (mcmd m) eqn:Em.
  6: { destruct (request_pause_in_task s defer) as [[s1 e] o1] eqn:E. inversion H; subst. eapply request_pause_in_task_Pp; eassumption. }
  20: { destruct (call_pausables dev s MResume) as [[s1 e] o1] eqn:E. inversion H; subst. eapply call_pausables_Pp; eassumption. }
  all: unfold dcall, finish_read in H.
  all: repeat bm_hyp H; inversion H; subst; clear H; norm_hyps; pp_close.
Qed.
Lemma exec_start_suspender_Pp (s : st) sid pre post s' c o :
  exec_start_suspender plan_of dev s sid pre post = (s', c, o) -> Pp s s'.
Proof.
  unfold exec_start_suspender, rewind. intros H.
  repeat bm_hyp H; inversion H; subst; clear H; norm_hyps; use_Pp; pp_close.
Qed.

Notation dstep := (dstep P presume plan_of D dev).

Ltac use_Pp2 :=
  use_Pp;
  repeat match goal with
         | H : request_pause _ _ = _ |- _ => apply request_pause_Pp in H
         | H : exec_cmd _ _ _ = _ |- _ => apply exec_cmd_Pp in H
         | H : exec_start_suspender _ _ _ _ _ _ = _ |- _ => apply exec_start_suspender_Pp in H
         end.

Lemma dstep_Pp_l (s : st) c s' c' o : dstep s c = inl (s', c', o) -> pardon s' = pardon s.
Proof.
  unfold RE_Small.dstep. intros H. destruct c.
  all: repeat bm_hyp H; inversion H; subst; clear H; norm_hyps; use_Pp2; unfold pop_plan, replace_top in *; pp_close.
Qed.
Lemma dstep_Pp_r (s : st) c s' o : dstep s c = inr (s', o) -> (exists r p, c = CFinalize r p) \/ pardon s' = pardon s.
Proof.
  unfold RE_Small.dstep. intros H. destruct c; [| | | | | | |left; eauto]; right.
  all: repeat bm_hyp H; inversion H; subst; clear H; norm_hyps; use_Pp2; unfold pop_plan, replace_top in *; pp_close.
Qed.

(* ------------------------------------------------------------------ the two places an exception waits in *)
Definition slots (s : st) : Prop := exc_slot s <> None \/ stashed s <> None.
Definition Qs (s : st) (c : ctl) (a : bool) : Prop :=
  (a = true -> slots s) /\ pardon s = false /\
  match c with CProcess _ => exc_slot s = None /\ stashed s = None | _ => True end.
Definition dormant (s : st) : Prop := match pc s with PcNone | PcDone _ => True | _ => False end.
(* before the task has really started only the `_exception` slot counts: `_run` clears its stash when it starts *)
Definition slotsq (s : st) : Prop :=
  exc_slot s <> None \/ (stashed s <> None /\ match pc s with PcNotStarted | PcPermit0 => False | _ => True end).
Definition SI (s : st) (a : bool) : Prop := (a = true -> slotsq s \/ dormant s) /\ (pardon s = true -> dormant s).

(* quiet transitions that keep what is waiting *)
Definition HT (s s' : st) (o : list obs) : Prop :=
  exc_slot s' = exc_slot s /\ (stashed s' = stashed s \/ exists e, stashed s' = Some e) /\ Forall qobs o.
Lemma HT_slots s s' o : HT s s' o -> slots s -> slots s'.
Proof.
  intros (He & Hs & _) [H|H]; [left; congruence|]. destruct Hs as [Hs|(e & Hs)]; right; congruence.
Qed.
Lemma HT_refl s : HT s s []. Proof. repeat split; auto. Qed.
Lemma HT_trans s1 s2 s3 o1 o2 : HT s1 s2 o1 -> HT s2 s3 o2 -> HT s1 s3 (o1 ++ o2).
Proof.
  intros (a1 & a2 & a3) (b1 & b2 & b3). split; [congruence|]. split; [|apply Forall_app; split; assumption].
  destruct b2 as [E|(e & E)]; [|right; eauto]. destruct a2 as [F|(e & F)]; [left; congruence|right; exists e; congruence].
Qed.
Lemma HQ_HT (s s' : st) o : HQ s s' o -> HT s s' o.
Proof. intros ((_ & _ & a & b) & q & _). repeat split; auto. Qed.
Lemma set_state_HT (s : st) x s' o : set_state s x = Some (s', o) -> HT s s' o.
Proof. intros H. apply set_state_HQ in H. destruct H as ((_ & _ & a & b) & -> & _). repeat split; auto. repeat constructor. Qed.

Ltac use_HT :=
  repeat match goal with
         | H : set_state _ _ = Some _ |- _ => apply set_state_HT in H
         | H : stop_movables _ _ = _ |- _ => apply stop_movables_HQ in H; destruct H as (H & _); apply HQ_HT in H
         | H : call_pausables _ _ _ = _ |- _ => apply call_pausables_HQ in H; destruct H as (H & _); apply HQ_HT in H
         end.
(* prove [HT s S O] where S is built by setters from states related by HT hypotheses *)
Ltac ht_close :=
  unfold HT in *; cbn in *;
  repeat match goal with
         | H : _ /\ _ |- _ => destruct H
         | H : _ \/ _ |- _ => destruct H
         | H : exists _, _ |- _ => destruct H
         end;
  (split;
  [ repeat match goal with H : exc_slot _ = _ |- _ => rewrite H; clear H end; reflexivity
  | split;
    [ first [ left; repeat match goal with H : stashed _ = _ |- _ => rewrite H; clear H end; reflexivity
            | right; repeat match goal with H : stashed _ = _ |- _ => rewrite H; clear H end; eexists; reflexivity ]
    | repeat (apply Forall_app; split); try assumption; repeat constructor ] ]).

Lemma s_quiet_step (s s' : st) c c' a o : Qs s c a -> pardon s' = pardon s -> HT s s' o ->
  match c' with CProcess _ => False | _ => True end -> exists a', s_list a o = Some a' /\ Qs s' c' a'.
Proof.
  intros (Ha & Hp & _) Hpp Ht Hc'. exists a. split; [apply s_list_quiet; exact (proj2 (proj2 Ht))|].
  split; [intros E; eapply HT_slots; [exact Ht|auto]|]. split; [congruence|]. destruct c'; try exact I; contradiction.
Qed.

Lemma dstep_S_quiet (s : st) c a s' c' o : Qs s c a ->
  match c with CTop | CBody | CContinue _ _ | CCancelled _ | CExit _ => True | _ => False end ->
  dstep s c = inl (s', c', o) -> exists a', s_list a o = Some a' /\ Qs s' c' a'.
Proof.
  intros HQ0 Hc H. pose proof (dstep_Pp_l _ _ _ _ _ H) as Hpp.
  unfold RE_Small.dstep in H. destruct c; try contradiction.
  all: repeat bm_hyp H; inversion H; subst; clear H; norm_hyps; use_HT.
  all: (eapply s_quiet_step; [exact HQ0|exact Hpp| |exact I]).
  all: ht_close.
Qed.

(* observations that neither arm nor disarm nor violate *)
Definition neutral (o : obs) : Prop := match o with OMsg _ => False | OPlanIn _ (Throw _) => False | _ => True end.
Lemma s_list_neutral a o : Forall neutral o -> s_list a o = Some a.
Proof.
  induction 1 as [|x o Hx _ IH]; [reflexivity|]. cbn. destruct x; cbn in Hx; try contradiction; cbn; try exact IH.
  destruct i; try contradiction; exact IH.
Qed.
Lemma qobs_neutral o : Forall qobs o -> Forall neutral o.
Proof. intros H. eapply Forall_impl; [|exact H]. intros x. destruct x; cbn; tauto. Qed.

(* what resuming a frame emits: nothing, or one input to one plan *)
Lemma helper_po (h : helper P) i o po : helper_resume presume h i = (o, po) ->
  po = [] \/ (exists q, po = [OPlanIn q i]) \/ (exists q, po = [OPlanIn q Close]) \/ (exists q, po = [OPlanIn q (Send VNone)] /\ exists v, i = Send v).
Proof.
  intros H. rewrite helper_resume_eq in H.
  unfold helper_resume', sub_resume, helper_after_pre, helper_after_post, helper_rewind_next in H.
  destruct i as [v|e|]; repeat bm_hyp H; inversion H; subst; clear H; eauto 8.
Qed.
Lemma frame_po (f : frame P) i o po : frame_resume presume f i = (o, po) ->
  po = [] \/ (exists q, po = [OPlanIn q i]) \/ (exists q, po = [OPlanIn q Close]) \/ (exists q, po = [OPlanIn q (Send VNone)] /\ exists v, i = Send v).
Proof.
  unfold frame_resume. destruct f.
  - intros H. repeat bm_hyp H; inversion H; subst; eauto 8.
  - intros H. repeat bm_hyp H; inversion H; subst; eauto.
  - intros H. repeat bm_hyp H; inversion H; subst; eauto.
  - destruct (helper_resume presume h i) as [o0 os0] eqn:E. intros H; inversion H; subst. eapply helper_po; exact E.
Qed.
(* a frame that yields after an exception was thrown into it has logged that throw *)
Lemma helper_yield_throw (h : helper P) e m h' po : helper_resume presume h (Throw e) = (Yielded m h', po) ->
  exists q, po = [OPlanIn q (Throw e)].
Proof.
  intros H. rewrite helper_resume_eq in H.
  unfold helper_resume', sub_resume, helper_after_pre, helper_after_post, helper_rewind_next in H.
  repeat bm_hyp H; inversion H; subst; clear H; eauto.
Qed.
Lemma frame_yield_throw (f : frame P) e m f' po : frame_resume presume f (Throw e) = (Yielded m f', po) ->
  exists q, po = [OPlanIn q (Throw e)].
Proof.
  unfold frame_resume. destruct f.
  - intros H. repeat bm_hyp H; inversion H; subst; eauto.
  - intros H. inversion H.
  - intros H. inversion H.
  - destruct (helper_resume presume h (Throw e)) as [o0 os0] eqn:E. intros H. destruct o0; inversion H; subst.
    eapply helper_yield_throw; exact E.
Qed.
Lemma s_list_po a i po :
  (po = [] \/ (exists q, po = [OPlanIn q i]) \/ (exists q, po = [OPlanIn q Close]) \/ (exists q, po = [OPlanIn q (Send VNone)] /\ exists v, i = Send v)) ->
  exists a', s_list a po = Some a' /\ (a' = true -> a = true) /\ (match i with Throw _ => False | _ => True end -> a' = a).
Proof.
  intros [->|[(q & ->)|[(q & ->)|(q & -> & v & ->)]]]; cbn.
  - exists a. auto.
  - destruct i; [exists a|exists false|exists a]; repeat split; auto; try discriminate; contradiction.
  - exists a. auto.
  - exists a. auto.
Qed.

Notation aft_s2 := (aft_s2 P D).
Notation aft_in := (aft_in P D).
Notation aft_res := (aft_res P D).

Lemma dstep_S_after (s : st) a s' c' o : Qs s CAfterSleep a -> dstep s CAfterSleep = inl (s', c', o) ->
  exists a', s_list a o = Some a' /\ Qs s' c' a'.
Proof.
  intros HQ0 H. pose proof (dstep_Pp_l _ _ _ _ _ H) as Hpp. destruct HQ0 as (Ha & Hp & _).
  destruct (resps s) as [|r rest] eqn:Er.
  { unfold RE_Small.dstep in H. rewrite Er in H. inversion H; subst. exists a. split; [reflexivity|]. split; [exact Ha|]. split; [exact Hp|exact I]. }
  destruct (plans s) as [|top pl] eqn:Ep.
  { unfold RE_Small.dstep in H. rewrite Er, Ep in H. inversion H; subst. exists a. split; [reflexivity|]. split; [exact Ha|]. split; [exact Hp|exact I]. }
  rewrite (aft_eq P presume plan_of D dev s r rest top pl Er Ep) in H.
  destruct (aft_s2_facts P D s) as (_ & _ & _ & Eex2 & Esh2).
  destruct (frame_resume presume top (aft_in s r)) as [o0 po] eqn:Hfr.
  pose proof (frame_po _ _ _ _ Hfr) as Hpo.
  destruct (s_list_po a (aft_in s r) po Hpo) as (a' & Hl & Hmono & Hsame).
  assert (Ho : o = po) by (apply aft_res_com in H as (_ & _ & ->); reflexivity). subst o.
  (* if something was waiting, it is what gets thrown *)
  assert (Hw : a = true -> exists e, stashed (aft_s2 s) = Some e /\ aft_in s r = Throw e).
  { intros E. apply Ha in E. unfold RE_RespC.aft_in. rewrite Esh2. destruct E as [E|E].
    - destruct (exc_slot s) eqn:Ee; [eauto|congruence].
    - destruct (exc_slot s) eqn:Ee; [eauto|]. destruct (stashed s) eqn:Es; [eauto|congruence]. }
  exists a'. split; [exact Hl|]. split; [|split; [congruence|]].
  - (* still armed afterwards: the exception is still in the stash *)
    intros E'. specialize (Hmono E'). destruct (Hw Hmono) as (e & Es2 & Ein). rewrite Ein in *. cbn [is_throw] in H.
    unfold RE_RespC.aft_res in H. right.
    destruct o0 as [m f'|v|e'].
    + exfalso. destruct (frame_yield_throw _ _ _ _ _ Hfr) as (q & ->). cbn in Hl. inversion Hl; subst. discriminate.
    + repeat bm_hyp H; inversion H; subst; cbn; congruence.
    + repeat bm_hyp H; inversion H; subst; cbn; congruence.
  - (* a message is processed next only with both slots empty *)
    destruct c'; try exact I.
    unfold RE_RespC.aft_res in H. destruct o0 as [m0 f'|v|e']; [|repeat bm_hyp H; inversion H|repeat bm_hyp H; inversion H].
    inversion H; subst; clear H.
    destruct (aft_in s r) eqn:Ein; cbn [is_throw]; cbn; split; try reflexivity; try exact Eex2.
    all: unfold RE_RespC.aft_in in Ein; destruct (stashed (aft_s2 s)) eqn:Es2; [discriminate|reflexivity].
Qed.

Lemma dstep_S_process (s : st) m a s' c' o : Qs s (CProcess m) a -> dstep s (CProcess m) = inl (s', c', o) ->
  exists a', s_list a o = Some a' /\ Qs s' c' a'.
Proof.
  intros (Ha & Hp & He & Hs) H. pose proof (dstep_Pp_l _ _ _ _ _ H) as Hpp.
  assert (Hpid0 : 0 < 1000) by lia.
  destruct (cproc_decomp P presume plan_of D dev 0 Hpid0 s m) as (s2 & s3 & cr & o3 & E2 & Heff & Hu & Hsu & Hd).
  rewrite Hd in H. clear Hd. destruct cr as [r|k]; [|discriminate]. inversion H; subst; clear H.
  assert (Ea : a = false) by (destruct a; [exfalso; destruct (Ha eq_refl); congruence|reflexivity]). subst a.
  destruct Heff as (Hq & _ & _ & _ & _ & _ & _).
  exists false. split.
  { cbn. rewrite s_list_app, (s_list_quiet _ _ Hq). destruct (is_unknown (mcmd m)); reflexivity. }
  split; [discriminate|]. split; [congruence|exact I].
Qed.

Lemma dstep_S (s : st) c a s' c' o : Qs s c a -> dstep s c = inl (s', c', o) ->
  exists a', s_list a o = Some a' /\ Qs s' c' a'.
Proof.
  intros HQ0 H. destruct c.
  - eapply dstep_S_quiet; [exact HQ0|exact I|exact H].
  - eapply dstep_S_quiet; [exact HQ0|exact I|exact H].
  - eapply dstep_S_after; eassumption.
  - eapply dstep_S_process; eassumption.
  - eapply dstep_S_quiet; [exact HQ0|exact I|exact H].
  - eapply dstep_S_quiet; [exact HQ0|exact I|exact H].
  - eapply dstep_S_quiet; [exact HQ0|exact I|exact H].
  - unfold RE_Small.dstep in H. discriminate.
Qed.

Lemma close_frames_neutral (s : st) : Forall neutral (close_frames presume s).
Proof.
  unfold close_frames. induction (rev (plans s)) as [|f l IH]; cbn; [constructor|].
  apply Forall_app. split; [|exact IH]. destruct (frame_resume presume f Close) as [o0 po] eqn:E. cbn.
  destruct (frame_po _ _ _ _ E) as [->|[(q & ->)|[(q & ->)|(q & -> & v & Hv)]]]; try discriminate; repeat constructor.
Qed.

Lemma SI_of (s : st) a : (a = true -> slots s) -> pardon s = false ->
  match pc s with PcNotStarted | PcPermit0 => False | _ => True end -> SI s a.
Proof.
  intros Ha Hp Hpc. split; [|intros E; congruence]. intros E. left. destruct (Ha E) as [X|X]; [left; exact X|right; split; assumption].
Qed.

Lemma dstep_S_fin (s : st) c a s' o : Qs s c a -> dstep s c = inr (s', o) ->
  exists a', s_list a o = Some a' /\ SI s' a'.
Proof.
  intros HQ0 H. pose proof HQ0 as (Ha & Hp & Hc).
  destruct c.
  - (* pause *)
    pose proof (dstep_Pp_r _ _ _ _ H) as [(r0 & p0 & X)|Hpp]; [discriminate|].
    unfold RE_Small.dstep in H. repeat bm_hyp H; inversion H; subst; clear H; norm_hyps; use_HT.
    all: match goal with
         | HQ1 : Qs ?s0 CTop _ |- exists a', s_list _ ?O = Some a' /\ SI ?S a' =>
             assert (Ht : HT s0 S O) by ht_close;
             exists a; (split; [apply s_list_quiet; exact (proj2 (proj2 Ht))|]);
             apply SI_of; [intros E; eapply HT_slots; [exact Ht|auto]|congruence|exact I]
         end.
  - pose proof (dstep_Pp_r _ _ _ _ H) as [(r0 & p0 & X)|Hpp]; [discriminate|].
    unfold RE_Small.dstep in H. repeat bm_hyp H; inversion H; subst; clear H.
    exists a. split; [reflexivity|]. apply SI_of; [intros E; apply Ha in E; exact E|exact Hp|exact I].
  - exfalso. eapply dstep_CAfterSleep_fin; exact H.
  - (* the command suspends *)
    pose proof (dstep_Pp_r _ _ _ _ H) as [(r0 & p0 & X)|Hpp]; [discriminate|].
    destruct Hc as (He & Hs).
    assert (Hpid0 : 0 < 1000) by lia.
    destruct (cproc_decomp P presume plan_of D dev 0 Hpid0 s m) as (s2 & s3 & cr & o3 & E2 & Heff & Hu & Hsu & Hd).
    rewrite Hd in H. clear Hd. destruct cr as [r|k]; [discriminate|]. inversion H; subst; clear H.
    assert (Ea : a = false) by (destruct a; [exfalso; destruct (Ha eq_refl); congruence|reflexivity]). subst a.
    destruct Heff as (Hq & _ & _ & _ & _ & _ & _).
    exists false. split; [cbn; rewrite s_list_app, (s_list_quiet _ _ Hq); reflexivity|].
    apply SI_of; [discriminate|congruence|exact I].
  - unfold RE_Small.dstep in H. discriminate.
  - unfold RE_Small.dstep in H. repeat bm_hyp H; discriminate.
  - pose proof (dstep_Pp_r _ _ _ _ H) as [(r0 & p0 & X)|Hpp]; [discriminate|].
    unfold RE_Small.dstep in H. repeat bm_hyp H; inversion H; subst; clear H.
    all: exists a; (split; [reflexivity|]); apply SI_of; [intros E; apply Ha in E; exact E|exact Hp|exact I].
  - (* the finally block *)
    unfold RE_Small.dstep in H. inversion H as [H1]; clear H.
    apply (finalize_shape P presume D dev) in H1.
    destruct H1 as (oq & os & w & -> & Hq1 & _ & Hq2 & _ & _ & (res & Hpc)).
    exists a. split.
    { apply s_list_neutral. repeat (apply Forall_app; split); try (apply qobs_neutral; assumption); try apply close_frames_neutral. repeat constructor. }
    split; [intros _; right|intros _]; unfold dormant; rewrite Hpc; exact I.
Qed.

Lemma drive_S fuel : forall (s : st) c os a0 a s' o,
  s_list a0 os = Some a -> Qs s c a -> drive presume plan_of dev fuel s c os = (s', o) ->
  exists a', s_list a0 o = Some a' /\ SI s' a'.
Proof.
  intros s c os a0 a s' o HM HQ0 H.
  eapply (drive_inv P presume plan_of D dev
            (fun s c os => exists a, s_list a0 os = Some a /\ Qs s c a)
            (fun s' o => exists a', s_list a0 o = Some a' /\ SI s' a')); [| | | |exact H].
  - intros s1 c1 os1 s2 c2 o2 (a1 & M1 & Q1) Hd. destruct (dstep_S _ _ _ _ _ _ Q1 Hd) as (a2 & M2 & Q2).
    exists a2. split; [rewrite s_list_app, M1; exact M2|exact Q2].
  - intros s1 c1 os1 s2 o2 (a1 & M1 & Q1) Hd. destruct (dstep_S_fin _ _ _ _ _ Q1 Hd) as (a2 & M2 & I2).
    exists a2. split; [rewrite s_list_app, M1; exact M2|exact I2].
  - intros s1 c1 os1 (a1 & M1 & _). exists a1. split; [rewrite s_list_app, M1; reflexivity|].
    split; [intros _; right|intros _]; exact I.
  - exists a. split; assumption.
Qed.

(* ------------------------------------------------------------------ one task step *)
Lemma drive_S' fuel (s : st) c os a0 a s' o :
  drive presume plan_of dev fuel s c os = (s', o) -> s_list a0 os = Some a -> Qs s c a ->
  exists a', s_list a0 o = Some a' /\ SI s' a'.
Proof. intros H H1 H2. eapply drive_S; eassumption. Qed.
Lemma mark_cached_Pp (s : st) rn d : pardon (mark_cached s rn d) = pardon s.
Proof. unfold mark_cached. destruct (get_bundler s rn); reflexivity. Qed.
Lemma finish_read_Pp (s : st) rn d z o0 s' c o : finish_read s rn d z o0 = (s', c, o) -> pardon s' = pardon s.
Proof. unfold finish_read. intros H. repeat bm_hyp H; inversion H; subst; reflexivity. Qed.

Lemma SI_active (s : st) a : SI s a -> ~ dormant s ->
  (a = true -> slotsq s) /\ pardon s = false.
Proof.
  intros (H1 & H2) Hd. split.
  - intros E. destruct (H1 E) as [X|X]; [exact X|contradiction].
  - destruct (pardon s); [exfalso; apply Hd, H2; reflexivity|reflexivity].
Qed.

Lemma task_step_S (s : st) a s' o : SI s a -> task_step presume plan_of dev s = (s', o) ->
  exists a', s_list a o = Some a' /\ SI s' a'.
Proof.
  intros HI H. unfold RE.task_step in H.
  set (s0 := set_must_cancel s false) in *.
  destruct (pc s) eqn:Epc.
  - inversion H; subst. exists a. split; [reflexivity|exact HI].
  - (* not started *)
    destruct (SI_active s a HI) as (Ha & Hp); [unfold dormant; rewrite Epc; tauto|].
    assert (Hex : a = true -> exc_slot s <> None).
    { intros E. destruct (Ha E) as [X|(_ & X)]; [exact X|rewrite Epc in X; contradiction]. }
    destruct (must_cancel s).
    { inversion H; subst. exists a. split; [reflexivity|]. split; intros _; [right|]; exact I. }
    destruct (permit s0).
    + set (s1 := set_exit (set_stashed s0 None) (exit_status s0) RsEmpty) in *.
      destruct (set_state s1 Running) as [[s2 o2]|] eqn:E2.
      * pose proof (set_state_Pp _ _ _ _ E2) as Hpp. apply set_state_HT in E2.
        eapply (drive_S' _ _ _ _ _ _ _ _ H); [apply s_list_quiet; exact (proj2 (proj2 E2))|].
        split; [intros E; left; destruct E2 as (X & _); rewrite X; cbn; auto|]. split; [unfold Pp in Hpp; cbn in Hpp; congruence|exact I].
      * eapply (drive_S' _ _ _ _ _ _ _ _ H); [reflexivity|]. split; [intros E; left; cbn; auto|]. split; [exact Hp|exact I].
    + inversion H; subst. exists a. split; [reflexivity|]. split.
      * intros E. left. left. cbn. auto.
      * intros E. cbn in E. congruence.
  - (* waiting for the permit *)
    destruct (SI_active s a HI) as (Ha & Hp); [unfold dormant; rewrite Epc; tauto|].
    assert (Hex : a = true -> exc_slot s <> None).
    { intros E. destruct (Ha E) as [X|(_ & X)]; [exact X|rewrite Epc in X; contradiction]. }
    destruct (must_cancel s).
    { inversion H; subst. exists a. split; [reflexivity|]. split; intros _; [right|]; exact I. }
    set (s1 := set_exit (set_stashed s0 None) (exit_status s0) RsEmpty) in *.
    destruct (set_state s1 Running) as [[s2 o2]|] eqn:E2.
    * pose proof (set_state_Pp _ _ _ _ E2) as Hpp. apply set_state_HT in E2.
      eapply (drive_S' _ _ _ _ _ _ _ _ H); [apply s_list_quiet; destruct (permit s0); [exact (proj2 (proj2 E2))|constructor; [exact I|exact (proj2 (proj2 E2))]]|].
      split; [intros E; left; destruct E2 as (X & _); rewrite X; cbn; auto|]. split; [unfold Pp in Hpp; cbn in Hpp; congruence|exact I].
    * eapply (drive_S' _ _ _ _ _ _ _ _ H); [reflexivity|]. split; [intros E; left; cbn; auto|]. split; [exact Hp|exact I].
  - (* sleep(0) *)
    destruct (SI_active s a HI) as (Ha & Hp); [unfold dormant; rewrite Epc; tauto|].
    assert (Hsl : a = true -> slots s0).
    { intros E. destruct (Ha E) as [X|(X & _)]; [left|right]; exact X. }
    destruct (must_cancel s); (eapply (drive_S' _ _ _ _ _ _ _ _ H); [reflexivity|]); (split; [exact Hsl|split; [exact Hp|exact I]]).
  - (* paused *)
    destruct (SI_active s a HI) as (Ha & Hp); [unfold dormant; rewrite Epc; tauto|].
    assert (Hsl : a = true -> slots s0).
    { intros E. destruct (Ha E) as [X|(X & _)]; [left|right]; exact X. }
    destruct (must_cancel s).
    { eapply (drive_S' _ _ _ _ _ _ _ _ H); [reflexivity|]. split; [exact Hsl|split; [exact Hp|exact I]]. }
    destruct (negb (permit s0)).
    { inversion H; subst. exists a. split; [reflexivity|exact HI]. }
    match type of H with context [match ?x with Some _ => _ | None => _ end] => destruct x as [[s1 o1]|] eqn:E1 end.
    + assert (E1' : HT s0 s1 o1 /\ pardon s1 = pardon s0).
      { destruct (rstate_eqb (state s0) Paused).
        - pose proof (set_state_Pp _ _ _ _ E1) as Hpp. apply set_state_HT in E1. split; [exact E1|exact Hpp].
        - inversion E1; subst. split; [apply HT_refl|reflexivity]. }
      destruct E1' as (Ht & Hpp).
      eapply (drive_S' _ _ _ _ _ _ _ _ H); [apply s_list_quiet; exact (proj2 (proj2 Ht))|].
      split; [intros E; eapply HT_slots; [exact Ht|auto]|]. split; [cbn in Hpp; congruence|exact I].
    + eapply (drive_S' _ _ _ _ _ _ _ _ H); [reflexivity|]. split; [exact Hsl|split; [exact Hp|exact I]].
  - (* inside a command *)
    destruct (SI_active s a HI) as (Ha & Hp); [unfold dormant; rewrite Epc; tauto|].
    assert (Hsl : a = true -> slots s0).
    { intros E. destruct (Ha E) as [X|(X & _)]; [left|right]; exact X. }
    destruct (must_cancel s).
    { eapply (drive_S' _ _ _ _ _ _ _ _ H); [reflexivity|]. split; [exact Hsl|split; [exact Hp|exact I]]. }
    destruct k.
    + eapply (drive_S' _ _ _ _ _ _ _ _ H); [reflexivity|]. split; [exact Hsl|split; [exact Hp|exact I]].
    + destruct (request_pause s0 false) as [[s1 e] o1] eqn:E1.
      pose proof (request_pause_Pp _ _ _ _ _ E1) as Hpp.
      assert (Hq1 : HQ s0 s1 o1) by (eapply request_pause_HQ; exact E1). apply HQ_HT in Hq1.
      eapply (drive_S' _ _ _ _ _ _ _ _ H).
      * rewrite s_list_app, (s_list_quiet _ _ (proj2 (proj2 Hq1))). reflexivity.
      * split; [intros E; eapply HT_slots; [exact Hq1|auto]|]. split; [unfold Pp in Hpp; cbn in Hpp; congruence|exact I].
    + eapply (drive_S' _ _ _ _ _ _ _ _ H).
      * destruct (all_resolved s0 sids); reflexivity.
      * split; [exact Hsl|split; [exact Hp|exact I]].
    + eapply (drive_S' _ _ _ _ _ _ _ _ H).
      * destruct (all_released s0 fs); reflexivity.
      * split; [exact Hsl|split; [exact Hp|exact I]].
    + destruct (finish_read (mark_cached s0 run d) run d z []) as [[s1 cr] o1] eqn:E1.
      pose proof E1 as Efr. apply finish_read_HQ in E1. destruct E1 as (E1 & ->).
      assert (E0 : eqv s0 s1) by (eapply eqv_trans; [apply mark_cached_eqv|exact E1]).
      destruct E0 as (_ & _ & b3 & b4 & _).
      eapply (drive_S' _ _ _ _ _ _ _ _ H); [reflexivity|].
      split; [intros E; destruct (Hsl E) as [X|X]; [left|right]; cbn in *; congruence|]. split; [|exact I].
      (* mark_cached / finish_read do not touch the pardon flag *)
      assert (Hpp : pardon s1 = pardon s0).
      { rewrite (finish_read_Pp _ _ _ _ _ _ _ _ Efr). apply mark_cached_Pp. }
      cbn in Hpp. congruence.
  - (* the finally block *)
    assert (G : forall pend, finalize presume dev s0 r pend = (s', o) -> exists a', s_list a o = Some a' /\ SI s' a').
    { intros pend H1. apply (finalize_shape P presume D dev) in H1.
      destruct H1 as (oq & os & w & -> & Hq1 & _ & Hq2 & _ & _ & (res & Hpc)).
      exists a. split.
      { apply s_list_neutral. repeat (apply Forall_app; split); try (apply qobs_neutral; assumption); try apply close_frames_neutral. repeat constructor. }
      split; [intros _; right|intros _]; unfold dormant; rewrite Hpc; exact I. }
    destruct (must_cancel s); eapply G; exact H.
  - inversion H; subst. exists a. split; [reflexivity|exact HI].
Qed.

(* ------------------------------------------------------------------ the other events *)
(* they leave the stash, the task's pc and the pardon flag alone, never empty the `_exception` slot, and are quiet *)
Definition EV (s s' : st) (o : list obs) : Prop :=
  (exc_slot s <> None -> exc_slot s' <> None) /\ stashed s' = stashed s /\ pc s' = pc s /\ pardon s' = pardon s /\ Forall qobs o.
Lemma EV_refl s : EV s s []. Proof. repeat split; auto. Qed.
Lemma EV_trans s1 s2 s3 o1 o2 : EV s1 s2 o1 -> EV s2 s3 o2 -> EV s1 s3 (o1 ++ o2).
Proof.
  intros (a1 & a2 & a3 & a4 & a5) (b1 & b2 & b3 & b4 & b5).
  split; [auto|]. split; [congruence|]. split; [congruence|]. split; [congruence|]. apply Forall_app; split; assumption.
Qed.
Lemma HQ_EV (s s' : st) o : HQ s s' o -> pc s' = pc s -> pardon s' = pardon s -> EV s s' o.
Proof. intros ((_ & _ & a & b) & q & _) Hpc Hp. split; [congruence|]. repeat split; auto. Qed.

Lemma req_result_EV (s : st) e s' o : req_result s e = (s', o) -> EV s s' o.
Proof. unfold req_result. intros H. inversion H; subst. destruct (mreq s); repeat split; auto; repeat constructor. Qed.
Lemma set_state_EV (s : st) x s' o : set_state s x = Some (s', o) -> EV s s' o.
Proof.
  intros H. pose proof (set_state_Pp _ _ _ _ H) as Hp. apply set_state_HQ in H.
  destruct H as ((_ & _ & a & b) & -> & _ & Hpc & _). split; [congruence|]. repeat split; auto. repeat constructor.
Qed.
Lemma cancel_task_EV (s : st) : EV s (cancel_task s) [].
Proof. unfold cancel_task. destruct (pc s) eqn:E; repeat split; auto. Qed.
Lemma request_pause_EV (s : st) d s' e o : request_pause s d = (s', e, o) -> EV s s' o.
Proof.
  intros H. pose proof (request_pause_Pp _ _ _ _ _ H) as Hp.
  assert (Hq : HQ s s' o /\ pc s' = pc s) by (eapply request_pause_HQ; exact H). destruct Hq as (Hq & Hpc).
  apply HQ_EV; assumption.
Qed.
Lemma record_interruptions_EV (s : st) s' o ok : record_interruptions s = (s', o, ok) -> EV s s' o.
Proof.
  intros H. pose proof (record_interruptions_Pp _ _ _ _ H) as Hp. apply record_interruptions_HQ in H.
  destruct H as (Hq & _ & Hpc & _). apply HQ_EV; assumption.
Qed.
Lemma call_pausables_EV (s : st) m s' e o : call_pausables dev s m = (s', e, o) -> EV s s' o.
Proof.
  intros H. pose proof (call_pausables_Pp _ _ _ _ _ H) as Hp. apply call_pausables_HQ in H.
  destruct H as (Hq & _ & Hpc & _). apply HQ_EV; assumption.
Qed.

Lemma rewind_EV (s : st) s' l : rewind s = (s', l) -> EV s s' [].
Proof.
  unfold rewind. intros H. repeat bm_hyp H; inversion H; subst; repeat split; auto.
Qed.

Ltac use_EV :=
  repeat match goal with
         | H : set_state _ _ = Some _ |- _ => apply set_state_EV in H
         | H : request_pause _ _ = _ |- _ => apply request_pause_EV in H
         | H : record_interruptions _ = _ |- _ => apply record_interruptions_EV in H
         | H : call_pausables _ _ _ = _ |- _ => apply call_pausables_EV in H
         | H : req_result _ _ = _ |- _ => apply req_result_EV in H
         | H : rewind _ = _ |- _ => apply rewind_EV in H
         end.
Ltac ev_close :=
  repeat match goal with
         | H : EV (if ?c then _ else _) _ _ |- _ => destruct c eqn:?
         | H : EV (match ?c with _ => _ end) _ _ |- _ => destruct c eqn:?
         end;
  unfold EV, cancel_task in *; unfold_pure; cbn in *;
  repeat match goal with H : _ /\ _ |- _ => destruct H end;
  repeat (progress (repeat break_match_goal; cbn in *));
  repeat match goal with H : context [match ?c with _ => _ end] |- _ => destruct c eqn:?; cbn in * end;
  (split;
   [ intros Hx0; repeat match goal with H : _ -> exc_slot _ <> None |- _ => apply H; clear H end; auto; try discriminate
   | split;
     [ congruence
     | split;
       [ congruence
       | split;
         [ congruence
         | repeat (apply Forall_app; split); try assumption; repeat constructor ] ] ] ]).

Lemma step_EV (s : st) e s' o :
  match e with EvTask | EvMain (ACall _) => False | _ => True end ->
  step presume plan_of dev s e = (s', o) -> EV s s' o.
Proof.
  intros He H. destruct e; try contradiction; cbn [step] in H.
  1: destruct a; try contradiction.
  all: repeat bm_hyp H; inversion H; subst; clear H; norm_hyps; use_EV.
  all: ev_close.
Qed.

Lemma SI_EV (s s' : st) a o : SI s a -> EV s s' o -> SI s' a.
Proof.
  intros (H1 & H2) (E1 & E2 & E3 & E4 & _). unfold SI, slotsq, dormant in *. rewrite E2, E3, E4. split; [|exact H2].
  intros E. destruct (H1 E) as [[X|X]|X]; [left; left; auto|left; right; exact X|right; exact X].
Qed.

Lemma step_S (s : st) a e s' o : SI s a -> step presume plan_of dev s e = (s', o) ->
  exists a', s_list (s_ev a e) o = Some a' /\ SI s' a'.
Proof.
  intros HI H.
  destruct e as [[q| | | |]| | | | | | | | | |sid ok| |];
    try (cbn [s_ev]; exists a; (match type of H with RE.step _ _ _ _ ?e0 = _ => pose proof (step_EV s e0 s' o I H) as Hev end);
         split; [apply s_list_quiet; exact (proj2 (proj2 (proj2 (proj2 Hev))))|eapply SI_EV; eassumption]; fail).
  - (* a new call *)
    cbn [s_ev]. cbn [step] in H. destruct (negb (rstate_eqb (state s) Idle)); inversion H; subst; exists false; (split; [reflexivity|]).
    + split; [discriminate|]. destruct HI as (_ & X). exact X.
    + split; [discriminate|]. intros E. cbn in E. discriminate.
  - cbn [s_ev]. cbn [step] in H. eapply task_step_S; eassumption.
  - (* a status object completes *)
    cbn [step] in H. inversion H; subst; clear H. cbn [s_list].
    destruct ok; cbn [s_ev negb andb].
    + exists a. split; [reflexivity|]. eapply SI_EV; [exact HI|]. repeat split; auto.
    + exists true. split; [reflexivity|]. destruct HI as (H1 & H2).
      destruct (pardon s) eqn:Ep; cbn.
      * split; [intros _; right; apply H2; reflexivity|]. intros E. cbn in E. apply H2. reflexivity.
      * split; [intros _; left; left; cbn; discriminate|]. intros E. cbn in E. congruence.
Qed.

Notation run_tr := (run_tr P presume plan_of D dev).

Lemma chk_status_run evs : forall (s : st) a, SI s a -> chk_status a (snd (run_tr s evs)) = true.
Proof.
  induction evs as [|e evs IH]; intros s a HI; cbn [RE_Small.run_tr]; [reflexivity|].
  destruct (step presume plan_of dev s e) as [s1 o1] eqn:E1.
  destruct (RE_Small.run_tr P presume plan_of D dev s1 evs) as [s2 t] eqn:E2. cbn [snd chk_status].
  destruct (step_S s a e s1 o1 HI E1) as (a1 & M1 & I1). rewrite M1.
  specialize (IH s1 a1 I1). rewrite E2 in IH. exact IH.
Qed.

Lemma SI_init d paus stag rec : SI (init P D d paus stag rec) false.
Proof. split; [discriminate|]. intros E. cbn in E. discriminate. Qed.

(* C12 (ii): on every schedule, after a status object has failed no message is processed before an exception has
   been thrown into a plan (or a new call has started) *)
Theorem failed_status_prompt d paus stag rec evs :
  chk_status false (snd (run_tr (init P D d paus stag rec) evs)) = true.
Proof. apply chk_status_run, SI_init. Qed.

(* what the failure turns into *)
Lemma status_failure_armed (s : st) sid : pardon s = false ->
  exc_slot (fst (step presume plan_of dev s (EvStatus sid false))) = Some EFailedStatus.
Proof. intros Hp. cbn [step fst]. cbn. rewrite Hp. reflexivity. Qed.

(* at the top of the loop the `_exception` slot wins over the response: it is what the top frame is thrown *)
Lemma slot_is_thrown (s : st) e r rest top pl : exc_slot s = Some e -> resps s = r :: rest -> plans s = top :: pl ->
  dstep s CAfterSleep = aft_res (aft_s2 s) true (frame_resume presume top (Throw e)).
Proof.
  intros Ee Er Ep. rewrite (aft_eq P presume plan_of D dev s r rest top pl Er Ep).
  destruct (aft_s2_facts P D s) as (_ & _ & _ & _ & Es). rewrite Ee in Es.
  unfold RE_RespC.aft_in. rewrite Es. reflexivity.
Qed.
(* and without anything waiting, an exception response is thrown into the frame that yielded the message *)
Lemma exn_response_is_thrown (s : st) e rest top pl : exc_slot s = None -> stashed s = None ->
  resps s = RExn e :: rest -> plans s = top :: pl ->
  dstep s CAfterSleep = aft_res (aft_s2 s) true (frame_resume presume top (Throw e)).
Proof.
  intros Ee Es0 Er Ep. rewrite (aft_eq P presume plan_of D dev s (RExn e) rest top pl Er Ep).
  destruct (aft_s2_facts P D s) as (_ & _ & _ & _ & Es). rewrite Ee, Es0 in Es.
  unfold RE_RespC.aft_in. rewrite Es. reflexivity.
Qed.

(* (iii) an ordinary exception that leaves the last frame ends the task with that exception ... *)
Definition ordinary (e : exn) : Prop :=
  is_Exception e = true /\ e <> ERequestStop /\ e <> EFailedPause /\ e <> ERequestAbort.
Lemma exit_raises (s : st) e s' c' o : ordinary e -> dstep s (CExit (XExn e)) = inl (s', c', o) ->
  c' = CFinalize (TReturn NO_RETURN) (Some e) /\ o = [].
Proof.
  intros (H1 & H2 & H3 & H4) H. unfold RE_Small.dstep in H. destruct e; cbn in H1; try discriminate; try congruence; inversion H; auto.
Qed.
Lemma finalize_raises (s : st) r e s' o : finalize presume dev s r (Some e) = (s', o) ->
  pc s' = PcDone (TRaise e) \/ pc s' = PcDone (TRaise ETransition).
Proof.
  unfold finalize. intros H. repeat bm_hyp H; inversion H; subst; cbn; auto.
Qed.
(* ... and the blocking call with it *)
Lemma main_done_raises (s : st) a e : pc s = PcDone (TRaise e) -> e <> ECancelled -> main_err s = None ->
  match a with ACall _ | AResume => True | _ => False end ->
  exists st_ d r, snd (step presume plan_of dev s (EvMainDone a)) = [OOut (OutRaise e) st_ d r].
Proof.
  intros Hpc He Hm Ha. cbn [step snd]. rewrite Hpc, Hm. destruct a; try contradiction; destruct e; try congruence; eauto.
Qed.

End Proofs.

(* the statements of Props/C12.v that combine several of the lemmas above *)
Theorem failed_status_thrown :
  forall (P : Type) (presume : P -> input -> outcome P) (plan_of : nat -> P)
         (D : Type) (dev : D -> nat -> devmeth -> D * devres) (s : st P D) (sid : nat),
    pardon s = false ->
    exc_slot (fst (step presume plan_of dev s (EvStatus sid false))) = Some EFailedStatus /\
    (forall (s1 : st P D) e r rest top pl,
        exc_slot s1 = Some e -> resps s1 = r :: rest -> plans s1 = top :: pl ->
        dstep P presume plan_of D dev s1 CAfterSleep =
        aft_res P D (aft_s2 P D s1) true (frame_resume presume top (Throw e))).
Proof.
  intros P presume plan_of D dev s sid Hp. split; [exact (status_failure_armed P presume plan_of D dev s sid Hp)|].
  intros s1 e r rest top pl. exact (slot_is_thrown P presume plan_of D dev s1 e r rest top pl).
Qed.

Theorem unhandled_exception_raised :
  forall (P : Type) (presume : P -> input -> outcome P) (plan_of : nat -> P)
         (D : Type) (dev : D -> nat -> devmeth -> D * devres),
    (forall (s : st P D) e s' c' o, ordinary e -> dstep P presume plan_of D dev s (CExit (XExn e)) = inl (s', c', o) ->
        c' = CFinalize (TReturn NO_RETURN) (Some e) /\ o = []) /\
    (forall (s : st P D) r e s' o, finalize presume dev s r (Some e) = (s', o) ->
        pc s' = PcDone (TRaise e) \/ pc s' = PcDone (TRaise ETransition)) /\
    (forall (s : st P D) a e, pc s = PcDone (TRaise e) -> e <> ECancelled -> main_err s = None ->
        match a with ACall _ | AResume => True | _ => False end ->
        exists st_ d r, snd (step presume plan_of dev s (EvMainDone a)) = [OOut (OutRaise e) st_ d r]).
Proof.
  intros P presume plan_of D dev. split; [|split].
  - exact (exit_raises P presume plan_of D dev).
  - exact (finalize_raises P presume D dev).
  - exact (main_done_raises P presume plan_of D dev).
Qed.

