(* Proofs about Pure/LiveDisp.v: every run re-emitted by the (repaired) LiveDispatcher is valid. *)
From Coq Require Import ZArith List Bool Lia ZifyBool NArith.
From BV Require Import Base.Prelude Base.ChainMap Pure.LiveDisp Proofs.ChainMap.

(* ---------------------------------------------------------------- lists *)

Lemma find_app {A} (f : A -> bool) (l1 l2 : list A) :
  find f (l1 ++ l2) = match find f l1 with Some x => Some x | None => find f l2 end.
Proof. induction l1 as [|x l1 IH]; cbn; [reflexivity|]. destruct (f x); [reflexivity | exact IH]. Qed.

Lemma snoc_split {A} (l pre post : list A) (o x : A) :
  l ++ [o] = pre ++ x :: post ->
  (post = [] /\ l = pre /\ o = x) \/ (exists post', post = post' ++ [o] /\ l = pre ++ x :: post').
Proof.
  destruct post as [|y post _] using rev_ind; intros H.
  - left. apply app_inj_tail in H as [H1 H2]. auto.
  - right. exists post.
    replace (pre ++ x :: post ++ [y]) with ((pre ++ x :: post) ++ [y]) in H
      by (rewrite <- app_assoc; reflexivity).
    apply app_inj_tail in H as [H1 H2]. subst. auto.
Qed.

Lemma nseq_snoc (s : N) (len : nat) : nseq s (S len) = nseq s len ++ [(s + N.of_nat len)%N].
Proof.
  revert s; induction len as [|len IH]; intros s.
  - cbn. now rewrite N.add_0_r.
  - change (nseq s (S (S len))) with (s :: nseq (N.succ s) (S len)).
    rewrite IH. cbn [nseq app]. do 3 f_equal. lia.
Qed.

(* ---------------------------------------------------------------- reading a run *)

Definition is_desc (didx : nat) (o : edoc) : bool :=
  match o with EDescriptor i _ _ _ => Nat.eqb i didx | _ => false end.

Lemma stream_of_find outs i :
  stream_of outs i = match find (is_desc i) outs with Some (EDescriptor _ n _ _) => Some n | _ => None end.
Proof. reflexivity. Qed.

Lemma stream_of_None outs i : stream_of outs i = None <-> find (is_desc i) outs = None.
Proof.
  rewrite stream_of_find. destruct (find (is_desc i) outs) as [o|] eqn:F; [|tauto].
  apply find_some in F as [_ F]. destruct o; cbn in F; try discriminate. split; discriminate.
Qed.

Lemma stream_of_app_some outs ext i n : stream_of outs i = Some n -> stream_of (outs ++ ext) i = Some n.
Proof.
  rewrite !stream_of_find, find_app. destruct (find (is_desc i) outs); [tauto | discriminate].
Qed.

Lemma stream_of_app_none outs ext i : stream_of outs i = None -> stream_of (outs ++ ext) i = stream_of ext i.
Proof.
  intros H. apply stream_of_None in H. now rewrite !stream_of_find, find_app, H.
Qed.

Lemma stream_of_app_keep outs ext i : stream_of outs i <> None -> stream_of (outs ++ ext) i = stream_of outs i.
Proof.
  destruct (stream_of outs i) eqn:E; [|congruence]. intros _. now apply stream_of_app_some.
Qed.

Lemma stream_of_fresh outs i :
  (forall j n k c, In (EDescriptor j n k c) outs -> j < i) -> stream_of outs i = None.
Proof.
  intros H. apply stream_of_None. destruct (find (is_desc i) outs) as [o|] eqn:F; [|reflexivity].
  apply find_some in F as [Hin F]. destruct o; cbn in F; try discriminate.
  apply Nat.eqb_eq in F; subst. apply H in Hin. lia.
Qed.

Lemma stream_of_cons_nondesc o outs i :
  (forall j n k c, o <> EDescriptor j n k c) -> stream_of (o :: outs) i = stream_of outs i.
Proof.
  intros H. rewrite !stream_of_find. cbn [find].
  destruct o; cbn [is_desc]; try reflexivity. exfalso. eapply H. reflexivity.
Qed.

(* seq_nums of the events of [l] that belong to stream [sn] when descriptors are looked up in [ctx] *)
Definition seqs_w (ctx l : list edoc) (sn : str) : list N :=
  flat_map (fun o => match o with
                     | EEvent i q _ => if option_beq N.eqb (stream_of ctx i) (Some sn) then [q] else []
                     | _ => []
                     end) l.

Lemma seqs_in_w outs sn : seqs_in outs sn = seqs_w outs outs sn.
Proof. reflexivity. Qed.

Lemma seqs_w_app ctx l1 l2 sn : seqs_w ctx (l1 ++ l2) sn = seqs_w ctx l1 sn ++ seqs_w ctx l2 sn.
Proof. unfold seqs_w. apply flat_map_app. Qed.

Definition evs_described (ctx l : list edoc) : Prop :=
  forall i q k, In (EEvent i q k) l -> stream_of ctx i <> None.

Lemma seqs_w_ext ctx ext l sn : evs_described ctx l -> seqs_w (ctx ++ ext) l sn = seqs_w ctx l sn.
Proof.
  induction l as [|o l IH]; intros H; [reflexivity|].
  change (o :: l) with ([o] ++ l). rewrite !seqs_w_app. f_equal.
  - destruct o; try reflexivity. cbn. rewrite stream_of_app_keep; [reflexivity|].
    eapply H. left; reflexivity.
  - apply IH. intros i q k Hin. eapply H. right; exact Hin.
Qed.

Lemma seqs_w_ctx_eq ctx1 ctx2 l sn :
  (forall i, stream_of ctx1 i = stream_of ctx2 i) -> seqs_w ctx1 l sn = seqs_w ctx2 l sn.
Proof.
  intros H. unfold seqs_w. apply flat_map_ext. intros o. destruct o; try reflexivity. now rewrite H.
Qed.

Lemma described_before_all outs :
  described_before outs -> evs_described outs outs.
Proof.
  intros H i q k Hin. apply in_split in Hin as (pre & post & ->).
  specialize (H pre i q k post eq_refl).
  rewrite stream_of_app_keep; assumption.
Qed.

Lemma described_before_snoc outs o :
  described_before outs ->
  (forall i q k, o = EEvent i q k -> stream_of outs i <> None) ->
  described_before (outs ++ [o]).
Proof.
  intros H Ho pre i q k post E. apply snoc_split in E as [(-> & -> & ->) | (post' & -> & ->)].
  - eapply Ho. reflexivity.
  - eapply H. reflexivity.
Qed.

Lemma seqs_in_snoc_other outs o sn :
  described_before outs -> (forall i q k, o <> EEvent i q k) ->
  seqs_in (outs ++ [o]) sn = seqs_in outs sn.
Proof.
  intros H Ho. rewrite !seqs_in_w, seqs_w_app.
  rewrite seqs_w_ext by now apply described_before_all.
  destruct o; cbn; try apply app_nil_r. exfalso. eapply Ho. reflexivity.
Qed.

Lemma seqs_in_snoc_event outs i q k sn0 sn :
  described_before outs -> stream_of outs i = Some sn0 ->
  seqs_in (outs ++ [EEvent i q k]) sn = seqs_in outs sn ++ (if N.eqb sn0 sn then [q] else []).
Proof.
  intros H Hs. rewrite !seqs_in_w, seqs_w_app.
  rewrite seqs_w_ext by now apply described_before_all.
  f_equal. cbn. rewrite (stream_of_app_some _ _ _ _ Hs). cbn. now rewrite app_nil_r.
Qed.

(* ---------------------------------------------------------------- the invariant inside a run *)

Record Inv (s : st) (outs : list edoc) : Prop := {
  I_descs : forall sn id d, In (sn, id, d) (descs s) -> stream_of outs (ed_idx d) = Some sn;
  I_fresh : forall i n k c, In (EDescriptor i n k c) outs -> i < ndesc s;
  I_pre : described_before outs;
  I_seq : forall sn, seqs_in outs sn = nseq 1%N (length (seqs_in outs sn));
  I_cnt : forall sn, lookup sn (counts s) =
                     match seqs_in outs sn with [] => None | _ => Some (N.of_nat (length (seqs_in outs sn))) end;
  I_nodup : NoDup (keys (counts s));
  I_body : Forall body_doc outs
}.

Definition clean (s : st) : Prop := descs s = [] /\ counts s = [].

Lemma Inv_clean s : clean s -> Inv s [].
Proof.
  intros [Hd Hc]. split; cbn.
  - rewrite Hd. intros ? ? ? [].
  - intros ? ? ? ? [].
  - intros pre i q k post E. destruct pre; discriminate.
  - reflexivity.
  - now rewrite Hc.
  - rewrite Hc. constructor.
  - constructor.
Qed.

Lemma Inv_error s outs : Inv s outs -> Inv s (outs ++ [EKeyError]).
Proof.
  intros [H1 H2 H3 H4 H5 H6 H7].
  assert (Hne : forall i q k, EKeyError <> EEvent i q k) by discriminate.
  split.
  - intros sn id d Hin. apply stream_of_app_some. eauto.
  - intros i n k c Hin. apply in_app_or in Hin as [Hin | [Hin | []]]; [eauto | discriminate].
  - apply described_before_snoc; [assumption | discriminate].
  - intros sn. rewrite seqs_in_snoc_other by assumption. apply H4.
  - intros sn. rewrite seqs_in_snoc_other by assumption. apply H5.
  - assumption.
  - apply Forall_app; split; [assumption | repeat constructor].
Qed.

Lemma Inv_descriptor s outs d : Inv s outs -> Inv (do_descriptor s d) outs.
Proof. intros [H1 H2 H3 H4 H5 H6 H7]. split; cbn; assumption. Qed.

Lemma Inv_new_desc s outs sn id d s1 o1 :
  Inv s outs -> ed_idx d = ndesc s -> new_desc sn id d s = (s1, o1) ->
  Inv s1 (outs ++ o1) /\ stream_of (outs ++ o1) (ed_idx d) = Some sn.
Proof.
  intros [H1 H2 H3 H4 H5 H6 H7] Hidx E. unfold new_desc in E. injection E as <- <-.
  assert (Hne : forall i q k, EDescriptor (ed_idx d) sn (ed_keys d) (ed_cfg d) <> EEvent i q k) by discriminate.
  assert (Hnew : stream_of (outs ++ [EDescriptor (ed_idx d) sn (ed_keys d) (ed_cfg d)]) (ed_idx d) = Some sn).
  { rewrite stream_of_app_none.
    - rewrite stream_of_find. cbn. now rewrite Nat.eqb_refl.
    - apply stream_of_fresh. intros j n k c Hin. rewrite Hidx. eauto. }
  split; [split; cbn [descs counts ndesc raws]|exact Hnew].
  - intros sn' id' d' [Hin | Hin].
    + injection Hin as <- <- <-. exact Hnew.
    + apply stream_of_app_some. eauto.
  - intros i n k c Hin. apply in_app_or in Hin as [Hin | [Hin | []]].
    + apply H2 in Hin. lia.
    + injection Hin as <- _ _ _. lia.
  - apply described_before_snoc; [assumption | discriminate].
  - intros sn'. rewrite seqs_in_snoc_other by assumption. apply H4.
  - intros sn'. rewrite seqs_in_snoc_other by assumption. apply H5.
  - assumption.
  - apply Forall_app; split; [assumption | repeat constructor].
Qed.

Lemma count_of_inv s outs sn :
  Inv s outs -> count_of sn (counts s) = N.of_nat (length (seqs_in outs sn)).
Proof.
  intros H. unfold count_of. rewrite (I_cnt _ _ H). destruct (seqs_in outs sn); reflexivity.
Qed.

Lemma Inv_emit_event s outs sn data d s' o :
  Inv s outs -> stream_of outs (ed_idx d) = Some sn -> emit_event sn data s d = (s', o) ->
  Inv s' (outs ++ o).
Proof.
  intros HI Hs E. pose proof (count_of_inv _ _ sn HI) as Hc.
  destruct HI as [H1 H2 H3 H4 H5 H6 H7]. unfold emit_event in E. injection E as <- <-.
  rewrite Hc.
  split; cbn [descs counts ndesc raws].
  - intros sn' id' d' Hin. apply stream_of_app_some. eauto.
  - intros i n k c Hin. apply in_app_or in Hin as [Hin | [Hin | []]]; [eauto | discriminate].
  - apply described_before_snoc; [assumption|].
    intros i q' k [= <- _ _]. congruence.
  - intros sn'. rewrite (seqs_in_snoc_event _ _ _ _ sn sn') by assumption.
    destruct (N.eqb sn sn') eqn:En.
    + apply N.eqb_eq in En; subst sn'.
      rewrite app_length; cbn [length]. rewrite Nat.add_1_r, nseq_snoc.
      rewrite <- (H4 sn). f_equal. f_equal. lia.
    + rewrite app_nil_r. apply H4.
  - intros sn'. rewrite (seqs_in_snoc_event _ _ _ _ sn sn') by assumption.
    destruct (N.eqb sn sn') eqn:En.
    + apply N.eqb_eq in En; subst sn'. rewrite lookup_set_same.
      rewrite app_length; cbn [length]. rewrite Nat.add_1_r.
      destruct (seqs_in outs sn); cbn [app]; f_equal; lia.
    + apply N.eqb_neq in En. rewrite app_nil_r, lookup_set_other by congruence. apply H5.
  - now apply NoDup_keys_set.
  - apply Forall_app; split; [assumption | repeat constructor].
Qed.

Lemma find_desc_In ds sn id d : find_desc ds sn id = Some d -> exists id', In (sn, id', d) ds.
Proof.
  unfold find_desc.
  destruct (find (fun e => N.eqb (fst (fst e)) sn && set_eqb (snd (fst e)) id) ds) as [[[sn' id'] d']|] eqn:F;
    [|discriminate].
  intros [= <-]. apply find_some in F as [Hin F]. cbn in F.
  apply andb_true_iff in F as [F _]. apply N.eqb_eq in F; subst. now exists id'.
Qed.

Lemma Inv_process s outs r s' o ok :
  Inv s outs -> process s r = (s', o, ok) -> Inv s' (outs ++ o).
Proof.
  intros HI E. unfold process in E.
  set (sn := stream_name_of s r) in *.
  destruct (find_desc (descs s) sn _) as [d|] eqn:F.
  - destruct (emit_event sn (pe_data r) s d) as [s2 o2] eqn:Ee. injection E as <- <- <-.
    apply find_desc_In in F as [id' Hin].
    eapply Inv_emit_event; [exact HI | | exact Ee]. eapply I_descs; eauto.
  - match type of E with
    | context [new_desc sn ?id ?d s] => set (idv := id) in *; set (dv := d) in *
    end.
    assert (Hgo : match new_desc sn idv dv s with
                  | (s1, o1) => match emit_event sn (pe_data r) s1 dv with (s2, o2) => (s2, o1 ++ o2, true) end
                  end = (s', o, ok) -> Inv s' (outs ++ o)).
    { destruct (new_desc sn idv dv s) as [s1 o1] eqn:En.
      destruct (emit_event sn (pe_data r) s1 dv) as [s2 o2] eqn:Ee. intros [= <- <- <-].
      destruct (Inv_new_desc s outs sn idv dv s1 o1 HI eq_refl En) as [HI1 Hs1].
      rewrite app_assoc. eapply Inv_emit_event; [exact HI1 | exact Hs1 | exact Ee]. }
    destruct (lookup (pe_desc r) (raws s)) as [rawd|]; [exact (Hgo E)|].
    destruct (pe_data r) as [|kv data] eqn:Ed; [exact (Hgo E)|].
    injection E as <- <- <-. now apply Inv_error.
Qed.

Lemma Inv_process_all s outs rs s' o ok :
  Inv s outs -> process_all s rs = (s', o, ok) -> Inv s' (outs ++ o).
Proof.
  revert s outs s' o ok. induction rs as [|r rs IH]; intros s outs s' o ok HI E; cbn in E.
  - injection E as <- <- <-. now rewrite app_nil_r.
  - destruct (process s r) as [[s1 o1] ok1] eqn:Ep. pose proof (Inv_process _ _ _ _ _ _ HI Ep) as HI1.
    destruct ok1.
    + destruct (process_all s1 rs) as [[s2 o2] ok2] eqn:Ea. injection E as <- <- <-.
      rewrite app_assoc. eapply IH; eauto.
    + injection E as <- <- <-. exact HI1.
Qed.

Lemma Inv_do_item pass rn s outs it s' o :
  Inv s outs -> do_item pass rn s it = (s', o) -> Inv s' (outs ++ o).
Proof.
  intros HI E. destruct it as [d | e | es]; cbn in E.
  - injection E as <- <-. rewrite app_nil_r. now apply Inv_descriptor.
  - destruct (process_all s (sub_event pass e)) as [[s1 o1] ok1] eqn:Ea. injection E as <- <-.
    eapply Inv_process_all; eauto.
  - destruct (process_all s _) as [[s1 o1] ok1] eqn:Ea. injection E as <- <-.
    eapply Inv_process_all; eauto.
Qed.

Lemma Inv_do_items pass rn s outs its s' o :
  Inv s outs -> do_items pass rn s its = (s', o) -> Inv s' (outs ++ o).
Proof.
  revert s outs s' o. induction its as [|it its IH]; intros s outs s' o HI E; cbn in E.
  - injection E as <- <-. now rewrite app_nil_r.
  - destruct (do_item pass rn s it) as [s1 o1] eqn:Ei.
    destruct (do_items pass rn s1 its) as [s2 o2] eqn:Es. injection E as <- <-.
    rewrite app_assoc. eapply IH; [|exact Es]. eapply Inv_do_item; eauto.
Qed.

(* ---------------------------------------------------------------- one run, all runs *)

Lemma seqs_in_wrap orig md body ne rest sn :
  described_before body ->
  seqs_in (EStart orig md :: body ++ [EStop ne rest]) sn = seqs_in body sn.
Proof.
  intros H. rewrite !seqs_in_w.
  change (EStart orig md :: body ++ [EStop ne rest]) with ([EStart orig md] ++ body ++ [EStop ne rest]) at 2.
  rewrite !seqs_w_app. cbn [seqs_w flat_map app]. rewrite app_nil_r.
  rewrite (seqs_w_ctx_eq _ (body ++ [EStop ne rest])).
  - apply seqs_w_ext. now apply described_before_all.
  - intros i. apply stream_of_cons_nondesc. discriminate.
Qed.

Lemma run_valid pass rn s r s' outs :
  clean s -> do_run pass rn s r = (s', outs) ->
  clean s' /\ valid_run outs /\ described_before outs.
Proof.
  intros Hc E. unfold do_run in E.
  destruct (do_items pass rn s (rr_items r)) as [s1 o1] eqn:Ei.
  unfold do_stop in E. injection E as <- <-.
  pose proof (Inv_do_items _ _ _ _ _ _ _ (Inv_clean _ Hc) Ei) as HI. cbn [app] in HI.
  destruct HI as [H1 H2 H3 H4 H5 H6 H7].
  split; [split; reflexivity|]. split.
  - unfold valid_run, do_start. do 5 eexists. split; [reflexivity|].
    split; [exact H7|]. split; [exact H6|].
    intros sn. rewrite seqs_in_wrap by assumption. split; [apply H4 | apply H5].
  - intros pre i q k post E. destruct pre as [|p pre]; [discriminate|].
    cbn [app] in E. injection E as <- E.
    apply snoc_split in E as [(_ & _ & E) | (post' & -> & E)]; [discriminate|].
    rewrite stream_of_cons_nondesc by discriminate. eapply H3. exact E.
Qed.

Lemma runs_valid pass rn s rs outs :
  clean s -> In outs (do_runs pass rn s rs) -> valid_run outs /\ described_before outs.
Proof.
  revert s. induction rs as [|r rs IH]; intros s Hc Hin; cbn in Hin; [destruct Hin|].
  destruct (do_run pass rn s r) as [s' o] eqn:Er.
  destruct (run_valid _ _ _ _ _ _ Hc Er) as (Hc' & Hv & Hd).
  destruct Hin as [<- | Hin]; [auto | eauto].
Qed.

Lemma clean_st0 : clean st0.
Proof. split; reflexivity. Qed.

Theorem reemitted_run_valid pass rn rs outs :
  In outs (do_runs pass rn st0 rs) -> valid_run outs.
Proof. intros H. now destruct (runs_valid _ _ _ _ _ clean_st0 H). Qed.

Theorem descriptor_precedes_events pass rn rs outs :
  In outs (do_runs pass rn st0 rs) -> described_before outs.
Proof. intros H. now destruct (runs_valid _ _ _ _ _ clean_st0 H). Qed.

(* the boolean restatement used in the generated cases files is implied by the Prop *)
Lemma list_beq_N_refl (l : list N) : list_beq N.eqb l l = true.
Proof. induction l; cbn; [reflexivity|]. now rewrite N.eqb_refl. Qed.

Lemma valid_run_b_complete outs names : valid_run outs -> valid_run_b outs names = true.
Proof.
  intros (orig & md & body & ne & rest & -> & _ & _ & H).
  unfold valid_run_b, stop_of.
  replace (last (EStart orig md :: body ++ [EStop ne rest]) EKeyError) with (EStop ne rest).
  2:{ change (EStart orig md :: body ++ [EStop ne rest]) with ((EStart orig md :: body) ++ [EStop ne rest]).
      now rewrite last_last. }
  apply forallb_forall. intros sn _. destruct (H sn) as [Hs Hl]. cbv zeta.
  apply andb_true_iff; split.
  - rewrite <- Hs. apply list_beq_N_refl.
  - rewrite Hl. destruct (seqs_in (EStart orig md :: body ++ [EStop ne rest]) sn); cbn [option_beq];
      [reflexivity | apply N.eqb_refl].
Qed.
