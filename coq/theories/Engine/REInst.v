(* Executable instance of the engine model used by the correspondence check:
   plans are recorded tapes (what the real plan did, in order), devices are the recorded
   ledger of device results.  [check] compares the model's observations with the real ones. *)
From Coq Require Import List ZArith Bool Arith.
From BV Require Import Engine.RE.
Import ListNotations.

Inductive tout := TY (m : msg) | TR (v : val) | TE (e : exn) | TClosed.
Definition TP : Type := (nat * nat)%type.     (* tape id, position *)

Definition t_resume (tapes : list (nat * list tout)) (p : TP) (i : input) : outcome TP :=
  match alookup (fst p) tapes with
  | Some t =>
      match nth_error t (snd p) with
      | Some (TY m) => Yielded m (fst p, S (snd p))
      | Some (TR v) => Returned v
      | Some (TE e) => Raised e
      | Some TClosed => Raised EGeneratorExit
      | None => Raised EOther
      end
  | None => Raised EOther
  end.
Definition t_plan_of (pid : nat) : TP := (pid, 0).

Definition t_dev (ledger : list devres) (pos : nat) (d : nat) (m : devmeth) : nat * devres :=
  (S pos, match nth_error ledger pos with Some r => r | None => DUnit end).

Definition model_obs (tapes : list (nat * list tout)) (ledger : list devres)
           (paus stag : list nat) (rec : bool) (evs : list event) : list obs :=
  snd (run TP (t_resume tapes) t_plan_of nat (t_dev ledger) (init TP nat 0 paus stag rec) evs).

(* decidable equality of observations (transparent, so that vm_compute can run it) *)
Definition rstate_eq_dec (a b : rstate) : {a = b} + {a <> b}. Proof. decide equality. Defined.
Definition exn_eq_dec (a b : exn) : {a = b} + {a <> b}. Proof. decide equality. Defined.
Definition val_eq_dec (a b : val) : {a = b} + {a <> b}.
Proof. decide equality; try apply Nat.eq_dec; try apply Z.eq_dec; try apply Bool.bool_dec; apply list_eq_dec, Nat.eq_dec. Defined.
Definition exit_eq_dec (a b : exit_st) : {a = b} + {a <> b}. Proof. decide equality. Defined.
Definition reason_eq_dec (a b : reason_t) : {a = b} + {a <> b}. Proof. decide equality; apply Nat.eq_dec. Defined.
Definition cmd_eq_dec (a b : cmd) : {a = b} + {a <> b}.
Proof.
  decide equality; try apply Nat.eq_dec; try apply Bool.bool_dec; try apply reason_eq_dec;
    try (apply list_eq_dec, Nat.eq_dec).
  - decide equality; apply Bool.bool_dec.
  - decide equality; apply exit_eq_dec.
Defined.
Definition resp_eq_dec (a b : resp) : {a = b} + {a <> b}.
Proof. decide equality; [apply val_eq_dec | apply exn_eq_dec]. Defined.
Definition msg_eq_dec (a b : msg) : {a = b} + {a <> b}.
Proof.
  decide equality; try apply Nat.eq_dec; try apply cmd_eq_dec;
    try (decide equality; apply Nat.eq_dec).
Defined.
Definition input_eq_dec (a b : input) : {a = b} + {a <> b}.
Proof. decide equality; [apply val_eq_dec | apply exn_eq_dec]. Defined.
Definition devmeth_eq_dec (a b : devmeth) : {a = b} + {a <> b}. Proof. decide equality. Defined.
Definition doc_eq_dec (a b : doc) : {a = b} + {a <> b}.
Proof.
  decide equality; try apply Nat.eq_dec; try apply exit_eq_dec; try apply reason_eq_dec;
    try (apply list_eq_dec; intros [x1 y1] [x2 y2]; decide equality; try apply Nat.eq_dec; apply Z.eq_dec);
    try (apply list_eq_dec, Nat.eq_dec).
Defined.
Definition out_eq_dec (a b : out_t) : {a = b} + {a <> b}.
Proof. decide equality; [apply list_eq_dec, Nat.eq_dec | apply exn_eq_dec]. Defined.
Definition where_eq_dec (a b : where_t) : {a = b} + {a <> b}. Proof. decide equality; apply exn_eq_dec. Defined.
Definition obs_eq_dec (a b : obs) : {a = b} + {a <> b}.
Proof.
  decide equality; try apply Nat.eq_dec; try apply Bool.bool_dec; try apply rstate_eq_dec; try apply msg_eq_dec;
    try apply resp_eq_dec; try apply doc_eq_dec; try apply devmeth_eq_dec; try apply input_eq_dec; try apply out_eq_dec; try apply where_eq_dec.
Defined.

Fixpoint first_diff (n : nat) (a b : list obs) : option nat :=
  match a, b with
  | [], [] => None
  | x :: a', y :: b' => if obs_eq_dec x y then first_diff (S n) a' b' else Some n
  | _, _ => Some n
  end.

Definition check (tapes : list (nat * list tout)) (ledger : list devres)
           (paus stag : list nat) (rec : bool) (evs : list event) (expected : list obs) : bool :=
  match first_diff 0 (model_obs tapes ledger paus stag rec evs) expected with None => true | Some _ => false end.
