"""Dedicated driver for the status-group / wait logic of the REAL RunEngine (C12, model Engine/WaitGroup.v).

A case is a scripted plan; the driver runs it with plain RE(plan) on a virtual-time loop and RECORDS the order in
which things really happen, as the event list the Coq model is run on:

  ["msg", m]        msg_hook: the plan yielded m and the engine starts processing it
                    (m = ["add", g] | ["wait", g, tmo, eot, [watch...]] | ["other"])
  ["end"]           the plan finished (returned, or re-raised what it was thrown)
  ["finish", s, ok] the status object s became done (its `done`/`success` flags), callbacks not yet delivered
  ["done", s]       RunEngine._status_object_completed ran for s on the loop
  ["timeout"]       the timer of the status task of the current wait fired
  ["wake_s"]        the status task (asyncio.wait on the group) finished on its own (returned or WaitForTimeoutError)
  ["resume"]        _wait resumed after the status task (first waiting_hook(None) call / first obj.done read)
  ["wake_w"]        the watch task finished
  ["cancel"]        the watch task's done-callback cancelled the still unfinished status task

plus what each yield of the plan received (["val", v] | ["throw", kind, sid]) and the final bookkeeping of the
engine (`_groups`, `_exception` at the end of the plan).  No source hooks: msg_hook, waiting_hook, loop=, a task factory,
and one instance attribute (`_status_object_completed`, wrapped to log when it runs).

Statuses are completed deterministically: `acts` run inside the plan before a message is yielded; `during` batches
are injected whenever the loop is idle while that wait is blocked.  When nothing is left to inject, virtual time jumps
to the next timer (the wait's timeout); a wait without timeout that would block for ever is drained (every pending
status of its groups is completed successfully, which is logged like any other completion).
"""
import asyncio
import threading
import traceback


class VLoop(asyncio.SelectorEventLoop):
    drv = None
    _vt = 0.0

    def time(self):
        return self._vt

    def call_later(self, delay, callback, *args, context=None):
        d = self.drv
        if d is not None and getattr(callback, "__name__", "") == "_release_waiter":
            k = d.timer_seen
            d.timer_seen += 1
            inner = callback

            def fired(*a):
                if k == 0:
                    d.ev(["timeout"])
                return inner(*a)
            fired.__name__ = "_release_waiter_logged"
            return super().call_later(delay, fired, *args, context=context)
        return super().call_later(delay, callback, *args, context=context)

    def _run_once(self):
        d = self.drv
        n = 0
        while d is not None and not self._ready and n < 100 and d.on_idle():
            n += 1
        if not self._ready:
            live = [h._when for h in self._scheduled if not h._cancelled]
            if live:
                self._vt = max(self._vt, min(live)) + 1e-6
        super()._run_once()


class FakeStatus:
    def __init__(self, drv, sid):
        self.drv, self.sid = drv, sid
        self._done = False
        self.success = False
        self._cbs = []
        self._fired = False

    @property
    def done(self):
        self.drv.on_done_read()
        return self._done

    def add_callback(self, cb):
        self._cbs.append(cb)

    def exception(self, timeout=0.0):
        return None if (not self._done or self.success) else RuntimeError("status %d failed" % self.sid)

    def __repr__(self):
        return "FakeStatus(%d)" % self.sid


class Dev:
    """one fake device: every status-producing method hands out the next scripted status"""
    name = "dev"
    parent = None

    def __init__(self, drv):
        self.drv = drv

    def _new(self):
        return self.drv.new_status()

    def set(self, *a, **k):
        return self._new()

    def trigger(self):
        return self._new()

    def stage(self):
        return self._new()

    def unstage(self):
        return self._new()

    def kickoff(self):
        return self._new()

    def complete(self):
        return self._new()

    def describe_collect(self):
        return {}

    def collect(self):
        return []

    def read(self):
        return {}

    def describe(self):
        return {}

    def read_configuration(self):
        return {}

    def describe_configuration(self):
        return {}


class Drv:
    def __init__(self, case):
        self.case = case
        self.events = []
        self.inputs = []
        self.errors = []
        self.statuses = []
        self.timer_seen = 0
        self.cur_wait = None        # index of the plan step whose wait is being processed
        self.await_resume = False
        self.tasks_in_wait = 0
        self.drained = 0
        self.idle_guard = 0

    def ev(self, e):
        self.events.append(e)

    # ---- statuses
    def new_status(self):
        s = FakeStatus(self, len(self.statuses))
        self.statuses.append(s)
        return s

    def act(self, a):
        kind, sid = a[0], a[1]
        if not (0 <= sid < len(self.statuses)):
            return
        s = self.statuses[sid]
        if kind in ("finish", "complete") and not s._done:
            s.success = bool(a[2])
            s._done = True
            self.ev(["finish", sid, bool(a[2])])
        if kind in ("done", "complete") and s._done and not s._fired:
            s._fired = True
            for cb in s._cbs:
                cb(s)

    def on_done_read(self):
        if self.await_resume:
            self.await_resume = False
            self.ev(["resume"])

    def waiting_hook(self, arg):
        if arg is None and self.await_resume:
            self.await_resume = False
            self.ev(["resume"])

    # ---- loop side
    def on_idle(self):
        i = self.cur_wait
        if i is None or self.finished:
            return False
        step = self.case["plan"][i]
        q = self.during.setdefault(i, [list(b) for b in step.get("during", [])])
        if q:
            for a in q.pop(0):
                self.act(a)
            return True
        if self.RE.loop._scheduled and [h for h in self.RE.loop._scheduled if not h._cancelled]:
            return False    # a timer (the wait's timeout) will fire
        # nothing can end this wait any more: drain
        self.idle_guard += 1
        if self.idle_guard > 50:
            return False
        for s in self.statuses:
            if not s._fired:
                self.drained += 1
                self.act(["complete", s.sid, True])
        return True

    def make_task(self, loop, coro, **kw):
        name = getattr(coro, "__qualname__", "")
        if name.endswith("wait_for_first_exception"):
            k = self.tasks_in_wait
            self.tasks_in_wait += 1
            drv = self

            async def logged():
                try:
                    r = await coro
                except asyncio.CancelledError:
                    raise
                except BaseException:
                    drv.ev(["wake_s" if k == 0 else "wake_w"])
                    if k == 0:
                        drv.await_resume = True
                    raise
                drv.ev(["wake_s" if k == 0 else "wake_w"])
                if k == 0:
                    drv.await_resume = True
                return r

            class T(asyncio.Task):
                def cancel(self_, msg=None):
                    was = self_.done()
                    r = super().cancel(msg)
                    if k == 0 and not was and r:
                        drv.ev(["cancel"])
                    return r
            return T(logged(), loop=loop, **kw)
        return asyncio.Task(coro, loop=loop, **kw)

    def on_msg(self, msg):
        if msg.command == "wait":
            self.timer_seen = 0
            self.tasks_in_wait = 0
            self.await_resume = False

    # ---- plan
    def plan(self):
        from bluesky.utils import Msg
        case = self.case
        dev = self.dev
        stop_on_throw = bool(case.get("stop_on_throw"))
        for i, step in enumerate(case["plan"]):
            for a in step.get("acts", []):
                self.act(a)
            m = step["msg"]
            if m[0] == "add":
                kind = m[2] if len(m) > 2 else "set"
                if kind == "set":
                    msg = Msg("set", dev, 1, group=m[1])
                else:
                    msg = Msg(kind, dev, group=m[1])
                self.ev(["msg", ["add", m[1]]])
                self.cur_wait = None
            elif m[0] == "wait":
                kw = {"group": m[1], "error_on_timeout": bool(m[3]), "watch": tuple(m[4])}
                if m[2]:
                    kw["timeout"] = 5.0
                msg = Msg("wait", None, **kw)
                self.ev(["msg", ["wait", m[1], bool(m[2]), bool(m[3]), list(m[4])]])
                self.cur_wait = i
            else:
                msg = Msg("null")
                self.ev(["msg", ["other"]])
                self.cur_wait = None
            try:
                r = yield msg
            except GeneratorExit:
                raise
            except BaseException as e:
                self.cur_wait = None
                self.inputs.append(self.canon_exc(e))
                if stop_on_throw:
                    self.ev(["end"])
                    self.finished = True
                    raise
            else:
                self.cur_wait = None
                self.inputs.append(["val", r if isinstance(r, bool) else None])
        for a in case.get("end_acts", []):
            self.act(a)
        self.ev(["end"])
        self.finished = True

    def canon_exc(self, e):
        from bluesky.utils import FailedStatus
        from bluesky.run_engine import WaitForTimeoutError
        if isinstance(e, FailedStatus):
            s = e.args[0] if e.args else None
            return ["throw", "failed", getattr(s, "sid", -1)]
        if isinstance(e, WaitForTimeoutError):
            return ["throw", "timeout", -1]
        if isinstance(e, asyncio.CancelledError):
            return ["throw", "cancelled", -1]
        return ["throw", type(e).__name__, -1]

    def run(self):
        from bluesky.run_engine import RunEngine
        import logging
        logging.disable(logging.CRITICAL)
        loop = VLoop()
        loop.drv = self
        loop.set_task_factory(self.make_task)
        loop.set_exception_handler(lambda lp, ctx: None)
        RE = RunEngine({}, loop=loop, context_managers=[])
        self.RE = RE
        self.dev = Dev(self)
        self.during = {}
        self.finished = False
        RE.msg_hook = self.on_msg
        RE.waiting_hook = self.waiting_hook
        orig = RE._status_object_completed
        drv = self

        def completed(ret, fut, pardon):
            if not pardon.is_set() and not drv.finished:
                drv.ev(["done", ret.sid])
            return orig(ret, fut, pardon)
        RE._status_object_completed = completed
        orig_close = None
        outcome = ["return"]
        snap = {}

        # the bookkeeping at the end of the plan is read before the engine clears it for the next call
        def grab():
            snap["groups"] = {str(g): sorted(s.sid for s in objs) for g, objs in RE._status_objs.items() if objs}
            snap["futs"] = {str(g): len(f) for g, f in RE._groups.items() if f}
            snap["slot"] = self.canon_exc(RE._exception)[1:] if RE._exception is not None else None
        self.grab = grab

        def plan():
            try:
                yield from self.plan()
            finally:
                grab()

        t = threading.Thread(target=self._call, args=(RE, plan, outcome), daemon=True)
        t.start()
        t.join(20)
        if t.is_alive():
            self.errors.append("call did not return")
        try:
            loop.call_soon_threadsafe(loop.stop)
        except Exception:
            pass
        return {"events": self.events, "inputs": [["val", None]] + self.inputs, "outcome": outcome, "groups": snap.get("groups"),
                "futs": snap.get("futs"), "slot": snap.get("slot"), "drained": self.drained, "errors": self.errors}

    def _call(self, RE, plan, outcome):
        try:
            RE(plan())
        except BaseException as e:
            outcome[:] = ["raise"] + self.canon_exc(e)[1:]


def run_case(case):
    try:
        return Drv(case).run()
    except Exception as e:
        return {"errors": ["%s: %s" % (type(e).__name__, e), traceback.format_exc()[-1200:]]}


if __name__ == "__main__":
    import json
    import sys
    print(json.dumps(run_case(json.loads(sys.argv[1]))))
