"""C21 - plan_mutator inserts head/tail messages exactly as documented.

Tie: the real bluesky.preprocessors.plan_mutator with a table-driven msg_proc (message -> head plan,
tail plan) against the stack machine of Gen/Mutators.v (the code WITH fixes/C21-a.diff) and against the
reference semantics Gen/InsertSpec.v, on generated hosts x processors x every driver script: per step the
yielded message identity | return value | raised class, and what every plan (host, heads, tails) received."""
import itertools

from harness.drivers import gen_dsl as G

ID = "C21"
PROP_FILE = "Props/C21.v"
THEOREMS = ["C21_plan_mutator_is_insert_spec", "C21_head_response_reaches_host", "C21_tail_responses_swallowed",
            "C21_exception_reaches_host"]
COQ_IMPORTS = "From BV Require Import Gen.Coalg Gen.PyGen Gen.Mutators Gen.InsertSpec Gen.Tie."
PARALLEL = True
MODELLED = ("plan_mutator (preprocessors.py 33-227, with the C21-a repair) is modelled as a stack machine over an arbitrary "
            "plan coalgebra, mirroring plan_stack / result_stack / tail_cache / tail_result_cache / exception / ret / "
            "msgs_seen; object identity is modelled by fresh nat ids (CPython's reuse of id() after garbage collection "
            "is not modelled; the tie keeps every generator alive); msg_proc is a pure function of (its own state, "
            "message) and does not raise; CPython generators are modelled by Gen/PyGen.v (validated by the C20 check).")
RULE = ("hosts from a palette (plain, using responses, same Msg twice, catching, with finally, returning) x processor "
        "tables inserting head / tail / both / nested (a head message that is itself rewritten) / single_gen "
        "(None, tail) / empty / raising / exception-swallowing / exception-translating (catch the thrown failure, raise "
        "another kind at once or after more messages, or return) / value-returning plans at one or two messages x EVERY "
        "script over {send None, send 1, send 2, throw User0, throw User1, close} up to length 5 (quick) / 6 (thorough), "
        "plus wide-alphabet scripts (PlanHalt, KeyboardInterrupt, RequestAbort) on a subset and seeded random hosts / "
        "plans; non-trivial = an inserted plan was started and some script has >= 3 steps")

CORE = [["send", None], ["send", 1], ["send", 2], ["throw", "User0"], ["close"]]
WIDE = CORE + [["throw", "User1"], ["throw", "PlanHalt"], ["throw", "KeyboardInterrupt"], ["throw", "RequestAbort"]]
ALPHA = {"core": CORE, "wide": WIDE}

Y = lambda m, x=None: ["yield", x, m]      # noqa: E731


def seq(*xs):
    out = xs[-1]
    for x in reversed(xs[:-1]):
        out = ["seq", x, out]
    return out


RET0 = ["return", ["var", 0]]
HOSTS = [
    seq(Y(0, 0), RET0),                                         # r = yield m0; return r
    seq(Y(0), Y(1, 0), RET0),                                   # m0; r = yield m1; return r
    seq(Y(0, 0), Y(0, 1), ["return", ["var", 1]]),              # the same Msg object twice
    ["try", seq(Y(0, 0), RET0), [["exc", seq(Y(2), ["return", ["const", 9]])]], ["pass"], ["pass"]],   # catches
    ["try", Y(0, 0), [], ["pass"], Y(2)],                       # cleanup that yields
    seq(Y(0), Y(1)),
]
# inserted plans; messages 4..9 are theirs; message 4 may itself be rewritten (nested insertion)
PLANS = [
    Y(4),                                                       # one message
    seq(Y(4), Y(5, 0), RET0),                                   # two messages, returns the last response
    ["pass"],                                                   # empty
    seq(Y(4), ["raise", "User1"]),                              # fails after a message
    ["raise", "User1"],                                         # fails at once
    ["try", Y(4), [["exc", ["pass"]]], ["pass"], ["pass"]],     # swallows a thrown exception and returns
    ["try", Y(4), [["exc", Y(5)]], ["pass"], ["pass"]],         # swallows a thrown exception and goes on
    seq(Y(0), Y(5)),                                            # re-yields the original message m0 (head idiom)
    ["try", Y(4), [], ["pass"], Y(5)],                          # own cleanup that yields
]
# inserted plans that TRANSLATE a thrown-in failure: catch it and raise their own / go on and then raise or return
TRANSLATING = [
    ["try", Y(4), [["exc", ["raise", "User1"]]], ["pass"], ["pass"]],                       # except A: raise B
    ["try", Y(4), [["exc", seq(Y(5), ["raise", "User1"])]], ["pass"], ["pass"]],            # except A: yield; raise B
    ["try", Y(4), [["exc", seq(Y(5, 0), ["return", ["var", 0]])]], ["pass"], ["pass"]],     # except A: r = yield; return r
    ["try", Y(4), [[["kind", "User0"], ["raise", "ValueError"]]], ["pass"], Y(5)],          # translate + cleanup message
    seq(Y(4), ["try", Y(5), [["exc", ["raise", "User2"]]], ["pass"], ["pass"]]),            # translate at the 2nd message
]
NESTED = {4: [Y(6), Y(7)]}                                      # message 4 of an inserted plan gets its own head/tail


def tables():
    out = []
    for h in PLANS:
        out.append({0: [h, None]})
    for t in PLANS[:7]:
        out.append({0: [None, t]})                               # single_gen(msg) + tail
    for h, t in itertools.product(PLANS[:8], PLANS[:7]):
        out.append({0: [h, t]})
    for x in TRANSLATING:
        out.append({0: [x, None]})
        out.append({0: [None, x]})
        out.append({0: [x, PLANS[0]]})
        out.append({0: [PLANS[0], x]})
        out.append({0: [x, x]})
    out.append({0: [TRANSLATING[0], None], 4: [None, TRANSLATING[1]]})      # translating plans nested in one another
    out.append({0: [PLANS[0], None], 4: [TRANSLATING[0], TRANSLATING[3]]})
    for h in (PLANS[0], PLANS[1], PLANS[5]):
        out.append({0: [h, PLANS[0]], 4: NESTED[4]})             # nested insertion
        out.append({0: [h, None], 1: [None, PLANS[0]]})          # two rewritten host messages
    out.append({})                                               # nothing rewritten
    return out


def cases(rng, tier):
    out = []
    depth = 4 if tier == "quick" else 6
    k = 0
    for tb in tables():
        for hi, host in enumerate(HOSTS):
            k += 1
            translating = any(p in TRANSLATING for v in tb.values() for p in v)
            if tier == "quick" and k % 3 and not (translating and hi in (0, 3, 4)):
                continue
            wide = (k % 7 == 0)
            out.append({"host": host, "table": {str(m): v for m, v in tb.items()}, "alpha": "wide" if wide else "core",
                        "depth": depth - 2 if wide else depth - (1 if len(tb) > 1 else 0)})
    nrand = 120 if tier == "quick" else 3000
    for _ in range(nrand):
        host = G.rand_stmt(rng, rng.randint(3, 9))
        tb = {}
        for m in rng.sample(range(4), rng.randint(1, 3)):
            h = G.rand_stmt(rng, rng.randint(1, 6)) if rng.random() < 0.7 else None
            t = G.rand_stmt(rng, rng.randint(1, 5)) if rng.random() < 0.6 else None
            tb[str(m)] = [h, t]
        out.append({"host": host, "table": tb, "alpha": "wide", "depth": 3, "rand": True})
    return out


class Proc:
    """table-driven msg_proc; mirrors the model's identity allocation (head = n, tail = n + 1)."""

    def __init__(self, table, log):
        self.table, self.log, self.n, self.mute = table, log, 1, []

    def __call__(self, msg):
        ent = self.table.get(str(G.msg_id(msg)))
        if ent is None or (ent[0] is None and ent[1] is None):
            return None, None
        n = self.n
        self.n += 2
        head = G.make_gen(ent[0], n, self.log) if ent[0] is not None else None
        tail = G.make_gen(ent[1], n + 1, self.log) if ent[1] is not None else None
        if head is None:
            self.mute.append(n)              # plan_mutator makes single_gen(msg) itself: not instrumented
        return head, tail


MUTE = []


def build(case, log):
    from bluesky.preprocessors import plan_mutator
    proc = Proc(case["table"], log)
    MUTE.append(proc)
    return plan_mutator(G.make_gen(case["host"], 0, log), proc)


def reference(case, log):
    """The documented behaviour, written independently as a recursive expansion with `yield from`:
    head runs first, the response to its last message is what the rewritten plan receives, the tail runs
    next with its responses swallowed, every message is offered to msg_proc once, and an exception (thrown
    by the driver at a message, or raised by an inserted plan) goes to the plan that is waiting there -- an
    inserted plan that handles it simply goes on; one that lets it out hands it to the plan it was inserted in."""
    from bluesky.utils import single_gen
    proc = Proc(case["table"], log)
    seen = set()

    def expand(gen):
        resp, exc = None, None
        try:
            m = gen.send(None)
        except StopIteration as e:
            return e.value, resp
        while True:
            head = tail = None
            if id(m) not in seen:
                seen.add(id(m))
                head, tail = proc(m)
            try:
                if head is not None or tail is not None:
                    _, resp = yield from expand(head if head is not None else single_gen(m))
                    if tail is not None:
                        yield from expand(tail)
                else:
                    resp = yield m
            except Exception as ex:     # noqa: BLE001
                exc = ex
            try:
                if exc is not None:
                    ex, exc, resp = exc, None, None
                    m = gen.throw(ex)
                else:
                    m = gen.send(resp)
            except StopIteration as e:
                return e.value, resp

    def top():
        v, _ = yield from expand(G.make_gen(case["host"], 0, log))
        return v
    return top()


def impl(case):
    def make():
        log = []
        return build(case, log), log
    scripts = [s for s, _, _ in G.explore(make, ALPHA[case["alpha"]], case["depth"])]
    runs = []
    for s in scripts:
        del MUTE[:]
        t, l = G.run_script(make, s)
        mute = sorted(MUTE[0].mute)
        if all(i[0] == "send" or (i[0] == "throw" and i[1] in G.EXCEPTION_KINDS) for i in s):
            def mkref():
                log = []
                return reference(case, log), log
            tr, lr = G.run_script(mkref, s)
        else:
            tr, lr = None, None
        runs.append([s, t, l, tr, lr, mute])
    del G.KEEP[:]
    del MUTE[:]
    return {"runs": runs}


def c_ostmt(p):
    return "None" if p is None else "(Some %s)" % G.to_coq(p)


def coq_term(case, obs):
    tbl = "[" + "; ".join("(%s, (%s, %s))" % (m, c_ostmt(v[0]), c_ostmt(v[1])) for m, v in sorted(case["table"].items())) + "]"
    items = []
    for s, t, l, _, _, mute in obs["runs"]:
        lt = "[" + "; ".join("(%s, %s)" % (G.c_obs(o), G.c_calls(cs)) for o, cs in zip(t, l)) + "]"
        items.append("(%s, [%s], %s)" % (G.c_script(s), "; ".join(str(x) for x in mute), lt))
    return "c21_case %s %s [%s]" % (G.to_coq(case["host"]), tbl, "; ".join(items))


def _raises_base_only(p):
    if p[0] == "raise":
        return p[1] in G.BASE_ONLY_KINDS
    if p[0] == "seq":
        return _raises_base_only(p[1]) or _raises_base_only(p[2])
    if p[0] == "if":
        return _raises_base_only(p[2]) or _raises_base_only(p[3])
    if p[0] in ("yf", "for"):
        return _raises_base_only(p[2])
    if p[0] == "try":
        return (_raises_base_only(p[1]) or any(_raises_base_only(b) for _, b in p[2]) or _raises_base_only(p[3])
                or _raises_base_only(p[4]))
    return False


def oracle(case, obs):
    """On every script of responses and thrown Exception kinds (plans that raise only Exception kinds): the
    mutated plan is the documented expansion -- same messages, same outcome, and every plan (host, heads,
    tails) receives the same responses / exceptions."""
    plans = [case["host"]] + [p for v in case["table"].values() for p in v if p is not None]
    if any(_raises_base_only(p) for p in plans):
        return None
    for s, t, l, tr, lr, _ in obs["runs"]:
        if tr is not None and (t != tr or l != lr):
            return "script %s: plan_mutator gives %s / %s, the documented expansion gives %s / %s" % (s, t, l, tr, lr)
    return None


def finding(case, obs):
    return None


def nontrivial(case, obs):
    return any(len(r[1]) >= 3 for r in obs["runs"]) and any(e[0] != 0 for r in obs["runs"] for sl in r[2] for e in sl)


def describe(case):
    tb = case["table"]
    kinds = sorted(("h" if v[0] is not None else "") + ("t" if v[1] is not None else "") for v in tb.values())
    return "%s rewritten=%s" % ("rand" if case.get("rand") else "palette", ",".join(kinds) or "none")
