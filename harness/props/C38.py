"""C38 - truncate_json_overflow makes any numeric payload JSON-safe without changing safe values.

Inputs are value trees (JSON description -> real Python/numpy objects); the observation is the
returned object, described in the same vocabulary with exact types (type(x) is int / bool / float /
np.float64 / other numpy scalar kinds / dict / list ...) and exact values (ints as ints, floats as
float.hex()).  The Coq term says: the model maps this input to exactly this output.
"""
import math
from fractions import Fraction

ID = "C38"
PROP_FILE = "Props/C38.v"
THEOREMS = ["C38_truncate_json_safe", "C38_outside_finding_class", "C38_in_range_unchanged", "C38_source_literals"]
COQ_IMPORTS = "From BV Require Import Pure.Truncate.\nFrom Coq Require Import ZArith NArith."
MODELLED = ("bluesky.utils.truncate_json_overflow is modelled on value trees (mapping / 0-d array / other iterable / leaf) with "
            "exact numbers (Z; binary floats of any width as extended dyadics n/2^k, +-inf, nan) and the isinstance dispatch "
            "per leaf kind; its numeric literals are re-read from the source on every run (coq/gen/TruncTables.v). Trusted: "
            "Python/numpy comparison, `% 1`, min/max on these exact values; numpy's iteration of n-d arrays (rows, then scalars "
            "of the array dtype); dict ordering. Not modelled: sets/generators/other iterables (unordered or one-shot), "
            "Fraction/Decimal, dtype=object arrays.")
RULE = ("exhaustive: every leaf of the pools (Python ints around +-(2^53-1), 2^60, 2^63, 2^64, 10^30, 2^200; bools; floats incl. "
        "+-0.0, 2^53-1, 2^53, 1e300, 1.7976e308, 1.7977e308, DBL_MAX, 5e-324, +-inf, nan; numpy ints of 8 dtypes at their limits; "
        "np.float64/32/16/longdouble incl. inf/nan; opaque: None, str, np.bool_, np.str_, complex, np.timedelta64) alone and inside "
        "each container kind (list, tuple, dict, OrderedDict, MappingProxy, bytes, 0-d array, 1-d/2-d array of the leaf's dtype), "
        "all two-level container nestings; random: trees of depth<=4, width<=4, arrays of random dtype/shape (zero-length axes "
        "included). non-trivial = at least one leaf changed and at least one numeric leaf kept")

MAXI = 2 ** 53 - 1
STRS = ["", "abc", "Hello, world!", "inf", "a", "b"]
CPLX = [3 + 4j, complex(1e300, 0)]
KEYS = ["a", "b", "c", "d", 0, 1, 2 ** 60, "x y"]

PY_INTS = [0, 1, -1, 42, MAXI - 1, MAXI, MAXI + 1, -MAXI, -MAXI - 1, 2 ** 53 + 1, 2 ** 60, -(2 ** 60), 2 ** 63, 2 ** 64,
           10 ** 30, -(10 ** 30), 2 ** 200]
PY_FLOATS = [0.0, -0.0, 0.5, -1.5, 3.14, 2.0 ** 53 - 1, 2.0 ** 53, -(2.0 ** 53), -(2.0 ** 53 - 1), 2.0 ** 53 + 2, 1e16, 1e300, -1e300,
             1.7976e308, -1.7976e308, 1.7977e308, -1.7977e308, 1.7976931348623157e308, 5e-324, 2.0 ** 52 + 0.5,
             math.inf, -math.inf, math.nan]
NP_INTS = {"int8": [-128, 127, 5], "uint8": [0, 255], "int16": [-32768, 7], "int32": [-2 ** 31, 2 ** 31 - 1],
           "uint32": [2 ** 32 - 1], "int64": [0, MAXI, MAXI + 1, -MAXI, -MAXI - 1, 2 ** 60, -(2 ** 60), 2 ** 63 - 1, -(2 ** 63)],
           "uint64": [0, MAXI, MAXI + 1, 2 ** 63, 2 ** 64 - 1]}
NP_FLOATS = {"float64": PY_FLOATS,
             "float32": [1.5, 0.0, 1e30, -1e30, 2.0 ** 53, 3.4028234663852886e38, math.inf, -math.inf, math.nan],
             "float16": [0.5, 65504.0, math.inf, -math.inf, math.nan],
             "longdouble": [1.5, 1e300, 2.0 ** 53, math.inf, -math.inf, math.nan]}


def fhex(x):
    x = float(x)
    return "nan" if math.isnan(x) else x.hex()


def n_int(v):
    return {"t": "int", "v": v}


def n_float(x):
    return {"t": "float", "v": fhex(x)}


def n_npint(dt, v):
    return {"t": "npint", "dt": dt, "v": v}


def n_npfloat(dt, x):
    return {"t": "npfloat", "dt": dt, "v": fhex(_round(dt, x))}


def _round(dt, x):
    """the value a float of this numpy dtype actually holds"""
    import numpy as np
    if dt in ("float64", "longdouble"):
        return float(x)
    with np.errstate(all="ignore"):
        return float(getattr(np, dt)(x))


def opaque_pool():
    out = [{"t": "opaque", "k": "none"}]
    out += [{"t": "opaque", "k": "str", "i": i} for i in range(len(STRS))]
    out += [{"t": "opaque", "k": "npstr", "i": i} for i in (1, 4)]
    out += [{"t": "opaque", "k": "npbool", "i": i} for i in (0, 1)]
    out += [{"t": "opaque", "k": "complex", "i": i} for i in range(len(CPLX))]
    out += [{"t": "opaque", "k": "npcomplex", "i": 0}]
    out += [{"t": "opaque", "k": "timedelta", "i": i} for i in (0, 5)]
    return out


def leaf_pool():
    out = [n_int(v) for v in PY_INTS] + [{"t": "bool", "v": b} for b in (False, True)] + [n_float(x) for x in PY_FLOATS]
    for dt, vs in NP_INTS.items():
        out += [n_npint(dt, v) for v in vs]
    for dt, vs in NP_FLOATS.items():
        out += [n_npfloat(dt, x) for x in vs]
    return out + opaque_pool()


def arr_of(leaf, shape):
    """an array filled with one numpy leaf (dtype taken from the leaf)"""
    n = 1
    for s in shape:
        n *= s
    if leaf["t"] == "opaque":
        return {"t": "arr", "dt": {"npbool": "bool", "npstr": "str"}[leaf["k"]], "shape": list(shape), "vals": [leaf["i"]] * n}
    return {"t": "arr", "dt": leaf["dt"], "shape": list(shape), "vals": [leaf["v"]] * n}


def is_np(leaf):
    return leaf["t"] in ("npint", "npfloat") or (leaf["t"] == "opaque" and leaf["k"] in ("npbool", "npstr"))


def wrap(kind, nodes):
    if kind in ("list", "tuple"):
        return {"t": kind, "xs": nodes}
    return {"t": "map", "kind": kind, "kvs": [[i, n] for i, n in enumerate(nodes)]}


CONTAINERS = ["list", "tuple", "dict", "ordered", "proxy"]


def rand_leaf(rng, pool):
    return rng.choice(pool)


def rand_arr(rng):
    dt = rng.choice(list(NP_INTS) + list(NP_FLOATS) + ["bool", "str"])
    shape = [rng.choice([0, 1, 2, 3]) for _ in range(rng.choice([0, 1, 1, 2, 2, 3]))]
    n = 1
    for s in shape:
        n *= s
    if dt in NP_INTS:
        vals = [rng.choice(NP_INTS[dt]) for _ in range(n)]
    elif dt in NP_FLOATS:
        vals = [fhex(_round(dt, rng.choice(NP_FLOATS[dt] + [rng.uniform(-100, 100)]))) for _ in range(n)]
    elif dt == "bool":
        vals = [rng.choice([0, 1]) for _ in range(n)]
    else:
        vals = [rng.choice([1, 4]) for _ in range(n)]
    return {"t": "arr", "dt": dt, "shape": shape, "vals": vals}


def rand_tree(rng, pool, depth):
    x = rng.random()
    if depth == 0 or x < 0.35:
        return rand_leaf(rng, pool)
    if x < 0.5:
        return rand_arr(rng)
    if x < 0.55:
        return {"t": "bytes", "v": [rng.randrange(256) for _ in range(rng.randint(0, 3))]}
    kind = rng.choice(CONTAINERS)
    kids = [rand_tree(rng, pool, depth - 1) for _ in range(rng.randint(0, 4))]
    if kind in ("list", "tuple"):
        return {"t": kind, "xs": kids}
    keys = rng.sample(range(len(KEYS)), len(kids))
    return {"t": "map", "kind": kind, "kvs": [[k, n] for k, n in zip(keys, kids)]}


def cases(rng, tier):
    pool = leaf_pool()
    out = []
    for lf in pool:
        out.append({"v": lf})
        for kind in CONTAINERS:
            out.append({"v": wrap(kind, [lf])})
        if is_np(lf):
            out.append({"v": arr_of(lf, [])})
            out.append({"v": arr_of(lf, [2])})
            out.append({"v": arr_of(lf, [2, 1])})
            out.append({"v": {"t": "map", "kind": "dict", "kvs": [[0, arr_of(lf, [])], [1, arr_of(lf, [1, 2])]]}})
    out.append({"v": {"t": "bytes", "v": [0, 97, 255]}})
    out.append({"v": {"t": "bytes", "v": []}})
    # two-level nestings with a mixed payload
    payload = [n_int(2 ** 60), n_int(7), n_float(math.inf), n_float(3.14), n_npint("int64", -(2 ** 60)), n_npfloat("float64", 1e300),
               {"t": "opaque", "k": "str", "i": 1}]
    for k1 in CONTAINERS:
        for k2 in CONTAINERS:
            out.append({"v": wrap(k1, [wrap(k2, payload), n_int(-(2 ** 60)), wrap(k2, [])])})
    # the shapes of the existing unit test
    out.append({"v": {"t": "map", "kind": "dict", "kvs": [[0, n_int(2 ** 60)], [1, n_int(-(2 ** 60))]]}})
    out.append({"v": wrap("list", [wrap("list", [n_int(2 ** 60), n_int(-(2 ** 60))]), wrap("list", [n_float(math.inf), n_float(-math.inf)])])})
    nrand = 500 if tier == "quick" else 12000
    for _ in range(nrand):
        out.append({"v": rand_tree(rng, pool, rng.choice([1, 2, 2, 3, 4]))})
    return out


# ----------------------------------------------------------------------------- building / describing objects

def _np_scalar(np, dt, v):
    if dt == "longdouble":
        return np.longdouble(v)
    return getattr(np, dt)(v)


def build(node):
    import collections
    import types
    import numpy as np
    t = node["t"]
    if t == "int":
        return int(node["v"])
    if t == "bool":
        return bool(node["v"])
    if t == "float":
        return float("nan") if node["v"] == "nan" else float.fromhex(node["v"])
    if t == "npint":
        return _np_scalar(np, node["dt"], node["v"])
    if t == "npfloat":
        return _np_scalar(np, node["dt"], float("nan") if node["v"] == "nan" else float.fromhex(node["v"]))
    if t == "opaque":
        k = node["k"]
        if k == "none":
            return None
        if k == "str":
            return STRS[node["i"]]
        if k == "npstr":
            return np.str_(STRS[node["i"]])
        if k == "npbool":
            return np.bool_(bool(node["i"]))
        if k == "complex":
            return CPLX[node["i"]]
        if k == "npcomplex":
            return np.complex128(CPLX[node["i"]])
        if k == "timedelta":
            return np.timedelta64(node["i"], "s")
        raise ValueError(k)
    if t == "list":
        return [build(x) for x in node["xs"]]
    if t == "tuple":
        return tuple(build(x) for x in node["xs"])
    if t == "bytes":
        return bytes(node["v"])
    if t == "map":
        items = [(KEYS[k], build(x)) for k, x in node["kvs"]]
        if node["kind"] == "ordered":
            return collections.OrderedDict(items)
        if node["kind"] == "proxy":
            return types.MappingProxyType(dict(items))
        return dict(items)
    if t == "arr":
        dt = node["dt"]
        if dt in NP_INTS:
            a = np.array([int(v) for v in node["vals"]], dtype=dt)
        elif dt in NP_FLOATS:
            a = np.array([float("nan") if v == "nan" else float.fromhex(v) for v in node["vals"]], dtype=dt)
        elif dt == "bool":
            a = np.array([bool(v) for v in node["vals"]], dtype=bool)
        else:
            a = np.array([STRS[v] for v in node["vals"]], dtype="U16")
        return a.reshape(node["shape"])
    raise ValueError(t)


def _dtname(np, x):
    if type(x) is np.longdouble:
        return "longdouble"
    if x.dtype == np.dtype("intp") and type(x) is np.intp and np.dtype("intp") != np.dtype("int64"):
        return "intp"
    return x.dtype.name


def describe_obj(x):
    """exact description of a returned object (types are compared by identity, never by ==)"""
    import numpy as np
    if x is None:
        return {"t": "opaque", "k": "none"}
    ty = type(x)
    if ty is bool:
        return {"t": "bool", "v": x}
    if ty is int:
        return {"t": "int", "v": x}
    if ty is float:
        return {"t": "float", "v": fhex(x)}
    if ty is str:
        return {"t": "opaque", "k": "str", "i": STRS.index(x)}
    if ty is complex:
        return {"t": "opaque", "k": "complex", "i": CPLX.index(x)}
    if ty is np.str_:
        return {"t": "opaque", "k": "npstr", "i": STRS.index(str(x))}
    if ty is np.bool_:
        return {"t": "opaque", "k": "npbool", "i": int(bool(x))}
    if ty is np.complex128:
        return {"t": "opaque", "k": "npcomplex", "i": CPLX.index(complex(x))}
    if ty is np.timedelta64:
        return {"t": "opaque", "k": "timedelta", "i": int(x.astype("int64"))}
    if isinstance(x, np.integer):
        dt = _dtname(np, x)
        return {"t": "npint", "dt": "int64" if dt == "intp" else dt, "v": int(x)}
    if isinstance(x, np.floating):
        return {"t": "npfloat", "dt": _dtname(np, x), "v": fhex(x)}
    if ty is list:
        return {"t": "list", "xs": [describe_obj(y) for y in x]}
    if ty is tuple:
        return {"t": "tuple", "xs": [describe_obj(y) for y in x]}
    if ty is dict:
        kvs = []
        for k, v in x.items():
            idx = [i for i, kk in enumerate(KEYS) if type(kk) is type(k) and kk == k]
            kvs.append([idx[0] if idx else -1, describe_obj(v)])
        return {"t": "map", "kind": "dict", "kvs": kvs}
    if isinstance(x, np.ndarray):
        return {"t": "other", "what": "ndarray"}
    return {"t": "other", "what": ty.__name__}


def impl(case):
    import warnings
    from bluesky.utils import truncate_json_overflow
    obj = build(case["v"])
    with warnings.catch_warnings():
        warnings.simplefilter("ignore")
        try:
            res = truncate_json_overflow(obj)
        except Exception as e:
            return {"error": type(e).__name__}
    return {"out": describe_obj(res)}


# ----------------------------------------------------------------------------- Coq side

def zexpr(n):
    n = int(n)
    if abs(n) < 1 << 62:
        return "(%d)" % n
    e = (n & -n).bit_length() - 1
    m = n >> e
    if abs(m) >= 1 << 62:
        return "(%s * 2 ^ 62 + %d)" % (zexpr(n >> 62), n & ((1 << 62) - 1))
    return "(%d * 2 ^ %d)" % (m, e)


def xfl(h):
    if h == "nan":
        return "XNaN"
    x = float.fromhex(h)
    if math.isinf(x):
        return "XPInf" if x > 0 else "XNInf"
    if x == 0 and math.copysign(1, x) < 0:
        return "(XFin 0 1%N)"          # -0.0: value 0, kept distinct from +0.0
    f = Fraction(x)
    n, d = f.numerator, f.denominator
    if d == 1:
        e = (n & -n).bit_length() - 1 if n else 0
        return "(xdy (%d) %d)" % (n >> e, e)
    return "(xdy (%d) (%d))" % (n, -(d.bit_length() - 1))


OPQ_BASE = {"none": 0, "str": 100, "npstr": 200, "npbool": 300, "complex": 400, "npcomplex": 700, "timedelta": 500}


def coq_leaf(node):
    t = node["t"]
    if t == "int":
        return "(LInt %s)" % zexpr(node["v"])
    if t == "bool":
        return "(LBool %s)" % ("true" if node["v"] else "false")
    if t == "float":
        return "(LFloat %s)" % xfl(node["v"])
    if t == "npint":
        return "(LNpInt %s)" % zexpr(node["v"])
    if t == "npfloat":
        return "(%s %s)" % ("LNpF64" if node["dt"] == "float64" else "LNpFOther", xfl(node["v"]))
    if t == "opaque":
        return "(LOpaque %d)" % (OPQ_BASE[node["k"]] + node.get("i", 0))
    raise ValueError(t)


def cl(xs):
    xs = list(xs)
    return "(" + "".join("cons %s (" % x for x in xs) + "nil" + ")" * len(xs) + ")"


def _arr_leaf(dt, v):
    if dt in NP_INTS:
        return n_npint(dt, v)
    if dt in NP_FLOATS:
        return {"t": "npfloat", "dt": dt, "v": v}
    return {"t": "opaque", "k": "npbool" if dt == "bool" else "npstr", "i": v}


def coq_val(node):
    t = node["t"]
    if t in ("list", "tuple"):
        return "(VSeq %s %s)" % ("KList" if t == "list" else "KTuple", cl(coq_val(x) for x in node["xs"]))
    if t == "bytes":
        return "(VSeq KBytes %s)" % cl("(VLeaf (LInt %d))" % b for b in node["v"])
    if t == "map":
        return "(VMap %s)" % cl("(%d%%Z, %s)" % (k, coq_val(x)) for k, x in node["kvs"])
    if t == "arr":
        shape, vals, dt = node["shape"], node["vals"], node["dt"]
        if not shape:
            return "(VArr0 %s)" % coq_leaf(_arr_leaf(dt, vals[0]))

        def rows(sh, vs):
            if len(sh) == 1:
                return "(VSeq KArr %s)" % cl("(VLeaf %s)" % coq_leaf(_arr_leaf(dt, v)) for v in vs)
            step = len(vs) // sh[0] if sh[0] else 0
            return "(VSeq KArr %s)" % cl(rows(sh[1:], vs[i * step:(i + 1) * step]) for i in range(sh[0]))

        return rows(shape, vals)
    if t == "other":
        return None
    return "(VLeaf %s)" % coq_leaf(node)


def in_leaves(node):
    """(input leaf description, path) for every leaf of an input tree, arrays expanded"""
    t = node["t"]
    if t in ("list", "tuple"):
        for x in node["xs"]:
            yield from in_leaves(x)
    elif t == "bytes":
        for b in node["v"]:
            yield n_int(b)
    elif t == "map":
        for _, x in node["kvs"]:
            yield from in_leaves(x)
    elif t == "arr":
        for v in node["vals"]:
            yield _arr_leaf(node["dt"], v)
    else:
        yield node


def finding(case, obs):
    for lf in in_leaves(case["v"]):
        if lf["t"] == "npfloat" and lf["dt"] != "float64" and lf["v"] in (fhex(math.inf), fhex(-math.inf)):
            return "b"
    return None


def _has_other(node):
    if node["t"] == "other":
        return True
    if node["t"] in ("list", "tuple"):
        return any(_has_other(x) for x in node["xs"])
    if node["t"] == "map":
        return any(k < 0 or _has_other(x) for k, x in node["kvs"])
    return False


def coq_term(case, obs):
    if "error" in obs or _has_other(obs["out"]):
        return "false"          # the model never raises and never returns anything but dict/list/leaf
    return "case_ok %s %s %s" % (coq_val(case["v"]), coq_val(obs["out"]), "true" if finding(case, obs) == "b" else "false")


# ----------------------------------------------------------------------------- oracle (the property, impl side)

def _leaf_value(lf):
    if lf["t"] in ("int", "npint"):
        return "int", int(lf["v"])
    if lf["t"] in ("float", "npfloat"):
        return "float", (float("nan") if lf["v"] == "nan" else float.fromhex(lf["v"]))
    return "other", None


def _safe(lf):
    kind, v = _leaf_value(lf)
    if kind == "int":
        return -MAXI <= v <= MAXI
    if kind == "float":
        return not math.isinf(v)
    return True


def _in_range(lf):
    kind, v = _leaf_value(lf)
    if kind == "int":
        return -MAXI <= v <= MAXI
    if kind == "float":
        if lf["t"] == "npfloat" and lf["dt"] != "float64":
            return True
        if math.isinf(v):
            return False
        return math.isnan(v) or v != math.floor(v) or -MAXI <= v <= MAXI
    return True


def _cmp(inp, out, path):
    """same shape + per-leaf guarantees; returns a message or None"""
    t = inp["t"]
    if t in ("list", "tuple", "bytes", "arr") and not (t == "arr" and not inp["shape"]):
        if t == "bytes":
            kids = [n_int(b) for b in inp["v"]]
        elif t == "arr":
            sh, vs = inp["shape"], inp["vals"]
            if len(sh) == 1:
                kids = [_arr_leaf(inp["dt"], v) for v in vs]
            else:
                step = len(vs) // sh[0] if sh[0] else 0
                kids = [{"t": "arr", "dt": inp["dt"], "shape": sh[1:], "vals": vs[i * step:(i + 1) * step]} for i in range(sh[0])]
        else:
            kids = inp["xs"]
        if out["t"] != "list":
            return "%s: a sequence became %s" % (path, out["t"])
        if len(out["xs"]) != len(kids):
            return "%s: length %d became %d" % (path, len(kids), len(out["xs"]))
        for i, (a, b) in enumerate(zip(kids, out["xs"])):
            why = _cmp(a, b, "%s[%d]" % (path, i))
            if why:
                return why
        return None
    if t == "map":
        if out["t"] != "map":
            return "%s: a mapping became %s" % (path, out["t"])
        if [k for k, _ in inp["kvs"]] != [k for k, _ in out["kvs"]]:
            return "%s: keys changed" % path
        for (k, a), (_, b) in zip(inp["kvs"], out["kvs"]):
            why = _cmp(a, b, "%s[%r]" % (path, KEYS[k]))
            if why:
                return why
        return None
    lf = _arr_leaf(inp["dt"], inp["vals"][0]) if t == "arr" else inp
    if out["t"] in ("list", "tuple", "map", "other"):
        return "%s: a scalar became %s" % (path, out["t"])
    if not _safe(out):
        return "%s: %r comes back as %r, which is not JSON-safe" % (path, lf, out)
    if _in_range(lf) and out != lf:
        return "%s: %r was already in range but comes back as %r" % (path, lf, out)
    return None


def oracle(case, obs):
    if "error" in obs:
        return "raised %s on a structure of mappings, sequences and numbers" % obs["error"]
    return _cmp(case["v"], obs["out"], "$")


def nontrivial(case, obs):
    if "out" not in obs:
        return False
    ins = list(in_leaves(case["v"]))
    numeric = [lf for lf in ins if lf["t"] in ("int", "float", "npint", "npfloat")]
    return any(not _in_range(lf) for lf in numeric) and any(_in_range(lf) for lf in numeric)


def describe(case):
    def depth(n):
        if n["t"] in ("list", "tuple"):
            return 1 + max([depth(x) for x in n["xs"]] + [0])
        if n["t"] == "map":
            return 1 + max([depth(x) for _, x in n["kvs"]] + [0])
        if n["t"] == "arr":
            return len(n["shape"])
        if n["t"] == "bytes":
            return 1
        return 0
    kinds = sorted({lf["t"] for lf in in_leaves(case["v"])})
    return "depth=%d leaves=%s" % (depth(case["v"]), "+".join(kinds) if kinds else "none")


def model_search(rng, tier):
    """Search the model's boolean restatement (prop_holds) for a failing tree."""
    from harness import core
    pool = leaf_pool()
    cs = [{"v": lf} for lf in pool] + [{"v": rand_tree(rng, pool, 3)} for _ in range(200)]
    terms = ["prop_holds %s" % coq_val(c["v"]) for c in cs]
    try:
        ok, bad, _ = core.eval_cases_in_coq(ID + "search", COQ_IMPORTS, terms)
    except Exception:
        return None
    if ok and bad:
        return {"model_case": cs[bad[0]], "restatement": terms[bad[0]]}
    return None
