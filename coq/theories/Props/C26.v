(* C26 - snaked grids are a continuous back-and-forth ordering of the full grid.
   Model: Pure/Snake.v (snake_cyclers as coded: tile/repeat/concatenate/slice per axis, zipped;
   no-snake shortcut = plain product).  All theorems: for every non-empty axis-length vector with
   every length >= 1 and every flag vector of the same length (no bound on sizes).
     point lens flags t = [idx lens flags 0 t; ...]   with
     digit k t  = (t / R_k) mod L_k,   slower k t = t / (R_k * L_k),   R_k = product of the faster lengths,
     idx k t    = L_k - 1 - digit k t  if axis k is snaked and slower k t is odd, else digit k t.       *)
From BV Require Import Base.Prelude Pure.Snake Proofs.Snake.
From Coq Require Import Permutation.

(* the call succeeds on every valid input *)
Theorem C26_total : forall lens flags, valid_lens lens -> length flags = length lens ->
  exists pts, snake_cyclers lens flags = Some pts.
Proof. exact snake_total. Qed.
Print Assumptions C26_total.

(* (i) closed form of the whole trajectory *)
Theorem C26_closed_form : forall lens flags pts,
  valid_lens lens -> length flags = length lens -> snake_cyclers lens flags = Some pts ->
  length pts = prodl lens /\
  forall t, t < prodl lens ->
    nth t pts [] = point lens flags t /\ length (nth t pts []) = length lens /\
    forall k, k < length lens -> coord (nth t pts []) k = idx lens flags k t.
Proof. exact out_closed_form. Qed.
Print Assumptions C26_closed_form.

(* (ii) the trajectory is a permutation of the full Cartesian product *)
Theorem C26_permutation : forall lens flags pts,
  valid_lens lens -> length flags = length lens -> snake_cyclers lens flags = Some pts ->
  NoDup pts /\ Permutation pts (product lens) /\ (forall p, In p pts <-> In p (product lens)).
Proof. exact out_permutation. Qed.
Print Assumptions C26_permutation.

(* (iii) unsnaked axes (and always the first axis) follow plain product order *)
Theorem C26_unsnaked_product_order : forall lens flags pts,
  valid_lens lens -> length flags = length lens -> snake_cyclers lens flags = Some pts ->
  forall k, k < length lens -> (k = 0 \/ nth k flags false = false) ->
  forall t, t < prodl lens ->
    coord (nth t pts []) k = coord (nth t (product lens) []) k /\ coord (nth t pts []) k = digit lens k t.
Proof. exact out_unsnaked. Qed.
Print Assumptions C26_unsnaked_product_order.

(* (iv-a) whenever a slower coordinate changes between t and t+1, a snaked axis below it keeps its
   index and runs in the opposite direction afterwards *)
Theorem C26_turnaround : forall lens flags pts,
  valid_lens lens -> length flags = length lens -> snake_cyclers lens flags = Some pts ->
  forall j k t, j < k < length lens -> t + 1 < prodl lens ->
    coord (nth (t + 1) pts []) j <> coord (nth t pts []) j ->
    nth k flags false = true ->
    coord (nth (t + 1) pts []) k = coord (nth t pts []) k /\
    Nat.odd (slower lens k (t + 1)) = negb (Nat.odd (slower lens k t)).
Proof. exact out_turnaround. Qed.
Print Assumptions C26_turnaround.

(* (iv-b) every step: one axis j moves by exactly one; slower axes stay; faster snaked axes stay,
   faster unsnaked axes wrap from L-1 to 0; so if all faster axes are snaked exactly one coordinate changes *)
Theorem C26_continuity : forall lens flags pts,
  valid_lens lens -> length flags = length lens -> snake_cyclers lens flags = Some pts ->
  forall t, t + 1 < prodl lens ->
  exists j, j < length lens /\
    (forall i, i < j -> coord (nth (t + 1) pts []) i = coord (nth t pts []) i) /\
    adj (coord (nth t pts []) j) (coord (nth (t + 1) pts []) j) /\
    (forall i, j < i < length lens ->
       if nth i flags false then coord (nth (t + 1) pts []) i = coord (nth t pts []) i
       else coord (nth t pts []) i = nth i lens 0 - 1 /\ coord (nth (t + 1) pts []) i = 0) /\
    ((forall i, j < i < length lens -> nth i flags false = true) ->
       forall i, i < length lens -> i <> j -> coord (nth (t + 1) pts []) i = coord (nth t pts []) i).
Proof. exact out_step. Qed.
Print Assumptions C26_continuity.

(* (v) the first flag makes no difference *)
Theorem C26_first_flag_irrelevant : forall lens flags b b', valid_lens lens ->
  snake_cyclers lens (b :: flags) = snake_cyclers lens (b' :: flags).
Proof. exact first_flag_irrelevant. Qed.
Print Assumptions C26_first_flag_irrelevant.

(* ---- non-vacuity: a concrete 2 x 3 x 2 grid with both inner axes snaked *)
Example C26_nonvacuous :
  valid_lens [2; 3; 2] /\ length [false; true; true] = length [2; 3; 2] /\
  snake_cyclers [2; 3; 2] [false; true; true] =
    Some [[0;0;0]; [0;0;1]; [0;1;1]; [0;1;0]; [0;2;0]; [0;2;1];
          [1;2;1]; [1;2;0]; [1;1;0]; [1;1;1]; [1;0;1]; [1;0;0]].
Proof.
  split; [split; [discriminate|repeat constructor]|]. split; [reflexivity|vm_compute; reflexivity].
Qed.

(* the hypotheses of C26_turnaround are met: between t=5 and t=6 axis 0 changes, axes 1 and 2 stay *)
Example C26_turnaround_nonvacuous :
  exists pts, snake_cyclers [2; 3; 2] [false; true; true] = Some pts /\
    0 < 1 < 3 /\ 5 + 1 < prodl [2; 3; 2] /\
    coord (nth (5 + 1) pts []) 0 <> coord (nth 5 pts []) 0 /\ nth 1 [false; true; true] false = true /\
    coord (nth (5 + 1) pts []) 1 = coord (nth 5 pts []) 1.
Proof. eexists. split; [vm_compute; reflexivity|]. vm_compute. repeat split; try lia; discriminate. Qed.

(* a mixed case (middle axis unsnaked) where the unsnaked axis wraps: more than one coordinate changes *)
Example C26_mixed_nonvacuous :
  snake_cyclers [2; 2; 2] [false; false; true] =
    Some [[0;0;0]; [0;0;1]; [0;1;1]; [0;1;0]; [1;0;0]; [1;0;1]; [1;1;1]; [1;1;0]].
Proof. vm_compute. reflexivity. Qed.
