"""C08 - RunEngineInterrupted means paused unless the plan was terminated."""
from harness.props.engine_common import *  # noqa: F401,F403  (impl_batch/nontrivial/describe/... shared by the engine family)
from harness.props import engine_common as ec
from harness.drivers import engine_cases_c08, engine_encode

ID = "C08"
PROP_FILE = "Props/C08.v"
THEOREMS = ["C08_interrupted_means_paused", "C08_a_refuted", "C08_b_refuted", "C08_c_refuted"]
COQ_IMPORTS = ec.COQ_IMPORTS + "\nFrom BV Require Import Proofs.RE_Intr."
RULE = ec.RULE + (
    "; plus C08 cases: one pause at every `_run` step index up to 6 steps past the last message (final sleep and beyond) for "
    "6 (thorough: 9) templates, with interruption recording and deferred variants; pause/deferred pause/suspension inside "
    "non-resumable sections; stop/abort/halt landing while the engine is pausing/suspending (refused requests); a pause after a "
    "refused stop. Every case also evaluates, in Coq, the schedule well-formedness hypothesis of the theorem (wf_run) on the "
    "logged schedule and the finding class of every RE()/resume() outcome, compared with the Python mirror")

TRANSIENT = ("aborting", "stopping", "halting")
TERM = ("abort", "stop", "halt")


def cases(rng, tier):
    return ec.gen_cases(rng, tier) + engine_cases_c08.gen(rng, tier)


# ----------------------------------------------------------------------------- reading the log

MAKES = {"abort": ("aborting",), "stop": ("stopping",), "halt": ("halting",), "pause": ("pausing",),
         "suspend": ("aborting", "suspending")}


def calls_of(obs):
    """One record per RE(...)/RE.resume() of the case, in order, with what the log shows between the
    start of that call and its outcome:
      out       the outcome (ec.outs_of format)
      open      indices of the runs opened so far (by any call) that have no stop document yet
      pid       the plan the call runs (index into obs["tapes"])
      timeline  in order: ("state", old, new, by) lifecycle changes (by = kind of the request coroutine that made
                it, None = made by `_run`) and ("req", kind, ok, before, how) request coroutines (before = engine
                state when the coroutine started)
      failed_pause  a FailedPause was thrown into a plan
    Request coroutines are atomic on the loop: a lifecycle change made by one is directly followed (documents
    aside) by that request's own 'req' entry."""
    req_done = [e for e in obs["sched"] if e[0] == "req_done"]
    seq = obs["obs"]
    recs = []
    cur = None
    state = "idle"
    open_runs = []
    nreq = 0
    ncall = 0
    pid = None
    for i, o in enumerate(seq):
        k = o[0]
        if k == "main":
            if o[1] == "call":
                pid = ncall
                ncall += 1
            cur = {"action": o[1], "timeline": [], "failed_pause": False, "pid": pid}
        elif k == "state":
            by = None
            j = i + 1
            while j < len(seq) and seq[j][0] == "doc":
                j += 1
            if j < len(seq) and seq[j][0] == "req" and nreq < len(req_done) and o[2] in MAKES.get(req_done[nreq][1], ()):
                by = req_done[nreq][1]
            if cur is not None:
                cur["timeline"].append(("state", o[1], o[2], by))
            state = o[2]
        elif k == "req":
            kind, how = (req_done[nreq][1], req_done[nreq][3]) if nreq < len(req_done) else ("?", "?")
            nreq += 1
            if cur is not None:
                before = state
                tl = cur["timeline"]
                if tl and tl[-1][0] == "state" and tl[-1][3] == kind:
                    before = tl[-1][1]
                tl.append(("req", kind, bool(o[1]), before, how))
        elif k == "doc":
            if o[1] == "start":
                open_runs.append(o[2])
            elif o[1] == "stop" and o[2] in open_runs:
                open_runs.remove(o[2])
        elif k == "plan_in":
            if cur is not None and o[2] == ["throw", "FailedPause"]:
                cur["failed_pause"] = True
        elif k == "out":
            if cur is not None and o[1] in ("call", "resume"):
                cur["out"] = {"action": o[1], "kind": o[2], "state": o[-3], "deferred": o[-2], "resumable": o[-1],
                              "exn": o[3] if o[2] == "raise" else None, "raw": o}
                cur["open"] = list(open_runs)
                recs.append(cur)
            cur = None
    return recs


def terminated(rec):
    """the interruption was an abort/stop/halt that was accepted, or a pause/suspension that hit a
    non-resumable section (FailedPause)"""
    if rec["failed_pause"]:
        return True
    for t in rec["timeline"]:
        if t[0] == "req" and t[1] in TERM and t[2]:
            return True
        if t[0] == "state" and t[2] == "aborting":
            # `_run` itself gives up a pause/suspension without checkpoint
            if t[1] in ("pausing", "suspending") and t[3] is None:
                return True
            # a suspension requested without checkpoint aborts the run
            if t[3] == "suspend":
                return True
    return False


def plan_completed(obs, rec):
    tape = obs["tapes"].get(str(rec["pid"])) if rec["pid"] is not None else None
    return bool(tape) and tape[-1][1][0] == "ret"


def check_call(obs, rec):
    out = rec["out"]
    if out["kind"] == "interrupted":
        if out["state"] == "paused" and out["resumable"]:
            return None
        if out["state"] == "paused":
            return "%s() raised RunEngineInterrupted with the engine paused but not resumable" % out["action"]
        if out["state"] != "idle":
            return "%s() raised RunEngineInterrupted with the engine in state %r" % (out["action"], out["state"])
        if rec["open"]:
            return "%s() raised RunEngineInterrupted with the engine idle but run(s) %s still open" % (out["action"], rec["open"])
        if not terminated(rec):
            return ("%s() raised RunEngineInterrupted with the engine idle although no abort/stop/halt was accepted and no "
                    "pause/suspension hit a non-resumable section" % out["action"])
        return None
    if out["kind"] == "return":
        if out["state"] != "idle":
            return "%s() returned normally with the engine in state %r" % (out["action"], out["state"])
        if not plan_completed(obs, rec):
            return "%s() returned normally although the plan did not run to completion" % out["action"]
        return None
    return None   # the call raised something else: not this property's business


def oracle(case, obs):
    if obs.get("errors"):
        return "driver: " + str(obs["errors"][0])[:200]
    for rec in calls_of(obs):
        why = check_call(obs, rec)
        if why:
            return why
    return None


# ----------------------------------------------------------------------------- finding classes (mirror of RE_Intr.out_class)

def marks(t, out):
    """a stop/abort/halt coroutine marks the engine interrupted unless the engine is idle, accepted or not; so does a
    suspension request made without checkpoint (after the task has ended, resumability is the one reported with the outcome)"""
    if t[0] != "req":
        return False
    return (t[1] in TERM and (t[2] or t[3] != "idle")) or (t[1] == "suspend" and not out["resumable"])


def class_a(rec):
    """a pause accepted while `_run` sat in its final sleep: the last lifecycle changes of the call are
    running -> pausing -> idle, and nothing else marked the engine interrupted after that pause (a stop refused
    while pausing does: class b then; an accepted abort/halt would have changed the state)"""
    out = rec["out"]
    if not (out["kind"] == "interrupted" and out["state"] == "idle"):
        return False
    tl = rec["timeline"]
    st = [k for k, t in enumerate(tl) if t[0] == "state"]
    if len(st) < 2 or tl[st[-2]][1:3] != ("running", "pausing") or tl[st[-1]][1:3] != ("pausing", "idle"):
        return False
    return not any(marks(t, out) for t in tl[st[-2]:])


def class_c(obs_states, rec):
    out = rec["out"]
    return (out["kind"] == "interrupted" and out["state"] in TRANSIENT
            and any(s[1] == "paused" and s[2] == out["state"] for s in obs_states))


def class_b(rec):
    """interrupted + idle + runs closed, a request was refused with TransitionError after it had already set
    _interrupted - a stop/abort/halt while the engine was not idle, or a suspension requested without checkpoint
    (`_request_suspend` marks, then `aborting` is refused, e.g. the task has just ended) - and nothing terminated the plan"""
    out = rec["out"]
    if not (out["kind"] == "interrupted" and out["state"] == "idle") or rec["open"]:
        return False
    refused = [t for t in rec["timeline"] if t[0] == "req" and not t[2] and t[4] == "raise:TransitionError"
               and ((t[1] in TERM and t[3] != "idle") or (t[1] == "suspend" and not out["resumable"]))]
    return bool(refused) and not terminated(rec)


def classes(obs):
    """per RE()/resume() outcome: 1 = class a, 3 = class c, 0 = neither (same codes as RE_Intr.out_class)"""
    states = [o for o in obs["obs"] if o[0] == "state"]
    res = []
    for rec in calls_of(obs):
        if class_a(rec):
            res.append(1)
        elif class_c(states, rec):
            res.append(3)
        else:
            res.append(0)
    return res


def finding(case, obs):
    if obs.get("errors"):
        return None
    states = [o for o in obs["obs"] if o[0] == "state"]
    for rec in calls_of(obs):
        if not check_call(obs, rec):
            continue
        if class_c(states, rec):
            return "c"
        if class_a(rec):
            return "a"
        if class_b(rec):
            return "b"
        return None
    return None


def coq_term(case, obs):
    if obs.get("errors"):
        return None
    try:
        e = engine_encode.Enc(case, obs).encode()
    except engine_encode.Unsupported:
        return None
    cls = "[" + "; ".join(str(c) for c in classes(obs)) + "]"
    return "c08_check %s %s %s %s %s %s %s %s" % (e["tapes"], e["ledger"], e["paus"], e["stag"], e["rec"], e["evs"], e["obs"], cls)
