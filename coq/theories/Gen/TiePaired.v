(* Gen/TiePaired.v -- boolean comparison functions for the generated C23 correspondence cases
   ("the model, run on this case, produces exactly this observation").  MODEL SIDE ONLY.

   Instance of the message encoding used by the tie: a per-case table [tbl : list mview] of every message content
   that occurs; a message id is an index into it, [mk] = first index holding that content ([length tbl] -- an id
   no observation carries -- when the content is not listed), so a wrapper message with unexpected content is a
   mismatch.  Wrapped plans are closed PyGen programs yielding ids of the table.
   Responses: [VInt z] with z >= 50 stands for a Status object, smaller ints and None for anything else. *)
From Coq Require Import String.
From BV Require Import Base.Prelude Gen.Coalg Gen.PyGen Gen.Wrappers Gen.Tie Gen.Paired.

(* strings of the cases files, given by their character codes (no string notation needed there) *)
Fixpoint str (l : list nat) : string :=
  match l with [] => EmptyString | c :: r => String (Ascii.ascii_of_nat c) (str r) end.

Definition mview_eqb (a b : mview) : bool :=
  match a, b with
  | VOpen, VOpen => true
  | VClose s r, VClose s' r' => option_beq String.eqb s s' && option_beq exn_eqb r r'
  | VStage d g, VStage d' g' => Nat.eqb d d' && Nat.eqb g g'
  | VUnstage d g, VUnstage d' g' => Nat.eqb d d' && Nat.eqb g g'
  | VWait g, VWait g' => Nat.eqb g g'
  | VSubscribe f n, VSubscribe f' n' => Nat.eqb f f' && Nat.eqb n n'
  | VUnsubscribe t, VUnsubscribe t' => val_eqb t t'
  | VInstall s, VInstall s' => Nat.eqb s s'
  | VRemove s, VRemove s' => Nat.eqb s s'
  | VMonitor d, VMonitor d' => Nat.eqb d d'
  | VUnmonitor d, VUnmonitor d' => Nat.eqb d d'
  | VKickoff d g, VKickoff d' g' => Nat.eqb d d' && Nat.eqb g g'
  | VComplete d g, VComplete d' g' => Nat.eqb d d' && Nat.eqb g g'
  | VCollect d, VCollect d' => Nat.eqb d d'
  | VCmd c d, VCmd c' d' => Nat.eqb c c' && Nat.eqb d d'
  | _, _ => false
  end.

Fixpoint index_of (v : mview) (tbl : list mview) : nat :=
  match tbl with
  | [] => 0
  | x :: r => if mview_eqb v x then 0 else S (index_of v r)
  end.

Definition mk_t (tbl : list mview) : mview -> msg := fun v => index_of v tbl.
Definition view_t (tbl : list mview) : msg -> mview := fun m => nth m tbl (VCmd 999 999).

Definition is_status_t (v : val) : bool := match v with VInt z => Z.leb 50 z | VNone => false end.

Definition lval_beq := list_beq val_eqb.

(* CPython's iteration order of a set built by adding the given values in order: a finite table computed on the
   implementation side with Python's own set (not from the wrapper); an unlisted argument gives a junk token *)
Fixpoint set_iter_t (t : list (list val * list val)) (l : list val) : list val :=
  match t with
  | [] => [VInt 999999]
  | (k, v) :: r => if lval_beq k l then v else set_iter_t r l
  end.

Fixpoint parent_t (t : list (dev * dev)) (d : dev) : option dev :=
  match t with
  | [] => None
  | (c, p) :: r => if Nat.eqb c d then Some p else parent_t r d
  end.

Definition forest_fuel : nat := 12.

Definition runs_ok {X} (res : X -> input -> outcome X) (init : X) (runs : list (list input * list obs)) : bool :=
  forallb (fun so : list input * list obs => trace_beq (trace res init (fst so)) (snd so)) runs.

Definition c23_stage (parents : list (dev * dev)) (devices : list dev) (tbl : list mview) (plan : stmt)
           (runs : list (list input * list obs)) : bool :=
  match stage_roots (parent_t parents) forest_fuel devices with
  | Some roots =>
      runs_ok (stage_wrapper_resume (cl_resume tie_fuel) (mk_t tbl) is_status_t roots)
              (stage_wrapper_init (mk_t tbl) roots (cl_init plan)) runs
  | None => false
  end.

Definition c23_suspend (susps : list nat) (tbl : list mview) (plan : stmt) (runs : list (list input * list obs)) : bool :=
  runs_ok (suspend_wrapper_resume (cl_resume tie_fuel) (mk_t tbl) is_status_t susps)
          (suspend_wrapper_init (mk_t tbl) susps (cl_init plan)) runs.

Definition c23_subs (subs : list (nat * nat)) (sets : list (list val * list val)) (tbl : list mview) (plan : stmt)
           (runs : list (list input * list obs)) : bool :=
  runs_ok (subs_resume (cl_resume tie_fuel) (mk_t tbl) is_status_t (set_iter_t sets))
          (subs_wrapper_init (mk_t tbl) subs (cl_init plan)) runs.

Definition c23_run (tbl : list mview) (plan : stmt) (runs : list (list input * list obs)) : bool :=
  runs_ok (rw_resume (cl_resume tie_fuel) (mk_t tbl) is_status_t) (run_wrapper_init (cl_init plan)) runs.
