(* Layer 2 of the refined document-stream proof (C05): the operations of Proofs/RE_Docs2.v keep the
   bundler invariant and are accepted by the refined monitor Engine/DocMon2.v, which also tracks the
   checkpoint snapshot of the event counters; hence every run of the engine model is accepted by it
   (for all plans, devices and schedules).  The association-list facts and the bundler invariant
   [Inv_b] are those of Proofs/RE_DocsMon.v. *)
From Coq Require Import List String ZArith Bool Arith Lia.
From BV Require Import Engine.RE Engine.REInst Proofs.RE_Docs Proofs.RE_DocsMon Engine.DocMon2 Proofs.RE_Docs2.
From BV Require Engine.DocMon.
Import ListNotations.
Local Open Scope nat_scope.

Ltac splits := repeat match goal with |- _ /\ _ => split end.

(* ------------------------------------------------------------------ the snapshot, looked up *)
Lemma cnt_copy_le rec b n : Inv_b rec b -> 1 <= cnt (acopy b) n /\ cnt (acopy b) n <= cnt (aseq b) n.
Proof.
  intros Hi. pose proof (cnt_ge1 rec b n Hi) as Hc. destruct Hi as (_ & _ & _ & _ & _ & H6 & _).
  unfold cnt at 1 2. destruct (alookup n (acopy b)) eqn:E; [apply H6 in E; lia | lia].
Qed.

Lemma snap_cnt sq : forall cp n, nodupk sq ->
  cnt (snap sq cp) n = match alookup n sq with Some c => c | None => cnt cp n end.
Proof.
  induction sq as [|[k v] sq IH]; intros cp n Hn; [reflexivity|].
  rewrite snap_cons. unfold nodupk in Hn. cbn [map fst] in Hn. inversion Hn as [|? ? Hnotin Hn']; subst.
  rewrite (IH _ _ Hn'). cbn [alookup]. destruct (Nat.eqb n k) eqn:E.
  - apply Nat.eqb_eq in E; subst. destruct (alookup k sq) eqn:El.
    + exfalso. apply Hnotin. apply alookup_in in El. change k with (fst (k, n)). apply in_map. exact El.
    + rewrite cnt_aset, Nat.eqb_refl. reflexivity.
  - destruct (alookup n sq); [reflexivity|]. rewrite cnt_aset, E. reflexivity.
Qed.

(* an effective checkpoint: the snapshot of every stream is its counter *)
Lemma snapshot_cnt rec b n : Inv_b rec b -> cnt (acopy (a_snapshot b)) n = cnt (aseq b) n.
Proof.
  intros Hi. pose proof (cnt_copy_le rec b n Hi) as [Ha Hb]. pose proof Hi as (_ & _ & H3 & _).
  unfold a_snapshot; cbn [acopy]. rewrite (snap_cnt _ _ _ H3).
  destruct (alookup n (aseq b)) eqn:E.
  - unfold cnt. rewrite E. reflexivity.
  - assert (Hx : cnt (aseq b) n = 1) by (unfold cnt; rewrite E; reflexivity). lia.
Qed.

(* a rewind restores exactly the snapshot and leaves the snapshot alone *)
Lemma rewind_cnt_copy rec b n :
  Inv_b rec b ->
  cnt (acopy (a_rewind b)) n = cnt (acopy b) n /\ cnt (acopy b) n <= cnt (aseq (a_rewind b)) n.
Proof.
  intros Hi. pose proof (cnt_copy_le rec b n Hi) as [Ha Hb]. unfold cnt at 1 4. rewrite rewind_copy, rewind_seq.
  unfold seq0_lookup. destruct (Nat.eqb n INTR) eqn:En.
  - apply Nat.eqb_eq in En; subst n. destruct (alookup INTR (aseq b)) as [ni|] eqn:Ei.
    + split; [reflexivity|]. unfold cnt in Hb. rewrite Ei in Hb. exact Hb.
    + unfold cnt. destruct (alookup INTR (acopy b)); [split; [reflexivity | lia]|].
      destruct (amem INTR (adescs b)); split; lia.
  - unfold cnt. destruct (alookup n (acopy b)); [split; [reflexivity | lia]|].
    destruct (amem n (adescs b)); split; lia.
Qed.

(* ================================================================== bundlers vs monitor *)
(* counter c and checkpoint snapshot cp of a bundler's stream vs the monitor's view of it *)
Definition srel (c cp : nat) (x : sst) : Prop :=
  1 <= s_lo x /\ s_lo x <= cp /\ cp <= c /\ c <= s_c x /\ (s_ex x = true -> c = s_c x) /\ s_c x <= s_top x.

Definition Rel_b (b : ab) (r : rrec) : Prop :=
  auid b = r_uid r /\ aintr b = r_intr r /\ map fst (adescs b) = r_descs r /\
  (forall name, srel (cnt (aseq b) name) (cnt (acopy b) name) (sget r name)) /\ s_ex (sget r INTR) = true.
Definition RelKB (kb : nat * ab) (r : rrec) : Prop := Rel_b (snd kb) r.

Definition uids (bs : list (nat * ab)) : list nat := map (fun kb => auid (snd kb)) bs.

Definition Rel (a : A) (m : mon) : Prop :=
  a_st a = m_st m /\ a_uid a = m_next m /\ m_expect m = [] /\ m_ck m = false /\ Forall2 RelKB (a_bs a) (m_open m).
Definition Inv (a : A) : Prop :=
  Forall (fun kb => Inv_b (a_rec a) (snd kb)) (a_bs a) /\ NoDup (uids (a_bs a)) /\
  Forall (fun u => u < a_uid a) (uids (a_bs a)).

Lemma sget_set r name x n :
  sget (r_set_streams r (aset name x (r_streams r))) n = if Nat.eqb n name then x else sget r n.
Proof. unfold sget; cbn. rewrite alookup_aset. destruct (Nat.eqb n name); reflexivity. Qed.

Lemma mem_desc name (ds : list (nat * list nat)) : mem_nat name (map fst ds) = amem name ds.
Proof.
  unfold mem_nat, amem. induction ds as [|[k v] ds IH]; cbn; [reflexivity|].
  destruct (Nat.eqb name k); cbn; [reflexivity | exact IH].
Qed.

Lemma s_event_ok c cp x : srel c cp x ->
  exists x', s_event x c = Some x' /\ srel (S c) cp x' /\ s_ex x' = true.
Proof.
  intros (H0 & H1 & H2 & H3 & H4 & H5). unfold s_event.
  assert (Hc : (if s_ex x then Nat.eqb c (s_c x) else Nat.leb 1 c && Nat.leb (s_lo x) c && Nat.leb c (s_c x)) = true).
  { destruct (s_ex x); [apply Nat.eqb_eq; auto|]. rewrite !andb_true_iff. repeat split; apply Nat.leb_le; lia. }
  rewrite Hc. eexists; split; [reflexivity|]. split; [|reflexivity]. unfold srel; cbn. repeat split; lia.
Qed.

(* an event / interruption record on stream [name] of a bundler and its run record *)
Lemma Rel_b_bump b r name :
  Rel_b b r ->
  exists r', r_event name (cnt (aseq b) name) r = Some r' /\ Rel_b (a_bump b name) r' /\
             r_descs r' = r_descs r /\ r_intr r' = r_intr r.
Proof.
  intros (H1 & H2 & H3 & H4 & H5). unfold r_event.
  destruct (s_event_ok _ _ _ (H4 name)) as (x' & Ex & Hx & Hex). rewrite Ex.
  eexists; split; [reflexivity|]. split; [|split; reflexivity].
  unfold Rel_b, a_bump, a_setseq; cbn [auid aintr adescs aseq acopy r_uid r_intr r_descs r_set_streams]. splits; try assumption.
  - intros n. rewrite cnt_aset, sget_set. destruct (Nat.eqb n name) eqn:En; [apply Nat.eqb_eq in En; subst n; exact Hx | apply H4].
  - rewrite sget_set. destruct (Nat.eqb INTR name); assumption.
Qed.

Lemma Rel_b_add_desc b r name objs :
  Rel_b b r -> Rel_b (a_setseq b (aseq b) (adescs b ++ [(name, objs)])) (r_add_desc r name).
Proof.
  intros (H1 & H2 & H3 & H4 & H5). unfold Rel_b, a_setseq, r_add_desc; cbn. splits; try assumption.
  rewrite map_app, H3. reflexivity.
Qed.

(* weakening at a rewind point *)
Definition rw (r : rrec) : rrec := r_set_streams r (map s_weaken (r_streams r)).

Lemma alookup_weaken n l :
  alookup n (map s_weaken l) = option_map (fun x => snd (s_weaken (n, x))) (alookup n l).
Proof.
  induction l as [|[k x] l IH]; [reflexivity|]. cbn [map alookup].
  assert (Hk : fst (s_weaken (k, x)) = k) by (unfold s_weaken; cbn; destruct (Nat.eqb k INTR); reflexivity).
  destruct (s_weaken (k, x)) as [k' x'] eqn:E. cbn in Hk; subst k'. cbn [alookup].
  destruct (Nat.eqb n k) eqn:En; [|exact IH].
  apply Nat.eqb_eq in En; subst. cbn. rewrite E. reflexivity.
Qed.

Lemma sget_rw r n :
  sget (rw r) n =
    match alookup n (r_streams r) with
    | Some x => if Nat.eqb n INTR then x else {| s_top := s_top x; s_c := s_c x; s_ex := false; s_lo := s_lo x |}
    | None => sst0
    end.
Proof.
  unfold sget, rw; cbn. rewrite alookup_weaken. destruct (alookup n (r_streams r)); [|reflexivity].
  cbn. unfold s_weaken; cbn. destruct (Nat.eqb n INTR); reflexivity.
Qed.

Lemma srel_rw r n c cp c' cp' :
  srel c cp (sget r n) -> s_lo (sget r n) <= cp' -> cp' <= c' -> c' <= c -> (n = INTR -> c' = c) ->
  srel c' cp' (sget (rw r) n).
Proof.
  intros (H0 & H1 & H2 & H3 & H4 & H5) Ha Hb Hc Hd. rewrite sget_rw. unfold sget in *.
  destruct (alookup n (r_streams r)) as [x|].
  - destruct (Nat.eqb n INTR) eqn:E.
    + apply Nat.eqb_eq in E. rewrite (Hd E) in *. unfold srel; splits; auto; lia.
    + unfold srel; cbn. splits; try lia; try (intros; discriminate).
  - cbn in *. specialize (H4 eq_refl). unfold srel; cbn. splits; try lia.
Qed.

Lemma Rel_b_rw_same b r : Rel_b b r -> Rel_b b (rw r).
Proof.
  intros (H1 & H2 & H3 & H4 & H5). unfold Rel_b. splits; try assumption.
  - intros n. eapply srel_rw; [apply H4 | apply (H4 n) | apply (H4 n) | lia | reflexivity].
  - rewrite sget_rw. unfold sget in H5. destruct (alookup INTR (r_streams r)); [exact H5 | reflexivity].
Qed.

Lemma Rel_b_rw_rewind rec b r : Inv_b rec b -> Rel_b b r -> Rel_b (a_rewind b) (rw r).
Proof.
  intros Hi (H1 & H2 & H3 & H4 & H5). unfold Rel_b. splits; try assumption.
  - intros n. destruct (rewind_cnt rec b n Hi) as (Ha & Hb & Hc). destruct (rewind_cnt_copy rec b n Hi) as (Hd & He).
    eapply srel_rw; [apply H4 | rewrite Hd; apply (H4 n) | rewrite Hd; exact He | exact Hb | exact Hc].
  - rewrite sget_rw. unfold sget in H5. destruct (alookup INTR (r_streams r)); [exact H5 | reflexivity].
Qed.

(* ================================================================== lists of runs *)
Lemma on_run_split u f l1 r l2 :
  (forall x, In x l1 -> r_uid x <> u) -> r_uid r = u ->
  on_run u f (l1 ++ r :: l2) = option_map (fun r' => l1 ++ r' :: l2) (f r).
Proof.
  intros H1 H2. induction l1 as [|y l1 IH]; cbn.
  - rewrite H2, Nat.eqb_refl. reflexivity.
  - assert (Hy : Nat.eqb u (r_uid y) = false).
    { apply Nat.eqb_neq. intros E. apply (H1 y); [left; reflexivity | symmetry; exact E]. }
    rewrite Hy, IH by (intros x Hx; apply H1; right; exact Hx).
    destruct (f r); reflexivity.
Qed.

Lemma take_run_split u l1 r l2 :
  (forall x, In x l1 -> r_uid x <> u) -> r_uid r = u -> take_run u (l1 ++ r :: l2) = Some (r, l1 ++ l2).
Proof.
  intros H1 H2. induction l1 as [|y l1 IH]; cbn.
  - rewrite H2, Nat.eqb_refl. reflexivity.
  - assert (Hy : Nat.eqb u (r_uid y) = false).
    { apply Nat.eqb_neq. intros E. apply (H1 y); [left; reflexivity | symmetry; exact E]. }
    rewrite Hy, IH by (intros x Hx; apply H1; right; exact Hx). reflexivity.
Qed.

Lemma Forall2_in_r {X Y} (R : X -> Y -> Prop) l m y : Forall2 R l m -> In y m -> exists x, In x l /\ R x y.
Proof.
  induction 1 as [|x0 y0 l m H0 H IH]; cbn; [tauto|]. intros [E|E].
  - subst. exists x0; split; [left; reflexivity | exact H0].
  - destruct (IH E) as (x & Hx & Hr). exists x; split; [right; exact Hx | exact Hr].
Qed.

Lemma uids_app l1 l2 : uids (l1 ++ l2) = uids l1 ++ uids l2.
Proof. unfold uids. apply map_app. Qed.

Lemma rel_uid_in bs ms x : Forall2 RelKB bs ms -> In x ms -> In (r_uid x) (uids bs).
Proof.
  intros H Hx. destruct (Forall2_in_r _ _ _ _ H Hx) as (kb & Hkb & (Hu & _)).
  rewrite <- Hu. unfold uids. apply in_map with (f := fun kb => auid (snd kb)). exact Hkb.
Qed.

Lemma rel_split bs ms l1 k b l2 :
  Forall2 RelKB bs ms -> bs = l1 ++ (k, b) :: l2 -> NoDup (uids bs) ->
  exists m1 r m2, ms = m1 ++ r :: m2 /\ Forall2 RelKB l1 m1 /\ Rel_b b r /\ Forall2 RelKB l2 m2 /\
                  (forall x, In x m1 -> r_uid x <> r_uid r).
Proof.
  intros H E Hn. subst bs. apply Forall2_app_inv_l in H as (m1 & m' & H1 & H2 & E).
  inversion H2 as [|kb r l2' m2 Hr H3]; subst. exists m1, r, m2. splits; try assumption; try reflexivity.
  intros x Hx Ex. apply (rel_uid_in _ _ _ H1) in Hx. rewrite uids_app in Hn. cbn in Hn.
  apply NoDup_remove_2 in Hn. apply Hn. apply in_or_app. left.
  destruct Hr as (Hu & _). cbn in Hu. rewrite Hu, <- Ex. exact Hx.
Qed.

(* ------------------------------------------------------------------ the monitor on lists *)
Lemma mon_run_app rec m o1 o2 :
  mon_run rec m (o1 ++ o2) = match mon_run rec m o1 with Some m1 => mon_run rec m1 o2 | None => None end.
Proof.
  revert m; induction o1 as [|x o1 IH]; intros m; cbn; [reflexivity|].
  destruct (mon_obs rec m x); [apply IH | reflexivity].
Qed.

Lemma mon_quiet1 rec m x : m_expect m = [] -> m_ck m = false -> quiet1 x = true -> mon_obs rec m x = Some m.
Proof.
  intros He Hk Hq. unfold mon_obs. rewrite He, Hk. destruct x; cbn in Hq; try discriminate; try reflexivity.
  apply andb_true_iff in Hq as [Hq H3]. apply andb_true_iff in Hq as [H1 H2].
  apply negb_true_iff in H1, H2, H3. rewrite H1, H2, H3. reflexivity.
Qed.

Lemma mon_run_quiet rec m o : m_expect m = [] -> m_ck m = false -> quiet o -> mon_run rec m o = Some m.
Proof.
  intros He Hk. unfold quiet. induction o as [|x o IH]; cbn; [reflexivity|].
  intros H. apply andb_true_iff in H as [H1 H2]. rewrite (mon_quiet1 rec m x He Hk H1). apply IH, H2.
Qed.

Lemma mon_obs_doc_plain rec m d :
  m_expect m = [] -> m_ck m = false ->
  match d with DIntr _ _ => False | DDescr _ _ [] => False | _ => True end ->
  mon_obs rec m (ODoc d) = doc_effect rec m d.
Proof.
  intros He Hk Hd. unfold mon_obs. rewrite He, Hk. destruct d as [u|u name objs|u name n data|u n|u xs rs num]; try reflexivity; try contradiction.
  destruct name as [|[|name]]; try reflexivity. destruct objs; [contradiction | reflexivity].
Qed.

Lemma in_keys_amem {X} name (ds : list (nat * X)) : In name (map fst ds) -> amem name ds = true.
Proof.
  unfold amem. induction ds as [|[k v] ds IH]; cbn; [tauto|]. intros [E|E].
  - subst. rewrite Nat.eqb_refl. reflexivity.
  - destruct (Nat.eqb name k); [reflexivity | apply IH, E].
Qed.

Lemma amem_num name b : amem name (a_num b) = amem name (aseq b).
Proof.
  unfold a_num, amem. induction (aseq b) as [|[k v] l IH]; cbn; [reflexivity|].
  destruct (Nat.eqb name k); [reflexivity | exact IH].
Qed.

Lemma stop_ok rec b r : Inv_b rec b -> Rel_b b r -> r_stop_ok r (a_num b) = true.
Proof.
  intros (H1 & H2 & H3 & H4 & H5 & H6 & H7 & H8) (R1 & R2 & R3 & R4 & R5).
  unfold r_stop_ok. apply andb_true_iff; split; apply forallb_forall.
  - intros kv Hkv. unfold a_num in Hkv. apply in_map_iff in Hkv as ([n c] & E & Hin). subst kv. cbn.
    apply (in_alookup _ _ _ H3) in Hin. pose proof (H5 _ _ Hin) as Hc.
    destruct (R4 n) as (_ & _ & _ & S2 & S3 & S4). unfold cnt in S2, S3. rewrite Hin in S2, S3.
    unfold s_stop_ok. replace (S (c - 1)) with c by lia.
    apply andb_true_iff; split; [apply Nat.leb_le; lia|].
    destruct (s_ex (sget r n)); [apply Nat.eqb_eq; auto | reflexivity].
  - intros name Hn. rewrite amem_num. unfold r_described in Hn. apply in_app_or in Hn as [Hn|Hn].
    + destruct (r_intr r) eqn:Ei; [|contradiction]. destruct Hn as [<-|[]]. apply H8. congruence.
    + rewrite <- R3 in Hn. apply H7, in_keys_amem, Hn.
Qed.

(* ================================================================== each operation is accepted *)
Definition Acc (a : A) (o : list obs) (a' : A) : Prop :=
  forall m, Inv a -> Rel a m ->
  exists m', mon_run (a_rec a) m o = Some m' /\ Inv a' /\ Rel a' m' /\ a_rec a' = a_rec a.

Lemma rel_uids_lt a m x : Inv a -> Rel a m -> In x (m_open m) -> r_uid x < a_uid a.
Proof.
  intros (_ & _ & Hlt) (_ & _ & _ & _ & HF) Hx. apply (rel_uid_in _ _ _ HF) in Hx.
  rewrite Forall_forall in Hlt. apply Hlt, Hx.
Qed.

Lemma Inv_replace a l1 k b l2 b' :
  Inv a -> a_bs a = l1 ++ (k, b) :: l2 -> auid b' = auid b -> Inv_b (a_rec a) b' ->
  Inv (with_bs a (l1 ++ (k, b') :: l2)).
Proof.
  intros (H1 & H2 & H3) E Hu Hb. unfold Inv; cbn [a_bs a_uid a_rec with_bs]. rewrite E in *.
  assert (Eu : uids (l1 ++ (k, b') :: l2) = uids (l1 ++ (k, b) :: l2)).
  { rewrite !uids_app. cbn. rewrite Hu. reflexivity. }
  rewrite Eu. splits; try assumption.
  apply Forall_app in H1 as [Ha Hc]. inversion Hc; subst. apply Forall_app; split; [assumption|].
  constructor; assumption.
Qed.

Lemma Inv_remove a l1 k b l2 : Inv a -> a_bs a = l1 ++ (k, b) :: l2 -> Inv (with_bs a (l1 ++ l2)).
Proof.
  intros (H1 & H2 & H3) E. unfold Inv; cbn [a_bs a_uid a_rec with_bs]. rewrite E in *. rewrite uids_app in *.
  change (uids ((k, b) :: l2)) with (auid b :: uids l2) in *. splits.
  - apply Forall_app in H1 as [Ha Hc]. inversion Hc; subst. apply Forall_app; split; assumption.
  - eapply NoDup_remove_1; exact H2.
  - apply Forall_app in H3 as [Ha Hc]. inversion Hc; subst. apply Forall_app; split; assumption.
Qed.

Lemma acc_quiet a o : quiet o -> Acc a o a.
Proof.
  intros Hq m Hi Hr. exists m. pose proof Hr as (R1 & R2 & R3 & Rk & R4).
  rewrite mon_run_quiet by assumption. splits; try assumption; reflexivity.
Qed.

Lemma acc_app a1 o1 a2 o2 a3 : Acc a1 o1 a2 -> Acc a2 o2 a3 -> Acc a1 (o1 ++ o2) a3.
Proof.
  intros H1 H2 m Hi Hr. destruct (H1 m Hi Hr) as (m1 & E1 & I1 & R1 & C1).
  destruct (H2 m1 I1 R1) as (m2 & E2 & I2 & R2 & C2). exists m2.
  rewrite mon_run_app, E1. rewrite C1 in E2. splits; try assumption. congruence.
Qed.

Lemma acc_state a x : (x <> Idle \/ a_bs a = []) -> x <> Pausing -> Acc a [OState (a_st a) x] (with_st a x).
Proof.
  intros Hx Hp m Hi (R1 & R2 & R3 & Rk & R4). cbn [mon_run]. unfold mon_obs. rewrite R3, Rk.
  assert (E1 : rstate_eqb (a_st a) (m_st m) = true) by (apply rstate_eqb_true; exact R1).
  assert (E2 : negb (rstate_eqb x Idle) || match m_open m with [] => true | _ => false end = true).
  { destruct Hx as [Hx|Hx].
    - apply rstate_eqb_false in Hx. rewrite Hx. reflexivity.
    - rewrite Hx in R4. inversion R4. apply orb_true_r. }
  rewrite E1, E2. cbn [andb]. apply rstate_eqb_false in Hp. rewrite Hp.
  eexists; split; [reflexivity|]. splits.
  - exact Hi.
  - unfold Rel; cbn. splits; try reflexivity; assumption.
  - reflexivity.
Qed.

Lemma Forall2_Forall_l {X Y} (R : X -> Y -> Prop) (Q : X -> Prop) (R' : X -> Y -> Prop) l m :
  Forall2 R l m -> Forall Q l -> (forall x y, R x y -> Q x -> R' x y) -> Forall2 R' l m.
Proof.
  intros H. induction H as [|x y l m H0 H IH]; intros HQ Himp; constructor.
  - inversion HQ; subst. apply Himp; assumption.
  - inversion HQ; subst. apply IH; assumption.
Qed.

Lemma Forall2_map2 {X Y X' Y'} (R' : X' -> Y' -> Prop) (f : X -> X') (g : Y -> Y') l m :
  Forall2 (fun x y => R' (f x) (g y)) l m -> Forall2 R' (map f l) (map g m).
Proof. induction 1; cbn; constructor; assumption. Qed.

(* a silent snapshot (close_run, stage, unstage, rewindable toggles): the snapshot moves up to the counter *)
Lemma Rel_b_snapshot rec b r : Inv_b rec b -> Rel_b b r -> Rel_b (a_snapshot b) r.
Proof.
  intros Hi (Q1 & Q2 & Q3 & Q4 & Q5). unfold Rel_b. cbn [auid aintr adescs aseq a_snapshot]. splits; try assumption.
  intros n. change (cnt (acopy (a_snapshot b)) n) with (cnt (acopy (a_snapshot b)) n). rewrite (snapshot_cnt rec b n Hi).
  destruct (Q4 n) as (S0 & S1 & S2 & S3 & S4 & S5). unfold srel. splits; try assumption; lia.
Qed.

Lemma acc_snapshot a : Acc a [] (with_bs a (amap a_snapshot (a_bs a))).
Proof.
  intros m (I1 & I2 & I3) (R1 & R2 & R3 & Rk & R4). exists m. split; [reflexivity|].
  assert (Eu : uids (amap a_snapshot (a_bs a)) = uids (a_bs a)).
  { unfold uids, amap. rewrite map_map. apply map_ext. intros [k b]; reflexivity. }
  splits; try assumption; try reflexivity.
  - unfold Inv; cbn [a_bs a_uid a_rec with_bs]. rewrite Eu. splits; try assumption.
    unfold amap. rewrite Forall_map. eapply Forall_impl; [|exact I1]. intros [k b] H; cbn in *. apply Inv_b_snapshot, H.
  - unfold Rel; cbn. splits; try assumption. unfold amap.
    assert (G : Forall2 (fun kb r => RelKB (fst kb, a_snapshot (snd kb)) r) (a_bs a) (m_open m)).
    { eapply Forall2_Forall_l; [exact R4 | exact I1|]. intros [k b] r Hr Hb. cbn in *. unfold RelKB in *. cbn in *.
      eapply Rel_b_snapshot; eassumption. }
    clear -G. induction G; cbn; constructor; assumption.
Qed.

Lemma acc_open a k :
  amem k (a_bs a) = false ->
  Acc a (ODoc (DStart (a_uid a)) :: (if a_rec a then [ODoc (DDescr (a_uid a) INTR [])] else []))
    {| a_bs := aset k (a_new (a_rec a) (a_uid a)) (a_bs a); a_uid := S (a_uid a); a_st := a_st a; a_rec := a_rec a |}.
Proof.
  intros Hk m Hi Hr. pose proof (rel_uids_lt a m) as Hlt. specialize (fun x => Hlt x Hi Hr).
  destruct Hi as (I1 & I2 & I3). destruct Hr as (R1 & R2 & R3 & Rk & R4).
  rewrite (aset_absent _ _ _ Hk).
  set (u := a_uid a) in *.
  assert (Hfresh : forall x, In x (m_open m) -> r_uid x <> u) by (intros x Hx; specialize (Hlt x Hx); lia).
  assert (HI' : Inv {| a_bs := a_bs a ++ [(k, a_new (a_rec a) u)]; a_uid := S u; a_st := a_st a; a_rec := a_rec a |}).
  { unfold Inv; cbn [a_bs a_uid a_rec]. rewrite uids_app. change (uids [(k, a_new (a_rec a) u)]) with [u]. splits.
    - apply Forall_app; split; [exact I1|]. constructor; [apply Inv_b_new | constructor].
    - apply NoDup_snoc; [exact I2|]. intros Hin. rewrite Forall_forall in I3. apply I3 in Hin. lia.
    - apply Forall_app; split; [|constructor; [lia | constructor]].
      eapply Forall_impl; [|exact I3]. cbn; intros; lia. }
  cbn [mon_run]. rewrite (mon_obs_doc_plain _ _ (DStart u)) by (assumption || exact I).
  cbn [doc_effect]. rewrite <- R2. fold u. rewrite Nat.eqb_refl.
  destruct (a_rec a) eqn:Erec.
  - (* the engine-made descriptor is expected and arrives *)
    cbn [mon_run]. unfold mon_obs at 1. cbn [m_expect].
    destruct (doc_eq_dec (DDescr u INTR []) (DDescr u INTR [])) as [_|Hne]; [|exfalso; apply Hne; reflexivity].
    cbn [m_set_expect m_open]. rewrite (on_run_split u _ (m_open m) (r_new u) []) by (assumption || reflexivity).
    cbn. eexists; split; [reflexivity|]. splits; try reflexivity; try exact HI'.
    unfold Rel; cbn. splits; try reflexivity; try assumption.
    apply Forall2_app; [exact R4|]. constructor; [|constructor].
    unfold RelKB, Rel_b; cbn. splits; try reflexivity.
    intros n. unfold cnt; cbn. destruct (Nat.eqb n INTR); unfold srel, sget; cbn; lia.
  - eexists; split; [reflexivity|]. splits; try reflexivity; try exact HI'.
    unfold Rel; cbn. splits; try reflexivity; try assumption.
    apply Forall2_app; [exact R4|]. constructor; [|constructor].
    unfold RelKB, Rel_b; cbn. splits; try reflexivity.
    intros n. unfold cnt; cbn. unfold srel, sget; cbn; lia.
Qed.

Lemma acc_close a k b xs rs :
  alookup k (a_bs a) = Some b ->
  Acc a [ODoc (DStop (auid b) xs rs (a_num b))] (with_bs a (aremove k (a_bs a))).
Proof.
  intros Hk m Hi Hr. pose proof Hi as (I1 & I2 & I3). pose proof Hr as (R1 & R2 & R3 & Rk & R4).
  destruct (lookup_split _ _ _ Hk) as (l1 & l2 & E & _ & Erem). rewrite Erem.
  destruct (rel_split _ _ _ _ _ _ R4 E I2) as (m1 & r & m2 & Em & F1 & Hb & F2 & Hne).
  assert (Hib : Inv_b (a_rec a) b).
  { rewrite E in I1. apply Forall_app in I1 as [_ I1]. inversion I1; assumption. }
  cbn [mon_run]. rewrite (mon_obs_doc_plain _ _ (DStop (auid b) xs rs (a_num b))) by (assumption || exact I).
  cbn [doc_effect]. destruct Hb as (Hu & Hb'). pose proof (conj Hu Hb') as Hb.
  rewrite Em, (take_run_split (auid b) m1 r m2) by (try (rewrite Hu; exact Hne); symmetry; exact Hu).
  rewrite (stop_ok _ _ _ Hib Hb).
  eexists; split; [reflexivity|]. splits.
  - eapply Inv_remove; eassumption.
  - unfold Rel; cbn. splits; try assumption. apply Forall2_app; assumption.
  - reflexivity.
Qed.

Lemma acc_save_old a k b name objs data :
  alookup k (a_bs a) = Some b -> alookup name (adescs b) = Some objs ->
  Acc a [ODoc (DEvent (auid b) name (cnt (aseq b) name) data)]
    (with_bs a (aset k (a_setseq b (aset name (S (cnt (aseq b) name)) (aseq b)) (adescs b)) (a_bs a))).
Proof.
  intros Hk Hd m Hi Hr. pose proof Hi as (I1 & I2 & I3). pose proof Hr as (R1 & R2 & R3 & Rk & R4).
  destruct (lookup_split _ _ _ Hk) as (l1 & l2 & E & Eset & _). rewrite Eset.
  destruct (rel_split _ _ _ _ _ _ R4 E I2) as (m1 & r & m2 & Em & F1 & Hb & F2 & Hne).
  assert (Hib : Inv_b (a_rec a) b).
  { rewrite E in I1. apply Forall_app in I1 as [_ I1]. inversion I1; assumption. }
  cbn [mon_run]. rewrite (mon_obs_doc_plain _ _ (DEvent (auid b) name (cnt (aseq b) name) data)) by (assumption || exact I).
  cbn [doc_effect]. pose proof Hb as (Hu & _ & Hds & _).
  rewrite Em, (on_run_split (auid b) _ m1 r m2) by (try (rewrite Hu; exact Hne); symmetry; exact Hu).
  assert (Hmem : mem_nat name (r_descs r) = true).
  { rewrite <- Hds, mem_desc. unfold amem. rewrite Hd. reflexivity. }
  rewrite Hmem. destruct (Rel_b_bump b r name Hb) as (r' & Er & Hb' & _ & _). rewrite Er. cbn [option_map lift_open].
  eexists; split; [reflexivity|]. splits.
  - eapply (Inv_replace a l1 k b l2 (a_bump b name)); try eassumption; [reflexivity | apply Inv_b_bump, Hib].
  - unfold Rel; cbn. splits; try assumption. apply Forall2_app; [assumption|]. constructor; assumption.
  - reflexivity.
Qed.

Lemma aset_seq1 name v (sq : list (nat * nat)) :
  aset name v (if amem name sq then sq else aset name 1 sq) = aset name v sq.
Proof.
  unfold amem. destruct (alookup name sq) eqn:E; [reflexivity|].
  induction sq as [|[k0 v0] sq IH]; cbn.
  - rewrite Nat.eqb_refl. reflexivity.
  - cbn in E. destruct (Nat.eqb name k0) eqn:E0; [discriminate|]. cbn. rewrite E0. rewrite IH by exact E. reflexivity.
Qed.

Lemma mem_nat_snoc name l : mem_nat name (l ++ [name]) = true.
Proof. unfold mem_nat. rewrite existsb_app. cbn. rewrite Nat.eqb_refl. apply orb_true_iff; right; reflexivity. Qed.

Lemma acc_save_new a k b name objs data :
  alookup k (a_bs a) = Some b -> alookup name (adescs b) = None -> objs <> [] ->
  let seq1 := if amem name (aseq b) then aseq b else aset name 1 (aseq b) in
  Acc a [ODoc (DDescr (auid b) name objs); ODoc (DEvent (auid b) name (cnt seq1 name) data)]
    (with_bs a (aset k (a_setseq b (aset name (S (cnt seq1 name)) seq1) (adescs b ++ [(name, objs)])) (a_bs a))).
Proof.
  intros Hk Hd Hobjs seq1 m Hi Hr. pose proof Hi as (I1 & I2 & I3). pose proof Hr as (R1 & R2 & R3 & Rk & R4).
  destruct (lookup_split _ _ _ Hk) as (l1 & l2 & E & Eset & _). rewrite Eset.
  destruct (rel_split _ _ _ _ _ _ R4 E I2) as (m1 & r & m2 & Em & F1 & Hb & F2 & Hne).
  assert (Hib : Inv_b (a_rec a) b).
  { rewrite E in I1. apply Forall_app in I1 as [_ I1]. inversion I1; assumption. }
  pose proof Hb as (Hu & _ & Hds & _).
  (* the descriptor *)
  cbn [mon_run]. rewrite (mon_obs_doc_plain _ _ (DDescr (auid b) name objs)) by (first [assumption | destruct objs; [congruence | exact I]]).
  cbn [doc_effect]. rewrite Em, (on_run_split (auid b) _ m1 r m2) by (try (rewrite Hu; exact Hne); symmetry; exact Hu).
  assert (Hmem : mem_nat name (r_descs r) = false).
  { rewrite <- Hds, mem_desc. unfold amem. rewrite Hd. reflexivity. }
  rewrite Hmem. cbn [option_map lift_open].
  (* the event *)
  set (b1 := a_setseq b (aseq b) (adescs b ++ [(name, objs)])).
  pose proof (Rel_b_add_desc b r name objs Hb) as Hb1. fold b1 in Hb1.
  rewrite (mon_obs_doc_plain _ _ (DEvent (auid b) name (cnt seq1 name) data)) by (assumption || exact I).
  cbn [doc_effect m_open m_set_open].
  rewrite (on_run_split (auid b) _ m1 (r_add_desc r name) m2) by (try (rewrite Hu; exact Hne); symmetry; exact Hu).
  cbn [r_descs r_add_desc]. rewrite mem_nat_snoc.
  unfold seq1. rewrite cnt_seq1, aset_seq1.
  destruct (Rel_b_bump b1 (r_add_desc r name) name Hb1) as (r' & Er & Hb' & _ & _).
  change (cnt (aseq b1) name) with (cnt (aseq b) name) in Er. rewrite Er. cbn [option_map lift_open].
  eexists; split; [reflexivity|]. splits.
  - eapply (Inv_replace a l1 k b l2); try eassumption; [reflexivity|].
    pose proof (Inv_b_save_new _ _ name objs Hib) as Hx. unfold a_save_new in Hx. cbv zeta in Hx.
    rewrite cnt_seq1, aset_seq1 in Hx. exact Hx.
  - unfold Rel; cbn. splits; try assumption. apply Forall2_app; [assumption|]. constructor; [|assumption]. exact Hb'.
  - reflexivity.
Qed.

(* ------------------------------------------------------------------ interruption records *)
Definition mk (op : list rrec) (nx : nat) (x : rstate) (q : list doc) (fl : bool * bool) : mon :=
  {| m_open := op; m_next := nx; m_st := x; m_expect := q; m_ck := false; m_flag := fst fl; m_bad := snd fl |}.
Definition iexp (ms : list rrec) : list doc :=
  flat_map (fun r => if r_intr r then [DIntr (r_uid r) (s_c (sget r INTR))] else []) ms.
Definition weak (r : rrec) : Prop :=
  forall n x, alookup n (r_streams r) = Some x -> n <> INTR -> s_ex x = false.

Lemma r_event_shape name n r r' : r_event name n r = Some r' ->
  exists x', r' = r_set_streams r (aset name x' (r_streams r)).
Proof. unfold r_event. destruct (s_event (sget r name) n); intros H; inversion H. eexists; reflexivity. Qed.

Lemma weak_intr_event n r r' : r_event INTR n r = Some r' -> weak r -> weak r'.
Proof.
  intros H Hw. apply r_event_shape in H as (x' & ->). intros k x Hk Hne. cbn in Hk.
  rewrite alookup_aset in Hk. destruct (Nat.eqb k INTR) eqn:E; [apply Nat.eqb_eq in E; contradiction|].
  eapply Hw; eassumption.
Qed.

Lemma intr_ok rec : forall bs ms, Forall2 RelKB bs ms ->
  Forall (fun kb => Inv_b rec (snd kb)) bs -> NoDup (map r_uid ms) ->
  forall pre bs' docs ok nx x fl,
  (forall p y, In p pre -> In y ms -> r_uid p <> r_uid y) ->
  a_intr_list bs = (bs', docs, ok) ->
  exists ms', mon_run rec (mk (pre ++ ms) nx x (iexp ms) fl) docs = Some (mk (pre ++ ms') nx x [] fl) /\
     Forall2 RelKB bs' ms' /\ Forall (fun kb => Inv_b rec (snd kb)) bs' /\ uids bs' = uids bs /\
     (Forall weak ms -> Forall weak ms').
Proof.
  induction 1 as [|[k b] r bs0 ms0 Hb HF IH]; intros HI Hnd pre bs' docs ok nx x fl Hpre Hl.
  - cbn in Hl. inversion Hl; subst. exists []. cbn. splits; try constructor; try reflexivity.
  - cbn [a_intr_list] in Hl. inversion HI as [|? ? Hib HI0]; subst. cbn [snd] in Hib.
    cbn [map] in Hnd. inversion Hnd as [|? ? Hnotin Hnd0]; subst.
    pose proof Hb as (Hu & Hi & Hds & Hs & Hex). cbn [snd] in Hu, Hi, Hds, Hs.
    unfold a_record_intr in Hl. destruct (aintr b) eqn:Eintr.
    + (* a record is made *)
      pose proof Hib as (_ & _ & _ & _ & _ & _ & _ & H8). specialize (H8 Eintr). unfold amem in H8.
      destruct (alookup INTR (aseq b)) as [n|] eqn:En; [|discriminate].
      destruct (a_intr_list bs0) as [[r0 os] ok0] eqn:El0.
      assert (Hn : cnt (aseq b) INTR = n) by (unfold cnt; rewrite En; reflexivity).
      assert (Hsc : s_c (sget r INTR) = n).
      { destruct (Hs INTR) as (_ & _ & _ & _ & S3 & _). rewrite <- Hn. symmetry. apply S3, Hex. }
      destruct (Rel_b_bump b r INTR Hb) as (r' & Er & Hb' & _ & _). rewrite Hn in Er.
      assert (Hu' : r_uid r' = r_uid r).
      { destruct Hb' as (Hu' & _). cbn in Hu'. rewrite <- Hu', <- Hu. reflexivity. }
      destruct (IH HI0 Hnd0 (pre ++ [r']) r0 os ok0 nx x fl) as (ms' & Erun & F' & I' & U' & W'); [|reflexivity|].
      { intros p y Hp Hy. apply in_app_or in Hp as [Hp|[<-|[]]].
        - apply Hpre; [exact Hp | right; exact Hy].
        - rewrite Hu'. intros E. apply Hnotin. rewrite E. apply in_map, Hy. }
      injection Hl as <- <- <-.
      exists (r' :: ms'). splits.
      * unfold iexp. cbn [flat_map]. rewrite <- Hi. cbn [app mon_run]. fold (iexp ms0).
        unfold mon_obs at 1. cbn [m_expect mk]. rewrite Hsc, <- Hu.
        destruct (doc_eq_dec (DIntr (auid b) n) (DIntr (auid b) n)) as [_|Hne]; [|exfalso; apply Hne; reflexivity].
        cbn [doc_effect m_set_expect m_open mk].
        rewrite (on_run_split (auid b) _ pre r ms0) by (first [ (intros y Hy; rewrite Hu; apply Hpre; [exact Hy | left; reflexivity]) | (symmetry; exact Hu) ]).
        rewrite <- Hi, Er. cbn [option_map lift_open m_set_open m_next m_st m_expect m_flag].
        replace (pre ++ r' :: ms0) with ((pre ++ [r']) ++ ms0) by (rewrite <- app_assoc; reflexivity).
        replace (pre ++ r' :: ms') with ((pre ++ [r']) ++ ms') by (rewrite <- app_assoc; reflexivity).
        exact Erun.
      * constructor; [unfold RelKB; cbn [snd]; rewrite <- Hn; exact Hb' | exact F'].
      * constructor; [cbn [snd]; rewrite <- Hn; apply Inv_b_bump, Hib | exact I'].
      * unfold uids in *. cbn [map snd auid a_setseq]. rewrite U'. reflexivity.
      * intros Hw. inversion Hw; subst. constructor; [eapply weak_intr_event; eassumption | apply W'; assumption].
    + (* recording is off for this run *)
      destruct (a_intr_list bs0) as [[r0 os] ok0] eqn:El0.
      destruct (IH HI0 Hnd0 (pre ++ [r]) r0 os ok0 nx x fl) as (ms' & Erun & F' & I' & U' & W'); [|reflexivity|].
      { intros p y Hp Hy. apply in_app_or in Hp as [Hp|[<-|[]]].
        - apply Hpre; [exact Hp | right; exact Hy].
        - intros E. apply Hnotin. rewrite E. apply in_map, Hy. }
      injection Hl as <- <- <-.
      exists (r :: ms'). splits.
      * unfold iexp. cbn [flat_map]. rewrite <- Hi. cbn [app]. fold (iexp ms0).
        replace (pre ++ r :: ms0) with ((pre ++ [r]) ++ ms0) by (rewrite <- app_assoc; reflexivity).
        replace (pre ++ r :: ms') with ((pre ++ [r]) ++ ms') by (rewrite <- app_assoc; reflexivity).
        exact Erun.
      * constructor; [exact Hb | exact F'].
      * constructor; [exact Hib | exact I'].
      * unfold uids in *. cbn [map snd auid a_setseq]. rewrite U'. reflexivity.
      * intros Hw. inversion Hw; subst. constructor; [assumption | apply W'; assumption].
Qed.

Lemma rel_uids_eq bs ms : Forall2 RelKB bs ms -> map r_uid ms = uids bs.
Proof.
  induction 1 as [|[k b] r l ml H0 H IH]; [reflexivity|]. unfold uids in *. cbn [map snd]. rewrite IH.
  destruct H0 as (Hu & _). cbn in Hu. rewrite Hu. reflexivity.
Qed.

Lemma mon_eta m : m_ck m = false -> m = mk (m_open m) (m_next m) (m_st m) (m_expect m) (m_flag m, m_bad m).
Proof. destruct m; cbn; intros ->; reflexivity. Qed.

Lemma Inv_with_bs a bs' :
  Inv a -> Forall (fun kb => Inv_b (a_rec a) (snd kb)) bs' -> uids bs' = uids (a_bs a) -> Inv (with_bs a bs').
Proof.
  intros (I1 & I2 & I3) HF Hu. unfold Inv; cbn [a_bs a_uid a_rec with_bs]. rewrite Hu. splits; assumption.
Qed.

Lemma acc_pause a bs' docs ok :
  a_intr_list (a_bs a) = (bs', docs, ok) ->
  Acc a (OState (a_st a) Pausing :: docs) {| a_bs := bs'; a_uid := a_uid a; a_st := Pausing; a_rec := a_rec a |}.
Proof.
  intros Hl m Hi Hr. pose proof Hi as (I1 & I2 & I3). pose proof Hr as (R1 & R2 & R3 & Rk & R4).
  cbn [mon_run]. unfold mon_obs at 1. rewrite R3, Rk.
  assert (E1 : rstate_eqb (a_st a) (m_st m) = true) by (apply rstate_eqb_true; exact R1).
  rewrite E1. change (rstate_eqb Pausing Idle) with false. change (rstate_eqb Pausing Pausing) with true. cbn [negb andb orb].
  assert (Hnd : NoDup (map r_uid (m_open m))) by (rewrite (rel_uids_eq _ _ R4); exact I2).
  destruct (intr_ok (a_rec a) _ _ R4 I1 Hnd [] bs' docs ok (m_next m) Pausing (m_flag m, m_bad m)) as (ms' & Erun & F' & I' & U' & _);
    [intros p y [] | exact Hl |].
  cbn [app] in Erun. unfold intr_expect. fold (iexp (m_open m)).
  change {| m_open := m_open m; m_next := m_next m; m_st := Pausing; m_expect := iexp (m_open m); m_ck := false; m_flag := m_flag m; m_bad := m_bad m |}
    with (mk (m_open m) (m_next m) Pausing (iexp (m_open m)) (m_flag m, m_bad m)).
  rewrite Erun. eexists; split; [reflexivity|]. splits.
  - apply (Inv_with_bs a bs' Hi I' U').
  - unfold Rel; cbn. splits; try reflexivity; assumption.
  - reflexivity.
Qed.

Lemma sget_rw_intr r : sget (rw r) INTR = sget r INTR.
Proof. rewrite sget_rw. unfold sget. destruct (alookup INTR (r_streams r)); reflexivity. Qed.

Lemma iexp_rw ms : iexp (map rw ms) = iexp ms.
Proof.
  unfold iexp. induction ms as [|r ms IH]; [reflexivity|]. cbn [map flat_map]. rewrite IH, sget_rw_intr. reflexivity.
Qed.

Lemma weak_rw r : weak (rw r).
Proof.
  intros n x H Hne. unfold rw in H; cbn in H. rewrite alookup_weaken in H.
  destruct (alookup n (r_streams r)) as [x0|]; [|discriminate]. cbn in H. inversion H; subst.
  unfold s_weaken; cbn. apply Nat.eqb_neq in Hne. rewrite Hne. reflexivity.
Qed.

Lemma Rel_b_rewind_weak rec b r : Inv_b rec b -> Rel_b b r -> weak r -> Rel_b (a_rewind b) r.
Proof.
  intros Hi (H1 & H2 & H3 & H4 & H5) Hw. unfold Rel_b. splits; try assumption.
  intros n. destruct (rewind_cnt rec b n Hi) as (Ha & Hb & Hc). destruct (rewind_cnt_copy rec b n Hi) as (Hd & He).
  destruct (H4 n) as (S0 & S1 & S2 & S3 & S4 & S5). rewrite Hd.
  destruct (Nat.eqb n INTR) eqn:E.
  - apply Nat.eqb_eq in E. rewrite (Hc E). unfold srel; auto 10.
  - apply Nat.eqb_neq in E. unfold sget in *. destruct (alookup n (r_streams r)) as [x|] eqn:Ex.
    + pose proof (Hw n x Ex E) as Hf. unfold srel. splits; try lia. rewrite Hf; intros; discriminate.
    + cbn in *. specialize (S4 eq_refl). unfold srel; cbn. splits; try lia.
Qed.

Lemma core_intr_rewind a m bs' docs ok q bs'' :
  Inv a -> Rel a m -> a_intr_list (a_bs a) = (bs', docs, ok) -> quiet q ->
  (bs'' = bs' \/ bs'' = amap a_rewind bs') ->
  exists m', mon_run (a_rec a) (m_set_expect (weaken m) (intr_expect m)) (docs ++ q) = Some m' /\
             Inv (with_bs a bs'') /\ Rel (with_bs a bs'') m'.
Proof.
  intros Hi Hr Hl Hq Hb. pose proof Hi as (I1 & I2 & I3). pose proof Hr as (R1 & R2 & R3 & Rk & R4).
  assert (R4' : Forall2 RelKB (a_bs a) (map rw (m_open m))).
  { clear -R4. induction R4 as [|kb r l ml H0 H IH]; cbn; constructor; [apply Rel_b_rw_same, H0 | exact IH]. }
  assert (Hnd : NoDup (map r_uid (map rw (m_open m)))) by (rewrite (rel_uids_eq _ _ R4'); exact I2).
  assert (Hwk : Forall weak (map rw (m_open m))) by (rewrite Forall_map; apply Forall_forall; intros; apply weak_rw).
  destruct (intr_ok (a_rec a) _ _ R4' I1 Hnd [] bs' docs ok (m_next m) (m_st m) (m_flag m, m_bad m)) as (ms' & Erun & F' & I' & U' & W');
    [intros p y [] | exact Hl |].
  specialize (W' Hwk). cbn [app] in Erun. rewrite iexp_rw in Erun.
  replace (m_set_expect (weaken m) (intr_expect m))
    with (mk (map rw (m_open m)) (m_next m) (m_st m) (iexp (m_open m)) (m_flag m, m_bad m))
    by (unfold m_set_expect, weaken, m_set_open, mk; cbn; rewrite Rk; reflexivity).
  rewrite mon_run_app, Erun. rewrite mon_run_quiet by (reflexivity || exact Hq).
  eexists; split; [reflexivity|]. destruct Hb as [->| ->].
  - split; [apply (Inv_with_bs a bs' Hi I' U')|]. unfold Rel; cbn. splits; try reflexivity; assumption.
  - assert (Eu : uids (amap a_rewind bs') = uids bs').
    { unfold uids, amap. rewrite map_map. apply map_ext. intros [k b]; reflexivity. }
    split.
    + apply (Inv_with_bs a _ Hi); [|rewrite Eu; exact U'].
      unfold amap. rewrite Forall_map. eapply Forall_impl; [|exact I']. intros [k b] H; cbn in *. apply Inv_b_rewind, H.
    + unfold Rel; cbn. splits; try reflexivity; try assumption.
      clear -F' I' W'. revert I' W'. induction F' as [|[k b] r l ml H0 H IH]; intros I' W'; cbn; constructor.
      * inversion I'; inversion W'; subst. eapply Rel_b_rewind_weak; eassumption.
      * inversion I'; inversion W'; subst. apply IH; assumption.
Qed.

Lemma acc_susp a mm bs' docs ok q bs'' :
  is_susp_msg mm = true -> a_intr_list (a_bs a) = (bs', docs, ok) -> quiet q ->
  (bs'' = bs' \/ bs'' = amap a_rewind bs') ->
  Acc a (OMsg mm :: docs ++ q) (with_bs a bs'').
Proof.
  intros Hm Hl Hq Hb m Hi Hr. pose proof Hr as (R1 & R2 & R3 & Rk & R4).
  cbn [mon_run]. unfold mon_obs at 1. rewrite R3, Rk, Hm.
  destruct (core_intr_rewind a m bs' docs ok q bs'' Hi Hr Hl Hq Hb) as (m' & E & I' & R').
  rewrite E. exists m'. split; [reflexivity|]. splits; try assumption; reflexivity.
Qed.

Lemma stops_ok rec xs rs : forall bs ms, Forall2 RelKB bs ms -> Forall (fun kb => Inv_b rec (snd kb)) bs ->
  forall nx x fl, exists fl', mon_run rec (mk ms nx x [] fl) (a_stops bs xs rs) = Some (mk [] nx x [] fl').
Proof.
  induction 1 as [|[k b] r bs0 ms0 Hb HF IH]; intros HI nx x fl.
  - exists fl. reflexivity.
  - inversion HI as [|? ? Hib HI0]; subst. cbn [snd] in Hib. pose proof Hib as (Hop & _).
    unfold a_stops. cbn [flat_map snd]. rewrite Hop. cbn [app mon_run]. fold (a_stops bs0 xs rs).
    rewrite (mon_obs_doc_plain _ _ (DStop (auid b) xs rs (a_num b))) by (reflexivity || exact I).
    cbn [doc_effect take_run m_open mk]. destruct Hb as (Hu & Hb'). cbn [snd] in Hu. rewrite Hu, Nat.eqb_refl.
    rewrite (stop_ok rec b r Hib (conj Hu Hb')).
    destruct (IH HI0 nx x (fst fl || r_behind r (a_num b), snd fl || r_miscount r (a_num b))) as (fl' & E). exists fl'. exact E.
Qed.

Lemma acc_closeall a xs rs : Acc a (a_stops (a_bs a) xs rs) (with_bs a []).
Proof.
  intros m Hi Hr. pose proof Hi as (I1 & I2 & I3). pose proof Hr as (R1 & R2 & R3 & Rk & R4).
  destruct (stops_ok (a_rec a) xs rs _ _ R4 I1 (m_next m) (m_st m) (m_flag m, m_bad m)) as (fl' & E).
  rewrite (mon_eta m Rk), R3. rewrite E. eexists; split; [reflexivity|]. splits.
  - unfold Inv; cbn. splits; constructor.
  - unfold Rel; cbn. splits; try reflexivity; try assumption. constructor.
  - reflexivity.
Qed.

(* ------------------------------------------------------------------ checkpoint, clear_checkpoint *)
Definition ck (r : rrec) : rrec := r_set_streams r (map s_ckpt (r_streams r)).
Definition cl (r : rrec) : rrec := r_set_streams r (map s_clear (r_streams r)).

Lemma alookup_map_kx (f : nat * sst -> nat * sst) n l :
  (forall kx, fst (f kx) = fst kx) ->
  alookup n (map f l) = option_map (fun x => snd (f (n, x))) (alookup n l).
Proof.
  intros Hf. induction l as [|[k x] l IH]; [reflexivity|]. cbn [map alookup].
  pose proof (Hf (k, x)) as Hk. destruct (f (k, x)) as [k' x'] eqn:E. cbn in Hk; subst k'. cbn [alookup].
  destruct (Nat.eqb n k) eqn:En; [|exact IH].
  apply Nat.eqb_eq in En; subst. cbn. rewrite E. reflexivity.
Qed.

Lemma sget_ck r n :
  sget (ck r) n =
    match alookup n (r_streams r) with
    | Some x => if s_ex x then {| s_top := s_top x; s_c := s_c x; s_ex := true; s_lo := s_c x |} else x
    | None => sst0
    end.
Proof.
  unfold sget, ck; cbn. rewrite (alookup_map_kx s_ckpt) by reflexivity.
  destruct (alookup n (r_streams r)); reflexivity.
Qed.

Lemma sget_cl r n :
  sget (cl r) n =
    match alookup n (r_streams r) with
    | Some x => {| s_top := s_top x; s_c := s_c x; s_ex := s_ex x; s_lo := 1 |}
    | None => sst0
    end.
Proof.
  unfold sget, cl; cbn. rewrite (alookup_map_kx s_clear) by reflexivity.
  destruct (alookup n (r_streams r)); reflexivity.
Qed.

Lemma Rel_b_ck rec b r : Inv_b rec b -> Rel_b b r -> Rel_b (a_snapshot b) (ck r).
Proof.
  intros Hi (Q1 & Q2 & Q3 & Q4 & Q5). unfold Rel_b. cbn [auid aintr adescs aseq a_snapshot r_uid r_intr r_descs ck r_set_streams].
  splits; try assumption.
  - intros n. rewrite (snapshot_cnt rec b n Hi). destruct (Q4 n) as (S0 & S1 & S2 & S3 & S4 & S5).
    rewrite sget_ck. unfold sget in *. destruct (alookup n (r_streams r)) as [x|].
    + destruct (s_ex x) eqn:Ex.
      * specialize (S4 eq_refl). unfold srel; cbn. splits; intros; try lia.
      * unfold srel. rewrite Ex. splits; intros; try lia; try discriminate.
    + cbn in *. specialize (S4 eq_refl). unfold srel; cbn. splits; intros; try lia.
  - rewrite sget_ck. unfold sget in Q5. destruct (alookup INTR (r_streams r)) as [x|]; [|reflexivity].
    rewrite Q5. reflexivity.
Qed.

Lemma Rel_b_cl b r : Rel_b b r -> Rel_b (a_clear b) (cl r).
Proof.
  intros (Q1 & Q2 & Q3 & Q4 & Q5). unfold Rel_b. cbn [auid aintr adescs aseq acopy a_clear r_uid r_intr r_descs cl r_set_streams].
  splits; try assumption.
  - intros n. destruct (Q4 n) as (S0 & S1 & S2 & S3 & S4 & S5). change (cnt [] n) with 1.
    rewrite sget_cl. unfold sget in *. destruct (alookup n (r_streams r)) as [x|].
    + unfold srel; cbn. splits; intros; try lia. apply S4; assumption.
    + cbn in *. unfold srel; cbn. splits; intros; try lia.
  - rewrite sget_cl. unfold sget in Q5. destruct (alookup INTR (r_streams r)) as [x|]; [exact Q5 | reflexivity].
Qed.

Lemma ckpt_not_susp mm : is_ckpt_msg mm = true -> is_susp_msg mm = false.
Proof. unfold is_ckpt_msg, is_susp_msg. destruct (mcmd mm); intros H; try discriminate H; reflexivity. Qed.
Lemma clear_not_other mm : is_clear_msg mm = true -> is_susp_msg mm = false /\ is_ckpt_msg mm = false.
Proof. unfold is_clear_msg, is_ckpt_msg, is_susp_msg. destruct (mcmd mm); intros H; try discriminate H; split; reflexivity. Qed.

Lemma uids_amap f bs : (forall b, auid (f b) = auid b) -> uids (amap f bs) = uids bs.
Proof. intros Hf. unfold uids, amap. rewrite map_map. apply map_ext. intros [k b]; cbn. apply Hf. Qed.

Lemma acc_ckpt_ok a mm x :
  is_ckpt_msg mm = true -> ck_ok x = true -> Acc a [OMsg mm; x] (with_bs a (amap a_snapshot (a_bs a))).
Proof.
  intros Hm Hx m (I1 & I2 & I3) (R1 & R2 & R3 & Rk & R4).
  cbn [mon_run]. unfold mon_obs at 1. rewrite R3, Rk, (ckpt_not_susp _ Hm), Hm.
  assert (E2 : mon_obs (a_rec a) (m_set_ck m true) x = Some (m_set_ck (ckpt (m_set_ck m true)) false)).
  { unfold mon_obs. cbn [m_expect m_ck m_set_ck]. rewrite R3.
    destruct x as [| r | | | | | | w | |]; try discriminate Hx; [destruct r | destruct w]; try discriminate Hx; reflexivity. }
  rewrite E2. eexists; split; [reflexivity|]. splits.
  - unfold Inv; cbn [a_bs a_uid a_rec with_bs]. rewrite (uids_amap a_snapshot) by reflexivity. splits; try assumption.
    unfold amap. rewrite Forall_map. eapply Forall_impl; [|exact I1]. intros [k b] H; cbn in *. apply Inv_b_snapshot, H.
  - unfold Rel; cbn. splits; try assumption; try reflexivity.
    assert (G : Forall2 (fun kb r => RelKB (fst kb, a_snapshot (snd kb)) (ck r)) (a_bs a) (m_open m)).
    { eapply Forall2_Forall_l; [exact R4 | exact I1|]. intros [k b] r Hr Hb. cbn in *. unfold RelKB in *. cbn in *.
      eapply Rel_b_ck; eassumption. }
    exact (Forall2_map2 RelKB (fun kb => (fst kb, a_snapshot (snd kb))) ck _ _ G).
  - reflexivity.
Qed.

Lemma m_set_ck_back m : m_ck m = false -> m_set_ck (m_set_ck m true) false = m.
Proof. destruct m; cbn; intros ->; reflexivity. Qed.

Lemma acc_ckpt_no a mm e : is_ckpt_msg mm = true -> Acc a [OMsg mm; OResp (RExn e)] a.
Proof.
  intros Hm m Hi Hr. pose proof Hr as (R1 & R2 & R3 & Rk & R4).
  cbn [mon_run]. unfold mon_obs at 1. rewrite R3, Rk, (ckpt_not_susp _ Hm), Hm.
  unfold mon_obs. cbn [m_expect m_ck m_set_ck]. rewrite R3, (m_set_ck_back m Rk).
  exists m. splits; try assumption; reflexivity.
Qed.

Lemma acc_clear a mm : is_clear_msg mm = true -> Acc a [OMsg mm] (with_bs a (amap a_clear (a_bs a))).
Proof.
  intros Hm m (I1 & I2 & I3) (R1 & R2 & R3 & Rk & R4). destruct (clear_not_other _ Hm) as [Hs Hc].
  cbn [mon_run]. unfold mon_obs. rewrite R3, Rk, Hs, Hc, Hm.
  eexists; split; [reflexivity|]. splits.
  - unfold Inv; cbn [a_bs a_uid a_rec with_bs]. rewrite (uids_amap a_clear) by reflexivity. splits; try assumption.
    unfold amap. rewrite Forall_map. eapply Forall_impl; [|exact I1]. intros [k b] H; cbn in *. apply Inv_b_clear, H.
  - unfold Rel; cbn. splits; try assumption; try reflexivity.
    assert (G : Forall2 (fun kb r => RelKB (fst kb, a_clear (snd kb)) (cl r)) (a_bs a) (m_open m)).
    { eapply Forall2_Forall_l; [exact R4 | exact I1|]. intros [k b] r Hr Hb. cbn in *. unfold RelKB in *. cbn in *.
      eapply Rel_b_cl; eassumption. }
    exact (Forall2_map2 RelKB (fun kb => (fst kb, a_clear (snd kb))) cl _ _ G).
  - reflexivity.
Qed.

(* ================================================================== the operations are accepted *)
Theorem T_accepted a o a' : T a o a' -> Acc a o a'.
Proof.
  induction 1.
  - apply acc_quiet; assumption.
  - eapply acc_app; eassumption.
  - apply acc_state; assumption.
  - apply acc_open; assumption.
  - apply acc_close; assumption.
  - eapply acc_save_old; eassumption.
  - apply acc_save_new; assumption.
  - eapply acc_pause; eassumption.
  - eapply acc_susp; eassumption.
  - apply acc_snapshot.
  - apply acc_clear; assumption.
  - apply acc_ckpt_ok; assumption.
  - apply acc_ckpt_no; assumption.
  - apply acc_closeall.
Qed.

(* ================================================================== every run is accepted *)
Section Final.
Variable P : Type.
Variable presume : P -> input -> outcome P.
Variable plan_of : nat -> P.
Variable D : Type.
Variable dev : D -> nat -> devmeth -> D * devres.

Notation st := (RE.st P D).
Notation abs := (RE_Docs.abs P D).

Lemma step_accepted (s : st) e s' o m :
  step P presume plan_of D dev s e = (s', o) -> Inv (abs s) -> Rel (abs s) m ->
  exists m', mon_step (record_intr P D s) m (e, o) = Some m' /\ Inv (abs s') /\ Rel (abs s') m' /\
             record_intr P D s' = record_intr P D s.
Proof.
  intros Hs Hi Hr. apply (step_T P presume plan_of D dev) in Hs. unfold mon_step. cbn [fst snd].
  pose proof Hr as (R1 & R2 & R3 & Rk & R4).
  assert (Hgen : T (abs s) o (abs s') ->
                 exists m', match mon_run (record_intr P D s) m o with
                            | Some m2 => match m_expect m2 with [] => if m_ck m2 then None else Some m2 | _ :: _ => None end
                            | None => None
                            end = Some m' /\ Inv (abs s') /\ Rel (abs s') m' /\ record_intr P D s' = record_intr P D s).
  { intros HT. destruct (T_accepted _ _ _ HT m Hi Hr) as (m' & E & I' & R' & C').
    cbn [a_rec RE_Docs.abs] in E, C'. rewrite E. pose proof R' as (_ & _ & E3 & Ek & _). rewrite E3, Ek.
    exists m'. splits; try assumption; reflexivity. }
  destruct e as [a|a| | |defer|rs| | |sid pre post|sid|sid ok| |]; try (apply Hgen; exact Hs).
  destruct a; try (apply Hgen; exact Hs).
  (* resume *)
  cbn [StepT] in Hs. cbn [a_st RE_Docs.abs] in Hs, R1. rewrite <- R1.
  destruct (rstate_eqb (state P D s) Paused) eqn:Ep.
  - destruct Hs as (bs' & docs & ok & q & bs'' & Hl & Hq & -> & Hb & Ea).
    destruct (core_intr_rewind (abs s) m bs' docs ok q bs'' Hi Hr Hl Hq Hb) as (m' & E & I' & R').
    cbn [a_rec RE_Docs.abs] in E. rewrite E. rewrite <- Ea in I', R'.
    pose proof R' as (_ & _ & E3 & Ek & _). rewrite E3, Ek. exists m'. splits; try assumption; try reflexivity.
    apply (f_equal a_rec) in Ea. exact Ea.
  - destruct Hs as [-> Ea]. cbn [mon_run]. rewrite R3, Rk. exists m. pose proof (f_equal a_rec Ea) as Ec. cbn in Ec.
    rewrite Ea. splits; try assumption; reflexivity.
Qed.

Lemma run_steps_accepted : forall evs (s : st) m,
  Inv (abs s) -> Rel (abs s) m ->
  exists m', mon_steps (record_intr P D s) m (snd (DocMon.run_steps P presume plan_of D dev s evs)) = Some m' /\
             Inv (abs (fst (DocMon.run_steps P presume plan_of D dev s evs))) /\
             Rel (abs (fst (DocMon.run_steps P presume plan_of D dev s evs))) m'.
Proof.
  induction evs as [|e evs IH]; intros s m Hi Hr.
  - exists m. cbn. splits; try assumption; reflexivity.
  - cbn [DocMon.run_steps]. destruct (step P presume plan_of D dev s e) as [s1 o1] eqn:E1.
    destruct (step_accepted _ _ _ _ m E1 Hi Hr) as (m1 & Em & I1 & R1 & C1).
    destruct (IH s1 m1 I1 R1) as (m2 & E2 & I2 & R2).
    destruct (DocMon.run_steps P presume plan_of D dev s1 evs) as [s2 l]. cbn [fst snd] in *.
    exists m2. cbn [mon_steps]. rewrite Em. rewrite C1 in E2. splits; assumption.
Qed.

Lemma init_good d paus stag rec : Inv (abs (init P D d paus stag rec)) /\ Rel (abs (init P D d paus stag rec)) mon0.
Proof.
  split.
  - unfold Inv; cbn. splits; constructor.
  - unfold Rel; cbn. splits; try reflexivity. constructor.
Qed.

(* For every plan, device and schedule: the stepped trace of a run from the initial state is
   accepted by the document monitor, and the monitor's view agrees with the engine state:
   same lifecycle state, same next uid, the open runs are exactly the bundlers, in order. *)
Theorem run_docs_accepted d paus stag rec evs :
  let r := DocMon.run_steps P presume plan_of D dev (init P D d paus stag rec) evs in
  exists m', mon_steps rec mon0 (snd r) = Some m' /\
             m_st m' = state P D (fst r) /\ m_next m' = uid_supply P D (fst r) /\
             map r_uid (m_open m') = map (fun kb => buid (snd kb)) (bundlers P D (fst r)).
Proof.
  intros r. destruct (init_good d paus stag rec) as [Hi Hr].
  destruct (run_steps_accepted evs _ mon0 Hi Hr) as (m' & E & I' & (R1 & R2 & R3 & Rk & R4)).
  exists m'. fold r in E, R1, R2, R4. cbn [record_intr init] in E. splits.
  - exact E.
  - symmetry; exact R1.
  - symmetry; exact R2.
  - rewrite (rel_uids_eq _ _ R4). cbn [a_bs RE_Docs.abs]. unfold uids, abl. rewrite map_map. reflexivity.
Qed.

Corollary run_docs_ok d paus stag rec evs :
  docs_ok rec (snd (DocMon.run_steps P presume plan_of D dev (init P D d paus stag rec) evs)) = true.
Proof.
  destruct (run_docs_accepted d paus stag rec evs) as (m' & E & _). unfold docs_ok. rewrite E. reflexivity.
Qed.

(* run_steps is run, step by step *)
Lemma run_steps_run : forall evs (s : st),
  run P presume plan_of D dev s evs =
    (fst (DocMon.run_steps P presume plan_of D dev s evs), flat_map snd (snd (DocMon.run_steps P presume plan_of D dev s evs))).
Proof.
  induction evs as [|e evs IH]; intros s; [reflexivity|]. cbn [run DocMon.run_steps].
  destruct (step P presume plan_of D dev s e) as [s1 o1]. rewrite IH.
  destruct (DocMon.run_steps P presume plan_of D dev s1 evs) as [s2 l]. reflexivity.
Qed.
End Final.
