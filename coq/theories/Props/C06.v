(* C06 - devices are always left cleaned up when the RunEngine goes idle.
   Model: Engine/RE.v run on the instrumented device oracle [ldev dev] of Proofs/RE_Clean.v, which keeps,
   for an ARBITRARY device behaviour [dev], the ledger of all device calls with their results.
   [needs_unstage l d]: after the last successful stage() of d in l there is no later unstage() call of d;
   [needs_stop l d]: after the last set() call of d in l there is no later stop() call of d.
   Flyers (kickoff/collect), monitors and per-call subscriptions are not in the engine model: they are covered by the
   dedicated model Engine/CleanupLedger.v (second half of this file; finding C06-a);
   the counting clause ("unstaged as many times as it was staged") fails inside class C06-b. *)
From Coq Require Import List.
From Coq Require Import NArith.
From BV Require Import Engine.RE Engine.REInst Proofs.RE_Clean.
From BV Require Engine.CleanupLedger Proofs.CleanupLedger.
Import ListNotations.

(* the property as far as the model can express it; refuted below (class C06-b) *)
Definition C06_full : Prop := RE_Clean.C06_full.

(* For every plan coalgebra, device behaviour and schedule: between two moments at which the engine is idle
   the ledger only grows, at the second one no device needs an unstage or a stop, the engine's staged set
   is empty, no run is open, and - unless some device was staged while already staged (class C06-b) -
   every device got at least as many unstage() calls as successful stage() calls in between. *)
Theorem C06_clean_when_idle_partial :
  forall (P : Type) (presume : P -> input -> outcome P) (plan_of : nat -> P)
         (D : Type) (dev : D -> nat -> devmeth -> D * devres) (d0 : D) (paus stag : list nat) (rec : bool)
         (evs1 evs2 : list event),
    let s1 := fst (run P presume plan_of (LD D) (ldev dev) (init P (LD D) (d0, []) paus stag rec) evs1) in
    let s2 := fst (run P presume plan_of (LD D) (ldev dev) s1 evs2) in
    state P (LD D) s1 = Idle -> state P (LD D) s2 = Idle ->
    exists l2, ledger s2 = ledger s1 ++ l2 /\
      (forall d, needs_unstage (ledger s2) d = false /\ needs_stop (ledger s2) d = false) /\
      staged P (LD D) s2 = [] /\ bundlers P (LD D) s2 = [] /\
      (double_stage (ledger s2) = false -> forall d, cnt is_stage_ok l2 d <= cnt is_unstage l2 d).
Proof. exact clean_when_idle_partial. Qed.
Print Assumptions C06_clean_when_idle_partial.

(* the same at the moment the `_run` task has finished, however it finished (completion, failure, abort,
   stop, halt, failed pause, cancellation before its first step) *)
Theorem C06_clean_when_done :
  forall (P : Type) (presume : P -> input -> outcome P) (plan_of : nat -> P)
         (D : Type) (dev : D -> nat -> devmeth -> D * devres) (d0 : D) (paus stag : list nat) (rec : bool)
         (evs : list event) (r : tres),
    let s' := fst (run P presume plan_of (LD D) (ldev dev) (init P (LD D) (d0, []) paus stag rec) evs) in
    pc P (LD D) s' = PcDone r ->
    (forall d, needs_unstage (ledger s') d = false /\ needs_stop (ledger s') d = false) /\
    staged P (LD D) s' = [] /\ bundlers P (LD D) s' = [].
Proof. exact clean_when_done. Qed.
Print Assumptions C06_clean_when_done.

(* a blocking call that returns with the engine idle ([OOut _ Idle _ _]) returns with a clean ledger *)
Theorem C06_returns_idle_clean :
  forall (P : Type) (presume : P -> input -> outcome P) (plan_of : nat -> P)
         (D : Type) (dev : D -> nat -> devmeth -> D * devres) (d0 : D) (paus stag : list nat) (rec : bool)
         (pre : list event) (a : mainact) (o : out_t) (df rs : bool),
    let s := fst (run P presume plan_of (LD D) (ldev dev) (init P (LD D) (d0, []) paus stag rec) pre) in
    In (OOut o Idle df rs) (snd (step P presume plan_of (LD D) (ldev dev) s (EvMainDone a))) ->
    (forall d, needs_unstage (ledger s) d = false /\ needs_stop (ledger s) d = false) /\
    staged P (LD D) s = [] /\ bundlers P (LD D) s = [].
Proof. exact returns_idle_clean. Qed.
Print Assumptions C06_returns_idle_clean.

(* the only lifecycle change to Idle a step of the model can announce is the one ending the finally block of
   `_run` (every other setter targets a non-idle state); right after that step the ledger is clean *)
Theorem C06_idle_transition_clean :
  forall (P : Type) (presume : P -> input -> outcome P) (plan_of : nat -> P)
         (D : Type) (dev : D -> nat -> devmeth -> D * devres) (d0 : D) (paus stag : list nat) (rec : bool)
         (pre : list event) (e : event) (x : rstate),
    let s := fst (run P presume plan_of (LD D) (ldev dev) (init P (LD D) (d0, []) paus stag rec) pre) in
    let s' := fst (step P presume plan_of (LD D) (ldev dev) s e) in
    In (OState x Idle) (snd (step P presume plan_of (LD D) (ldev dev) s e)) ->
    state P (LD D) s' = Idle /\
    (forall d, needs_unstage (ledger s') d = false /\ needs_stop (ledger s') d = false) /\
    staged P (LD D) s' = [] /\ bundlers P (LD D) s' = [].
Proof. exact idle_transition_clean. Qed.
Print Assumptions C06_idle_transition_clean.

(* at every moment the engine's bookkeeping covers the ledger: what still needs an unstage is in the
   staged set, what still needs a stop is in the moved set *)
Theorem C06_ledger_tracked :
  forall (P : Type) (presume : P -> input -> outcome P) (plan_of : nat -> P)
         (D : Type) (dev : D -> nat -> devmeth -> D * devres) (d0 : D) (paus stag : list nat) (rec : bool)
         (evs : list event),
    let s' := fst (run P presume plan_of (LD D) (ldev dev) (init P (LD D) (d0, []) paus stag rec) evs) in
    (forall d, needs_unstage (ledger s') d = true -> In d (staged P (LD D) s')) /\
    (forall d, needs_stop (ledger s') d = true -> In d (moved P (LD D) s')).
Proof. exact ledger_tracked_always. Qed.
Print Assumptions C06_ledger_tracked.

(* finding C06-b: `_staged` is a set - stage d; stage d is followed by a single unstage d *)
Theorem C06_full_refuted : ~ C06_full.
Proof. exact RE_Clean.C06_full_refuted. Qed.
Print Assumptions C06_full_refuted.

Example C06_b_refuted :
  exists tapes evs,
    let '(x, _, l, _, _) := demo tapes [] [] [0] evs in
    x = Idle /\ finding_C06_b l /\ no_bad (demo_obs tapes [] [] [0] evs) = true /\
    ~ (forall d, cnt is_stage_ok l d <= cnt is_unstage l d).
Proof. exact RE_Clean.C06_b_refuted. Qed.

(* non-vacuity: an aborted run with a staged and a moved device reaches idle without fuel exhaustion,
   with a non-empty ledger, outside class C06-b *)
Example C06_clean_nonvacuous :
  demo ex_tapes ex_results [] [0] ex_evs =
    (Idle, PcDone (TReturn VOther),
     [(0, MStage, DUnit); (1, MSet, DStatus 0 true); (1, MStop, DUnit); (0, MUnstage, DUnit)], [], []) /\
  no_bad (demo_obs ex_tapes ex_results [] [0] ex_evs) = true /\
  double_stage [(0, MStage, DUnit); (1, MSet, DStatus 0 true); (1, MStop, DUnit); (0, MUnstage, DUnit)] = false /\
  In (OOut OutInterrupted Idle false true) (demo_obs ex_tapes ex_results [] [0] ex_evs).
Proof. exact clean_nonvacuous. Qed.

Example C06_idle_transition_nonvacuous :
  In (OState Aborting Idle) (demo_obs ex_tapes ex_results [] [0] ex_evs).
Proof. vm_compute. auto 40. Qed.

Example C06_tracked_nonvacuous :
  let '(_, _, l, sg, _) := demo ex_tapes ex_results [] [0] (firstn 7 ex_evs) in
  needs_unstage l 0 = true /\ needs_stop l 1 = true /\ sg = [0].
Proof. exact tracked_nonvacuous. Qed.

(* ------------------------------------------------------------------------------------------------------------
   Flyers, monitor subscriptions and per-call subscriptions: the dedicated model Engine/CleanupLedger.v
   (bundler bookkeeping _uncollected / _monitor_params, _temp_callback_ids, the dispatcher's tokens, the finally block,
   _clear_call_cache) with a ledger of every device call and dispatcher call.  [fails] is an ARBITRARY fault oracle
   (does the n-th device call raise?), [h] an ARBITRARY history of ops (any number of calls, well-formed or not).
   [needs_collect l f]: after the last successful kickoff() of f in l no collection was attempted (no collect() call,
   no raising describe_collect());  [needs_clear l d c]: after the last successful subscribe(callback c) on d there is
   no later clear_sub(callback c) on d;  [temp_made l t]: token t was handed out to a per-call callback or to a
   'subscribe' message. *)
Module CL := BV.Engine.CleanupLedger.
Module CLP := BV.Proofs.CleanupLedger.

(* (1) after the finally block a flyer that still needs a collection attempt is one that was in _uncollected of a run
   the plan's own close_run message closed (ghost g_lost; finding C06-a) *)
Theorem C06_flyers_collected_or_lost :
  forall (fails : N -> bool) (h : list CL.op) (f : CL.dev),
    let s := CL.exec fails CL.init (h ++ [CL.OFinally]) in
    CL.needs_collect (CLP.led s) f = true -> In f (CL.g_lost s).
Proof. exact CLP.flyers_after_finally. Qed.
Print Assumptions C06_flyers_collected_or_lost.

(* outside class C06-a every kicked-off flyer has been collected or a collection attempted *)
Theorem C06_flyers_collected :
  forall (fails : N -> bool) (h : list CL.op),
    let s := CL.exec fails CL.init (h ++ [CL.OFinally]) in
    CL.g_lost s = [] -> forall f, CL.needs_collect (CLP.led s) f = false.
Proof. exact CLP.flyers_clean_outside_a. Qed.
Print Assumptions C06_flyers_collected.

(* the class is entered by a successful close_run message of a run with an uncollected flyer, and in no other way *)
Theorem C06_lost_only_by_close :
  forall (fails : N -> bool) (s : CL.st) (o : CL.op) (f : CL.dev),
    In f (CL.g_lost (fst (CL.step fails s o))) -> In f (CL.g_lost s) \/
    exists k b, o = CL.OClose k /\ CL.lookup k (CL.runs s) = Some b /\ In f (CL.b_unc b) /\
                snd (CL.step fails s o) = true.
Proof. exact CLP.lost_only_by_close. Qed.
Print Assumptions C06_lost_only_by_close.

(* finding C06-a: open_run; kickoff f; close_run - the engine goes idle and f is never collected *)
Theorem C06_a_refuted :
  exists h, let s := CL.exec CLP.no_faults CL.init (h ++ [CL.OFinally]) in
            CL.g_lost s <> [] /\ ~ (forall f, CL.needs_collect (CLP.led s) f = false).
Proof. exact CLP.a_refuted_thm. Qed.
Print Assumptions C06_a_refuted.

(* (2) after the finally block no run is left and every successful subscribe a monitor made has a later clear_sub call *)
Theorem C06_monitors_removed :
  forall (fails : N -> bool) (h : list CL.op),
    let s := CL.exec fails CL.init (h ++ [CL.OFinally]) in
    CL.runs s = [] /\ forall d c, CL.needs_clear (CLP.led s) d c = false.
Proof. exact CLP.monitors_after_finally. Qed.
Print Assumptions C06_monitors_removed.

(* at every moment the bookkeeping covers the ledger: a callback still subscribed is in _monitor_params of an open run,
   a flyer still to be collected is in _uncollected of an open run (or was lost as in C06-a) *)
Theorem C06_cleanup_tracked :
  forall (fails : N -> bool) (h : list CL.op),
    let s := CL.exec fails CL.init h in
    (forall d c, CL.needs_clear (CLP.led s) d c = true -> CLP.monitored (CL.runs s) (d, c)) /\
    (forall f, CL.needs_collect (CLP.led s) f = true -> CLP.pend (CL.runs s) f \/ In f (CL.g_lost s)).
Proof. exact CLP.ledger_tracked. Qed.
Print Assumptions C06_cleanup_tracked.

(* (3) when the next call starts - _clear_call_cache, the first thing __call__ does, and still after the new per-call
   callbacks have been subscribed - no token ever handed out as temporary before is in the dispatcher *)
Theorem C06_temp_tokens_removed :
  forall (fails : N -> bool) (h : list CL.op) (n : nat) (t : CL.token),
    let s := CL.exec fails CL.init h in
    CL.temp_made (CLP.led s) t = true ->
    ~ In t (CL.disp (CL.clear_cache s)) /\ ~ In t (CL.disp (CL.start_call n s)) /\ CL.temp (CL.clear_cache s) = [].
Proof. exact CLP.temp_tokens_removed. Qed.
Print Assumptions C06_temp_tokens_removed.

(* what must not change: a subscription that is not temporary stays in the dispatcher through every step (start of a
   call and finally block included) except an unsubscribe naming its token *)
Theorem C06_permanent_kept :
  forall (fails : N -> bool) (h : list CL.op) (o : CL.op) (t : CL.token),
    let s := CL.exec fails CL.init h in
    In t (CL.disp s) -> CL.temp_made (CLP.led s) t = false -> o <> CL.OUnsubscribe t -> o <> CL.OMainUnsub t ->
    In t (CL.disp (fst (CL.step fails s o))) /\ CL.temp_made (CLP.led (fst (CL.step fails s o))) t = false.
Proof. exact CLP.permanent_kept. Qed.
Print Assumptions C06_permanent_kept.

(* the ledger only grows *)
Theorem C06_cleanup_ledger_grows :
  forall (fails : N -> bool) (h : list CL.op) (o : CL.op),
    let s := CL.exec fails CL.init h in exists l, CLP.led (fst (CL.step fails s o)) = CLP.led s ++ l.
Proof. exact CLP.ledger_grows. Qed.
Print Assumptions C06_cleanup_ledger_grows.

(* a message for run key k leaves the bundlers of the other run keys as they were *)
Theorem C06_other_runs_untouched :
  forall (fails : N -> bool) (s : CL.st) (o : CL.op) (k k' : CL.key),
    CLP.op_key o = Some k -> k' <> k ->
    CL.lookup k' (CL.runs (fst (CL.step fails s o))) = CL.lookup k' (CL.runs s).
Proof. exact CLP.other_runs_untouched. Qed.
Print Assumptions C06_other_runs_untouched.

(* non-vacuity: two calls on one engine, a raising collect(); the finally block collects flyer 1 and clears the monitor,
   the second call removes the per-call token 1 and the in-plan token 2 and keeps the permanent token 0 *)
Example C06_cleanup_nonvacuous :
  let s := CL.exec CLP.ex_faults CL.init CLP.ex_session in
  CL.g_lost s = [] /\ CL.runs s = [] /\ CL.disp s = [0; 3]%N /\ CL.temp s = [3%N] /\
  CLP.led s = [CL.ESub CL.SMain 0; CL.ESub CL.SPerCall 1; CL.EDev 0 CL.MKickoff true; CL.EDev 1 CL.MKickoff true;
               CL.EDev 10 CL.MDescribe true; CL.EDev 10 (CL.MSubscribe 0) true; CL.EDev 0 CL.MDescribeCollect true;
               CL.EDev 0 CL.MCollect false; CL.ESub CL.SInPlan 2; CL.EDev 10 (CL.MClearSub 0) true;
               CL.EDev 10 (CL.MSubscribe 0) true; CL.EDev 10 (CL.MClearSub 0) true; CL.EDev 1 CL.MDescribeCollect true;
               CL.EDev 1 CL.MCollect true; CL.EUnsub CL.UClear 1; CL.EUnsub CL.UClear 2; CL.ESub CL.SPerCall 3;
               CL.EDev 10 CL.MDescribe true; CL.EDev 10 (CL.MSubscribe 1) true; CL.EDev 10 (CL.MClearSub 1) true]%N.
Proof. exact CLP.ex_session_runs. Qed.

(* ... and in the middle of the first call (paused) flyer 1 and the monitor callback do need cleaning, tokens 1 and 2
   are temporary and in the dispatcher, token 0 is not temporary *)
Example C06_cleanup_midway_nonvacuous :
  let s := CL.exec CLP.ex_faults CL.init (firstn 8 CLP.ex_session) in
  CL.needs_collect (CLP.led s) 1%N = true /\ CL.needs_clear (CLP.led s) 10%N 0%N = true /\
  CL.temp_made (CLP.led s) 1%N = true /\ CL.temp_made (CLP.led s) 2%N = true /\
  CL.temp_made (CLP.led s) 0%N = false /\ CL.disp s = [0; 1; 2]%N.
Proof. exact CLP.ex_midway. Qed.

Example C06_a_witness_nonvacuous :
  let s := CL.exec CLP.no_faults CL.init CLP.wit_a in
  CL.g_lost s = [0%N] /\ CL.needs_collect (CLP.led s) 0%N = true /\ CL.runs s = [] /\
  CLP.led s = [CL.EDev 0%N CL.MKickoff true].
Proof. exact CLP.a_refuted. Qed.
