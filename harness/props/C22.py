"""C22 - cleanup wrappers run their cleanup exactly once on every exit path.

Tie: the real bluesky.preprocessors.finalize_wrapper / finalize_decorator / contingency_wrapper, run
on generated wrapped / except / else / final plans under every driver script, against their PyGen
transcriptions (Gen/Wrappers.v) executed by the PyGen machine inside Coq: per step the yielded message
identity | return value | raised class, and what every inner plan received."""
import itertools

from harness.drivers import gen_dsl as G

ID = "C22"
PROP_FILE = "Props/C22.v"
THEOREMS = ["C22_contingency_wrapper_refines_spec", "C22_finalize_wrapper_refines_spec",
            "C22_finalize_decorator_refines_spec", "C22_finalize_decorator_fresh_cleanup_per_call", "C22_python_try_is_spec",
            "C22_final_plan_at_most_once", "C22_final_plan_once_unless_generator_exit",
            "C22_no_cleanup_when_closed_in_plan", "C22_outcome_preserved"]
COQ_IMPORTS = "From BV Require Import Gen.Coalg Gen.PyGen Gen.Wrappers Gen.Tie."
PARALLEL = True
MODELLED = ("finalize_wrapper, contingency_wrapper and finalize_decorator (preprocessors.py 508-714) are transcribed by "
            "hand, statement for statement, as PyGen programs with holes for the plans; CPython's generator protocol is "
            "modelled by Gen/PyGen.v (validated differentially by the C20 check), not verified; ensure_generator's "
            "wrapping of lists and single messages, final_plan callables with side effects at call time, "
            "and generator finalisation by the GC are not modelled (lists are covered by the tie only).")
RULE = ("every wrapper variant (finalize_wrapper with instance/callable/list final plan, pause_for_debug on/off; "
        "finalize_decorator incl. the non-callable TypeError and the same decorated function invoked 2-3 times in a row "
        "(fresh wrapped plan and fresh cleanup per call); contingency_wrapper over all 16 combinations of "
        "except/else/final/auto_raise, pause_for_debug on a subset) x a palette of wrapped plans (returning, raising "
        "Exception / control / BaseException-only kinds, ignoring close, yielding in finally) x palettes of except / else / "
        "final plans (empty, yielding, raising, returning a value) x EVERY script over {send None, send 1, throw User0, "
        "throw RequestAbort, throw RequestStop, throw PlanHalt, throw KeyboardInterrupt, close} up to length 4 (quick, "
        "pruned to the core alphabet on most cases) / 5 (thorough); plus seeded random plans; non-trivial = the final "
        "plan was started in some run and some script has >= 3 steps")

CORE = [["send", None], ["send", 1], ["throw", "User0"], ["throw", "PlanHalt"], ["close"]]
WIDE = CORE + [["throw", "RequestAbort"], ["throw", "RequestStop"], ["throw", "KeyboardInterrupt"]]
MINI = [["send", None], ["throw", "User0"], ["close"]]
ALPHA = {"core": CORE, "wide": WIDE, "mini": MINI}

Y = lambda m, x=None: ["yield", x, m]      # noqa: E731


def seq(*xs):
    out = xs[-1]
    for x in reversed(xs[:-1]):
        out = ["seq", x, out]
    return out


INNER = [
    seq(Y(0, 0), ["return", ["var", 0]]),                                   # x = yield; return x
    seq(Y(0), Y(1)),                                                        # two messages
    seq(Y(0), ["raise", "User1"]),                                          # fails after a message
    ["raise", "User1"],                                                     # fails at once
    ["return", ["const", 7]],                                               # empty plan with a value
    ["try", Y(0), [], ["pass"], Y(1)],                                      # own cleanup that yields
    ["try", Y(0), [["genexit", Y(1)]], ["pass"], ["pass"]],                 # ignores close
    ["try", Y(0), [["exc", seq(Y(1), ["return", ["const", 3]])]], ["pass"], ["pass"]],   # swallows a thrown exception
    seq(Y(0), ["raise", "KeyboardInterrupt"]),                              # BaseException-only out of the plan
    seq(Y(0), ["raise", "GeneratorExit"]),                                  # GeneratorExit out of the plan
    seq(Y(0), ["raise", "RequestAbort"]),
]
FINAL = [
    ["pass"],
    Y(2),
    seq(Y(2), Y(3)),
    seq(Y(2), ["raise", "User2"]),
    ["raise", "User2"],
    ["try", Y(2), [], ["pass"], Y(3)],
]
EXCEPT = [
    Y(4),
    ["return", ["const", 5]],
    seq(Y(4, 0), ["return", ["var", 0]]),
    ["raise", "User2"],
    seq(Y(4), ["raise", "ValueError"]),
]
ELSE = [
    Y(5),
    ["pass"],
    seq(Y(5), ["raise", "User2"]),
]


def cases(rng, tier):
    out = []
    depth = 4 if tier == "quick" else 5
    # finalize_wrapper
    for i, p in enumerate(INNER):
        for j, f in enumerate(FINAL):
            for pfd in (False, True):
                for form in ("instance", "callable"):
                    if tier == "quick" and form == "callable" and (i + j) % 3:
                        continue
                    alpha = "wide" if (i + j) % 4 == 0 else "core"
                    out.append({"w": "finalize", "pfd": pfd, "final_form": form, "plans": [p, f], "alpha": alpha,
                                "depth": depth if not pfd else depth - 1})
    for p in INNER[:6]:
        out.append({"w": "finalize", "pfd": False, "final_form": "list", "plans": [p, seq(Y(2), Y(3))],
                    "alpha": "core", "depth": depth})
    # finalize_decorator
    for i, p in enumerate(INNER):
        for j, f in enumerate(FINAL):
            out.append({"w": "decorator", "callable": True, "plans": [p, f], "alpha": "wide" if (i + j) % 3 == 0 else "core",
                        "depth": depth})
    out.append({"w": "decorator", "callable": False, "plans": [INNER[0], FINAL[1]], "alpha": "core", "depth": 2})
    # the same decorated function invoked 2-3 times in a row (fresh wrapped plan and fresh cleanup per call)
    for i, p in enumerate(INNER[:6] + [INNER[10]]):
        for j, f in enumerate(FINAL[1:4] + [FINAL[5]]):
            for calls in (2, 3):
                if tier == "quick" and (i + j + calls) % 2:
                    continue
                out.append({"w": "decorator", "callable": True, "calls": calls, "plans": [p, f], "alpha": "mini",
                            "depth": 3 * calls + 1})
    # contingency_wrapper: all option combinations
    k = 0
    for he, hl, hf, auto in itertools.product((False, True), repeat=4):
        for i, p in enumerate(INNER):
            es = EXCEPT if he else [["pass"]]
            ls = ELSE if hl else [["pass"]]
            fs = FINAL[1:4] if hf else [["pass"]]
            for e, l, f in itertools.product(es, ls, fs):
                k += 1
                if tier == "quick" and k % 5:
                    continue
                pfd = (k % 9 == 0)
                out.append({"w": "contingency", "opts": {"exc": he, "else": hl, "fin": hf, "auto": auto, "pfd": pfd},
                            "plans": [p, e, l, f], "alpha": "wide" if k % 5 == 0 else "core",
                            "depth": depth - 1 if (he and hl and hf) or pfd else depth})
    # random plans
    for c in out:
        if c["alpha"] == "wide" and c["depth"] > 3:
            c["depth"] -= 1                       # 8-letter alphabet: one step shorter
    nrand = 150 if tier == "quick" else 3000
    for _ in range(nrand):
        plans = [G.rand_stmt(rng, rng.randint(2, 8)) for _ in range(4)]
        w = rng.choice(["finalize", "decorator", "contingency", "contingency"])
        c = {"w": w, "plans": plans if w == "contingency" else plans[:2], "alpha": "wide", "depth": 3, "rand": True}
        if w == "finalize":
            c.update(pfd=rng.random() < 0.3, final_form=rng.choice(["instance", "callable"]))
        elif w == "decorator":
            c.update(callable=True)
        else:
            c["opts"] = {"exc": rng.random() < 0.7, "else": rng.random() < 0.6, "fin": rng.random() < 0.8,
                         "auto": rng.random() < 0.5, "pfd": rng.random() < 0.2}
        out.append(c)
    return out


def build(case, log):
    """The real wrapper over fresh instrumented plans (gid = hole number)."""
    from bluesky import preprocessors as bp
    plans = case["plans"]
    mk = lambda h: G.make_gen(plans[h], h, log)      # noqa: E731
    w = case["w"]
    if w == "finalize":
        form = case["final_form"]
        if form == "instance":
            fin = mk(1)
        elif form == "callable":
            fin = lambda: mk(1)                      # noqa: E731
        else:
            fin = _as_list(plans[1])
        return bp.finalize_wrapper(mk(0), fin, pause_for_debug=case["pfd"])
    if w == "decorator":
        calls = case.get("calls", 1)
        if calls == 1:
            fin = (lambda: mk(1)) if case["callable"] else mk(1)
            return bp.finalize_decorator(fin)(lambda: mk(0))()
        return _repeat(calls, _counted(bp.finalize_decorator, plans, log))
    o = case["opts"]
    return bp.contingency_wrapper(
        mk(0),
        except_plan=(lambda e: mk(1)) if o["exc"] else None,
        else_plan=(lambda: mk(2)) if o["else"] else None,
        final_plan=(lambda: mk(3)) if o["fin"] else None,
        pause_for_debug=o["pfd"], auto_raise=o["auto"])


def _counted(decorator, plans, log):
    """decorated plan function whose j-th call wraps a fresh plan (gid 2j) with a fresh cleanup (gid 2j+1)"""
    n = {"plan": 0, "fin": 0}

    def gen_func():
        j = n["plan"]
        n["plan"] += 1
        return G.make_gen(plans[0], 2 * j, log)

    def final_plan():
        j = n["fin"]
        n["fin"] += 1
        return G.make_gen(plans[1], 2 * j + 1, log)
    return decorator(final_plan)(gen_func)


def _repeat(calls, decorated):
    def outer():
        r = None
        for _ in range(calls):
            g = decorated()
            G.KEEP.append(g)          # finalisation of an abandoned call by the GC must not land inside a driver step
            r = yield from g
        return r
    return outer()


def _ref_decorator(final_plan):
    """Python's own try/finally as a decorator: a fresh cleanup instance per call"""
    def dec(gen_func):
        def inner():
            fin = final_plan()
            try:
                ret = yield from gen_func()
            finally:
                yield from fin
            return ret
        return inner
    return dec


def _as_list(prog):
    """a plan made only of plain yields, as a list of messages"""
    out = []
    while prog[0] == "seq":
        out.append(G.MSGS[prog[1][2]])
        prog = prog[2]
    out.append(G.MSGS[prog[2]])
    return out


def reference(case, log):
    """Python's own try/except/else/finally around the same plans (no cleanup flag)."""
    from bluesky.plan_stubs import pause
    plans = case["plans"]
    mk = lambda h: G.make_gen(plans[h], h, log)      # noqa: E731
    if case.get("calls", 1) > 1:
        return _repeat(case["calls"], _counted(_ref_decorator, plans, log))
    if case["w"] in ("finalize", "decorator"):
        o = {"exc": False, "else": False, "fin": True, "auto": True, "pfd": case.get("pfd", False)}
        fin_h = 1
    else:
        o = case["opts"]
        fin_h = 3
    base_handler = case["w"] == "finalize"

    def ref():
        plan = mk(0)
        fin = mk(fin_h) if o["fin"] else None
        try:
            ret = yield from plan
        except Exception as e:
            if o["pfd"]:
                yield from pause()
            if o["exc"]:
                ret = yield from mk(1)
                if o["auto"]:
                    raise
                else:
                    return ret
            else:
                raise
        except BaseException:
            if base_handler and o["pfd"]:
                yield from pause()
            raise
        else:
            if o["else"]:
                yield from mk(2)
        finally:
            if fin is not None:
                yield from fin
        return ret
    return ref()


def impl(case):
    if case["w"] == "decorator" and not case["callable"]:
        scripts = [[["send", None]], [["close"]], [["throw", "User0"]]]
    else:
        def make():
            log = []
            return build(case, log), log
        scripts = [s for s, _, _ in G.explore(make, ALPHA[case["alpha"]], case["depth"])]
    runs = []
    for s in scripts:
        t, l = G.run_script(lambda: _mk(build, case), s)
        tr, lr = G.run_script(lambda: _mk(reference, case), s)
        runs.append([s, t, l, tr, lr])
    del G.KEEP[:]
    return {"runs": runs}


def _mk(f, case):
    log = []
    return f(case, log), log


def prog_term(case):
    w = case["w"]
    if w == "finalize":
        return "(finalize_wrapper_prog %s)" % cb(case["pfd"])
    if w == "decorator":
        if case.get("calls", 1) > 1:
            return "(decorated_calls %d)" % case["calls"]
        return "(finalize_decorator_prog %s)" % cb(case["callable"])
    o = case["opts"]
    return "(contingency_prog (mkOpts %s %s %s %s %s))" % tuple(cb(o[k]) for k in ("exc", "else", "fin", "auto", "pfd"))


def cb(b):
    return "true" if b else "false"


def coq_term(case, obs):
    plans = case["plans"]
    if case["w"] == "contingency":
        holes = [(False, plans[0]), (True, plans[1]), (True, plans[2]), (True, plans[3])]
    elif case["w"] == "finalize":
        holes = [(False, plans[0]), (case["final_form"] == "callable", plans[1])]
    else:
        holes = [(False, plans[0]), (True, plans[1])] * case.get("calls", 1)
    hs = "[" + "; ".join("(%s, %s)" % (cb(f), G.to_coq(p)) for f, p in holes) + "]"
    mute = "[1]" if case.get("final_form") == "list" else "[]"
    items = []
    for s, t, l, _, _ in obs["runs"]:
        lt = "[" + "; ".join("(%s, %s)" % (G.c_obs(o), G.c_calls(cs)) for o, cs in zip(t, l)) + "]"
        items.append("(%s, %s)" % (G.c_script(s), lt))
    return "c22_case %s %s %s [%s]" % (prog_term(case), hs, mute, "; ".join(items))


def _ge_script(s):
    return any(i[0] == "close" or (i[0] == "throw" and i[1] in ("GeneratorExit", "PlanHalt")) for i in s)


def _raises_ge(p):
    if p[0] == "raise":
        return p[1] in ("GeneratorExit", "PlanHalt")
    if p[0] == "seq":
        return _raises_ge(p[1]) or _raises_ge(p[2])
    if p[0] == "if":
        return _raises_ge(p[2]) or _raises_ge(p[3])
    if p[0] in ("yf", "for"):
        return _raises_ge(p[2])
    if p[0] == "try":
        return _raises_ge(p[1]) or any(_raises_ge(b) for _, b in p[2]) or _raises_ge(p[3]) or _raises_ge(p[4])
    return False


def oracle(case, obs):
    """The property, on the observation: like Python's try/except/else/finally when no GeneratorExit is involved;
    the final plan is started at most once, exactly once when the wrapper ends other than by GeneratorExit/close,
    and not at all when the wrapper is closed while the wrapped plan is the one running."""
    if case["w"] == "decorator" and not case["callable"]:
        return None
    fin_h = 3 if case["w"] == "contingency" else 1
    has_fin = case["opts"]["fin"] if case["w"] == "contingency" else True
    listy = case.get("final_form") == "list"
    ncalls = case.get("calls", 1)
    plans_ge = any(_raises_ge(p) for p in case["plans"])
    for s, t, l, tr, lr in obs["runs"]:
        flat = [e for sl in l for e in sl]
        for h in range(1, 2 * ncalls, 2) if ncalls > 1 else [fin_h]:
            starts = [e for e in flat if e[0] == h and e[1] == "start"]
            if len(starts) > 1:
                return "script %s: the final plan (plan %d) was started %d times" % (s, h, len(starts))
        if ncalls > 1:
            # every call that ended by return / a plain exception ran its own cleanup: compared with the
            # reference below; on scripts with close / GeneratorExit only the at-most-once clause applies
            if not _ge_script(s) and not plans_ge and (t != tr or l != lr):
                return "script %s (%d calls): decorated plan gives %s / %s, Python's try/finally per call gives %s / %s" % (
                    s, ncalls, t, l, tr, lr)
            continue
        if not _ge_script(s) and not plans_ge and not listy:
            if t != tr or l != lr:
                return "script %s: wrapper gives %s / %s, Python's try statement gives %s / %s" % (s, t, l, tr, lr)
        # (an exception out of close() does not mean the generator ended: it may have yielded instead)
        if has_fin and not listy and s[:1] == [["send", None]] and s[len(t) - 1] != ["close"] and t[-1][0] in ("r", "e") and t[-1] not in (["e", "GeneratorExit"], ["e", "PlanHalt"]):
            if len(starts) != 1 and not (case["w"] == "decorator" and not case.get("callable", True)):
                return "script %s ends with %s but the final plan was started %d times" % (s, t[-1], len(starts))
        # closed while the wrapped plan runs (it is the only plan that ever ran) and it accepts the close
        # (a wrapped plan without try statements cannot intercept the close)
        if s and s[-1] == ["close"] and len(t) == len(s) and t[-1] == ["c"] and not G.has(case["plans"][0], "try"):
            before = [e for sl in l[:-1] for e in sl]
            if all(e[0] == 0 for e in before) and t[-2:-1] and t[-2][0] == "y" and len(l[-1]) and l[-1][0][0] == 0:
                if any(e[0] != 0 for e in l[-1]):
                    return "script %s: closed while the wrapped plan ran, yet another plan was run: %s" % (s, l[-1])
    return None


def finding(case, obs):
    return None


def nontrivial(case, obs):
    fin_h = 3 if case["w"] == "contingency" else 1
    if case.get("calls", 1) > 1:
        return any(e[0] == 3 for r in obs["runs"] for sl in r[2] for e in sl)      # the second call's cleanup ran
    return any(len(r[1]) >= 3 for r in obs["runs"]) and any(e[0] == fin_h for r in obs["runs"] for sl in r[2] for e in sl)


def describe(case):
    if case["w"] == "contingency":
        o = case["opts"]
        return "contingency exc=%d else=%d fin=%d auto=%d pfd=%d%s" % (o["exc"], o["else"], o["fin"], o["auto"], o["pfd"],
                                                                        " rand" if case.get("rand") else "")
    if case["w"] == "finalize":
        return "finalize %s pfd=%d%s" % (case["final_form"], case["pfd"], " rand" if case.get("rand") else "")
    return "decorator callable=%d calls=%d%s" % (case["callable"], case.get("calls", 1), " rand" if case.get("rand") else "")
