(* C08 - RunEngineInterrupted means paused unless the plan was terminated. *)
From Coq Require Import List.
From BV Require Import Engine.RE Engine.REInst Proofs.RE_Intr.
Import ListNotations.

(* For every plan behaviour (any coalgebra), every device behaviour whose pause() does not raise one
   of the engine's own control exceptions, and every well-formed schedule (wf_run: main-thread calls
   do not overlap and end after they started; RE()/resume() come back only when the blocking event is
   set or at once with an error; the run permit is not handed to a task sitting in a plain pause):
   when RE(...)/resume() ends, the model prints one outcome for the current state, and
   - RunEngineInterrupted: the engine is paused and resumable, or idle with every run closed and the
     last request that marked it interrupted was an abort/stop/halt or a pause/suspension without a
     checkpoint - or the run is in one of the recorded classes (a: pause accepted in the final sleep
     of `_run`; c: transient state after a request coroutine that ran while paused), or
     record_interruption raised inside the pause request (residual_intr_err);
   - a normal return: the engine is idle, every run is closed, it is not marked interrupted, the
     uids are those of the runs of this call and the `_run` task has finished without an exception. *)
Theorem C08_interrupted_means_paused : C08_statement.
Proof. exact C08_interrupted_means_paused_lemma. Qed.
Print Assumptions C08_interrupted_means_paused.

(* the recorded deviations of the unchanged code, each with a schedule logged from the real engine *)
Theorem C08_a_refuted :
  exists evs a, wf_sched T_SIMPLE [] [2] [0; 3] false (evs ++ [EvMainDone a]) = true /\ is_call a = true /\
    let s := c08_final T_SIMPLE [] [2] [0; 3] false evs in
    out_of s a T_SIMPLE = [OOut OutInterrupted Idle false true] /\
    finding_C08_a TP nat s /\ not_C08 s /\ pc TP nat s = PcDone (TRaise ECancelled).
Proof. exact C08_a_refuted_lemma. Qed.
Print Assumptions C08_a_refuted.

Theorem C08_b_refuted :
  exists evs a, wf_sched T_SIMPLE [] [2] [0; 3] false (evs ++ [EvMainDone a]) = true /\ is_call a = true /\
    let s := c08_final T_SIMPLE [] [2] [0; 3] false evs in
    let tr := model_obs T_SIMPLE [] [2] [0; 3] false evs in
    out_of s a T_SIMPLE = [OOut OutInterrupted Idle false true] /\
    icause TP nat s = Some CzStop /\
    filter (fun o => match o with OReq _ => true | _ => false end) tr = [OReq true; OReq false] /\
    existsb (fun o => match o with OState _ Stopping => true | _ => false end) tr = false /\
    pc TP nat s = PcDone (TReturn (VUid 0)).
Proof. exact C08_b_refuted_lemma. Qed.
Print Assumptions C08_b_refuted.

Theorem C08_c_refuted :
  exists evs a, wf_sched T_PAUSEMSG [] [2] [0; 3] false (evs ++ [EvMainDone a]) = true /\ is_call a = true /\
    let s := c08_final T_PAUSEMSG [] [2] [0; 3] false evs in
    out_of s a T_PAUSEMSG = [OOut OutInterrupted Aborting false true] /\
    finding_C08_c TP nat s /\ not_C08 s.
Proof. exact C08_c_refuted_lemma. Qed.
Print Assumptions C08_c_refuted.
