"""C06 cleanup-ledger family: Coq terms (model Engine/CleanupLedger.v), the implementation-side oracle that
reads the three clauses directly off the real ledger, and the Python mirror of the finding class C06-a."""

FLYERS = [0, 1, 2, 3]
METH = {"describe": "CL.MDescribe", "describe_collect": "CL.MDescribeCollect", "kickoff": "CL.MKickoff",
        "complete": "CL.MComplete", "collect": "CL.MCollect"}
SORIGIN = {"percall": "CL.SPerCall", "inplan": "CL.SInPlan", "main": "CL.SMain"}
UORIGIN = {"plan": "CL.UPlan", "main": "CL.UMain", "clear": "CL.UClear"}


def n(x):
    if not isinstance(x, int) or isinstance(x, bool) or x < 0:
        raise ValueError("not a natural number: %r" % (x,))
    return "%d%%N" % x


def cb(b):
    return "true" if b else "false"


def cl(xs, f=str):
    return "[" + "; ".join(f(x) for x in xs) + "]"


# ----------------------------------------------------------------------------- reading the log

def ins_of(obs):
    return [e[1:] for e in obs["log"] if e[0] == "in"]


def ledger_of(log):
    """device and dispatcher entries in order; a block of consecutive _clear_call_cache unsubscribes is sorted
    (iteration order of the set _temp_callback_ids)"""
    out = []
    for e in log:
        if e[0] in ("dev", "sub", "unsub"):
            out.append(e)
    res, i = [], 0
    while i < len(out):
        if out[i][0] == "unsub" and out[i][1] == "clear":
            j = i
            while j < len(out) and out[j][0] == "unsub" and out[j][1] == "clear":
                j += 1
            res += sorted(out[i:j], key=lambda e: e[2])
            i = j
        else:
            res.append(out[i])
            i += 1
    return res


def lost_mirror(ins, outs):
    """Python mirror of the ghost field g_lost (class C06-a): flyers that were uncollected in a run whose
    'close_run' message succeeded.  Replays the specification-level bookkeeping on inputs and observed outcomes."""
    unc = {}
    lost = []
    for i, o in zip(ins, outs):
        k = i[0]
        if k == "Open" and o:
            unc[i[1]] = set()
        elif k == "Kickoff" and o:
            unc[i[1]].add(i[2])
        elif k == "Collect" and i[1] in unc:
            unc[i[1]].discard(i[2])
        elif k == "Close" and o:
            lost += sorted(unc.pop(i[1]))
        elif k == "Finally":
            unc = {}
    return lost


# ----------------------------------------------------------------------------- Coq term

def _cop(i):
    k = i[0]
    if k == "Start":
        return "CL.OStart %d" % i[1]
    if k in ("Open", "Close"):
        return "CL.O%s %s" % (k, n(i[1]))
    if k in ("Kickoff", "Collect", "Monitor", "Unmonitor"):
        return "CL.O%s %s %s" % (k, n(i[1]), n(i[2]))
    if k == "Complete":
        return "CL.OComplete %s" % n(i[1])
    if k == "Subscribe":
        return "CL.OSubscribe %s" % cb(i[1])
    if k in ("Unsubscribe", "MainUnsub"):
        return "CL.O%s %s" % (k, n(i[1]))
    if k in ("Pause", "Wake", "MainSub", "Finally"):
        return "CL.O" + k
    raise ValueError("unknown op %r" % (i,))


def _centry(e):
    if e[0] == "dev":
        _, d, meth, c, ok = e
        if meth == "subscribe":
            m = "(CL.MSubscribe %s)" % n(c)
        elif meth == "clear_sub":
            m = "(CL.MClearSub %s)" % n(c)
        else:
            m = METH[meth]
        return "CL.EDev %s %s %s" % (n(d), m, cb(ok))
    if e[0] == "sub":
        return "CL.ESub %s %s" % (SORIGIN[e[1]], n(e[2]))
    return "CL.EUnsub %s %s" % (UORIGIN[e[1]], n(e[2]))


def _cout(o):
    return "None" if o is None else "Some %s" % cb(o)


def _csnap(s):
    dropped = cl(s["dropped"], lambda b: "(%s, (%s, %s))" % (n(b[0]), cl(b[1], lambda p: "(%s, %s)" % (n(p[0]), n(p[1]))), cl(b[2], n)))
    return "(%s, %s, %s, %s)" % (cl(s["disp"], n), cl(s["temp"], n), cl(s["open"], n), dropped)


def coq_term(case, obs):
    if obs["errors"]:
        return "false"
    ins = ins_of(obs)
    led = ledger_of(obs["log"])
    snaps = [e[1] for e in obs["log"] if e[0] == "snap"]
    lost = lost_mirror(ins, obs["outs"])
    # the model reproduces the whole observation; on the real ledger the Coq readings of the clauses agree with
    # the Python ones used by the oracle; the Coq finding class (g_lost non-empty) agrees with its mirror
    devled = [e for e in led if e[0] == "dev"]
    pairs = sorted({(e[1], e[3]) for e in devled if e[2] == "subscribe"})
    cled = cl(led, _centry)
    py_fly = not any(needs_collect(devled, f) for f in FLYERS)
    py_mon = not any(needs_clear(devled, d, c) for d, c in pairs)
    return ("andb (CL.case_ok %s %s %s %s %s %s) (andb (Bool.eqb (CL.clean_flyers %s %s) %s) (Bool.eqb (CL.clean_monitors %s %s) %s))" % (
        cl(case.get("faults", []), n), cl(ins, _cop), cled, cl(obs["outs"], _cout), cl(snaps, _csnap), cl(lost, n),
        cled, cl(FLYERS, n), cb(py_fly), cled, cl(pairs, lambda p: "(%s, %s)" % (n(p[0]), n(p[1]))), cb(py_mon)))


# ----------------------------------------------------------------------------- the clauses on the real ledger

def needs_collect(devled, f):
    """after the last successful kickoff() of f no collection was attempted (collect() called, or describe_collect(),
    the first thing collecting does, raised)"""
    flag = False
    for _, d, meth, _c, ok in devled:
        if d != f:
            continue
        if meth == "kickoff" and ok:
            flag = True
        elif meth == "collect" or (meth == "describe_collect" and not ok):
            flag = False
    return flag


def needs_clear(devled, d, c):
    """after the last successful subscribe(cb) on d there is no later clear_sub(cb) call on d"""
    flag = False
    for _, d2, meth, c2, ok in devled:
        if d2 != d or c2 != c:
            continue
        if meth == "subscribe" and ok:
            flag = True
        elif meth == "clear_sub":
            flag = False
    return flag


def problems(obs):
    """[(kind, detail, message)] read off the chronological log at every moment a call has returned"""
    out = []
    devled = []
    temp_before_start = set()      # temporary tokens handed out before the current call started
    temp_now = set()               # ... during the current call
    perm = set()                   # permanent tokens nobody asked to remove
    call_no = 0
    for e in obs["log"]:
        if e[0] == "dev":
            devled.append(e)
        elif e[0] == "sub":
            if e[1] in ("percall", "inplan"):
                temp_now.add(e[2])
            elif e[1] == "main":
                perm.add(e[2])
            else:
                out.append(("driver", None, "a Dispatcher.subscribe call of unknown origin"))
        elif e[0] == "unsub" and e[1] == "other":
            out.append(("driver", None, "a Dispatcher.unsubscribe call of unknown origin"))
        elif e[0] == "in":
            if e[1] == "Start":
                call_no += 1
                temp_before_start |= temp_now
                temp_now = set()
            elif e[1] in ("Unsubscribe", "MainUnsub"):
                perm.discard(e[2])
        elif e[0] == "disp0":
            left = sorted(temp_before_start & set(e[1]))
            if left:
                out.append(("temp", left, "call %d processes its first message while the temporary subscription(s) %s of "
                            "earlier calls are still in the dispatcher" % (call_no, left)))
        elif e[0] == "snap":
            s = e[1]
            where = "when call %d had returned" % call_no
            if s["state"] != "idle":
                continue
            for f in FLYERS:
                if needs_collect(devled, f):
                    out.append(("flyer", f, "%s flyer %d had been kicked off and no collection was attempted afterwards" % (where, f)))
            for d, c in sorted({(x[1], x[3]) for x in devled if x[2] == "subscribe"}):
                if needs_clear(devled, d, c):
                    out.append(("monitor", (d, c), "%s the monitor callback %d subscribed on device %d had not been removed (no clear_sub "
                                "after its last successful subscribe)" % (where, c, d)))
            if s["open"]:
                out.append(("open", s["open"], "%s the engine still held bundlers for run keys %s" % (where, s["open"])))
            for bid, mon, unc in s["dropped"]:
                for d, c in mon:
                    last = [x for x in devled if x[1] == d and x[2] == "clear_sub" and x[3] == c]
                    if not last or last[-1][4]:
                        out.append(("params", (d, c), "%s bundler %d still lists monitor callback %d of device %d in _monitor_params "
                                    "although its last clear_sub did not raise" % (where, bid, c, d)))
            left = sorted(temp_before_start & set(s["disp"]))
            if left:
                out.append(("temp", left, "%s the temporary subscription(s) %s of earlier calls were still in the dispatcher" % (where, left)))
            stale = sorted(set(s["temp"]) - temp_now)
            if stale:
                out.append(("tempids", stale, "%s _temp_callback_ids held %s, not handed out during this call" % (where, stale)))
            gone = sorted(perm - set(s["disp"]))
            if gone:
                out.append(("perm", gone, "%s the permanent subscription(s) %s, which nobody unsubscribed, were no longer in the dispatcher" % (where, gone)))
    return out


def oracle(case, obs):
    if obs["errors"]:
        return "driver: " + str(obs["errors"][0])[:200]
    if any(o is None and i[0] not in ("Wake",) for i, o in zip(ins_of(obs), obs["outs"])):
        return "driver: a message without an observed outcome"
    ps = problems(obs)
    if not ps:
        return None
    ps.sort(key=lambda p: p[0] == "flyer")
    return ps[0][2]


def finding(case, obs):
    """a: the only deviations are flyers never collected, each of them uncollected in a run that the plan closed"""
    if obs["errors"]:
        return None
    ps = problems(obs)
    lost = set(lost_mirror(ins_of(obs), obs["outs"]))
    if ps and all(k == "flyer" and f in lost for k, f, _ in ps):
        return "a"
    return None


def nontrivial(case, obs):
    """something was left to clean: _clear_call_cache unsubscribed a token, or a call ended with run(s) still open"""
    if any(e[0] == "unsub" and e[1] == "clear" for e in obs["log"]):
        return True
    open_keys = set()
    for i, o in zip(ins_of(obs), obs["outs"]):
        if i[0] == "Open" and o:
            open_keys.add(i[1])
        elif i[0] == "Close" and o:
            open_keys.discard(i[1])
        elif i[0] == "Finally":
            if open_keys:
                return True
            open_keys = set()
    return False


def describe(case):
    kinds = set()
    nsteps = 0
    for c in case["calls"]:
        for st in c["steps"]:
            nsteps += 1
            if st[0] == "pause":
                kinds.add("pause:" + st[2])
            elif st[0] in ("failed_pause", "raise"):
                kinds.add(st[0])
        if c.get("nsubs"):
            kinds.add("subs")
    if case.get("faults"):
        kinds.add("faults")
    return "cleanup calls=%d steps=%s %s" % (len(case["calls"]), "0-5" if nsteps <= 5 else "6-10" if nsteps <= 10 else "11+",
                                             "+".join(sorted(kinds)) or "plain")
