(* What resume / suspension do with the message cache (C04), what a rewind does to the bundlers'
   counters (C03), how a pause or suspension that hits a non-resumable section turns into an
   abort (C10), and the step-level facts about deferred pauses (C09).  All statements are about
   the engine model Engine/RE.v for arbitrary plan coalgebras and device oracles. *)
From Coq Require Import List String ZArith Bool Arith Lia.
From BV Require Import Engine.RE Proofs.RE_Ctl.
Import ListNotations.

(* ------------------------------------------------------------------ C03: bundler counters *)
Lemma alookup_aset {A} k k' (v : A) l : alookup k (aset k' v l) = if Nat.eqb k k' then Some v else alookup k l.
Proof.
  induction l as [|[k0 v0] l IH]; cbn.
  - reflexivity.
  - destruct (Nat.eqb k' k0) eqn:E1; cbn.
    + apply Nat.eqb_eq in E1; subst. destruct (Nat.eqb k k0); reflexivity.
    + destruct (Nat.eqb k k0) eqn:E2; cbn.
      * apply Nat.eqb_eq in E2; subst. rewrite Nat.eqb_sym, E1. reflexivity.
      * exact IH.
Qed.

(* reset_checkpoint_state: the snapshot holds every current counter *)
Definition fold_set (sq acc : list (nat * nat)) : list (nat * nat) :=
  fold_left (fun acc kv => aset (fst kv) (snd kv) acc) sq acc.

Lemma fold_set_other sq : forall acc k, alookup k sq = None -> alookup k (fold_set sq acc) = alookup k acc.
Proof.
  unfold fold_set. induction sq as [|[k0 v0] sq IH]; intros acc k H; cbn in *; [reflexivity|].
  destruct (Nat.eqb k k0) eqn:E; [discriminate|]. rewrite IH by exact H. rewrite alookup_aset, E. reflexivity.
Qed.

(* association lists built by aset have unique keys; on such lists the snapshot agrees with the counters *)
Fixpoint nodup_keys {A} (l : list (nat * A)) : Prop :=
  match l with [] => True | (k, _) :: l' => alookup k l' = None /\ nodup_keys l' end.

Lemma aset_lookup_none {A} k k' (v : A) l : Nat.eqb k k' = false -> alookup k l = None -> alookup k (aset k' v l) = None.
Proof. intros E H. rewrite alookup_aset, E. exact H. Qed.

Lemma nodup_aset {A} k (v : A) l : nodup_keys l -> nodup_keys (aset k v l).
Proof.
  induction l as [|[k0 v0] l IH]; cbn; intros H; [auto|]. destruct H as [H1 H2].
  destruct (Nat.eqb k k0) eqn:E; cbn.
  - apply Nat.eqb_eq in E; subst. auto.
  - split; [|apply IH, H2]. apply aset_lookup_none; [rewrite Nat.eqb_sym; exact E | exact H1].
Qed.

Lemma fold_set_here sq : forall acc k v, nodup_keys sq -> alookup k sq = Some v -> alookup k (fold_set sq acc) = Some v.
Proof.
  unfold fold_set. induction sq as [|[k0 v0] sq IH]; intros acc k v Hn H; cbn in *; [discriminate|]. destruct Hn as [Hn1 Hn2].
  destruct (Nat.eqb k k0) eqn:E.
  - inversion H; subst. apply Nat.eqb_eq in E; subst.
    change (alookup k0 (fold_set sq (aset k0 v acc)) = Some v). rewrite fold_set_other by exact Hn1.
    rewrite alookup_aset, Nat.eqb_refl. reflexivity.
  - apply IH; assumption.
Qed.

(* C03 (i): a checkpoint snapshots every counter *)
Lemma snapshot_holds_counters b k v :
  nodup_keys (bseq b) -> alookup k (bseq b) = Some v -> alookup k (bseqcopy (b_snapshot b)) = Some v.
Proof. intros Hn H. cbn. apply (fold_set_here _ _ _ _ Hn H). Qed.

(* the fill loop of rewind only adds streams that have no counter yet *)
Lemma fill_lookup ds : forall (acc : list (nat * nat) * list (nat * nat)) k v,
  alookup k (fst acc) = Some v ->
  alookup k (fst (fold_left (fun (acc : list (nat * nat) * list (nat * nat)) (d : nat * list nat) =>
                               if amem (fst d) (fst acc) then acc
                               else (aset (fst d) 1 (fst acc), aset (fst d) 1 (snd acc))) ds acc)) = Some v.
Proof.
  induction ds as [|d ds IH]; intros acc k v H; cbn; [exact H|].
  apply IH. destruct (amem (fst d) (fst acc)) eqn:Em; [exact H|]. cbn. rewrite alookup_aset.
  destruct (Nat.eqb k (fst d)) eqn:E; [|exact H]. apply Nat.eqb_eq in E; subst. unfold amem in Em. rewrite H in Em. discriminate.
Qed.

(* C03 (ii): a rewind puts every snapshotted counter back (the 'interruptions' stream keeps counting) *)
Lemma rewind_restores_counter b k v :
  k <> INTR -> alookup k (bseqcopy b) = Some v -> alookup k (bseq (b_rewind b)) = Some v.
Proof.
  intros Hk H. unfold b_rewind; cbn [bseq]. apply fill_lookup. cbn [fst].
  destruct (alookup INTR (bseq b)); [|exact H]. rewrite alookup_aset.
  destruct (Nat.eqb k INTR) eqn:E; [apply Nat.eqb_eq in E; contradiction | exact H].
Qed.

(* C03 (iii): a rewind cancels the open bundle and leaves descriptors, readings cache and run identity alone *)
Lemma rewind_cancels_bundle b :
  bbundling (b_rewind b) = false /\ bdescs (b_rewind b) = bdescs b /\ buid (b_rewind b) = buid b /\ bopen (b_rewind b) = bopen b.
Proof. repeat split. Qed.

(* C03 (iv): round trip -- whatever create/read/save/drop do between a checkpoint and the rewind (they never touch
   the snapshot), the counters of every stream other than 'interruptions' come back to their checkpoint values *)
Theorem checkpoint_rewind_roundtrip b b' k v :
  nodup_keys (bseq b) -> k <> INTR -> alookup k (bseq b) = Some v ->
  bseqcopy b' = bseqcopy (b_snapshot b) ->
  alookup k (bseq (b_rewind b')) = Some v.
Proof.
  intros Hn Hk H Hc. apply rewind_restores_counter; [exact Hk|]. rewrite Hc. apply snapshot_holds_counters; assumption.
Qed.

(* the bundle operations indeed leave the snapshot alone *)
Lemma set_bundle_keeps_copy b u n o r : bseqcopy (b_set_bundle b u n o r) = bseqcopy b.
Proof. reflexivity. Qed.
Lemma set_seq_keeps_copy b sq ds i : bseqcopy (b_set_seq b sq ds i) = bseqcopy b.
Proof. reflexivity. Qed.
Lemma add_cached_keeps_copy b d : bseqcopy (b_add_cached b d) = bseqcopy b.
Proof. reflexivity. Qed.

(* ================================================================== engine level *)
Section Engine.
Variable P : Type.
Variable presume : P -> input -> outcome P.
Variable plan_of : nat -> P.
Variable D : Type.
Variable dev : D -> nat -> devmeth -> D * devres.
Notation st := (st P D).

(* device calls and interruption records do not touch the plan stack, the responses or the cache *)
Definition peq (s s' : st) : Prop :=
  plans P D s' = plans P D s /\ resps P D s' = resps P D s /\ cache P D s' = cache P D s /\ rewindable P D s' = rewindable P D s /\
  state P D s' = state P D s /\ moved P D s' = moved P D s.
Lemma peq_refl s : peq s s. Proof. repeat split. Qed.
Lemma peq_trans a b c : peq a b -> peq b c -> peq a c.
Proof. intros (A1 & A2 & A3 & A4 & A5 & A6) (B1 & B2 & B3 & B4 & B5 & B6). repeat split; congruence. Qed.

Lemma dcall_peq (s : st) d mth s' r o : dcall P D dev s d mth = (s', r, o) -> peq s s' /\ o = [ODev d mth].
Proof. unfold dcall. destruct (dev _ _ _). intros H; inv H. split; [repeat split | reflexivity]. Qed.

Lemma call_pausables_peq (s : st) mth s' e o : call_pausables P D dev s mth = (s', e, o) -> peq s s'.
Proof.
  unfold call_pausables.
  assert (G : forall l (s0 : st) e0 o0 s1 e1 o1,
             fold_left (fun acc d =>
               let '(s0, e, os) := acc in
               match e with
               | Some _ => acc
               | None => if mem_nat d (seen P D s0)
                         then let '(s1, r, o) := dcall P D dev s0 d mth in
                              (s1, match r with DRaise x => Some x | _ => None end, os ++ o)
                         else acc
               end) l (s0, e0, o0) = (s1, e1, o1) -> peq s0 s1).
  { induction l as [|d l IH]; intros s0 e0 o0 s1 e1 o1 H; cbn in H.
    - inv H. apply peq_refl.
    - destruct e0.
      + eapply IH; eassumption.
      + destruct (mem_nat d (seen P D s0)).
        * destruct (dcall P D dev s0 d mth) as [[sa ra] oa] eqn:E. apply IH in H. apply dcall_peq in E. destruct E as [E _].
          eapply peq_trans; eassumption.
        * eapply IH; eassumption. }
  intros H. apply G in H. exact H.
Qed.

(* _stop_movable_objects: one stop() per moved device, in order, nothing else *)
Lemma stop_movables_spec (s : st) s' o :
  stop_movables P D dev s = (s', o) -> peq s s' /\ o = map (fun d => ODev d MStop) (moved P D s).
Proof.
  unfold stop_movables.
  assert (G : forall l (s0 : st) o0 s1 o1,
             fold_left (fun acc d => let '(s0, os) := acc in
                                     let '(s1, _, o) := dcall P D dev s0 d MStop in (s1, os ++ o)) l (s0, o0) = (s1, o1) ->
             peq s0 s1 /\ o1 = o0 ++ map (fun d => ODev d MStop) l).
  { induction l as [|d l IH]; intros s0 o0 s1 o1 H; cbn in H.
    - inv H. split; [apply peq_refl | rewrite app_nil_r; reflexivity].
    - destruct (dcall P D dev s0 d MStop) as [[sa ra] oa] eqn:E. apply IH in H. destruct H as [H1 H2].
      apply dcall_peq in E. destruct E as [E1 ->]. split; [eapply peq_trans; eassumption|].
      rewrite H2, <- app_assoc. reflexivity. }
  intros H. apply G in H. destruct H as [H1 H2]. split; [exact H1 | exact H2].
Qed.

Lemma record_interruptions_peq (s : st) s' o ok : record_interruptions P D s = (s', o, ok) -> peq s s'.
Proof. unfold record_interruptions. destruct (record_intr_list (bundlers P D s)) as [[bs os] ok0]. intros H; inv H. repeat split. Qed.

Lemma rewind_peq (s : st) s1 l lc :
  cache P D s = Some lc -> rewind P D s = (s1, l) ->
  l = lc /\ cache P D s1 = Some [] /\ plans P D s1 = plans P D s /\ resps P D s1 = resps P D s /\
  rewindable P D s1 = rewindable P D s /\ state P D s1 = state P D s /\
  bundlers P D s1 = (if Nat.eqb (List.length lc) 0 then bundlers P D s
                     else map (fun kb => (fst kb, b_rewind (snd kb))) (bundlers P D s)).
Proof. unfold rewind. intros E. rewrite E. intros H; inv H. destruct (Nat.eqb (List.length l) 0); repeat split. Qed.

(* ------------------------------------------------------------------ C04: resume *)
(* resume(): the messages in the cache become a new plan on top of the stack, the cache is emptied *)
Theorem resume_pushes_cache (s : st) l s' o :
  state P D s = Paused -> cache P D s = Some l -> bintr_ok (bundlers P D s) = true ->
  step P presume plan_of D dev s (EvMain AResume) = (s', o) ->
  plans P D s' = FList l :: plans P D s /\ resps P D s' = RVal VNone :: resps P D s /\ cache P D s' = Some [] /\
  rewindable P D s' = rewindable P D s /\ state P D s' = Paused.
Proof.
  intros Hs Hc Hb. cbn [step]. rewrite Hs. cbn [negb rstate_eqb]. cbv iota.
  change (rstate_eqb Paused Paused) with true. cbn [negb].
  match goal with |- context [record_interruptions P D ?sx] => set (s1 := sx) end.
  destruct (record_interruptions P D s1) as [[s2 o2] ok] eqn:E2. pose proof (record_interruptions_peq _ _ _ _ E2) as Q2.
  apply (record_interruptions_q P D) in E2; [|exact Hb]. destruct E2 as (-> & _ & _). cbn [negb].
  destruct Q2 as (Q21 & Q22 & Q23 & Q24 & Q25 & Q26). cbn in Q21, Q22, Q23, Q24, Q25.
  rewrite Q23, Hc.
  destruct (rewind P D s2) as [s3 l0] eqn:E3. eapply rewind_peq in E3; [|rewrite Q23; exact Hc].
  destruct E3 as (-> & W1 & W2 & W3 & W4 & W5 & W6).
  destruct (call_pausables P D dev (push_frame P D s3 (FList l)) MResume) as [[s5 e] o5] eqn:E5.
  apply call_pausables_peq in E5. destruct E5 as (C1 & C2 & C3 & C4 & C5 & C6). cbn in C1, C2, C3, C4, C5.
  destruct e; intros H; inv H; cbn; rewrite C1, C2, C3, C4, C5, W1, W2, W3, W4, W5; repeat split; congruence.
Qed.

(* _start_suspender: the cached messages are captured by the helper plan (to be replayed after the wait) *)
Theorem suspender_pushes_cache (s : st) sid pre post s' o :
  exec_start_suspender P plan_of D dev s sid pre post = (s', Done (RVal VNone), o) ->
  exists l, cache P D s = Some l /\ cache P D s' = Some [] /\
    plans P D s' = FHelper {| hph := H0; hsid := sid;
                              hpre := if pre then Some (pid_pre sid, plan_of (pid_pre sid)) else None;
                              hpost := if post then Some (pid_post sid, plan_of (pid_post sid)) else None;
                              hwas := rewindable P D s; hrw := l |} :: plans P D s /\
    resps P D s' = RVal VNone :: resps P D s.
Proof.
  unfold exec_start_suspender.
  destruct (record_interruptions P D s) as [[s1 o1] ok] eqn:E1. pose proof (record_interruptions_peq _ _ _ _ E1) as Q1.
  destruct ok; cbn [negb]; [|intros H; inv H].
  destruct (stop_movables P D dev s1) as [s2 o2] eqn:E2. apply stop_movables_spec in E2. destruct E2 as [Q2 _].
  destruct (call_pausables P D dev s2 MPause) as [[s3 e] o3] eqn:E3. apply call_pausables_peq in E3.
  pose proof (peq_trans _ _ _ Q1 (peq_trans _ _ _ Q2 E3)) as (T1 & T2 & T3 & T4 & T5 & T6).
  destruct e; [intros H; inv H|]. destruct (cache P D s3) as [lc|] eqn:Ec; [|intros H; inv H].
  destruct (rewind P D s3) as [s4 l0] eqn:E4. eapply rewind_peq in E4; [|exact Ec].
  destruct E4 as (-> & W1 & W2 & W3 & W4 & W5 & W6). intros H; inv H.
  exists lc. cbn. rewrite W1, W2, W3, W4, T1, T2, T4, <- T3. repeat split; congruence.
Qed.

(* the rewind plan yields exactly the cached messages, in order, then returns *)
Fixpoint drain (f : frame P) (vs : list val) : list msg * option (frame P) :=
  match vs with
  | [] => ([], Some f)
  | v :: vs' =>
      match fst (frame_resume P presume f (Send v)) with
      | Yielded m f' => let '(ms, r) := drain f' vs' in (m :: ms, r)
      | _ => ([], None)
      end
  end.

Theorem rewind_plan_replays_in_order l : forall vs,
  List.length vs = List.length l ->
  drain (FList l) vs = (l, Some (FList [])) /\
  forall v, frame_resume P presume (FList []) (Send v) = (Returned VNone, []).
Proof.
  intros vs H. split; [|reflexivity]. revert vs H. induction l as [|m l IH]; intros vs H; destruct vs as [|v vs]; try discriminate; cbn.
  - reflexivity.
  - rewrite IH by (cbn in H; lia). reflexivity.
Qed.

(* the suspender helper, once its post-plan is done and rewindable has been put back, does the same *)
Theorem helper_replays_in_order (h : helper P) l : forall vs,
  hph h = HRwBack -> hrw h = l -> List.length vs = List.length l ->
  exists h', drain (FHelper h) vs = (l, Some (FHelper h')) /\ (l <> [] -> hph h' = HRewind []) /\
             forall v, l <> [] -> frame_resume P presume (FHelper h') (Send v) = (Returned VNone, []).
Proof.
  intros vs Hp Hl Hlen.
  assert (G : forall l (hh : helper P) vs, hph hh = HRewind l -> List.length vs = List.length l ->
              exists h', drain (FHelper hh) vs = (l, Some (FHelper h')) /\ hph h' = HRewind []).
  { induction l0 as [|m l0 IH]; intros hh vs0 Hh Hlen0; destruct vs0 as [|v vs0]; try discriminate; cbn.
    - exists hh. split; [reflexivity | exact Hh].
    - unfold helper_resume. rewrite Hh. cbn.
      destruct (IH (helper_set P hh (HRewind l0)) vs0 eq_refl ltac:(cbn in Hlen0; lia)) as (h' & E & Hh').
      rewrite E. exists h'. split; [reflexivity | exact Hh']. }
  destruct l as [|m l]; destruct vs as [|v vs]; try discriminate.
  - exists h. cbn. split; [reflexivity|]. split; intros; congruence.
  - cbn. unfold helper_resume. rewrite Hp, Hl. cbn.
    destruct (G l (helper_set P h (HRewind l)) vs eq_refl ltac:(cbn in Hlen; lia)) as (h' & E & Hh').
    rewrite E. exists h'. split; [reflexivity|]. split; [intros _; exact Hh'|].
    intros v0 _. cbn. unfold helper_resume. rewrite Hh'. reflexivity.
Qed.

(* the helper plan as a whole: rewindable(False); pre-plan; wait_for [sid]; _resume_from_suspender; post-plan;
   rewindable(was); cached messages.  Without pre/post plans the sequence is exact. *)
Theorem helper_plan_shape (h : helper P) sid was l vs :
  h = {| hph := H0; hsid := sid; hpre := None; hpost := None; hwas := was; hrw := l |} ->
  List.length vs = 4 + List.length l ->
  fst (drain (FHelper h) vs) =
    [mk (CRewindable (Some false)); mk (CWaitFor [sid]); mk CResumeFromSuspender; mk (CRewindable (Some was))] ++ l.
Proof.
  intros -> Hlen. destruct vs as [|v1 [|v2 [|v3 [|v4 vs]]]]; try (cbn in Hlen; lia).
  cbn [drain frame_resume helper_resume hph fst helper_set hpre hpost helper_after_pre helper_after_post hsid hwas hrw].
  match goal with |- context [drain (FHelper ?hh) vs] =>
    destruct (helper_replays_in_order hh l vs eq_refl eq_refl ltac:(cbn in Hlen; lia)) as (h' & E & _) end.
  rewrite E. reflexivity.
Qed.

(* ------------------------------------------------------------------ C10: non-resumable sections *)
Lemma allowed_running_aborting : allowed Running Aborting = true. Proof. vm_compute. reflexivity. Qed.
Lemma allowed_pausing_aborting : allowed Pausing Aborting = true. Proof. vm_compute. reflexivity. Qed.
Lemma allowed_suspending_aborting : allowed Suspending Aborting = true. Proof. vm_compute. reflexivity. Qed.
Lemma allowed_aborting_suspending : allowed Aborting Suspending = false. Proof. vm_compute. reflexivity. Qed.
Lemma allowed_aborting_idle : allowed Aborting Idle = true. Proof. vm_compute. reflexivity. Qed.

(* top of the `_run` loop: pausing/suspending without a checkpoint arms FailedPause and turns into aborting;
   the pause branch (stop devices, state := paused, hand control back) is NOT taken *)
Theorem failed_pause_at_top_of_loop fuel (s : st) os :
  (state P D s = Pausing \/ state P D s = Suspending) -> cache P D s = None ->
  drive P presume plan_of D dev (S fuel) s CTop os =
  drive P presume plan_of D dev fuel
        (set_state_raw P D (set_ghost P D (set_stashed P D (set_permit P D s true) (Some EFailedPause))
                                      (Some CzFailedPause) (late_pause P D s) (intr_err P D s)) Aborting)
        CTop (os ++ [OState (state P D s) Aborting]).
Proof.
  intros Hs Hc. cbn [drive]. unfold resumable. rewrite Hc. unfold set_state. cbn [state set_ghost set_stashed set_permit set_interrupted upd].
  destruct Hs as [-> | ->]; cbn [rstate_eqb sname]; cbn [String.eqb Ascii.eqb Bool.eqb orb andb negb].
  - rewrite allowed_pausing_aborting. reflexivity.
  - rewrite allowed_suspending_aborting. reflexivity.
Qed.

(* FailedPause is then thrown into the plan on top of the stack: a plan that handles it by yielding a
   cleanup message gets that message processed next ... *)
Theorem failed_pause_runs_cleanup fuel (s : st) os r rest pid p tlp m p' :
  stashed P D s = Some EFailedPause -> exc_slot P D s = None ->
  resps P D s = r :: rest -> plans P D s = FUser pid p true :: tlp ->
  presume p (Throw EFailedPause) = Yielded m p' ->
  drive P presume plan_of D dev (S fuel) s CAfterSleep os =
  drive P presume plan_of D dev fuel (set_stashed P D (replace_top P D (set_resps P D s rest) (FUser pid p' true)) None)
        (CProcess m) (os ++ [OPlanIn pid (Throw EFailedPause)]).
Proof.
  intros Hst Hex Hr Hp Hy. cbn [drive]. rewrite Hr, Hp. cbn [exc_slot set_resps upd]. rewrite Hex. cbn [stashed set_resps upd].
  rewrite Hst. cbn [frame_resume]. rewrite Hy. reflexivity.
Qed.

(* ... and a single plan that does not handle it ends the loop with FailedPause *)
Theorem failed_pause_unhandled fuel (s : st) os r rest pid p :
  stashed P D s = Some EFailedPause -> exc_slot P D s = None ->
  resps P D s = r :: rest -> plans P D s = [FUser pid p true] ->
  presume p (Throw EFailedPause) = Raised EFailedPause ->
  drive P presume plan_of D dev (S fuel) s CAfterSleep os =
  drive P presume plan_of D dev fuel (pop_plan P D (set_resps P D s rest)) (CExit (XExn EFailedPause)) (os ++ [OPlanIn pid (Throw EFailedPause)]).
Proof.
  intros Hst Hex Hr Hp Hy. cbn [drive]. rewrite Hr, Hp. cbn [exc_slot set_resps upd]. rewrite Hex. cbn [stashed set_resps upd].
  rewrite Hst. cbn [frame_resume]. rewrite Hy. cbn [is_Exception]. cbn [plans pop_plan set_plans set_resps upd tl]. rewrite Hp. reflexivity.
Qed.

(* leaving the loop with FailedPause: exit status abort, then the final sleep and the finally block *)
Theorem failed_pause_exit_aborts fuel (s : st) os :
  drive P presume plan_of D dev (S fuel) s (CExit (XExn EFailedPause)) os =
  (set_pc P D (set_exit P D s XAbort (reason P D s)) (PcFinalSleep (TReturn NO_RETURN)), os ++ [OTask WSleep0]).
Proof. reflexivity. Qed.

(* device calls only touch the device state *)
Lemma dcall_dst (s : st) d mth s' r o : dcall P D dev s d mth = (s', r, o) -> exists d', s' = set_dst P D s d'.
Proof. unfold dcall. destruct (dev _ _ _). intros H; inv H. eauto. Qed.

Lemma stop_movables_dst (s : st) s' o : stop_movables P D dev s = (s', o) -> s' = s \/ exists d', s' = set_dst P D s d'.
Proof.
  unfold stop_movables.
  assert (G : forall l (s0 : st) o0 s1 o1,
             fold_left (fun acc d => let '(s0, os) := acc in
                                     let '(s1, _, o) := dcall P D dev s0 d MStop in (s1, os ++ o)) l (s0, o0) = (s1, o1) ->
             s1 = s0 \/ exists d', s1 = set_dst P D s0 d').
  { induction l as [|d l IH]; intros s0 o0 s1 o1 H; cbn in H.
    - inv H. left; reflexivity.
    - destruct (dcall P D dev s0 d MStop) as [[sa ra] oa] eqn:E. apply IH in H. apply dcall_dst in E. destruct E as [d' ->].
      destruct H as [-> | [d'' ->]]; right; [exists d' | exists d'']; reflexivity. }
  intros H. apply G in H. exact H.
Qed.

(* the finally block: every run still open gets a RunStop with the exit status, the engine goes idle *)
Theorem finalize_closes_open_runs (s : st) r pend s' o :
  finalize P presume D dev s r pend = (s', o) ->
  bundlers P D s' = [] /\ staged P D s' = [] /\
  (forall k b, In (k, b) (bundlers P D s) -> bopen b = true ->
     In (ODoc (DStop (buid b) (exit_status P D s) (if exit_reason_set P D s then RsExnText else reason P D s) (num_events b))) o) /\
  (allowed (state P D s) Idle = true -> state P D s' = Idle /\ blocking P D s' = true /\ exists res, pc P D s' = PcDone res).
Proof.
  unfold finalize.
  destruct (stop_movables P D dev (set_pardon P D s true)) as [s2 o2] eqn:E2. apply stop_movables_dst in E2.
  match goal with |- context [fold_left ?f ?l ?a] => destruct (fold_left f l a) as [s3 o3] eqn:E3 end.
  assert (T3 : s3 = s2 \/ exists d', s3 = set_dst P D s2 d').
  { revert E3. generalize (staged P D s2). intros l.
    assert (G : forall l (s0 : st) o0 s1 o1,
               fold_left (fun acc d => let '(s0, os) := acc in
                                       let '(sa, _, o) := dcall P D dev s0 d MUnstage in (sa, os ++ o)) l (s0, o0) = (s1, o1) ->
               s1 = s0 \/ exists d', s1 = set_dst P D s0 d').
    { induction l0 as [|d l0 IH]; intros s0 o0 s1 o1 H; cbn in H.
      - inv H. left; reflexivity.
      - destruct (dcall P D dev s0 d MUnstage) as [[sa ra] oa] eqn:E. apply IH in H. apply dcall_dst in E. destruct E as [d' ->].
        destruct H as [-> | [d'' ->]]; right; [exists d' | exists d'']; reflexivity. }
    intros E3. apply G in E3. exact E3. }
  assert (F : bundlers P D s3 = bundlers P D s /\ exit_status P D s3 = exit_status P D s /\ reason P D s3 = reason P D s /\
              exit_reason_set P D s3 = exit_reason_set P D s /\ state P D s3 = state P D s).
  { destruct T3 as [-> | [d3 ->]]; destruct E2 as [-> | [d2 ->]]; cbn; repeat split. }
  destruct F as (F1 & F2 & F3 & F4 & F5).
  assert (DOC : forall k b, In (k, b) (bundlers P D s) -> bopen b = true ->
            In (ODoc (DStop (buid b) (exit_status P D s) (if exit_reason_set P D s then RsExnText else reason P D s) (num_events b)))
               (close_runs P D (set_staged P D s3 []) (exit_status P D (set_staged P D s3 [])) (if exit_reason_set P D s then RsExnText else reason P D s))).
  { intros k b Hin Hop. unfold close_runs. cbn [bundlers set_staged upd2 exit_status]. rewrite F1, F2.
    apply in_flat_map. exists (k, b). split; [exact Hin|]. cbn. rewrite Hop. left; reflexivity. }
  unfold set_state. cbn [state set_bundlers set_staged upd2]. rewrite F5.
  destruct (allowed (state P D s) Idle) eqn:Ea; intros H; inv H; cbn; (split; [reflexivity|]); (split; [reflexivity|]); split.
  - intros k b Hin Hop. apply in_or_app; right. apply in_or_app; right. apply in_or_app; left. eapply DOC; eassumption.
  - intros _. repeat split. eauto.
  - intros k b Hin Hop. apply in_or_app; right. apply in_or_app; right. apply in_or_app; left. eapply DOC; eassumption.
  - intros Hf; discriminate.
Qed.

(* a suspension requested while no checkpoint is in effect: FailedPause is armed, the engine goes aborting,
   the task is cancelled, the request as a whole is refused and leaves nothing on the plan stack *)
Theorem suspend_request_without_checkpoint_aborts (s : st) sid pre post s' o :
  state P D s = Running -> cache P D s = None -> pc P D s = PcSleep0 \/ (exists k, pc P D s = PcCmd k) ->
  step P presume plan_of D dev s (EvReqSuspend sid pre post) = (s', o) ->
  o = [OState Running Aborting; OReq false] /\ state P D s' = Aborting /\ exc_slot P D s' = Some EFailedPause /\
  interrupted P D s' = true /\ must_cancel P D s' = true /\ plans P D s' = plans P D s /\ resps P D s' = resps P D s /\
  cache P D s' = None.
Proof.
  intros Hs Hc Hpc. cbn [step]. unfold resumable. cbn [cache set_futs upd2]. rewrite Hc. cbn [negb].
  unfold set_state. cbn [state set_exc_slot interrupt set_ghost set_interrupted set_futs upd upd2]. rewrite Hs.
  rewrite allowed_running_aborting. cbn [rstate_eqb sname String.eqb Ascii.eqb Bool.eqb].
  unfold cancel_task. cbn [pc set_state_raw set_exc_slot interrupt set_ghost set_interrupted set_futs upd upd2].
  destruct Hpc as [Hp | [k Hp]]; rewrite Hp; cbn [state set_must_cancel set_state_raw upd]; rewrite allowed_aborting_suspending;
    unfold req_result; intros H; inv H; cbn; destruct (mreq P D s); cbn; repeat split; auto.
Qed.

(* ... whereas with a checkpoint in effect the same point of the loop DOES pause: devices stopped and paused, lifecycle
   paused, the caller is woken (blocking event set) and the task waits for the run permit *)
Lemma allowed_pausing_paused : allowed Pausing Paused = true. Proof. vm_compute. reflexivity. Qed.

Theorem pausing_with_checkpoint_pauses fuel (s : st) os l s2 o2 s3 o3 :
  state P D s = Pausing -> cache P D s = Some l -> permit P D s = false ->
  stop_movables P D dev s = (s2, o2) -> call_pausables P D dev s2 MPause = (s3, None, o3) ->
  drive P presume plan_of D dev (S fuel) s CTop os =
  (set_pc P D (set_blocking P D (set_state_raw P D s3 Paused) true) PcPaused,
   os ++ [] ++ o2 ++ o3 ++ [OState Pausing Paused] ++ [OTask WFuture]).
Proof.
  intros Hs Hc Hp E2 E3. cbn [drive]. unfold resumable. rewrite Hc, Hs.
  cbn [rstate_eqb sname String.eqb Ascii.eqb Bool.eqb orb andb negb]. rewrite Hp. cbn [negb]. rewrite Hs.
  cbn [rstate_eqb sname String.eqb Ascii.eqb Bool.eqb negb]. rewrite E2, E3.
  pose proof (stop_movables_spec _ _ _ E2) as [(_ & _ & _ & _ & Q25 & _) _].
  pose proof (call_pausables_peq _ _ _ _ _ E3) as (_ & _ & _ & _ & Q35 & _).
  unfold set_state. rewrite Q35, Q25, Hs, allowed_pausing_paused. reflexivity.
Qed.

(* ------------------------------------------------------------------ C09: deferred pause, step level *)
(* the deferred request only sets the flag: no lifecycle change, no cancellation, nothing pushed *)
Theorem defer_request_only_sets_flag (s : st) s' o :
  allowed (state P D s) Pausing = true ->
  step P presume plan_of D dev s (EvReqPause true) = (s', o) ->
  o = [OReq true] /\ deferred P D s' = true /\ state P D s' = state P D s /\ pc P D s' = pc P D s /\
  must_cancel P D s' = must_cancel P D s /\ permit P D s' = permit P D s /\ interrupted P D s' = interrupted P D s /\
  plans P D s' = plans P D s /\ resps P D s' = resps P D s /\ cache P D s' = cache P D s.
Proof.
  intros Ha. cbn [step]. unfold request_pause. rewrite Ha. cbn [negb]. unfold req_result.
  intros H; inv H. cbn. destruct (mreq P D s); cbn; repeat split.
Qed.

(* a checkpoint (outside a bundle) takes the checkpoint -- also after clear_checkpoint: an explicit checkpoint
   re-establishes resumability --, so the cache is empty afterwards; with the flag set it starts the grace sleep,
   without it it just returns *)
Theorem checkpoint_honours_deferred (s : st) x :
  mcmd x = CCheckpoint -> any_bundling P D s = false ->
  exists s1,
    exec_cmd P D dev s x = (s1, if deferred P D s then Susp KCkptSleep else Done (RVal VNone), []) /\
    cache P D s1 = Some [] /\ deferred P D s1 = deferred P D s /\ state P D s1 = state P D s /\
    rewindable P D s1 = rewindable P D s /\ plans P D s1 = plans P D s /\ resps P D s1 = resps P D s.
Proof.
  intros Ec Hb. unfold exec_cmd. rewrite Ec, Hb.
  set (s0 := match cache P D s with None => set_cache P D s (Some []) | Some _ => s end).
  assert (T0 : state P D s0 = state P D s /\ rewindable P D s0 = rewindable P D s /\ deferred P D s0 = deferred P D s /\
               plans P D s0 = plans P D s /\ resps P D s0 = resps P D s /\ reset_spec (cache P D s0) = Some [])
    by (unfold s0; destruct (cache P D s) eqn:Ecs; cbn; rewrite ?Ecs; repeat split).
  destruct T0 as (T1 & T2 & T3 & T4 & T5 & T6).
  destruct (reset_checkpoint_spec P D s0) as (Q1 & Q2 & Q3 & Q4 & _).
  exists (reset_checkpoint P D s0). rewrite Q4, T3. split; [destruct (deferred P D s); reflexivity|].
  rewrite Q1, Q2, Q3, T1, T2, T6. repeat split; auto.
  - unfold reset_checkpoint. destruct (cache P D s0); cbn; exact T4.
  - unfold reset_checkpoint. destruct (cache P D s0); cbn; exact T5.
Qed.

(* an accepted hard pause request (also reached from the `pause` message and from the end of the grace sleep) *)
Lemma request_pause_now_spec (s : st) s1 e o :
  allowed (state P D s) Pausing = true -> bintr_ok (bundlers P D s) = true ->
  (pc P D s = PcSleep0 \/ exists k, pc P D s = PcCmd k) ->
  request_pause P D s false = (s1, e, o) ->
  e = None /\ (exists o1, o = OState (state P D s) Pausing :: o1) /\
  state P D s1 = Pausing /\ deferred P D s1 = false /\ interrupted P D s1 = true /\ must_cancel P D s1 = true /\
  cache P D s1 = cache P D s /\ plans P D s1 = plans P D s /\ resps P D s1 = resps P D s /\ pc P D s1 = pc P D s.
Proof.
  intros Ha Hb Hpc. unfold request_pause. rewrite Ha. cbn [negb].
  assert (Hnf : forall r, pc P D s <> PcFinalSleep r) by (intros r; destruct Hpc as [-> | [k ->]]; discriminate).
  assert (E1 : match pc P D (interrupt P D (set_deferred P D s false) CzPause) with
               | PcFinalSleep _ => set_ghost P D (interrupt P D (set_deferred P D s false) CzPause)
                                     (icause P D (interrupt P D (set_deferred P D s false) CzPause)) true
                                     (intr_err P D (interrupt P D (set_deferred P D s false) CzPause))
               | _ => interrupt P D (set_deferred P D s false) CzPause
               end = interrupt P D (set_deferred P D s false) CzPause).
  { cbn [pc interrupt set_ghost set_interrupted set_deferred upd]. destruct (pc P D s) eqn:E; try reflexivity. exfalso; eapply Hnf; reflexivity. }
  rewrite E1. unfold set_state. cbn [state interrupt set_ghost set_interrupted set_deferred upd]. rewrite Ha.
  unfold record_interruptions. cbn [bundlers set_state_raw interrupt set_ghost set_interrupted set_deferred upd].
  destruct (record_intr_list_ok _ Hb) as (bs & o0 & E & _ & _). rewrite E.
  intros H; inv H. split; [reflexivity|]. split; [eexists; reflexivity|].
  unfold cancel_task. cbn [pc set_bundlers upd2 set_state_raw interrupt set_ghost set_interrupted set_deferred upd].
  destruct Hpc as [Hp | [k Hp]]; rewrite Hp; cbn; rewrite ?Hp; repeat split.
Qed.

(* when the grace sleep is over (and was not cancelled) the engine performs a hard pause request:
   deferred flag cleared, lifecycle -> pausing, interrupted, task cancelled; the checkpoint's response follows *)
Theorem grace_sleep_then_pause (s : st) :
  pc P D s = PcCmd KCkptSleep -> must_cancel P D s = false -> allowed (state P D s) Pausing = true ->
  bintr_ok (bundlers P D s) = true ->
  exists s1 o1,
    request_pause P D (set_must_cancel P D s false) false = (s1, None, OState (state P D s) Pausing :: o1) /\
    state P D s1 = Pausing /\ deferred P D s1 = false /\ interrupted P D s1 = true /\ must_cancel P D s1 = true /\
    cache P D s1 = cache P D s /\
    task_step P presume plan_of D dev s =
      drive P presume plan_of D dev (FUEL P D s1) s1 (CContinue true (RVal VNone))
            ((OState (state P D s) Pausing :: o1) ++ [OResp (RVal VNone)]).
Proof.
  intros Hpc Hmc Ha Hb. unfold task_step. rewrite Hpc, Hmc.
  destruct (request_pause P D (set_must_cancel P D s false) false) as [[s1 e] o] eqn:Er.
  eapply request_pause_now_spec in Er; [| exact Ha | exact Hb | right; exists KCkptSleep; exact Hpc].
  destruct Er as (-> & (o1 & ->) & C1 & C2 & C3 & C4 & C5 & C6 & C7 & C8).
  exists s1, o1. repeat split; assumption.
Qed.

End Engine.

Lemma c03_partial :
  (forall (b b' : bundler) (k v : nat),
      nodup_keys (bseq b) -> k <> INTR -> alookup k (bseq b) = Some v -> bseqcopy b' = bseqcopy (b_snapshot b) ->
      alookup k (bseq (b_rewind b')) = Some v /\ bbundling (b_rewind b') = false) /\
  (forall (P : Type) (presume : P -> input -> outcome P) (plan_of : nat -> P) (D : Type) (dev : D -> nat -> devmeth -> D * devres)
          (s : st P D) (l : list msg) (s' : st P D) (o : list obs),
      state P D s = Paused -> cache P D s = Some l -> bintr_ok (bundlers P D s) = true ->
      step P presume plan_of D dev s (EvMain AResume) = (s', o) ->
      plans P D s' = FList l :: plans P D s /\ cache P D s' = Some []).
Proof.
  split.
  - intros b b' k v Hn Hk H Hc. split; [eapply checkpoint_rewind_roundtrip; eassumption | reflexivity].
  - intros P presume plan_of D dev s l s' o Hs Hc Hb H.
    destruct (resume_pushes_cache P presume plan_of D dev s l s' o Hs Hc Hb H) as (A & _ & B & _). split; assumption.
Qed.

(* C04 end to end for resume(): after ANY schedule that leaves the engine paused, resume() pushes exactly the message
   list that the trace specification computed, as the rewind plan, and empties the cache *)
Theorem resume_replays_trace_spec
  (P : Type) (presume : P -> input -> outcome P) (plan_of : nat -> P) (D : Type) (dev : D -> nat -> devmeth -> D * devres)
  (d : D) (paus stag : list nat) (rec : bool) (evs : list event) (l : list msg) (s' : st P D) (o : list obs) :
  let s := fst (run P presume plan_of D dev (init P D d paus stag rec) evs) in
  state P D s = Paused ->
  mcache (mon_run mon0 (trace P presume plan_of D dev (init P D d paus stag rec) evs)) = Some l ->
  step P presume plan_of D dev s (EvMain AResume) = (s', o) ->
  plans P D s' = FList l :: plans P D s /\ resps P D s' = RVal VNone :: resps P D s /\ cache P D s' = Some [] /\
  rewindable P D s' = rewindable P D s /\ state P D s' = Paused.
Proof.
  cbv zeta. intros Hs Hm H. eapply resume_pushes_cache; [exact Hs | | apply reachable_bintr_ok | exact H].
  rewrite cache_is_trace_spec. exact Hm.
Qed.
