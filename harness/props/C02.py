"""C02 - exit status, reason and raised exception reflect how the run ended."""
from harness.props.engine_common import *  # noqa: F401,F403
from harness.props import docs_common as dc
from harness.props import engine_common as ec

ID = "C02"
PROP_FILE = "Props/C02.v"
THEOREMS = ["C02_exit_mapping", "C02_plan_end_decides", "C02_finalize_closes_open_runs", "C02_status_stable_until_finalize",
            "C02_abort_request_sets_reason", "C02_final_sleep_step", "C02_decision_reaches_stops", "C02_fail_closes_at_once",
            "C02_outcome_of_call", "C02_failed_status_origin", "C02_interrupted_sticky", "C02_stop_halt_request_marks",
            "C02_end_to_end", "C02_end_to_end_fail", "C02_final_sleep_has_decision", "C02_task_step_classified",
            "C02_decision_unique", "C02_override_rule", "C02_reason_provenance", "C02_request_lands", "C02_request_decides"]
COQ_IMPORTS = dc.COQ_IMPORTS
RULE = dc.RULE + (" || C02 judges single-cause runs only: exactly one of {plan returned, stop, abort, halt, pause/suspension in a "
                  "non-resumable section, unhandled exception}, with a plan that lets the thrown control exception propagate; "
                  "mixed causes are left to the model correspondence")
coq_term = dc.coq_term


def cases(rng, tier):
    # + oracle-only family (not in the engine model): a status of an earlier call finishing during a later call
    return dc.cases(rng, tier) + dc.engine_cases_docs.gen_crosscall(rng, tier)

CONTROL = ("RequestAbort", "RequestStop", "PlanHalt", "FailedPause", "GeneratorExit", "CancelledError")


def engine_stops(obs_list):
    """RunStop documents emitted by the engine itself (not while a close_run message is processed)"""
    res, in_close = [], False
    for o in obs_list:
        if o[0] == "msg":
            in_close = o[2]["cmd"] == "close_run"
        elif o[0] == "resp":
            in_close = False
        elif o[0] == "doc" and o[1] == "stop" and not in_close:
            res.append(o)
    return res


def segments(obs):
    """per RE(...) call: the slice of the observation list and of the schedule that belongs to it
       (from its ["main","call"] up to the next one), plus the status ids created in it"""
    def split(lst):
        segs, cur = [], None
        for x in lst:
            if x[0] == "main" and x[1] == "call":
                cur = []
                segs.append(cur)
            if cur is not None:
                cur.append(x)
        return segs
    so, ss = split(obs["obs"]), split(obs["sched"])
    # status ids are handed out in the order of the set/trigger device calls
    it = iter(obs.get("devcalls", []))
    own = []
    for seg in so:
        sids = set()
        for o in seg:
            if o[0] == "dev":
                try:
                    dc_ = next(it)
                except StopIteration:
                    break
                if dc_[2][0] == "status":
                    sids.add(dc_[2][1])
        own.append(sids)
    return [{"obs": a, "sched": b, "sids": c} for a, b, c in zip(so, ss, own)]


def classify(case, obs, k=0, seg=None):
    """-> (cause, detail) for a call that ended by a single cause, (None, why) otherwise"""
    if seg is None:
        segs = segments(obs)
        if k >= len(segs):
            return None, "call did not happen"
        seg = segs[k]
    sched = seg["sched"]
    # a refused abort still leaves its reason behind, so refused requests count as causes too
    term = [e[1] for e in sched if e[0] == "req_done" and e[1] in ("abort", "stop", "halt")]
    soft = [e[1] for e in sched if (e[0] == "req_done" and e[1] in ("pause", "suspend")) or
            (e[0] == "inject" and e[1] in ("pause", "defer", "suspend"))]
    soft += [1 for o in seg["obs"] if o[0] == "msg" and o[2]["cmd"] in ("pause", "_start_suspender")]
    tape = obs["tapes"].get(str(k)) or []
    if not tape:
        return None, "plan never ran"
    inp, out = tape[-1]
    thrown = [i[1] for i, _ in tape if i[0] == "throw"]
    if "FailedStatus" in thrown or (out[0] == "raise" and out[1] == "FailedStatus"):
        failed = [e[1] for e in sched if e[0] == "status_done" and not e[2]]
        if not any(sid in seg["sids"] for sid in failed):
            return "foreign_status", "a FailedStatus reached the plan of call %d although none of its own statuses %s failed (failed: %s)" % (
                k, sorted(seg["sids"]), failed)
    fp = "FailedPause" in thrown
    if len(term) > 1 or (term and fp):
        return None, "several terminal causes"
    if term:
        kind = term[0]
        exn = {"abort": "RequestAbort", "stop": "RequestStop", "halt": "PlanHalt"}[kind]
        if [t for t in thrown if t != exn and t in CONTROL]:
            return None, "other control exception thrown"
        if inp == ["throw", exn] and out[0] == "raise" and out[1] == exn:
            return kind, None
        return None, "the plan did not end by propagating " + exn
    if fp:
        if inp == ["throw", "FailedPause"] and out[0] == "raise" and out[1] == "FailedPause":
            return "failed_pause", None
        return None, "the plan did not propagate FailedPause"
    if out[0] == "ret":
        if soft or thrown:
            return None, "interruptions or exceptions on the way"
        return "return", None
    if out[0] == "raise" and out[1] not in CONTROL:
        if any(t in CONTROL for t in thrown):
            return None, "control exception converted"
        return "exception", out[1]
    return None, "unclassified end %r" % (out,)


EXPECT = {"return": "success", "stop": "success", "abort": "abort", "halt": "abort", "failed_pause": "abort", "exception": "fail"}


def oracle(case, obs):
    e = dc.driver_error(obs)
    if e:
        return e
    if dc.transient(obs):
        return None        # class C07-c: the engine never went idle again
    segs = segments(obs)
    all_outs = ec.outs_of(obs)
    if not all_outs:
        return "no blocking call outcome logged"
    if all_outs[-1]["state"] != "idle":
        return None        # the run has not ended (still paused at the end of the script)
    left = dc.mon(case, obs)["open"]
    if left:
        return "run(s) %s still open when the last plan ended got no RunStop" % (left,)
    # whatever else happened: a run closed by the engine as failed carries the text of the exception, never the
    # reason given to an abort
    for s in engine_stops(obs["obs"]):
        if s[3] == "fail" and (not s[4] or s[4] in ("because", "main")):
            return "run %s closed with exit_status 'fail' but reason %r is not the text of the exception" % (s[2], s[4])
    for k, seg in enumerate(segs):
        why = judge(case, obs, k, seg)
        if why:
            return why if len(segs) == 1 else "call %d: %s" % (k, why)
    return None


def judge(case, obs, k, seg):
    cause, detail = classify(case, obs, k, seg)
    if cause is None:
        return None
    if cause == "foreign_status":
        return detail
    outs = [{"action": o[1], "kind": o[2], "state": o[-3], "exn": o[3] if o[2] == "raise" else None, "raw": o}
            for o in seg["obs"] if o[0] == "out"]
    # the call that was blocked in RE(...) / RE.resume() when the run ended, or before abort()/stop()/halt() ended it
    blocked = [o for o in outs if o["action"] in ("call", "resume")]
    if not blocked:
        return "no RE()/resume() outcome logged"
    last = blocked[-1]
    for s in engine_stops(seg["obs"]):
        st, reason = s[3], s[4]
        if st != EXPECT[cause]:
            return "run %s left open when the plan ended by %s: RunStop exit_status %r, expected %r" % (s[2], cause, st, EXPECT[cause])
        if cause == "exception":
            if not reason or reason in ("because", "main"):
                return "run %s failed with %s but RunStop reason is %r" % (s[2], detail, reason)
            if detail in ("EUser1", "EUser2", "EDev") and reason != "msg-" + detail:
                return "run %s failed with %s but RunStop reason is %r, not the exception text" % (s[2], detail, reason)
        elif cause == "abort":
            if reason not in ("because", "main"):
                return "aborted run %s: RunStop reason %r is not the reason given to abort()" % (s[2], reason)
        elif reason not in ("", None):
            return "run %s ended by %s but RunStop carries reason %r" % (s[2], cause, reason)
    if cause == "return":
        if last["kind"] != "return":
            return "plan completed normally but the call ended with %s" % (last["raw"][2:5],)
    elif cause == "exception":
        if last["kind"] != "raise" or last["exn"] != detail:
            return "unhandled %s but the call ended with %s" % (detail, last["raw"][2:5])
        if detail == "FailedStatus" and last["raw"][4] != "EDev":
            return "FailedStatus not chained to the device's exception (cause %r)" % (last["raw"][4],)
    else:
        if last["kind"] != "interrupted":
            return "run ended by %s but the call ended with %s instead of RunEngineInterrupted" % (cause, last["raw"][2:5])
    return None


def finding(case, obs):
    return None


def nontrivial(case, obs):
    if obs.get("errors"):
        return False
    return classify(case, obs)[0] is not None and bool(engine_stops(obs["obs"]))
