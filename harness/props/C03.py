"""C03 - pause/resume and suspend/release do not change the recorded data."""
from harness.props.engine_common import *  # noqa: F401,F403
from harness.props import engine_common as ec
from harness.props import ctl_common as cc
from harness.drivers import engine_cases_ctl as ecc

ID = "C03"
PROP_FILE = "Props/C03.v"
THEOREMS = ["C03_rewind_restores_counters", "C03_checkpoint_then_rewind_roundtrip", "C03_rewind_cancels_bundle",
            "C03_engine_rewind_resets", "C03_partial", "C03_full_refuted", "C03_data_equivalence_reference",
            "C03_data_equivalence_interruptions", "C03_data_equivalence_every_prefix"]
impl_batch = cc.impl_batch
coq_term = cc.coq_term
RULE = ("C03 differential corpus: per-point plans `checkpoint; set(1, x_i); wait; create; read 1; read 2; save` (one stream, two streams, "
        "run key, two sequential + two interleaved keyed runs; and the non-rewindable-detector form `checkpoint; rewindable False; set; wait; create; read; read; save; rewindable True; sleep|null; null`, one and two streams) and the real bluesky plans count([d1,d2], num=3), scan([d2], d1, 0, 4, 3), "
        "all on devices whose reading is a function of the last set positions (engine_driver_ctl.PosDev: 10*own position + sum of "
        "(index+1)*position of the others); x {pause(+resume), suspension(+release), deferred pause, two pauses, suspension with pre/post "
        "plan + pause} at every `_run` step, plus seeded random repeated interruptions; each case is compared with the uninterrupted "
        "run of the same plan: final map (run, stream, seq_num) -> data, every RunStop (exit_status, num_events), no call ending in an "
        "exception, engine idle at the end.  The shared engine corpus is NOT part of C03 (its stock devices count reads). "
        "Cases in which an interruption is accepted while the plan has rewinding switched off (rewindable False: the plan declares the "
        "section impossible to re-take) are outside the property and not compared. "
        "non-trivial = at least one request executed; distinct by case JSON")


def cases(rng, tier):
    return ecc.c03_cases(rng, tier)


def _summary(obs_list):
    ev, stops, starts = {}, {}, 0
    for o in obs_list:
        if o[0] != "doc":
            continue
        if o[1] == "start":
            starts += 1
        elif o[1] == "event":
            ev[(o[2], o[3], o[4])] = sorted((str(k), v) for k, v in o[5])
        elif o[1] == "stop":
            stops[o[2]] = (o[3], o[4], sorted((str(k), v) for k, v in o[5]))
    return ev, stops, starts


def _interrupted_while_not_rewindable(obs):
    """a pause / suspension was accepted (or a pause message ran) while the PLAN had switched rewinding off
    (the suspender helper's own rewindable(False) does not count)"""
    plan_rw = True
    cur = None
    for e in cc.timeline(obs):
        if e[0] == "main" and e[1] == "call":
            plan_rw = True
        if e[0] == "msg":
            cur = e
        if e[0] == "resp" and cur is not None and cur[1] is not None and cur[2]["cmd"] == "rewindable" and not cc.is_exn(e[1]):
            if cur[2]["args"][0] is not None:
                plan_rw = bool(cur[2]["args"][0])
            cur = None
        if e[0] == "req" and e[1] and e[2] in ("pause", "suspend") and not (e[2] == "pause" and e[3] is True) and not plan_rw:
            return True
        if e[0] == "state" and e[2] == "pausing" and not plan_rw:
            return True
    return False


def oracle(case, obs):
    if obs.get("errors"):
        return "driver: " + str(obs["errors"][0])[:200]
    base_ = obs.get("baseline")
    if not base_ or base_.get("errors"):
        return "driver: no baseline run for the differential oracle (%s)" % (base_ and base_.get("errors"))
    if _interrupted_while_not_rewindable(obs):
        return None      # outside the property: the plan declared this section impossible to re-take (rewindable False)
    ev, stops, starts = _summary(obs["obs"])
    bev, bstops, bstarts = _summary(base_["obs"])
    outs = ec.outs_of(obs)
    for o in outs:
        if o["kind"] == "raise":
            return "%s() ended with %s" % (o["action"], o["exn"])
    if not outs or outs[-1]["state"] != "idle":
        return "the interrupted execution did not finish (last state %s)" % (outs[-1]["state"] if outs else None)
    if starts != bstarts:
        return "the interrupted execution opened %d runs, the uninterrupted one %d" % (starts, bstarts)
    for k in sorted(set(ev) | set(bev), key=str):
        if ev.get(k) != bev.get(k):
            return "event (run %s, stream %s, seq_num %s): interrupted execution recorded %s, uninterrupted %s" % (k[0], k[1], k[2], ev.get(k), bev.get(k))
    for r in sorted(set(stops) | set(bstops)):
        if stops.get(r) != bstops.get(r):
            return "RunStop of run %s: interrupted execution %s, uninterrupted %s" % (r, stops.get(r), bstops.get(r))
    return None


def finding(case, obs):
    return None
