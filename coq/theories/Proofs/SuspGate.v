(* Proofs about Engine/SuspGate.v (C31). *)
From BV Require Import Base.Prelude Pure.SuspCond Proofs.SuspCond Engine.SuspGate.
From Coq Require Import QArith Lia.
Close Scope Q_scope.

Section Proofs.
  Variable T : Type.
  Variable ltb : T -> T -> bool.
  Variable eqb : T -> T -> bool.
  Variable truthy : T -> bool.

  Notation state := (state T).
  Notation sus1 := (sus1 T).
  Notation step := (step T ltb eqb truthy).
  Notation run_from := (run_from T ltb eqb truthy).
  Notation after_sus := (after_sus T).
  Notation sus_step := (sus_step T ltb eqb truthy).
  Notation gate_events := (gate_events T).

  Definition gate_list (p : phase) : option (list nat) :=
    match p with PGate g | PSusp _ g => Some g | _ => None end.

  Definition is_call (a : op T) : bool := match a with Call _ => true | _ => false end.
  Definition no_call (h : list (op T)) : bool := forallb (fun a => negb (is_call a)) h.

  (* ---------------------------------------------------------------- small facts *)

  Lemma memb_In e l : memb e l = true <-> In e l.
  Proof.
    unfold memb. rewrite existsb_exists. split.
    - intros [y [H E]]. apply Nat.eqb_eq in E. now subst.
    - intros H. exists e. split; [assumption|apply Nat.eqb_refl].
  Qed.

  Lemma all_set_In g es : all_set g es = true <-> forall e, In e g -> In e es.
  Proof.
    unfold all_set. rewrite forallb_forall. split; intros H e He; specialize (H e He); now apply memb_In.
  Qed.

  Lemma all_set_mono g es es' : incl es es' -> all_set g es = true -> all_set g es' = true.
  Proof. intros Hi H. apply all_set_In. intros e He. apply Hi. eapply all_set_In; eauto. Qed.

  Lemma has_null_app a b : has_null (a ++ b) = has_null a || has_null b.
  Proof. unfold has_null. apply existsb_app. Qed.

  Lemma progress_null p es k p' ms ret :
    progress p es k = (p', ms, ret) -> has_null ms = true ->
    exists g, gate_list p = Some g /\ all_set g es = true.
  Proof.
    unfold progress. destruct p as [|g|i g|]; intros E Hn.
    - inversion E; subst. discriminate.
    - destruct (all_set g es) eqn:Ea; inversion E; subst; [exists g; split; [reflexivity|assumption]|discriminate].
    - destruct (memb i es); [|inversion E; subst; discriminate].
      destruct (all_set g es) eqn:Ea; inversion E; subst; [exists g; split; [reflexivity|assumption]|discriminate].
    - inversion E; subst. discriminate.
  Qed.

  Lemma progress_phase p es k p' ms ret :
    progress p es k = (p', ms, ret) ->
    gate_list p' = gate_list p \/ (p' = PIdle /\ gate_list p <> None).
  Proof.
    unfold progress. destruct p as [|g|i g|]; intros E.
    - inversion E; now left.
    - destruct (all_set g es); inversion E; [right; split; [reflexivity|discriminate]|now left].
    - destruct (memb i es); [|inversion E; now left].
      destruct (all_set g es); inversion E; [right; split; [reflexivity|discriminate]|now left].
    - inversion E; now left.
  Qed.

  Lemma progress_idle es k : progress PIdle es k = (PIdle, [], false).
  Proof. reflexivity. Qed.

  (* ---------------------------------------------------------------- one step: events only get set, the gate list stays *)

  Lemma after_sus_facts x s u' os nx x' r :
    after_sus x s u' os nx = (x', r) ->
    incl (evset x) (evset x') /\
    (has_null (o_msgs r) = true -> exists g, gate_list (ph x) = Some g /\ all_set g (evset x') = true) /\
    (gate_list (ph x') = gate_list (ph x) \/ ph x' = PIdle \/ ph x' = PBroken) /\
    (ph x = PIdle -> ph x' = PIdle).
  Proof.
    unfold after_sus.
    generalize (flat_map (fun o => match o with ORelease e => [e] | _ => [] end) os) as rels.
    generalize (flat_map (fun o => match o with OReq e => [e] | _ => [] end) os) as reqs.
    intros reqs rels.
    set (now := if Nat.eqb (u_sleep u') 0 then rels else []).
    set (es := evset x ++ now).
    destruct (match reqs with
              | [] => (ph x, [])
              | e :: _ => match ph x with
                          | PGate g => (PSusp e g, [MStartSusp; MRewindable; MWaitFor 1])
                          | PIdle => (PIdle, [])
                          | _ => (PBroken, [])
                          end
              end) as [p1 m1] eqn:E1.
    destruct (progress p1 es (plan x)) as [[p2 m2] ret] eqn:E2.
    intros E; inversion E; subst; clear E. cbn [evset o_msgs ph].
    assert (Hm1 : has_null m1 = false).
    { destruct reqs; [inversion E1; reflexivity|]. destruct (ph x); inversion E1; reflexivity. }
    assert (Hp1 : gate_list p1 = gate_list (ph x) \/ p1 = PBroken).
    { destruct reqs; [inversion E1; now left|]. destruct (ph x); inversion E1; subst; auto. }
    repeat split.
    - intros e He. unfold es. apply in_or_app. now left.
    - rewrite has_null_app, Hm1. cbn. intros Hn. destruct (progress_null _ _ _ _ _ _ E2 Hn) as (g & Hg & Ha).
      exists g. split; [|assumption]. destruct Hp1 as [<- | ->]; [assumption|discriminate].
    - destruct (progress_phase _ _ _ _ _ _ E2) as [H|[H _]].
      + destruct Hp1 as [H1|H1]; [left; congruence|]. subst p1. cbn in E2. inversion E2; subst. now right; right.
      + now right; left.
    - intros Hi. rewrite Hi in E1. assert (p1 = PIdle) by (destruct reqs; inversion E1; reflexivity). subst p1.
      rewrite progress_idle in E2. now inversion E2.
  Qed.

  Lemma quiet_facts x x' r : quiet T x = (x', r) -> x' = x /\ o_msgs r = [].
  Proof. unfold quiet. intros E; inversion E; now subst. Qed.

  Definition good (x : state) (a : op T) (x' : state) (r : orec) : Prop :=
    incl (evset x) (evset x') /\
    (has_null (o_msgs r) = true -> is_call a = false -> exists g, gate_list (ph x) = Some g /\ all_set g (evset x') = true) /\
    (is_call a = false -> gate_list (ph x') = gate_list (ph x) \/ ph x' = PIdle \/ ph x' = PBroken) /\
    (is_call a = false -> ph x = PIdle -> ph x' = PIdle) /\
    (ph x = PBroken -> ph x' = PBroken /\ o_msgs r = []).

  Lemma good_quiet x a x' r : quiet T x = (x', r) -> good x a x' r.
  Proof.
    intros E. apply quiet_facts in E as [-> Hm]. unfold good. rewrite Hm.
    repeat split; auto using incl_refl; try discriminate.
  Qed.

  Lemma good_after x a s u' os nx x' r : ph x <> PBroken -> after_sus x s u' os nx = (x', r) -> good x a x' r.
  Proof.
    intros Hb E. apply after_sus_facts in E as (H1 & H2 & H3 & H4). unfold good. repeat split; auto; contradiction.
  Qed.

  Lemma good_timer x x' r : ph x <> PBroken ->
    match timers x with
    | [] => quiet T x
    | (e0, d0) :: _ =>
        let d := fold_left (fun m ed => Nat.min m (snd ed)) (timers x) d0 in
        let fired := map fst (filter (fun ed => Nat.leb (snd ed) d) (timers x)) in
        let rest := filter (fun ed => negb (Nat.leb (snd ed) d)) (timers x) in
        let es := evset x ++ fired in
        let '(p2, m2, ret) := progress (ph x) es (plan x) in
        let x' := mkSt T (sus x) (nextev x) es rest (Nat.max (vt x) d) p2 (plan x) in
        (x', mkO m2 ret (running T x') (view T x') [] fired)
    end = (x', r) -> good x (ReleaseTimer) x' r.
  Proof.
    intros Hb. destruct (timers x) as [|[e0 d0] tl]; [apply good_quiet|].
    cbn zeta. match goal with |- context [progress ?p ?es ?k] => destruct (progress p es k) as [[p2 m2] ret] eqn:E2 end.
    intros E; inversion E; subst; clear E. unfold good. cbn [evset o_msgs ph]. repeat split; try contradiction.
    - intros e He. apply in_or_app. now left.
    - intros Hn _. destruct (progress_null _ _ _ _ _ _ E2 Hn) as (g0 & Hg & Ha). eauto.
    - intros _. destruct (progress_phase _ _ _ _ _ _ E2) as [H|[H _]]; [now left|now right; left].
    - intros _ Hi. rewrite Hi, progress_idle in E2. now inversion E2.
  Qed.

  Lemma step_facts x a x' r : step x a = (x', r) -> good x a x' r.
  Proof.
    unfold SuspGate.step. destruct (ph x) eqn:Ep.
    4:{ apply good_quiet. }
    all: assert (Hb : ph x <> PBroken) by (rewrite Ep; discriminate).
    all: destruct a as [s|s|s|s v|k|].
    all: try (destruct (nth_error (sus x) s) as [u|]; [|apply good_quiet]).
    all: try (match goal with |- context [sus_step ?x ?u ?o] => destruct (sus_step x u o) as [[u' os] nx] end).
    all: try (destruct (u_in u); [|apply good_quiet]).
    all: try (match goal with |- context [sus_step ?x ?u ?o] => destruct (sus_step x u o) as [[u' os] nx] end).
    all: try (now apply good_after).
    all: try (rewrite <- Ep; now apply good_timer).
    - (* Call, idle *)
      destruct (gate_events (sus x) (nextev x)) as [[sus' g] nx]. destruct g as [|e0 g].
      + intros E; inversion E; subst; unfold good; cbn; rewrite ?Ep; repeat split; auto using incl_refl; try discriminate.
      + destruct (progress (PGate (e0 :: g)) (evset x) k) as [[p2 m2] ret]. intros E; inversion E; subst; unfold good; cbn;
          rewrite ?Ep; repeat split; auto using incl_refl; try discriminate.
    - intros E; inversion E; subst; unfold good; cbn; rewrite ?Ep; repeat split; auto using incl_refl; try discriminate.
    - intros E; inversion E; subst; unfold good; cbn; rewrite ?Ep; repeat split; auto using incl_refl; try discriminate.
  Qed.

  (* ---------------------------------------------------------------- histories without a further call *)

  Lemma run_no_plan_when_idle h : forall x x2 rs,
    no_call h = true -> (ph x = PIdle \/ ph x = PBroken) -> run_from x h = (x2, rs) ->
    forall r, In r rs -> has_null (o_msgs r) = false.
  Proof.
    induction h as [|a h IH]; intros x x2 rs Hc Hp E r Hr; cbn in E.
    - inversion E; subst. destruct Hr.
    - cbn in Hc. apply andb_true_iff in Hc as [Ha Hc]. apply negb_true_iff in Ha.
      destruct (step x a) as [x1 r1] eqn:E1. destruct (run_from x1 h) as [x3 rs3] eqn:E3. inversion E; subst; clear E.
      destruct (step_facts _ _ _ _ E1) as (_ & H2 & H3 & H4 & H5).
      assert (Hp1 : ph x1 = PIdle \/ ph x1 = PBroken).
      { destruct Hp as [Hp|Hp]; [left; now apply H4|right; now apply H5]. }
      destruct Hr as [<-|Hr]; [|eapply IH; eauto].
      destruct (has_null (o_msgs r1)) eqn:Hn; [|reflexivity]. exfalso.
      destruct Hp as [Hp|Hp].
      + destruct (H2 eq_refl Ha) as (g & Hg & _). rewrite Hp in Hg. discriminate.
      + destruct (H5 Hp) as [_ Hm]. rewrite Hm in Hn. discriminate.
  Qed.

  Lemma run_evset_mono h : forall x x2 rs, run_from x h = (x2, rs) -> incl (evset x) (evset x2).
  Proof.
    induction h as [|a h IH]; intros x x2 rs E; cbn in E.
    - inversion E; subst. apply incl_refl.
    - destruct (step x a) as [x1 r1] eqn:E1. destruct (run_from x1 h) as [x3 rs3] eqn:E3. inversion E; subst; clear E.
      destruct (step_facts _ _ _ _ E1) as (H1 & _). eapply incl_tran; [exact H1|eapply IH; eauto].
  Qed.

  Lemma run_gate h : forall x g x2 rs,
    no_call h = true -> gate_list (ph x) = Some g -> run_from x h = (x2, rs) ->
    (exists r, In r rs /\ has_null (o_msgs r) = true) -> all_set g (evset x2) = true.
  Proof.
    induction h as [|a h IH]; intros x g x2 rs Hc Hg E [r [Hr Hn]]; cbn in E.
    - inversion E; subst. destruct Hr.
    - cbn in Hc. apply andb_true_iff in Hc as [Ha Hc]. apply negb_true_iff in Ha.
      destruct (step x a) as [x1 r1] eqn:E1. destruct (run_from x1 h) as [x3 rs3] eqn:E3. inversion E; subst; clear E.
      destruct (step_facts _ _ _ _ E1) as (H1 & H2 & H3 & H4 & H5).
      destruct Hr as [<-|Hr].
      + destruct (H2 Hn Ha) as (g' & Hg' & Hall). rewrite Hg in Hg'. inversion Hg'; subst g'.
        eapply all_set_mono; [eapply run_evset_mono; eauto|assumption].
      + destruct (H3 Ha) as [Hp|[Hp|Hp]].
        * eapply (IH x1 g x2 rs3 Hc); [congruence|exact E3|eauto].
        * exfalso. pose proof (run_no_plan_when_idle h x1 x2 rs3 Hc (or_introl Hp) E3 r Hr) as Hf. congruence.
        * exfalso. pose proof (run_no_plan_when_idle h x1 x2 rs3 Hc (or_intror Hp) E3 r Hr) as Hf. congruence.
  Qed.

  (* ---------------------------------------------------------------- the call *)

  Lemma gate_events_In l : forall nx s u e,
    nth_error l s = Some u -> u_in u = true -> st_tripped (u_st u) = true -> st_ev (u_st u) = Some e ->
    In e (snd (fst (gate_events l nx))).
  Proof.
    induction l as [|u0 t IH]; intros nx s u e Hn Hi Ht He; [destruct s; discriminate|].
    cbn [SuspGate.gate_events]. destruct s as [|s]; cbn in Hn.
    - inversion Hn; subst u0. rewrite Hi, Ht, He. cbn. destruct (gate_events t nx) as [[t' g] n']. cbn. now left.
    - destruct (u_in u0 && st_tripped (u_st u0)).
      + destruct (st_ev (u_st u0)) as [e0|].
        * specialize (IH nx s u e Hn Hi Ht He). destruct (gate_events t nx) as [[t' g] n']. cbn in *. now right.
        * destruct (st_installed (u_st u0)).
          -- specialize (IH (S nx) s u e Hn Hi Ht He). destruct (gate_events t (S nx)) as [[t' g] n']. cbn in *. now right.
          -- specialize (IH nx s u e Hn Hi Ht He). destruct (gate_events t nx) as [[t' g] n']. cbn in *. assumption.
      + specialize (IH nx s u e Hn Hi Ht He). destruct (gate_events t nx) as [[t' g] n']. cbn in *. assumption.
  Qed.

  (* the gate: a suspender installed and tripped when the call starts - its pending event is set before any
     message of the plan is processed *)
  Theorem tripped_suspender_gates_the_plan x k h x1 r1 x2 rs s u e :
    ph x = PIdle ->
    nth_error (sus x) s = Some u -> u_in u = true -> st_tripped (u_st u) = true -> st_ev (u_st u) = Some e ->
    step x (Call k) = (x1, r1) -> no_call h = true -> run_from x1 h = (x2, rs) ->
    (exists r, In r (r1 :: rs) /\ has_null (o_msgs r) = true) -> In e (evset x2).
  Proof.
    intros Hp Hn Hi Ht He E1 Hc E2 Hex.
    pose proof (gate_events_In (sus x) (nextev x) s u e Hn Hi Ht He) as Hg.
    unfold SuspGate.step in E1. rewrite Hp in E1.
    destruct (gate_events (sus x) (nextev x)) as [[sus' g] nx]. cbn in Hg.
    destruct g as [|e0 g]; [destruct Hg|].
    destruct (progress (PGate (e0 :: g)) (evset x) k) as [[p2 m2] ret] eqn:E0.
    inversion E1; subst x1 r1; clear E1.
    assert (Hall : all_set (e0 :: g) (evset x2) = true).
    { destruct Hex as [r [[<-|Hr] Hnull]].
      - assert (Hn2 : has_null m2 = true) by exact Hnull.
        destruct (progress_null _ _ _ _ _ _ E0 Hn2) as (g' & Hg' & Ha). inversion Hg'; subst g'.
        eapply all_set_mono; [eapply run_evset_mono; eauto|assumption].
      - destruct (progress_phase _ _ _ _ _ _ E0) as [Hp2|[Hp2 _]].
        + apply (run_gate h (mkSt T sus' nx (evset x) (timers x) (vt x) p2 k) (e0 :: g) x2 rs Hc Hp2 E2). eauto.
        + exfalso. pose proof (run_no_plan_when_idle h (mkSt T sus' nx (evset x) (timers x) (vt x) p2 k) x2 rs Hc (or_introl Hp2) E2 r Hr) as Hf. congruence. }
    eapply all_set_In; eauto.
  Qed.

  (* ... and, per operation: messages of the plan appear only in an operation after which every gate event is set *)
  Theorem plan_starts_only_behind_open_gate x a x' r :
    step x a = (x', r) -> has_null (o_msgs r) = true ->
    match a with
    | Call _ => ph x = PIdle /\ (gate_of_call T x = [] \/ all_set (gate_of_call T x) (evset x') = true)
    | _ => exists g, gate_list (ph x) = Some g /\ all_set g (evset x') = true
    end.
  Proof.
    intros E Hn. destruct (is_call a) eqn:Ec.
    - destruct a as [| | | |k|]; try discriminate. unfold SuspGate.step in E. unfold gate_of_call.
      destruct (ph x) eqn:Ep; try (apply quiet_facts in E as [_ Hm]; rewrite Hm in Hn; discriminate);
        try (inversion E; subst; discriminate).
      destruct (gate_events (sus x) (nextev x)) as [[sus' g] nx]. cbn. destruct g as [|e0 g]; [split; [reflexivity|now left]|]. split; [reflexivity|].
      destruct (progress (PGate (e0 :: g)) (evset x) k) as [[p2 m2] ret] eqn:E0. inversion E; subst.
      assert (Hn2 : has_null m2 = true) by exact Hn.
      destruct (progress_null _ _ _ _ _ _ E0 Hn2) as (g' & Hg' & Ha). inversion Hg'; subst g'. right. assumption.
    - destruct (step_facts _ _ _ _ E) as (_ & H2 & _). specialize (H2 Hn Ec). destruct a; try discriminate; exact H2.
  Qed.
End Proofs.

Section Proofs2.
  Variable T : Type.
  Variable ltb : T -> T -> bool.
  Variable eqb : T -> T -> bool.
  Variable truthy : T -> bool.

  Notation state := (state T).
  Notation sus1 := (sus1 T).
  Notation step := (step T ltb eqb truthy).
  Notation run_from := (run_from T ltb eqb truthy).
  Notation after_sus := (after_sus T).
  Notation sus_step := (sus_step T ltb eqb truthy).

  (* the engine has reacted to every event that is set *)
  Definition settled (x : state) : Prop := progress (ph x) (evset x) (plan x) = (ph x, [], false).

  Lemma nth_error_upd_nth {A} (l : list A) s u v : nth_error l s = Some u -> nth_error (upd_nth s v l) s = Some v.
  Proof.
    revert s. induction l as [|a t IH]; intros [|s] H; cbn in *; try discriminate; [reflexivity|now apply IH].
  Qed.

  Lemma nth_error_upd_nth_other {A} (l : list A) s s' v : s' <> s -> nth_error (upd_nth s v l) s' = nth_error l s'.
  Proof.
    revert s s'. induction l as [|a t IH]; intros s s' Hne; [now destruct s|].
    destruct s as [|s]; destruct s' as [|s']; cbn; try reflexivity; [contradiction|]. apply IH. congruence.
  Qed.

  Lemma upd_nth_same {A} (l : list A) s u : nth_error l s = Some u -> upd_nth s u l = l.
  Proof.
    revert s. induction l as [|a t IH]; intros [|s] H; cbn in *; try discriminate.
    - inversion H; now subst.
    - f_equal. now apply IH.
  Qed.

  Lemma view_upd x s u u' :
    nth_error (sus x) s = Some u ->
    st_installed (u_st u') = st_installed (u_st u) -> st_tripped (u_st u') = st_tripped (u_st u) -> st_ev (u_st u') = st_ev (u_st u) ->
    map (fun u => (st_installed (u_st u), st_tripped (u_st u), st_ev (u_st u))) (upd_nth s u' (sus x)) = view T x.
  Proof.
    unfold view. generalize (sus x). intros l. revert s. induction l as [|a t IH]; intros [|s] H H1 H2 H3; cbn in *; try discriminate.
    - inversion H; subst. now rewrite H1, H2, H3.
    - f_equal. now apply IH.
  Qed.

  (* removal (suspender.remove(), or RE.remove_suspender of an installed one) of a suspender that holds an event:
     the release of the event is scheduled with the suspender's sleep (at once when it is 0), the suspender is
     detached, not tripped, holds nothing; RE.remove_suspender also drops it from RE.suspenders *)
  Theorem remove_releases_and_detaches x s u e a :
    ph x <> PBroken -> nth_error (sus x) s = Some u ->
    st_installed (u_st u) = true -> st_ev (u_st u) = Some e ->
    (a = RemoveDirect s \/ (a = Remove s /\ u_in u = true)) ->
    exists u',
      nth_error (sus (fst (step x a))) s = Some u' /\
      st_installed (u_st u') = false /\ st_tripped (u_st u') = false /\ st_ev (u_st u') = None /\
      (a = Remove s -> u_in u' = false) /\
      o_sched (snd (step x a)) = [(e, u_sleep u)] /\
      (u_sleep u = 0 -> In e (evset (fst (step x a))) /\ o_set (snd (step x a)) = [e]) /\
      (u_sleep u <> 0 -> In (e, vt x + u_sleep u) (timers (fst (step x a))) /\ o_set (snd (step x a)) = []).
  Proof.
    intros Hb Hn Hi He Ha.
    assert (Hstep : exists u', (u_sleep u' = u_sleep u /\ st_installed (u_st u') = false /\ st_tripped (u_st u') = false
                               /\ st_ev (u_st u') = None /\ (a = Remove s -> u_in u' = false)) /\
                          step x a = after_sus x s u' [ORelease e] (nextev x)).
    { unfold SuspGate.step. destruct (ph x) eqn:Ep; try contradiction.
      all: destruct Ha as [->|[-> Hin]]; rewrite Hn; try rewrite Hin; unfold SuspGate.sus_step; cbn [SuspCond.step st_installed st_ev st_tripped];
        rewrite Hi; unfold set_event; cbn [st_ev]; rewrite He; cbn [st_next];
        eexists; (split; [|reflexivity]); cbn; repeat split; auto; discriminate. }
    destruct Hstep as (u' & (Hs & H1 & H2 & H3 & H4) & E). exists u'. rewrite E. unfold SuspGate.after_sus. cbn [flat_map app].
    rewrite Hs.
    destruct (progress (ph x) (evset x ++ (if u_sleep u =? 0 then [e] else [])) (plan x)) as [[p2 m2] ret] eqn:E2.
    cbn [fst snd sus evset timers o_sched o_set map].
    split; [eapply nth_error_upd_nth; eauto|].
    split; [assumption|]. split; [assumption|]. split; [assumption|]. split; [assumption|]. split; [reflexivity|].
    split; intros Hz.
    - rewrite Hz. cbn. split; [|reflexivity]. apply in_or_app. right. now left.
    - destruct (Nat.eqb_spec (u_sleep u) 0); [contradiction|]. split; [|reflexivity]. apply in_or_app. right. now left.
  Qed.

  (* a removed (detached) suspender ignores signal changes: nothing is scheduled, nothing is shown, no field of the
     suspender changes (the signal itself of course has its new value) *)
  Theorem removed_ignores_signals x s u v :
    ph x <> PBroken -> settled x -> nth_error (sus x) s = Some u -> st_installed (u_st u) = false ->
    let x' := fst (step x (Signal s v)) in
    let r := snd (step x (Signal s v)) in
    view T x' = view T x /\ evset x' = evset x /\ timers x' = timers x /\ ph x' = ph x /\ nextev x' = nextev x /\
    vt x' = vt x /\ plan x' = plan x /\
    o_msgs r = [] /\ o_returned r = false /\ o_sched r = [] /\ o_set r = [] /\
    (forall s', s' <> s -> nth_error (sus x') s' = nth_error (sus x) s').
  Proof.
    intros Hb Hs Hn Hi. cbn zeta.
    assert (E : step x (Signal s v) =
                after_sus x s (mkU (u_cfg u) (u_sleep u) v (mkS false (st_ev (u_st u)) (st_tripped (u_st u)) (nextev x)) (u_in u)) [] (nextev x)).
    { unfold SuspGate.step. destruct (ph x) eqn:Ep; try contradiction; rewrite Hn; unfold SuspGate.sus_step;
        cbn [SuspCond.step u_st u_cfg st_installed st_ev st_tripped]; unfold SuspCond.call; cbn [st_installed]; rewrite Hi; reflexivity. }
    rewrite E. unfold SuspGate.after_sus. cbn [flat_map]. 
    assert (Hnil : (if u_sleep u =? 0 then @nil nat else []) = []) by now destruct (u_sleep u =? 0).
    cbn [u_sleep]. rewrite Hnil, app_nil_r. unfold settled in Hs. rewrite Hs. cbn [fst snd sus evset timers ph nextev vt plan o_msgs o_returned o_sched o_set map app].
    assert (Hnil2 : (if u_sleep u =? 0 then @nil (nat * nat) else []) = []) by now destruct (u_sleep u =? 0).
    rewrite Hnil2, app_nil_r. repeat split; auto.
    - unfold view at 1. cbn [sus]. eapply view_upd; eauto.
    - intros s' Hne. now apply nth_error_upd_nth_other.
  Qed.

  (* removing again is harmless: the second removal shows nothing and changes no field *)
  Theorem remove_idempotent x s u :
    ph x <> PBroken -> settled x -> nth_error (sus x) s = Some u -> st_installed (u_st u) = false ->
    st_tripped (u_st u) = false ->
    let x' := fst (step x (RemoveDirect s)) in
    let r := snd (step x (RemoveDirect s)) in
    view T x' = view T x /\ evset x' = evset x /\ timers x' = timers x /\ ph x' = ph x /\
    o_msgs r = [] /\ o_returned r = false /\ o_sched r = [] /\ o_set r = [].
  Proof.
    intros Hb Hs Hn Hi Ht. cbn zeta.
    assert (E : step x (RemoveDirect s) =
                after_sus x s (mkU (u_cfg u) (u_sleep u) (u_val u) (mkS false (st_ev (u_st u)) false (nextev x)) (u_in u)) [] (nextev x)).
    { unfold SuspGate.step. destruct (ph x) eqn:Ep; try contradiction; rewrite Hn; unfold SuspGate.sus_step;
        cbn [SuspCond.step u_st u_cfg st_installed st_ev st_tripped]; rewrite Hi; reflexivity. }
    rewrite E. unfold SuspGate.after_sus. cbn [flat_map].
    assert (Hnil : (if u_sleep u =? 0 then @nil nat else []) = []) by now destruct (u_sleep u =? 0).
    cbn [u_sleep]. rewrite Hnil, app_nil_r. unfold settled in Hs. rewrite Hs.
    cbn [fst snd sus evset timers ph nextev vt plan o_msgs o_returned o_sched o_set map app].
    assert (Hnil2 : (if u_sleep u =? 0 then @nil (nat * nat) else []) = []) by now destruct (u_sleep u =? 0).
    rewrite Hnil2, app_nil_r. repeat split; auto.
    unfold view at 1. cbn [sus]. eapply view_upd; eauto.
  Qed.

  Lemma after_sus_sus x s u' os nx : sus (fst (after_sus x s u' os nx)) = upd_nth s u' (sus x).
  Proof.
    unfold SuspGate.after_sus.
    destruct (match flat_map (fun o => match o with OReq e => [e] | _ => [] end) os with
              | [] => (ph x, [])
              | e :: _ => match ph x with
                          | PGate g => (PSusp e g, [MStartSusp; MRewindable; MWaitFor 1])
                          | PIdle => (PIdle, [])
                          | _ => (PBroken, [])
                          end
              end) as [p1 m1].
    match goal with |- context [progress ?p ?es ?k] => destruct (progress p es k) as [[p2 m2] ret] end.
    reflexivity.
  Qed.

  (* after a removal the hypotheses of the two theorems above hold *)
  Lemma removed_is_detached x s u a :
    ph x <> PBroken -> nth_error (sus x) s = Some u -> (a = RemoveDirect s \/ (a = Remove s /\ u_in u = true)) ->
    exists u', nth_error (sus (fst (step x a))) s = Some u' /\ st_installed (u_st u') = false /\ st_tripped (u_st u') = false.
  Proof.
    intros Hb Hn Ha.
    assert (E : exists u' os nx, step x a = after_sus x s u' os nx /\ st_installed (u_st u') = false /\ st_tripped (u_st u') = false).
    { unfold SuspGate.step. destruct (ph x) eqn:Ep; try contradiction.
      all: destruct Ha as [->|[-> Hin]]; rewrite Hn; try rewrite Hin; unfold SuspGate.sus_step; cbn [SuspCond.step];
        destruct (st_installed _); do 3 eexists; (split; [reflexivity|]); cbn; split; reflexivity. }
    destruct E as (u' & os & nx & E & H1 & H2). exists u'. rewrite E, after_sus_sus.
    split; [eapply nth_error_upd_nth; eauto|now split].
  Qed.

  (* RE.remove_suspender of a suspender that is not in RE.suspenders does nothing at all *)
  Theorem engine_remove_of_unknown_is_noop x s u :
    nth_error (sus x) s = Some u -> u_in u = false -> step x (Remove s) = quiet T x.
  Proof.
    intros Hn Hi. unfold SuspGate.step. destruct (ph x); try reflexivity; now rewrite Hn, Hi.
  Qed.

  (* ---------------------------------------------------------------- reachable states are settled *)

  Lemma progress_settled p es k p' ms ret : progress p es k = (p', ms, ret) -> progress p' es k = (p', [], false).
  Proof.
    unfold progress. destruct p as [|g|i g|]; intros E.
    - inversion E; reflexivity.
    - destruct (all_set g es) eqn:Ea; inversion E; subst; [reflexivity|]. now rewrite Ea.
    - destruct (memb i es) eqn:Em; [|inversion E; subst; now rewrite Em].
      destruct (all_set g es) eqn:Ea; inversion E; subst; [reflexivity|]. now rewrite Ea.
    - inversion E; reflexivity.
  Qed.

  Lemma after_sus_settled x s u' os nx : settled (fst (after_sus x s u' os nx)).
  Proof.
    unfold SuspGate.after_sus.
    destruct (match flat_map (fun o => match o with OReq e => [e] | _ => [] end) os with
              | [] => (ph x, [])
              | e :: _ => match ph x with
                          | PGate g => (PSusp e g, [MStartSusp; MRewindable; MWaitFor 1])
                          | PIdle => (PIdle, [])
                          | _ => (PBroken, [])
                          end
              end) as [p1 m1].
    match goal with |- context [progress ?p ?es ?k] => destruct (progress p es k) as [[p2 m2] ret] eqn:E2 end.
    unfold settled. cbn [fst ph evset plan]. eapply progress_settled; eauto.
  Qed.

  Lemma step_settled x a : settled x -> settled (fst (step x a)).
  Proof.
    intros Hs. unfold SuspGate.step. destruct (ph x) eqn:Ep; [| | |exact Hs].
    all: destruct a as [s|s|s|s v|k|].
    all: try (destruct (nth_error (sus x) s) as [u|]; [|exact Hs]).
    all: try (match goal with |- context [sus_step ?x ?u ?o] => destruct (sus_step x u o) as [[u' os] nx] end).
    all: try (destruct (u_in u); [|exact Hs]).
    all: try (match goal with |- context [sus_step ?x ?u ?o] => destruct (sus_step x u o) as [[u' os] nx] end).
    all: try apply after_sus_settled.
    all: try (rewrite Ep; reflexivity).
    all: try (destruct (timers x) as [|[e0 d0] tl]; [exact Hs|];
              match goal with |- context [progress ?p ?es ?k] => destruct (progress p es k) as [[p2 m2] ret] eqn:E2 end;
              unfold settled; cbn [fst ph evset plan]; eapply progress_settled; eauto).
    - destruct (gate_events T (sus x) (nextev x)) as [[sus' g] nx]. destruct g as [|e0 g]; [reflexivity|].
      destruct (progress (PGate (e0 :: g)) (evset x) k) as [[p2 m2] ret] eqn:E2.
      unfold settled. cbn [fst ph evset plan]. eapply progress_settled; eauto.
    - reflexivity.
    - reflexivity.
  Qed.

  Lemma init_settled cfgs : settled (init T cfgs).
  Proof. reflexivity. Qed.

  Lemma run_settled h : forall x, settled x -> settled (fst (run_from x h)).
  Proof.
    induction h as [|a h IH]; intros x Hs; cbn; [assumption|].
    pose proof (step_settled x a Hs) as H1. destruct (step x a) as [x1 r1]. cbn [fst] in H1.
    specialize (IH x1 H1). destruct (run_from x1 h) as [x2 rs]. exact IH.
  Qed.

  (* ---------------------------------------------------------------- an event is set only through a release *)

  (* the operation releases the event e held by an attached suspender: its removal, or a value that meets its
     resume condition (and not its suspend condition) - reported by its signal or met by install's call-back *)
  Definition releasing (x : state) (a : op T) (e : nat) : Prop :=
    exists s u, nth_error (sus x) s = Some u /\ st_ev (u_st u) = Some e /\
      ((a = RemoveDirect s /\ st_installed (u_st u) = true) \/
       (a = Remove s /\ u_in u = true /\ st_installed (u_st u) = true) \/
       (exists v, a = Signal s v /\ st_installed (u_st u) = true /\
                  should_resume T ltb eqb truthy (u_cfg u) v = true /\ should_suspend T ltb eqb truthy (u_cfg u) v = false) \/
       (a = Install s /\ should_resume T ltb eqb truthy (u_cfg u) (u_val u) = true /\
                          should_suspend T ltb eqb truthy (u_cfg u) (u_val u) = false)).

  Lemma after_sus_sets x s u' os nx e :
    In e (evset (fst (after_sus x s u' os nx))) -> In e (evset x) \/ In (ORelease e) os.
  Proof.
    unfold SuspGate.after_sus.
    destruct (match flat_map (fun o => match o with OReq e => [e] | _ => [] end) os with
              | [] => (ph x, [])
              | e :: _ => match ph x with
                          | PGate g => (PSusp e g, [MStartSusp; MRewindable; MWaitFor 1])
                          | PIdle => (PIdle, [])
                          | _ => (PBroken, [])
                          end
              end) as [p1 m1].
    match goal with |- context [progress ?p ?es ?k] => destruct (progress p es k) as [[p2 m2] ret] end.
    cbn [fst evset]. intros H. apply in_app_or in H as [H|H]; [now left|right].
    destruct (u_sleep u' =? 0); [|destruct H]. apply in_flat_map in H as [o [Ho He]]. destruct o as [e1|e1|]; cbn in He; try contradiction.
    destruct He as [<-|[]]. assumption.
  Qed.

  Lemma after_sus_timers x s u' os nx e d :
    In (e, d) (timers (fst (after_sus x s u' os nx))) -> In (e, d) (timers x) \/ In (ORelease e) os.
  Proof.
    unfold SuspGate.after_sus.
    destruct (match flat_map (fun o => match o with OReq e => [e] | _ => [] end) os with
              | [] => (ph x, [])
              | e :: _ => match ph x with
                          | PGate g => (PSusp e g, [MStartSusp; MRewindable; MWaitFor 1])
                          | PIdle => (PIdle, [])
                          | _ => (PBroken, [])
                          end
              end) as [p1 m1].
    match goal with |- context [progress ?p ?es ?k] => destruct (progress p es k) as [[p2 m2] ret] end.
    cbn [fst timers]. intros H. apply in_app_or in H as [H|H]; [now left|right].
    destruct (u_sleep u' =? 0); [destruct H|]. apply in_map_iff in H as [e' [E H]]. inversion E; subst e'.
    apply in_flat_map in H as [o [Ho He]]. destruct o as [e1|e1|]; cbn in He; try contradiction. destruct He as [<-|[]]. assumption.
  Qed.

  Lemma remove_release su st e : In (ORelease e) (snd (SuspCond.step T ltb eqb truthy su st OpRemove)) ->
    st_installed st = true /\ st_ev st = Some e.
  Proof.
    cbn. destruct (st_installed st); cbn; [|tauto]. unfold set_event. destruct (st_ev st); cbn; [|tauto].
    intros [H|[]]. inversion H; now subst.
  Qed.

  Lemma call_release su st v en e : In (ORelease e) (snd (SuspCond.call T ltb eqb truthy su st v en)) ->
    st_installed st = true /\ st_ev st = Some e /\ should_resume T ltb eqb truthy su v = true /\ should_suspend T ltb eqb truthy su v = false.
  Proof.
    intros H. pose proof (release_only_on_resume T ltb eqb truthy su st v en e H) as (H1 & H2 & H3 & _).
    split; [|now repeat split]. unfold SuspCond.call in H. destruct (st_installed st); [reflexivity|destruct H].
  Qed.

  Lemma sus_then_after x s u0 o :
    let res := (let '(u', os, nx) := sus_step x u0 o in after_sus x s u' os nx) in
    let os0 := snd (SuspCond.step T ltb eqb truthy (u_cfg u0)
                      (mkS (st_installed (u_st u0)) (st_ev (u_st u0)) (st_tripped (u_st u0)) (nextev x)) o) in
    (forall e, In e (evset (fst res)) -> In e (evset x) \/ In (ORelease e) os0) /\
    (forall e d, In (e, d) (timers (fst res)) -> In (e, d) (timers x) \/ In (ORelease e) os0).
  Proof.
    cbn zeta. unfold SuspGate.sus_step.
    destruct (SuspCond.step T ltb eqb truthy (u_cfg u0)
                (mkS (st_installed (u_st u0)) (st_ev (u_st u0)) (st_tripped (u_st u0)) (nextev x)) o) as [st1 os].
    cbn [snd]. split; intros.
    - eapply after_sus_sets; eauto.
    - eapply after_sus_timers; eauto.
  Qed.

  Theorem event_set_only_by_release x a :
    (forall e, In e (evset (fst (step x a))) -> In e (evset x) \/ In e (map fst (timers x)) \/ releasing x a e) /\
    (forall e d, In (e, d) (timers (fst (step x a))) -> In (e, d) (timers x) \/ releasing x a e).
  Proof.
    assert (Hq : forall y : state * orec, y = quiet T x ->
              (forall e, In e (evset (fst y)) -> In e (evset x) \/ In e (map fst (timers x)) \/ releasing x a e) /\
              (forall e d, In (e, d) (timers (fst y)) -> In (e, d) (timers x) \/ releasing x a e)).
    { intros y ->. cbn. split; intros; now left. }
    assert (Hsus : forall s u u0 o,
              nth_error (sus x) s = Some u -> st_ev (u_st u0) = st_ev (u_st u) ->
              (forall e, In (ORelease e) (snd (SuspCond.step T ltb eqb truthy (u_cfg u0)
                          (mkS (st_installed (u_st u0)) (st_ev (u_st u0)) (st_tripped (u_st u0)) (nextev x)) o)) ->
                         st_ev (u_st u0) = Some e -> releasing x a e) ->
              let res := (let '(u', os, nx) := sus_step x u0 o in after_sus x s u' os nx) in
              (forall e, In e (evset (fst res)) -> In e (evset x) \/ In e (map fst (timers x)) \/ releasing x a e) /\
              (forall e d, In (e, d) (timers (fst res)) -> In (e, d) (timers x) \/ releasing x a e)).
    { intros s u u0 o Hn Hev Hrel. destruct (sus_then_after x s u0 o) as [H1 H2]. cbn zeta in *.
      assert (Hev2 : forall e, In (ORelease e) (snd (SuspCond.step T ltb eqb truthy (u_cfg u0)
                          (mkS (st_installed (u_st u0)) (st_ev (u_st u0)) (st_tripped (u_st u0)) (nextev x)) o)) ->
                        st_ev (u_st u0) = Some e).
      { intros e He. destruct o as [v en| |v en].
        - cbn [SuspCond.step] in He. apply call_release in He as (_ & He & _). exact He.
        - apply remove_release in He as (_ & He). exact He.
        - cbn [SuspCond.step] in He. apply call_release in He as (_ & He & _). exact He. }
      split.
      - intros e He. destruct (H1 e He) as [H|H]; [now left|right; right]. eauto.
      - intros e d He. destruct (H2 e d He) as [H|H]; [now left|right]. eauto. }
    unfold SuspGate.step. destruct (ph x) eqn:Ep; [| | |now apply Hq].
    all: destruct a as [s|s|s|s v|k|].
    all: try (destruct (nth_error (sus x) s) as [u|] eqn:En; [|now apply Hq]).
    all: try (destruct (u_in u) eqn:Ein; [|now apply Hq]).
    all: try (eapply Hsus; [exact En|reflexivity|]; cbn [u_cfg u_st u_val u_sleep u_in]; intros e He Hev; exists s, u;
              (split; [exact En|]); (split; [exact Hev|])).
    all: try (apply remove_release in He as (H1 & H2); cbn [st_installed st_ev] in *; auto 10; fail).
    all: try (cbn [SuspCond.step] in He).
    all: try (apply call_release in He as (H1 & H2 & H3 & H4); cbn [st_installed st_ev] in *; auto 10; fail).
    all: try (right; right; left; exists v; apply call_release in He as (H1 & H2 & H3 & H4); cbn [st_installed] in H1; auto; fail).
    all: try (unfold SuspGate.sus_step;
              destruct (SuspCond.step T ltb eqb truthy (u_cfg u)
                          (mkS (st_installed (u_st u)) (st_ev (u_st u)) (st_tripped (u_st u)) (nextev x)) OpRemove) as [st1 os] eqn:Ec;
              assert (Hrel : forall e, In (ORelease e) os -> releasing x (Remove s) e)
                by (intros e He; assert (Hr : In (ORelease e) (snd (SuspCond.step T ltb eqb truthy (u_cfg u)
                          (mkS (st_installed (u_st u)) (st_ev (u_st u)) (st_tripped (u_st u)) (nextev x)) OpRemove))) by (rewrite Ec; exact He);
                    apply remove_release in Hr as (H1 & H2); cbn [st_installed st_ev] in *; exists s, u; auto 10);
              split; [intros e He; apply after_sus_sets in He as [He|He]; [now left|right; right; auto]
                     |intros e d He; apply after_sus_timers in He as [He|He]; [now left|right; auto]]).
    all: try (rewrite Ep; cbn; split; intros; now left).
    all: try (destruct (timers x) as [|[e0 d0] tl] eqn:Et; [now apply Hq|];
              match goal with |- context [progress ?p ?es ?k] => destruct (progress p es k) as [[p2 m2] ret] end;
              cbn [fst evset timers]; split;
              [intros e He; apply in_app_or in He as [He|He]; [now left|right; left];
               apply in_map_iff in He as [[e' d'] [E He]]; cbn in E; subst e'; apply filter_In in He as [He _];
               apply in_map_iff; exists (e, d'); split; [reflexivity|assumption]
              |intros e d He; apply filter_In in He as [He _]; now left]).
    - destruct (gate_events T (sus x) (nextev x)) as [[sus' g] nx]. destruct g as [|e1 g].
      + cbn. split; intros; now left.
      + destruct (progress (PGate (e1 :: g)) (evset x) k) as [[p2 m2] ret]. cbn. split; intros; now left.
    - cbn. split; intros; now left.
    - cbn. split; intros; now left.
  Qed.
End Proofs2.
