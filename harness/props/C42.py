"""C42 - each run's trace span ends once with that run's outcome.

The real RunEngine (context_managers=[]) runs plans made of open_run / close_run messages under
several run keys, pauses (followed by resume / abort / halt / stop from the main thread), plans that
raise, plans that swallow or propagate the abort, metadata the validator rejects, a subscriber that
raises on a RunStop.  A recording TracerProvider written against the OpenTelemetry API
(harness/drivers/span_recorder.py) is installed before the first span is started.  One chronological
log is kept: RunStart/RunStop documents, span start/end with the span's exit_status/reason attributes at
that time, interrupt requests, what each message returned/raised.  The history is translated to the
operations of Engine/Spans.v (from the case alone) and the model has to produce exactly that log."""
import contextlib
import io
import itertools
import json
import logging

ID = "C42"
PROP_FILE = "Props/C42.v"
THEOREMS = ["C42_documents_are_the_runs", "C42_one_span_per_run", "C42_ended_at_most_once", "C42_span_fate",
            "C42_each_run_span_ends_once_with_own_status", "C42_per_run", "C42_open_run_span_live",
            "C42_refused_messages_are_silent", "C42_e_refuted", "C42_f_refuted"]
COQ_IMPORTS = "From BV Require Import Base.KeyMap Engine.Spans.\nFrom Coq Require Import NArith."
MODELLED = ("Modelled (Engine/Spans.v, of the code with fixes/C42-a.diff): RunEngine._run_tracing_spans as a dict run key -> span, "
            "_open_run (duplicate-key check, rejection by scan_id_source/md_validator/md_normalizer as an arbitrary flag, bundler "
            "registration, RunStart, then the span), _close_run/_close_run_trace (unknown key, RunStop with `exit_status or 'success'`/"
            "`reason or ''`, unregistering, ending the span filed under the key; a subscriber raising on the RunStop leaves the bundler "
            "registered and a later close raises), _destroy_open_run_tracing_spans at _abort_coro/_halt_coro (not when idle), the finally "
            "block of _run (closes every registered open run with the engine's exit status and ends its span, clears the bundlers). "
            "The rest of the engine is the environment: which messages arrive, when abort()/halt() arrive and with which status the "
            "cleanup runs are arbitrary in the theorems; in the tie they are produced by the real engine and the translation from the "
            "scenario to model operations is part of the harness (a wrong translation shows as a disagreement). Not modelled: "
            "OpenTelemetry context propagation (start_as_current_span nesting; the run spans are started with start_span and are never "
            "current), the per-message spans of other commands, event_model.compose_run failing after the bundler was registered, a "
            "subscriber raising during the cleanup's own close, requests from other OS threads (atomic loop callbacks here).")
RULE = ("exhaustive: every sequence of <=3 open/close messages over two run keys x 5 endings (return, plan raises, pause+abort, "
        "pause+halt, pause+stop) followed by a second call that opens and closes a run (stale spans would show there); every such "
        "sequence of length 2..3 with a pause+abort swallowed by the plan at every position; random: 1-3 calls x 1-8 steps over 3 run "
        "keys, all exit_status/reason keyword forms (absent, None, '', values), opens the validator rejects, subscribers raising on the "
        "RunStop, pauses with resume/abort(reason)/halt/stop, abort() on the idle engine. non-trivial = >= 2 runs of which one is closed "
        "while a later one is open, or a run closed by the cleanup, or an interrupt with a run open")

logging.getLogger("bluesky").setLevel(logging.CRITICAL + 1)

ABSENT = "<absent>"
STATUS_CODE = {"": 0, "success": 1, "abort": 2, "fail": 3, "aborted": 4}
REASON_CODE = {"": 0, "r1": 10, "r2": 11, "'boom'": 12, "why": 13}
OUTCOMES = {"Started": "OStarted", "RejectedDup": "ORejectedDup", "RejectedInvalid": "ORejectedInvalid", "Closed": "OClosed",
            "Illegal": "OIllegal", "CloseRaised": "OCloseRaised", "AlreadyStopped": "OAlreadyStopped",
            "TransitionError": "OTransitionError"}
KEYS = {"A": 1, "B": 2, "C": 3, None: 0}


# ----------------------------------------------------------------------------- case generation

def _second_call():
    return {"steps": [["open", "A", True], ["close", "A", ABSENT, ABSENT, False]], "ctrl": "propagate", "after": []}


def _ending(kind):
    return {"return": [], "raise": [["raise"]], "abort": [["pause", "abort", "why"]], "halt": [["pause", "halt", ""]],
            "stop": [["pause", "stop", ""]]}[kind]


def _exhaustive():
    out = []
    moves = [["open", "A", True], ["open", "B", True], ["close", "A", "success", ABSENT, False], ["close", "B", "fail", "r1", False]]
    for n in range(0, 4):
        for seq in itertools.product(moves, repeat=n):
            for end in ("return", "raise", "abort", "halt", "stop"):
                steps = [list(m) for m in seq] + _ending(end)
                out.append({"calls": [{"steps": steps, "ctrl": "propagate", "after": []}, _second_call()]})
    for n in range(2, 4):
        for seq in itertools.product(moves, repeat=n):
            for pos in range(1, n + 1):
                for dec in (["pause", "abort", ""], ["pause", "resume", ""]):
                    steps = [list(m) for m in seq]
                    steps.insert(pos, list(dec))
                    if dec[1] == "resume" and pos != 1:
                        continue
                    out.append({"calls": [{"steps": steps, "ctrl": "swallow", "after": []}, _second_call()]})
    return out


def _rand_call(rng):
    steps = []
    keys = ["A", "B", "C"] if rng.random() < 0.7 else ["A", None]
    interrupted = False
    for _ in range(rng.randint(1, 8)):
        x = rng.random()
        if x < 0.42:
            steps.append(["open", rng.choice(keys), rng.random() > 0.12])
        elif x < 0.84:
            st = rng.choice([ABSENT, None, "", "success", "success", "abort", "fail"])
            rs = rng.choice([ABSENT, ABSENT, None, "", "r1", "r2"])
            steps.append(["close", rng.choice(keys), st, rs, rng.random() < 0.08])
        elif x < 0.96 and not interrupted:
            dec = rng.choice(["resume", "resume", "abort", "abort", "halt", "stop"])
            steps.append(["pause", dec, rng.choice(["", "why"]) if dec == "abort" else ""])
            if dec != "resume":
                interrupted = True
        elif x >= 0.96:
            steps.append(["raise"])
            break
    return {"steps": steps, "ctrl": rng.choice(["swallow", "propagate"]),
            "after": ["abort_idle"] if rng.random() < 0.1 else []}


def cases(rng, tier):
    out = _exhaustive()
    n = 400 if tier == "quick" else 6000
    for _ in range(n):
        out.append({"calls": [_rand_call(rng) for _ in range(rng.randint(1, 3))]})
    # edge stream: nothing but refusals, abort on a never-used engine
    out.append({"calls": [{"steps": [["close", "A", ABSENT, ABSENT, False], ["open", "A", False]], "ctrl": "propagate",
                           "after": ["abort_idle"]}], "fresh": True})
    out.append({"calls": [{"steps": [], "ctrl": "propagate", "after": ["abort_idle", "abort_idle"]}], "fresh": True})
    return out


# ----------------------------------------------------------------------------- scenario -> model operations

def ops_of(case):
    """The operations of Engine/Spans.v a scenario amounts to, from the case alone (engine rules: a plan that
    returns ends with 'success', one that raises with 'fail' and str(exc), RequestAbort/PlanHalt leaving the plan
    with 'abort'; the cleanup's reason is the abort reason when the plan leaves no other)."""
    ops = []
    for call in case["calls"]:
        ops.append(["NewCall"])
        reason = ""
        fin = None
        for st in call["steps"]:
            if st[0] == "open":
                ops.append(["OpenRun", st[1], bool(st[2])])
            elif st[0] == "close":
                ops.append(["CloseRun", st[1], st[2], st[3], bool(st[4])])
            elif st[0] == "raise":
                fin = ["fail", "'boom'"]
                break
            elif st[0] == "pause":
                dec = st[1]
                if dec == "abort":
                    ops.append(["Interrupt"])
                    reason = st[2]
                    if call["ctrl"] == "propagate":
                        fin = ["abort", reason]
                        break
                elif dec == "halt":
                    ops.append(["Interrupt"])
                    fin = ["abort", reason]
                    break
                elif dec == "stop":
                    if call["ctrl"] == "propagate":
                        fin = ["success", reason]
                        break
        if fin is None:
            fin = ["success", reason]
        ops.append(["Finalize", fin[0], fin[1]])
        for a in call.get("after", []):
            if a == "abort_idle":
                ops.append(["Interrupt"])
    return ops


def _norm(v, default):
    return default if v in (ABSENT, None, "") else v


def runs_of(ops):
    """Python mirror of the specification side (runs_of in Engine/Spans.v)."""
    recs, ropen, act = [], [], False
    for op in ops:
        if op[0] == "NewCall":
            act = True
        elif op[0] == "OpenRun":
            if op[2] and all(k != op[1] for k, _ in ropen):
                recs.append({"key": op[1], "intr": False, "stop": None, "raised": False})
                ropen.append((op[1], len(recs) - 1))
        elif op[0] == "CloseRun":
            hit = [r for k, r in ropen if k == op[1]]
            if hit and not recs[hit[0]]["raised"]:
                recs[hit[0]]["stop"] = [_norm(op[2], "success"), _norm(op[3], "")]
                if op[4]:
                    recs[hit[0]]["raised"] = True
                else:
                    ropen = [(k, r) for k, r in ropen if k != op[1]]
        elif op[0] == "Interrupt":
            if act:
                for _, r in ropen:
                    recs[r]["intr"] = True
        elif op[0] == "Finalize":
            for _, r in ropen:
                if not recs[r]["raised"]:
                    recs[r]["stop"] = [_norm(op[1], "success"), _norm(op[2], "")]
            ropen, act = [], False
    return recs


def _class_e(c):
    return c["intr"] and c["stop"] is not None and c["stop"][0] != "abort"


def _class_f(c):
    return c["raised"]


# ----------------------------------------------------------------------------- implementation side

class VReject(Exception):
    pass


_ENGINE = {}


def _engine(fresh):
    from harness.drivers import span_recorder as SR
    if not SR.install():
        raise RuntimeError("the recording TracerProvider could not be installed (another provider is set)")
    from bluesky import RunEngine
    if fresh or "re" not in _ENGINE or _ENGINE["re"].state != "idle":
        RE = RunEngine({}, context_managers=[])
        if fresh:
            return RE
        _ENGINE["re"] = RE
    return _ENGINE["re"]


def _validator(md):
    if "bad" in md:
        raise VReject("bad")


def impl(case):
    from bluesky.utils import IllegalMessageSequence, Msg, RunEngineControlException, RunEngineInterrupted
    from harness.drivers import span_recorder as SR
    RE = _engine(case.get("fresh", False))
    RE._run_tracing_spans.clear()
    RE.md_validator = _validator
    SR.LOG.reset()
    log = SR.LOG
    boom = [False]
    tagctr = [0]
    uid_tag = {}

    def rec_docs(name, doc):
        if name == "start":
            uid_tag[doc["uid"]] = doc.get("tag")
            log.add(("doc", "start", doc.get("tag")))
        elif name == "stop":
            log.add(("doc", "stop", uid_tag.get(doc["run_start"]), doc.get("exit_status"), doc.get("reason")))

    def raiser(name, doc):
        if name == "stop" and boom[0]:
            boom[0] = False
            raise RuntimeError("cb")

    t1 = RE.subscribe(rec_docs)
    t2 = RE.subscribe(raiser)
    errors = []
    sink = io.StringIO()
    try:
        with contextlib.redirect_stdout(sink):
            for call in case["calls"]:
                pending = []

                def plan(call=call, pending=pending):
                    for st in call["steps"]:
                        try:
                            if st[0] == "open":
                                tagctr[0] += 1
                                kw = {"tag": tagctr[0]}
                                if not st[2]:
                                    kw["bad"] = 1
                                try:
                                    yield Msg("open_run", run=st[1], **kw)
                                    log.add(("out", "Started"))
                                except IllegalMessageSequence:
                                    log.add(("out", "RejectedDup"))
                                except VReject:
                                    log.add(("out", "RejectedInvalid"))
                            elif st[0] == "close":
                                kw = {}
                                if st[2] != ABSENT:
                                    kw["exit_status"] = st[2]
                                if st[3] != ABSENT:
                                    kw["reason"] = st[3]
                                boom[0] = bool(st[4])
                                try:
                                    yield Msg("close_run", run=st[1], **kw)
                                    log.add(("out", "Closed"))
                                except IllegalMessageSequence:
                                    log.add(("out", "Illegal"))
                                except RuntimeError as e:
                                    log.add(("out", "CloseRaised" if str(e) == "cb" else "Other:RuntimeError"))
                                finally:
                                    boom[0] = False
                            elif st[0] == "pause":
                                pending.append(st)
                                yield Msg("checkpoint")
                                yield Msg("pause")
                            elif st[0] == "raise":
                                raise KeyError("boom")
                        except RunEngineControlException:
                            if call["ctrl"] == "propagate":
                                raise
                        except (KeyError, GeneratorExit):
                            raise
                        except Exception as e:  # noqa: BLE001
                            name = type(e).__name__
                            log.add(("out", "AlreadyStopped" if name == "EventModelError" else "Other:" + name))

                log.add(("call",))
                action = lambda: RE(plan())  # noqa: E731
                for _ in range(12):
                    try:
                        action()
                    except RunEngineInterrupted:
                        pass
                    except KeyError:
                        pass
                    except Exception as e:  # noqa: BLE001
                        errors.append("%s: %s" % (type(e).__name__, e))
                    if RE.state != "paused":
                        break
                    st = pending.pop(0)
                    if st[1] == "resume":
                        action = RE.resume
                    elif st[1] == "abort":
                        log.add(("interrupt",))
                        action = (lambda r=st[2]: RE.abort(reason=r))
                    elif st[1] == "halt":
                        log.add(("interrupt",))
                        action = RE.halt
                    else:
                        action = RE.stop
                if RE.state != "idle":
                    errors.append("engine left in state %s" % RE.state)
                    break
                for a in call.get("after", []):
                    if a == "abort_idle":
                        try:
                            RE.abort()
                            log.add(("out", "NoError"))
                        except Exception as e:  # noqa: BLE001
                            log.add(("out", type(e).__name__))
    finally:
        RE.unsubscribe(t1)
        RE.unsubscribe(t2)
    left = len(RE._run_tracing_spans)
    if errors:
        _ENGINE.pop("re", None)
    return {"log": _canon_log(list(log.events)), "left": left, "errors": errors}


def _canon_log(events):
    """spans/runs -> first-appearance numbers; span ends carry the span's exit_status/reason at that time."""
    out = []
    run_idx, span_idx, attrs = {}, {}, {}
    for e in events:
        if e[0] == "call":
            out.append(["call"])
        elif e[0] == "interrupt":
            out.append(["interrupt"])
        elif e[0] == "out":
            out.append(["out", e[1]])
        elif e[0] == "doc" and e[1] == "start":
            run_idx.setdefault(e[2], len(run_idx))
            out.append(["run_start", run_idx[e[2]]])
        elif e[0] == "doc" and e[1] == "stop":
            out.append(["run_stop", run_idx.get(e[2], -1), e[3], e[4]])
        elif e[0] == "start":
            if e[2] == "Bluesky RunEngine run":
                span_idx[e[1]] = len(span_idx)
                attrs[e[1]] = {}
                out.append(["span_start", span_idx[e[1]], None])
        elif e[0] == "attr" and e[1] in span_idx:
            if e[2] == "msg.kwargs":
                try:
                    tag = json.loads(e[3]).get("tag")
                except Exception:  # noqa: BLE001
                    tag = None
                for o in out:
                    if o[0] == "span_start" and o[1] == span_idx[e[1]]:
                        o[2] = tag
            elif e[2] in ("exit_status", "reason"):
                attrs[e[1]][e[2]] = ["v", e[3]]
        elif e[0] == "end" and e[1] in span_idx:
            a = attrs[e[1]]
            out.append(["span_end", span_idx[e[1]], a.get("exit_status"), a.get("reason")])
    # tags -> run numbers (a span may start before its RunStart is known: resolve at the end)
    for o in out:
        if o[0] == "span_start":
            o[2] = run_idx.get(o[2], -1)
    return out


# ----------------------------------------------------------------------------- Coq terms

def cb(b):
    return "true" if b else "false"


def cl(xs, f=str):
    return "[" + "; ".join(f(x) for x in xs) + "]"


def _code(table, v, base):
    if v not in table:
        table[v] = base + len(table)
    return table[v]


def _cst(v):
    return "%d%%N" % _code(STATUS_CODE, v, 100)


def _crs(v):
    return "%d%%N" % _code(REASON_CODE, v, 100)


def _copt(v, f):
    return "None" if v in (ABSENT, None) else "(Some %s)" % f(v)


def _cop(op):
    if op[0] == "NewCall":
        return "NewCall"
    if op[0] == "Interrupt":
        return "Interrupt"
    if op[0] == "OpenRun":
        return "OpenRun %d%%N %s" % (KEYS[op[1]], cb(op[2]))
    if op[0] == "CloseRun":
        return "CloseRun %d%%N %s %s %s" % (KEYS[op[1]], _copt(op[2], _cst), _copt(op[3], _crs), cb(op[4]))
    return "Finalize %s %s" % (_cst(op[1]), _crs(op[2]))


def _cattr(a, f):
    # a: None (attribute never set) | ["v", value]; a value that is not a string is something the model never writes
    if a is None:
        return "None"
    if not isinstance(a[1], str):
        return "(Some 99%N)"
    return "(Some %s)" % f(a[1])


def _cev(e):
    if e[0] == "call":
        return "ECall"
    if e[0] == "interrupt":
        return "EInterrupt"
    if e[0] == "out":
        return "EOut %s" % OUTCOMES[e[1]]
    if e[0] == "run_start":
        return "ERunStart %d" % e[1]
    if e[0] == "run_stop":
        return "ERunStop %d %s %s" % (e[1], _cst(e[2]), _crs(e[3]))
    if e[0] == "span_start":
        return "ESpanStart %d %d" % (e[1], e[2])
    return "ESpanEnd %d %s %s" % (e[1], _cattr(e[2], _cst), _cattr(e[3], _crs))


def _encodable(obs):
    for e in obs["log"]:
        if e[0] == "out" and e[1] not in OUTCOMES:
            return False
        if e[0] in ("run_start", "run_stop") and e[1] < 0:
            return False
        if e[0] == "span_start" and e[2] < 0:
            return False
        if e[0] == "run_stop" and not (isinstance(e[2], str) and isinstance(e[3], str)):
            return False
    return not obs["errors"]


def coq_term(case, obs):
    if not _encodable(obs):
        return "false"       # something the model cannot even express (span without a run, unknown outcome ...)
    ops = ops_of(case)
    recs = runs_of(ops)
    fe = any(_class_e(c) and not _class_f(c) for c in recs)
    ff = any(_class_f(c) for c in recs)
    return "case_ok %s %s %d %s %s" % (cl(ops, _cop), cl(obs["log"], _cev), obs["left"], cb(fe), cb(ff))


# ----------------------------------------------------------------------------- oracle (the property, implementation side)

def _judge(case, obs):
    """-> list of (run number or None, message) for every violation of the property seen in the observation."""
    bad = []
    if obs["errors"]:
        return [(None, "driver: " + obs["errors"][0])]
    log = obs["log"]
    runs = [e[1] for e in log if e[0] == "run_start"]
    spans_of = {}
    for e in log:
        if e[0] == "span_start":
            spans_of.setdefault(e[2], []).append(e[1])
    ends = {}
    for e in log:
        if e[0] == "span_end":
            ends.setdefault(e[1], []).append((e[2], e[3]))
    for e in log:
        if e[0] == "out" and e[1].startswith("Other:"):
            bad.append((None, "a message raised " + e[1]))
    if -1 in spans_of:
        bad.append((None, "%d span(s) started for an open_run that opened no run" % len(spans_of[-1])))
    for s, es in ends.items():
        if len(es) > 1:
            bad.append((None, "span %d ended %d times" % (s, len(es))))
    stops = {}
    for e in log:
        if e[0] == "run_stop":
            stops.setdefault(e[1], []).append((e[2], e[3]))
    for r in runs:
        sp = spans_of.get(r, [])
        if len(sp) != 1:
            bad.append((r, "run %d has %d spans" % (r, len(sp))))
            continue
        if r not in stops:
            continue
        st = stops[r][0][0]
        es = ends.get(sp[0], [])
        if len(es) != 1:
            bad.append((r, "run %d was closed with exit_status %r but its span was ended %d times" % (r, st, len(es))))
            continue
        a = es[0][0]
        val = a[1] if a is not None else None
        if not (val == st or (val == "aborted" and st == "abort")):
            bad.append((r, "run %d was closed with exit_status %r, its span carries exit_status %r" % (r, st, val)))
    return bad


def _classes(case):
    recs = runs_of(ops_of(case))
    return {i: ("f" if _class_f(c) else "e" if _class_e(c) else None) for i, c in enumerate(recs)}


def _pick(case, obs):
    bad = _judge(case, obs)
    if not bad:
        return None, None
    cls = _classes(case)
    for r, why in bad:
        if r is None or cls.get(r) is None:
            return why, None
    r, why = bad[0]
    return why, cls[r]


def oracle(case, obs):
    return _pick(case, obs)[0]


def finding(case, obs):
    return _pick(case, obs)[1]


def nontrivial(case, obs):
    recs = runs_of(ops_of(case))
    if any(c["intr"] for c in recs):
        return True
    log = obs["log"]
    open_now, seen_interleave = [], False
    for e in log:
        if e[0] == "run_start":
            open_now.append(e[1])
        elif e[0] == "run_stop" and e[1] in open_now:
            if open_now[-1] != e[1]:
                seen_interleave = True
            open_now.remove(e[1])
    closes = sum(1 for op in ops_of(case) if op[0] == "CloseRun")
    stops = sum(1 for e in log if e[0] == "run_stop")
    return seen_interleave or stops > closes or (stops > 0 and closes == 0)


def describe(case):
    nsteps = sum(len(c["steps"]) for c in case["calls"])
    kinds = set()
    for c in case["calls"]:
        for st in c["steps"]:
            if st[0] == "pause":
                kinds.add(st[1])
            elif st[0] == "raise":
                kinds.add("raise")
            elif st[0] == "close" and st[4]:
                kinds.add("cbraise")
            elif st[0] == "open" and not st[2]:
                kinds.add("invalid")
    return "calls=%d steps=%s %s" % (len(case["calls"]), "0-3" if nsteps <= 3 else "4-8" if nsteps <= 8 else "9+",
                                     "+".join(sorted(kinds)) or "plain")


def model_search(rng, tier):
    """Search the model's boolean restatement of C42_span_fate for a failing history."""
    from harness import core
    cs = [{"calls": [_rand_call(rng) for _ in range(rng.randint(1, 3))]} for _ in range(300)]
    terms = ["run_ok_b %s" % cl(ops_of(c), _cop) for c in cs]
    try:
        ok, bad, _ = core.eval_cases_in_coq(ID + "search", COQ_IMPORTS, terms)
    except Exception:  # noqa: BLE001
        return None
    if ok and bad:
        return {"model_case": cs[bad[0]], "restatement": terms[bad[0]]}
    return None
