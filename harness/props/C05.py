"""C05 - seq_num and num_events account for every event exactly."""
from harness.props.engine_common import *  # noqa: F401,F403
from harness.props import docs_common as dc
from harness.props import engine_common as ec

ID = "C05"
PROP_FILE = "Props/C05.v"
THEOREMS = ["C05_numbering_partial", "C05_counts_exact_outside_b", "C05_interruptions_never_rolled_back"]
COQ_IMPORTS = dc.COQ_IMPORTS
RULE = dc.RULE
cases = dc.cases
coq_term = dc.coq_term


def oracle(case, obs):
    e = dc.driver_error(obs)
    if e:
        return e
    res = dc.mon(case, obs)
    # gaps / unexpected repeats / wrong counter first, then the statement itself: num_events = events emitted
    return dc.docs_monitor.first(res, ("number",)) or dc.docs_monitor.first(res, ("count",))


def finding(case, obs):
    if obs.get("errors"):
        return None
    res = dc.mon(case, obs)
    if dc.docs_monitor.first(res, ("number",)):
        return None
    if dc.docs_monitor.first(res, ("count",)) and res["behind"]:
        # a run stopped after a rewind point (resume / suspension) and before the replay had re-emitted
        # everything that was rolled back: num_events is the rolled-back counter
        return "b"
    return None


def nontrivial(case, obs):
    return any(o[0] == "doc" and o[1] == "event" for o in obs.get("obs", []))
