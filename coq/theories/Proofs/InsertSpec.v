(* C21: the plan_mutator machine of Gen/Mutators.v (with the C21-a repair) and the reference semantics
   Gen/InsertSpec.v produce the same logged trace for every host, processor and script. *)
From BV Require Import Base.Prelude Gen.Coalg Gen.Mutators Gen.InsertSpec Proofs.Coalg.

(* ------------------------------------------------------------------ association lists *)
Lemma get_del_other : forall A (l : list (nat * A)) k g, k <> g -> assoc_get k (assoc_del g l) = assoc_get k l.
Proof.
  induction l as [|[k' v] l IH]; intros k g H; cbn; [reflexivity|].
  destruct (Nat.eqb g k') eqn:E1.
  - apply Nat.eqb_eq in E1. subst. destruct (Nat.eqb k k') eqn:E2; [apply Nat.eqb_eq in E2; congruence|reflexivity].
  - cbn. destruct (Nat.eqb k k'); [reflexivity|]. now apply IH.
Qed.

Lemma get_set_same : forall A (l : list (nat * A)) k v, assoc_get k (assoc_set k v l) = Some v.
Proof. intros. unfold assoc_set. cbn. now rewrite Nat.eqb_refl. Qed.

Lemma get_set_other : forall A (l : list (nat * A)) k g v, k <> g -> assoc_get k (assoc_set g v l) = assoc_get k l.
Proof.
  intros. unfold assoc_set. cbn. destruct (Nat.eqb k g) eqn:E; [apply Nat.eqb_eq in E; congruence|].
  now apply get_del_other.
Qed.

Section Equiv.
  Context {P : Type}.
  Variable resume : P -> input -> outcome P.
  Context {PS : Type}.
  Variable proc : @pm_proc P PS.

  Notation pmrun := (@pm_run P PS).
  Notation isrun := (@is_run P PS).

  Definition stack_of (fs : list (sframe P)) : list (nat * pent P) := map (fun f => (f_id f, f_ent f)) fs.
  Definition ids (fs : list (sframe P)) : list nat := map f_id fs.

  Definition tc_ok (tc : list (nat * option (nat * pent P))) (f : sframe P) : Prop :=
    match f_role f with
    | RHead (Some t) => assoc_get (f_id f) tc = Some (Some t)
    | RHead None => assoc_get (f_id f) tc = None \/ assoc_get (f_id f) tc = Some None
    | _ => assoc_get (f_id f) tc = None
    end.

  Definition trc_ok (trc : list (nat * val)) (f : sframe P) : Prop :=
    match f_role f with
    | RTail saved => assoc_get (f_id f) trc = Some saved
    | _ => assoc_get (f_id f) trc = None
    end.

  (* the tail waiting for head f has the next identity, which nothing else uses yet *)
  Definition tail_fresh (tc : list (nat * option (nat * pent P))) (trc : list (nat * val)) (n : nat) (fs : list (sframe P)) (f : sframe P) : Prop :=
    forall tid t, f_role f = RHead (Some (tid, t)) ->
      tid = S (f_id f) /\ S (f_id f) < n /\ ~ In (S (f_id f)) (ids fs) /\
      assoc_get (S (f_id f)) tc = None /\ assoc_get (S (f_id f)) trc = None.

  Definition frame_ok (tc : list (nat * option (nat * pent P))) (trc : list (nat * val)) (n : nat) (fs : list (sframe P)) (f : sframe P) : Prop :=
    f_id f < n /\ tc_ok tc f /\ trc_ok trc f /\ (f_id f = 0 <-> f_role f = RHost) /\ tail_fresh tc trc n fs f.

  Definition caches_ok (tc : list (nat * option (nat * pent P))) (trc : list (nat * val)) (n : nat) (fs : list (sframe P)) : Prop :=
    NoDup (ids fs) /\
    (forall f, In f fs -> frame_ok tc trc n fs f) /\
    (forall k, n <= k -> assoc_get k tc = None /\ assoc_get k trc = None).

  Definition agree {A} (g : nat) (l l' : list (nat * A)) : Prop :=
    forall k, k <> g -> assoc_get k l' = assoc_get k l.

  Lemma agree_refl : forall A g (l : list (nat * A)), agree g l l.
  Proof. intros A g l k H. reflexivity. Qed.

  Lemma agree_del : forall A g (l : list (nat * A)), agree g l (assoc_del g l).
  Proof. intros A g l k H. now apply get_del_other. Qed.

  (* popping the top frame, with any change to the caches at its identity only *)
  Lemma caches_pop :
    forall tc trc tc' trc' n f0 rest,
      caches_ok tc trc n (f0 :: rest) -> agree (f_id f0) tc tc' -> agree (f_id f0) trc trc' ->
      caches_ok tc' trc' n rest.
  Proof.
    intros tc trc tc' trc' n f0 rest (ND & FO & HK) A1 A2.
    assert (Hlt0 : f_id f0 < n) by (apply (FO f0); now left).
    cbn in ND. inversion ND as [|x l Hni ND']; subst.
    split; [exact ND'|]. split.
    - intros f Hf.
      assert (Hne : f_id f <> f_id f0).
      { intro E. apply Hni. rewrite <- E. unfold ids. now apply in_map. }
      destruct (FO f (or_intror Hf)) as (Hlt & Htc & Htrc & Hh & Hfr).
      split; [exact Hlt|]. split; [|split; [|split; [exact Hh|]]].
      + unfold tc_ok in *. rewrite (A1 _ Hne). exact Htc.
      + unfold trc_ok in *. rewrite (A2 _ Hne). exact Htrc.
      + intros tid t Hr. destruct (Hfr tid t Hr) as (E1 & E2 & E3 & E4 & E5).
        assert (Hs : S (f_id f) <> f_id f0) by (intro E; apply E3; left; now symmetry).
        split; [exact E1|]. split; [exact E2|]. split; [|split].
        * intro Hin. apply E3. now right.
        * now rewrite (A1 _ Hs).
        * now rewrite (A2 _ Hs).
    - intros k Hk. assert (k <> f_id f0) by lia.
      rewrite (A1 _ H), (A2 _ H). now apply HK.
  Qed.

  (* pushing a frame whose identity g is new to the stack, given that it is ok itself and that
     the caches changed at g only *)
  Lemma caches_push :
    forall tc trc tc' trc' n n' fnew rest,
      caches_ok tc trc n rest -> n <= n' ->
      ~ In (f_id fnew) (ids rest) ->
      (forall f, In f rest -> forall tid t, f_role f = RHead (Some (tid, t)) -> S (f_id f) <> f_id fnew) ->
      agree (f_id fnew) tc tc' -> agree (f_id fnew) trc trc' ->
      frame_ok tc' trc' n' (fnew :: rest) fnew ->
      (forall k, n' <= k -> assoc_get k tc' = None /\ assoc_get k trc' = None) ->
      caches_ok tc' trc' n' (fnew :: rest).
  Proof.
    intros tc trc tc' trc' n n' fnew rest (ND & FO & HK) Hn Hni Hsn A1 A2 Hnew HK'.
    split; [cbn; constructor; assumption|]. split; [|exact HK'].
    intros f [Hf|Hf]; [subst; exact Hnew|].
    assert (Hne : f_id f <> f_id fnew).
    { intro E. apply Hni. rewrite <- E. unfold ids. now apply in_map. }
    destruct (FO f Hf) as (Hlt & Htc & Htrc & Hh & Hfr).
    split; [lia|]. split; [|split; [|split; [exact Hh|]]].
    - unfold tc_ok in *. rewrite (A1 _ Hne). exact Htc.
    - unfold trc_ok in *. rewrite (A2 _ Hne). exact Htrc.
    - intros tid t Hr. destruct (Hfr tid t Hr) as (E1 & E2 & E3 & E4 & E5).
      assert (Hs : S (f_id f) <> f_id fnew) by (apply (Hsn f Hf tid t Hr)).
      split; [exact E1|]. split; [lia|]. split; [|split].
      + intros [Hin|Hin]; [now apply Hs|now apply E3].
      + now rewrite (A1 _ Hs).
      + now rewrite (A2 _ Hs).
  Qed.

  (* the machine at the head of its loop vs. the reference with its pending input *)
  Record Inv (m : pmrun) (st : isrun) (pend : input) : Prop := mkInv {
    i_stack : plan_stack m = stack_of (s_frames st);
    i_seen : msgs_seen m = s_seen st;
    i_retv : ret_value m = s_retv st;
    i_next : next_id m = s_next st;
    i_ps : pstate m = s_ps st;
    i_pend : match pend with
             | Send v => exception m = None /\ result_stack m = [v]
             | Throw e => exception m = Some e /\ result_stack m = []
             | Close => False
             end;
    i_caches : caches_ok (tail_cache m) (tail_result_cache m) (s_next st) (s_frames st)
  }.

  (* ... and suspended at a passed-out message *)
  Record InvY (m : pmrun) (st : isrun) : Prop := mkInvY {
    y_stack : plan_stack m = stack_of (s_frames st);
    y_seen : msgs_seen m = s_seen st;
    y_retv : ret_value m = s_retv st;
    y_next : next_id m = s_next st;
    y_ps : pstate m = s_ps st;
    y_exc : exception m = None;
    y_rs : result_stack m = [];
    y_caches : caches_ok (tail_cache m) (tail_result_cache m) (s_next st) (s_frames st)
  }.

  Definition RY (a : @pm_state P PS) (b : @is_state P PS) : Prop :=
    match a, b with
    | PMStart p s0, ISStart p' s0' => p = p' /\ s0 = s0'
    | PMRun m x, ISRun st y => x = y /\ InvY m st
    | _, _ => False
    end.

  Definition res_rel (a : @iter_res P PS) (b : @is_res P PS) : Prop :=
    match a, b with
    | ICont m' c, JCont st' pend' c' => c = c' /\ Inv m' st' pend'
    | IOut o c, JOut o' c' => c = c' /\ out_rel RY o o'
    | _, _ => False
    end.

  Lemma frames_lt : forall tc trc n fs f, caches_ok tc trc n fs -> In f fs -> f_id f < n.
  Proof. intros tc trc n fs f (_ & FO & _) H. now destruct (FO f H). Qed.

  Lemma ids_lt : forall tc trc n fs k, caches_ok tc trc n fs -> In k (ids fs) -> k < n.
  Proof.
    intros tc trc n fs k C H. unfold ids in H. apply in_map_iff in H as (f & <- & Hf). eapply frames_lt; eauto.
  Qed.

  (* a message arrives from the top frame: process_msg vs on_msg *)
  Lemma sim_msg :
    forall seen fs tc trc rt retv n ps m calls,
      fs <> [] -> caches_ok tc trc n fs ->
      res_rel (process_msg proc (mkPM seen (stack_of fs) [] tc trc None rt retv n ps) m calls)
              (on_msg proc (mkIS seen fs retv n ps) m calls).
  Proof.
    intros seen fs tc trc rt retv n ps m calls Hne C.
    unfold process_msg, on_msg. cbn [msgs_seen s_seen pstate s_ps next_id s_next].
    destruct (mem_nat m seen).
    - cbn. split; [reflexivity|]. split; [reflexivity|]. now constructor.
    - destruct (proc ps m) as [[s' h] t].
      assert (Hn0 : n <> 0).
      { destruct fs as [|f0 r]; [congruence|]. assert (f_id f0 < n) by (eapply frames_lt; eauto; now left). lia. }
      set (X := option_map (fun t0 : P => (S n, EPlan t0)) t).
      assert (Push : forall g0,
                 caches_ok (assoc_set n X tc) trc (S (S n)) (mkFr n g0 (RHead X) :: fs)).
      { intros g0. pose proof C as (ND & FO & HK).
        assert (H1 : n <= S (S n)) by lia.
        assert (H2 : ~ In (f_id (mkFr n g0 (RHead X))) (ids fs)).
        { cbn. intro Hin. apply (ids_lt tc trc n fs n C) in Hin. lia. }
        assert (H3 : forall f, In f fs -> forall tid t0, f_role f = RHead (Some (tid, t0)) ->
                                S (f_id f) <> f_id (mkFr n g0 (RHead X))).
        { intros f Hf tid t0 Hr. cbn. destruct (FO f Hf) as (_ & _ & _ & _ & Hfr).
          destruct (Hfr tid t0 Hr) as (_ & E2 & _). lia. }
        assert (H4 : agree (f_id (mkFr n g0 (RHead X))) tc (assoc_set n X tc)).
        { intros k Hk. cbn in Hk. now apply get_set_other. }
        assert (H5 : agree (f_id (mkFr n g0 (RHead X))) trc trc) by apply agree_refl.
        assert (H6 : frame_ok (assoc_set n X tc) trc (S (S n)) (mkFr n g0 (RHead X) :: fs) (mkFr n g0 (RHead X))).
        { split; [cbn; lia|]. split; [|split; [|split]].
          - unfold tc_ok. cbn. destruct X as [x|]; [apply get_set_same|right; apply get_set_same].
          - unfold trc_ok. cbn. apply HK. lia.
          - cbn. split; [intro; congruence|intro; discriminate].
          - intros tid t0 Hr. cbn in Hr. cbn [f_id].
            assert (HX : X = Some (tid, t0)) by congruence.
            unfold X in HX. destruct t as [t1|]; cbn in HX; [|discriminate]. inversion HX; subst.
            split; [reflexivity|]. split; [lia|]. split; [|split].
            + cbn. intros [Hin|Hin]; [lia|]. apply (ids_lt tc trc n fs (S n) C) in Hin. lia.
            + rewrite get_set_other by lia. apply HK. lia.
            + apply HK. lia. }
        assert (H7 : forall k, S (S n) <= k -> assoc_get k (assoc_set n X tc) = None /\ assoc_get k trc = None).
        { intros k Hk. rewrite get_set_other by lia. apply HK. lia. }
        exact (caches_push tc trc _ _ n _ _ fs C H1 H2 H3 H4 H5 H6 H7). }
      destruct h as [g|]; [|destruct t as [t1|]].
      + cbn. split; [reflexivity|]. constructor; cbn; auto; try apply Push.
      + cbn. split; [reflexivity|]. constructor; cbn; auto; try apply Push.
      + cbn. split; [reflexivity|]. split; [reflexivity|]. now constructor.
  Qed.

  (* the head f (with waiting tail tid) leaves the stack and its tail enters it, in role r' *)
  Lemma caches_head_to_tail :
    forall tc trc trc' n f rest tid t r',
      caches_ok tc trc n (f :: rest) -> f_role f = RHead (Some (tid, t)) ->
      agree tid trc trc' ->
      (match r' with RTail saved => assoc_get tid trc' = Some saved | RHead None => assoc_get tid trc' = None | _ => False end) ->
      caches_ok (assoc_del (f_id f) tc) trc' n (mkFr tid t r' :: rest).
  Proof.
    intros tc trc trc' n f rest tid t r' C Hr A2 Hr'.
    pose proof C as (ND & FO & HK).
    destruct (FO f (or_introl eq_refl)) as (Hlt & _ & _ & _ & Hfr).
    destruct (Hfr tid t Hr) as (-> & E2 & E3 & E4 & E5).
    assert (Hsg : S (f_id f) <> f_id f) by lia.
    assert (C1 : caches_ok (assoc_del (f_id f) tc) trc n rest).
    { apply (caches_pop tc trc _ _ n f rest C); [apply agree_del|apply agree_refl]. }
    cbn in ND. inversion ND as [|x l Hni ND']; subst.
    apply (caches_push (assoc_del (f_id f) tc) trc _ _ n n _ rest C1); cbn [f_id]; try lia.
    - intro Hin. apply E3. now right.
    - intros f' Hf' tid' t' Hr''. intro E. injection E as E. apply Hni. rewrite <- E. unfold ids. now apply in_map.
    - apply agree_refl.
    - exact A2.
    - split; [cbn; lia|]. split; [|split; [|split]].
      + unfold tc_ok. cbn. rewrite get_del_other by lia.
        destruct r' as [|[x|]|sv]; try contradiction; auto.
      + unfold trc_ok. cbn. destruct r' as [|[x|]|sv]; try contradiction; auto.
      + cbn. split; [intro; lia|]. destruct r' as [|[x|]|sv]; try contradiction; intro; discriminate.
      + intros tid' t' Hr''. cbn in Hr''. destruct r' as [|[x|]|sv]; try contradiction; discriminate.
    - intros k Hk. assert (k <> f_id f) by lia. assert (k <> S (f_id f)) by lia.
      rewrite get_del_other by assumption. rewrite (A2 _ H0). apply HK. lia.
  Qed.

  Lemma host_id : forall tc trc n fs f, caches_ok tc trc n fs -> In f fs ->
      Nat.eqb (f_id f) 0 = match f_role f with RHost => true | _ => false end.
  Proof.
    intros tc trc n fs f (_ & FO & _) H. destruct (FO f H) as (_ & _ & _ & [H1 H2] & _).
    destruct (f_role f) eqn:R.
    - apply Nat.eqb_eq. now apply H2.
    - apply Nat.eqb_neq. intro E. specialize (H1 E). discriminate.
    - apply Nat.eqb_neq. intro E. specialize (H1 E). discriminate.
  Qed.

  Lemma stack_nil : forall fs : list (sframe P), stack_of fs = [] -> fs = [].
  Proof. intros [|f r] H; [reflexivity|discriminate]. Qed.

  (* the top frame returned v; [passed] = the value it was last sent (None after a throw) *)
  Lemma sim_return :
    forall seen f rest tc trc ex rt retv n ps v pend calls,
      caches_ok tc trc n (f :: rest) -> pend <> Close ->
      res_rel (stop_iteration (mkPM seen (stack_of rest) [] tc trc ex rt retv n ps) None (f_id f) v (passed_on pend) calls)
              (on_return (mkIS seen (f :: rest) retv n ps) f rest v pend calls).
  Proof.
    intros seen f rest tc trc ex rt retv n ps v pend calls C Hp.
    pose proof C as (ND & FO & HK).
    destruct (FO f (or_introl eq_refl)) as (Hlt & Htc & Htrc & _ & Hfr).
    pose proof (host_id tc trc n (f :: rest) f C (or_introl eq_refl)) as Hh.
    unfold stop_iteration, on_return.
    cbn [ret_value tail_result_cache tail_cache result_stack plan_stack msgs_seen next_id pstate s_retv s_seen s_next s_ps].
    rewrite Hh. unfold tc_ok, trc_ok in *.
    destruct (f_role f) as [|[[tid t]|]|saved] eqn:R.
    - (* host *)
      rewrite Htrc, Htc.
      assert (C1 : caches_ok tc trc n rest) by (apply (caches_pop tc trc _ _ n f rest C); apply agree_refl).
      destruct rest as [|f1 r1]; cbn.
      + split; reflexivity.
      + split; [reflexivity|]. constructor; cbn; auto.
    - (* head with a tail *)
      rewrite Htrc, Htc. cbn. split; [reflexivity|]. constructor; cbn; auto.
      apply (caches_head_to_tail tc trc _ n f rest tid t (RTail (passed_on pend)) C R).
      + intros k Hk. now apply get_set_other.
      + apply get_set_same.
    - (* head without a tail *)
      rewrite Htrc.
      assert (C1 : forall tc', agree (f_id f) tc tc' -> caches_ok tc' trc n rest).
      { intros tc' A. apply (caches_pop tc trc _ _ n f rest C A). apply agree_refl. }
      destruct Htc as [Htc|Htc]; rewrite Htc; destruct rest as [|f1 r1]; cbn; try (split; reflexivity);
        (split; [reflexivity|]; constructor; cbn; auto; apply C1; [apply agree_refl || apply agree_del]).
    - (* tail *)
      rewrite Htrc, Htc.
      assert (C1 : caches_ok tc (assoc_del (f_id f) trc) n rest).
      { apply (caches_pop tc trc _ _ n f rest C); [apply agree_refl|apply agree_del]. }
      destruct rest as [|f1 r1]; cbn.
      + split; reflexivity.
      + split; [reflexivity|]. constructor; cbn; auto.
  Qed.

  (* one loop iteration of the repaired machine = one delivery of the pending input in the reference *)
  Lemma iter_sim :
    forall m st pend, Inv m st pend -> res_rel (pm_iter resume proc true m) (is_iter resume proc st pend).
  Proof.
    intros [seen pst rs tc trc ex rt retv n ps] [sseen fs sretv sn sps] pend [H1 H2 H3 H4 H5 H6 H7].
    cbn in H1, H2, H3, H4, H5, H6, H7. subst.
    unfold pm_iter, is_iter. cbn [plan_stack s_frames exception result_stack].
    destruct fs as [|f rest]; [cbn; split; [reflexivity|exact I]|].
    cbn [stack_of map].
    pose proof H7 as (ND & FO & HK).
    destruct (FO f (or_introl eq_refl)) as (Hlt & Htc & Htrc & _ & Hfr).
    destruct pend as [v|e|]; [| |contradiction]; destruct H6 as [-> ->].
    - (* Send v *)
      destruct (ent_resume resume (f_ent f) (Send v)) as [m p'|v'|e'|] eqn:E.
      + (* message *)
        unfold set_top, with_frames. cbn.
        apply (sim_msg sseen (mkFr (f_id f) p' (f_role f) :: rest) tc trc v sretv sn sps m [Call (f_id f) (Send v)]);
          [discriminate|].
        split; [exact ND|]. split; [|exact HK].
        intros f0 [<-|Hf0]; [|].
        * split; [exact Hlt|]. split; [exact Htc|]. split; [exact Htrc|]. split.
          -- destruct (FO f (or_introl eq_refl)) as (_ & _ & _ & Hh & _). exact Hh.
          -- exact Hfr.
        * exact (FO f0 (or_intror Hf0)).
      + (* return *)
        unfold pop_top. cbn.
        apply (sim_return sseen f rest tc trc None v sretv sn sps v' (Send v) [Call (f_id f) (Send v)] H7). discriminate.
      + (* raise *)
        destruct (is_Exception e') eqn:X; [|cbn; split; reflexivity].
        unfold on_raise, with_frames. cbn [tail_cache msgs_seen tail_result_cache ret_value next_id pstate s_seen s_retv s_next s_ps].
        unfold tc_ok in Htc.
        destruct (f_role f) as [|[[tid t]|]|saved] eqn:R.
        * rewrite Htc.
          assert (C1 : caches_ok tc trc sn rest) by (apply (caches_pop tc trc _ _ sn f rest H7); apply agree_refl).
          destruct rest as [|f1 r1]; cbn; [split; reflexivity|]. split; [reflexivity|]. constructor; cbn; auto.
        * rewrite Htc. cbn. split; [reflexivity|]. constructor; cbn; auto.
          apply (caches_head_to_tail tc trc trc sn f rest tid t (RHead None) H7 R); [apply agree_refl|].
          destruct (Hfr tid t R) as (-> & _ & _ & _ & E5). exact E5.
        * assert (C1 : forall tc', agree (f_id f) tc tc' -> caches_ok tc' trc sn rest).
          { intros tc' A. apply (caches_pop tc trc _ _ sn f rest H7 A). apply agree_refl. }
          destruct Htc as [Htc|Htc]; rewrite Htc; destruct rest as [|f1 r1]; cbn; try (split; reflexivity);
            (split; [reflexivity|]; constructor; cbn; auto; apply C1; [apply agree_refl || apply agree_del]).
        * rewrite Htc.
          assert (C1 : caches_ok tc trc sn rest) by (apply (caches_pop tc trc _ _ sn f rest H7); apply agree_refl).
          destruct rest as [|f1 r1]; cbn; [split; reflexivity|]. split; [reflexivity|]. constructor; cbn; auto.
      + cbn. split; [reflexivity|exact I].
    - (* Throw e *)
      destruct (ent_resume resume (f_ent f) (Throw e)) as [m p'|v'|e'|] eqn:E.
      + unfold set_top, with_frames. cbn.
        apply (sim_msg sseen (mkFr (f_id f) p' (f_role f) :: rest) tc trc rt sretv sn sps m [Call (f_id f) (Throw e)]);
          [discriminate|].
        split; [exact ND|]. split; [|exact HK].
        intros f0 [<-|Hf0]; [|].
        * split; [exact Hlt|]. split; [exact Htc|]. split; [exact Htrc|]. split.
          -- destruct (FO f (or_introl eq_refl)) as (_ & _ & _ & Hh & _). exact Hh.
          -- exact Hfr.
        * exact (FO f0 (or_intror Hf0)).
      + unfold pop_top. cbn.
        apply (sim_return sseen f rest tc trc (Some e) VNone sretv sn sps v' (Throw e) [Call (f_id f) (Throw e)] H7). discriminate.
      + destruct (is_Exception e') eqn:X; [|cbn; split; reflexivity].
        unfold on_raise, with_frames. cbn.
        assert (C1 : caches_ok tc trc sn rest) by (apply (caches_pop tc trc _ _ sn f rest H7); apply agree_refl).
        destruct rest as [|f1 r1]; cbn; [split; reflexivity|]. split; [reflexivity|]. constructor; cbn; auto.
      + cbn. split; [reflexivity|exact I].
  Qed.

  Lemma loop_sim :
    forall fuel m st pend log, Inv m st pend ->
      step_rel RY (pm_loop resume proc true fuel m log) (is_loop resume proc fuel st pend log).
  Proof.
    induction fuel as [|fuel IH]; intros m st pend log H; cbn [pm_loop is_loop].
    - split; [reflexivity|exact I].
    - pose proof (iter_sim m st pend H) as R.
      destruct (pm_iter resume proc true m) as [m' c|o c], (is_iter resume proc st pend) as [st' pend' c'|o' c'];
        cbn in R; try contradiction.
      + destruct R as [-> R]. now apply IH.
      + destruct R as [-> R]. split; [reflexivity|exact R].
  Qed.

  Lemma stack_of_nil_iff : forall fs : list (sframe P), stack_of fs = [] <-> fs = [].
  Proof. intros [|f r]; split; intro H; try reflexivity; discriminate. Qed.

  Lemma lresume_sim :
    forall a b, RY a b -> forall fuel i,
      step_rel RY (pm_lresume resume proc true fuel a i) (is_lresume resume proc fuel b i).
  Proof.
    intros a b H fuel i. destruct a as [p s0|m x], b as [p' s0'|st y]; cbn in H; try contradiction.
    - destruct H as [-> ->]. unfold pm_lresume, is_lresume.
      destruct i as [[|z]|e|]; try (split; reflexivity).
      apply loop_sim. constructor; cbn; auto.
      split; [cbn; constructor; [intros []|constructor]|]. split.
      + intros f [<-|[]]. split; [cbn; lia|]. split; [reflexivity|]. split; [reflexivity|]. split.
        * cbn. split; auto.
        * intros tid t Hr. discriminate Hr.
      + intros k Hk. split; reflexivity.
    - destruct H as [-> [H1 H2 H3 H4 H5 H6 H7 H8]]. unfold pm_lresume, is_lresume.
      destruct i as [v|e|].
      + apply loop_sim. constructor; cbn; auto. rewrite H7. auto.
      + destruct (is_GeneratorExit e).
        * unfold pm_generator_exit, is_generator_exit. rewrite H1. unfold stack_of.
          destruct (close_all resume (rev (map (fun f => (f_id f, f_ent f)) (s_frames st))) []) as [[[e'|] [|]] c];
            split; try reflexivity; exact I.
        * destruct (is_Exception e); [|split; reflexivity].
          rewrite H1. destruct (s_frames st) as [|f r] eqn:F; cbn [stack_of map]; [split; reflexivity|].
          apply loop_sim. constructor; cbn; rewrite ?F; auto.
      + unfold pm_generator_exit, is_generator_exit. rewrite H1. unfold stack_of.
        destruct (close_all resume (rev (map (fun f => (f_id f, f_ent f)) (s_frames st))) []) as [[[e'|] [|]] c];
          split; try reflexivity; exact I.
  Qed.

  (* for every host, processor, processor state and script: same observations, same calls on every plan *)
  Theorem pm_is_insert_spec :
    forall p s0 s fuel,
      ltrace (pm_lresume resume proc true fuel) (pm_init p s0) s
      = ltrace (is_lresume resume proc fuel) (is_init p s0) s.
  Proof.
    intros p s0 s fuel. apply (bisim_ltrace _ _ RY).
    - intros a b H i. now apply lresume_sim.
    - cbn. auto.
  Qed.
End Equiv.

(* ------------------------------------------------------------------ what the reference says, one delivery at a time *)
Section SpecFacts.
  Context {P : Type}.
  Variable resume : P -> input -> outcome P.
  Context {PS : Type}.
  Variable proc : @pm_proc P PS.

  (* a head (without tail) returns on the response v to its last message: the frame below gets v *)
  Lemma head_response_passed :
    forall st f below rest v w,
      s_frames st = f :: below :: rest -> f_role f = RHead None ->
      ent_resume resume (f_ent f) (Send v) = Returned w ->
      is_iter resume proc st (Send v)
      = JCont (mkIS (s_seen st) (below :: rest) (s_retv st) (s_next st) (s_ps st)) (Send v) [Call (f_id f) (Send v)].
  Proof.
    intros st f below rest v w F R E. unfold is_iter. rewrite F, E. unfold on_return. now rewrite R.
  Qed.

  (* a head with a tail: the tail is started, the response is kept for the frame below *)
  Lemma head_then_tail :
    forall st f below rest v w tid t,
      s_frames st = f :: below :: rest -> f_role f = RHead (Some (tid, t)) ->
      ent_resume resume (f_ent f) (Send v) = Returned w ->
      is_iter resume proc st (Send v)
      = JCont (mkIS (s_seen st) (mkFr tid t (RTail v) :: below :: rest) (s_retv st) (s_next st) (s_ps st))
              (Send VNone) [Call (f_id f) (Send v)].
  Proof.
    intros st f below rest v w tid t F R E. unfold is_iter. rewrite F, E. unfold on_return. now rewrite R.
  Qed.

  (* a tail returns, on whatever input: its responses and return value are dropped, the frame below gets
     the response saved from the head *)
  Lemma tail_responses_swallowed :
    forall st f below rest i w saved,
      s_frames st = f :: below :: rest -> f_role f = RTail saved ->
      ent_resume resume (f_ent f) i = Returned w ->
      is_iter resume proc st i
      = JCont (mkIS (s_seen st) (below :: rest) (s_retv st) (s_next st) (s_ps st)) (Send saved) [Call (f_id f) i].
  Proof.
    intros st f below rest i w saved F R E. unfold is_iter. rewrite F, E. unfold on_return. now rewrite R.
  Qed.

  (* an inserted plan lets an Exception kind out (while handling a thrown exception, or on its own with no
     tail waiting): the frame below -- eventually the host at its original yield -- gets it thrown in *)
  Lemma exception_passed_down :
    forall st f below rest i e,
      s_frames st = f :: below :: rest ->
      (match i, f_role f with Send _, RHead (Some _) => False | Close, _ => False | _, _ => True end) ->
      ent_resume resume (f_ent f) i = Raised e -> is_Exception e = true ->
      is_iter resume proc st i
      = JCont (mkIS (s_seen st) (below :: rest) (s_retv st) (s_next st) (s_ps st)) (Throw e) [Call (f_id f) i].
  Proof.
    intros st f below rest i e F R E X. unfold is_iter. rewrite F, E, X. unfold on_raise, with_frames.
    destruct i as [v|e0|]; [| |contradiction].
    - destruct (f_role f) as [|[x|]|sv]; try contradiction; reflexivity.
    - reflexivity.
  Qed.

  (* a message seen before is passed out unprocessed *)
  Lemma seen_message_not_reprocessed :
    forall st m calls, mem_nat m (s_seen st) = true ->
      on_msg proc st m calls = JOut (Yielded m (ISRun st m)) calls.
  Proof. intros st m calls H. unfold on_msg. now rewrite H. Qed.
End SpecFacts.
