(* C35 (b) - nothing is lost: proofs about the event / datum handling of Pure/Normalizer.v *)
From Coq Require Import String List ZArith Bool Arith Lia.
From BV Require Import Base.Prelude Pure.Normalizer Proofs.Normalizer.
Import ListNotations.
Open Scope string_scope.
Open Scope list_scope.

(* ================================================================== ordered dicts *)

Lemma dget_dset_same : forall k v d, dget k (dset k v d) = Some v.
Proof.
  induction d as [|[k' v'] d IH]; simpl.
  - now rewrite String.eqb_refl.
  - destruct (String.eqb k k') eqn:E; simpl; rewrite E; [reflexivity | exact IH].
Qed.

Lemma dget_dset_other : forall k k' v d, String.eqb k k' = false -> dget k (dset k' v d) = dget k d.
Proof.
  induction d as [|[k2 v2] d IH]; intros E; simpl.
  - now rewrite E.
  - destruct (String.eqb k' k2) eqn:E2; simpl.
    + apply String.eqb_eq in E2; subst. now rewrite E.
    + destruct (String.eqb k k2); [reflexivity | now apply IH].
Qed.

Lemma dget_filter_key : forall (q : string -> bool) k d,
  dget k (filter (fun p : string * val => q (fst p)) d) = if q k then dget k d else None.
Proof.
  induction d as [|[k' v'] d IH]; simpl; [now destruct (q k)|].
  destruct (q k') eqn:Q; simpl.
  - destruct (String.eqb k k') eqn:E; [apply String.eqb_eq in E; subst; now rewrite Q | exact IH].
  - destruct (String.eqb k k') eqn:E; [apply String.eqb_eq in E; subst; rewrite Q in *; exact IH | exact IH].
Qed.

Lemma dget_ddel_same : forall k d, dget k (ddel k d) = None.
Proof. intros. unfold ddel. rewrite (dget_filter_key (fun x => negb (String.eqb k x))). now rewrite String.eqb_refl. Qed.

Lemma dget_ddel_other : forall k k' d, String.eqb k k' = false -> dget k (ddel k' d) = dget k d.
Proof.
  intros. unfold ddel. rewrite (dget_filter_key (fun x => negb (String.eqb k' x))).
  rewrite String.eqb_sym, H. reflexivity.
Qed.

(* ================================================================== reserved names *)

Definition ren (k : string) : string :=
  if String.eqb k "time" then "_time" else if String.eqb k "seq_num" then "_seq_num" else k.

Definition rename_key (name : string) (d : dict) : dict :=
  match dget name d with None => d | Some v => dset (us name) v (ddel name d) end.

Lemma us_neq : forall name, String.eqb (us name) name = false.
Proof.
  intros name. apply String.eqb_neq. intros E. unfold us in E.
  assert (L : String.length ("_" +++ name) = String.length name) by now rewrite E.
  simpl in L. lia.
Qed.

Lemma dget_rename_key : forall name k d,
  dget k (rename_key name d) =
  if String.eqb k (us name) then (match dget name d with Some v => Some v | None => dget k d end)
  else if String.eqb k name then (match dget name d with Some _ => None | None => dget k d end)
  else dget k d.
Proof.
  intros name k d. unfold rename_key. destruct (dget name d) as [v|] eqn:G.
  - destruct (String.eqb k (us name)) eqn:E1.
    + apply String.eqb_eq in E1; subst. apply dget_dset_same.
    + rewrite dget_dset_other by assumption. destruct (String.eqb k name) eqn:E2.
      * apply String.eqb_eq in E2; subst. apply dget_ddel_same.
      * now apply dget_ddel_other.
  - destruct (String.eqb k (us name)); [reflexivity|]. destruct (String.eqb k name); reflexivity.
Qed.

(* what event_rename_one does to the three dictionaries it touches *)
Lemma event_rename_one_spec : forall name d d',
  event_rename_one name d = inl d' ->
  String.eqb name "data" = false -> String.eqb name "timestamps" = false -> String.eqb name "filled" = false ->
  exists data fl,
    dget "data" d = Some (VDict data) /\ dget "filled" d = Some (VDict fl) /\
    dget "data" d' = Some (VDict (rename_key name data)) /\
    dget "filled" d' = Some (VDict (rename_key name fl)) /\
    (forall k, String.eqb k "data" = false -> String.eqb k "timestamps" = false -> String.eqb k "filled" = false ->
               dget k d' = dget k d).
Proof.
  intros name d d' E _ _ _. unfold event_rename_one, ebind, egetitem, eopt, as_dict in E.
  destruct (dget "data" d) as [[]|] eqn:Gd; try discriminate. rename kv into data.
  destruct (dget name data) as [v|] eqn:Gn.
  - destruct (dget "timestamps" (dset "data" (VDict (dset (us name) v (ddel name data))) d)) as [[]|] eqn:Gt; try discriminate.
    rename kv into ts. destruct (dget name ts) as [t|] eqn:Gnt; try discriminate.
    match type of E with context [dget "filled" ?X] => set (d1 := X) in * end.
    destruct (dget "filled" d1) as [[]|] eqn:Gf; try discriminate. rename kv into fl.
    assert (Gf0 : dget "filled" d = Some (VDict fl)).
    { subst d1. rewrite !dget_dset_other in Gf by reflexivity. exact Gf. }
    exists data, fl. destruct (dget name fl) as [fv|] eqn:Gnf; inversion E; subst d'; clear E.
    + repeat split; auto.
      * subst d1. rewrite !dget_dset_other by reflexivity. rewrite dget_dset_same. unfold rename_key. now rewrite Gn.
      * rewrite dget_dset_same. unfold rename_key. now rewrite Gnf.
      * intros k K1 K2 K3. subst d1. now rewrite !dget_dset_other by assumption.
    + repeat split; auto.
      * subst d1. rewrite !dget_dset_other by reflexivity. rewrite dget_dset_same. unfold rename_key. now rewrite Gn.
      * rewrite Gf. unfold rename_key. now rewrite Gnf.
      * intros k K1 K2 K3. subst d1. now rewrite !dget_dset_other by assumption.
  - destruct (dget "filled" d) as [[]|] eqn:Gf; try discriminate. rename kv into fl.
    exists data, fl. destruct (dget name fl) as [fv|] eqn:Gnf; inversion E; subst d'; clear E.
    + repeat split; auto.
      * rewrite dget_dset_other by reflexivity. rewrite Gd. unfold rename_key. now rewrite Gn.
      * rewrite dget_dset_same. unfold rename_key. now rewrite Gnf.
      * intros k K1 K2 K3. now rewrite dget_dset_other by assumption.
    + repeat split; auto.
      * rewrite Gd. unfold rename_key. now rewrite Gn.
      * rewrite Gf. unfold rename_key. now rewrite Gnf.
Qed.

Definition renamed (d : dict) : dict := rename_key "seq_num" (rename_key "time" d).

(* lookups after both renames, for dictionaries that do not already use the underscored names *)
Lemma dget_renamed_fwd : forall d k v,
  dget "_time" d = None -> dget "_seq_num" d = None ->
  dget k d = Some v -> dget (ren k) (renamed d) = Some v.
Proof.
  intros d k v T S G. unfold renamed, ren.
  destruct (String.eqb k "time") eqn:E1.
  - apply String.eqb_eq in E1; subst. rewrite dget_rename_key. cbn [String.eqb Ascii.eqb Bool.eqb us append].
    simpl. rewrite dget_rename_key. simpl. now rewrite G.
  - destruct (String.eqb k "seq_num") eqn:E2.
    + apply String.eqb_eq in E2; subst. rewrite dget_rename_key. simpl.
      rewrite dget_rename_key. simpl. now rewrite G.
    + rewrite dget_rename_key.
      assert (K1 : String.eqb k (us "seq_num") = false).
      { apply String.eqb_neq. intros ->. unfold us in G. simpl in G. congruence. }
      rewrite K1, E2. rewrite dget_rename_key.
      assert (K2 : String.eqb k (us "time") = false).
      { apply String.eqb_neq. intros ->. unfold us in G. simpl in G. congruence. }
      now rewrite K2, E1.
Qed.

Lemma dget_renamed_bwd : forall d k' v,
  dget k' (renamed d) = Some v -> exists k, ren k = k' /\ dget k d = Some v.
Proof.
  intros d k' v G. unfold renamed in G. rewrite dget_rename_key in G.
  destruct (String.eqb k' (us "seq_num")) eqn:E1.
  - apply String.eqb_eq in E1; subst.
    destruct (dget "seq_num" (rename_key "time" d)) as [x|] eqn:Gs.
    + inversion G; subst. rewrite dget_rename_key in Gs. simpl in Gs. exists "seq_num". split; [reflexivity|].
      destruct (dget "time" d); assumption.
    + rewrite dget_rename_key in G. simpl in G. exists "_seq_num". split; [reflexivity|].
      destruct (dget "time" d); assumption.
  - destruct (String.eqb k' "seq_num") eqn:E2.
    + destruct (dget "seq_num" (rename_key "time" d)) eqn:Gs; [discriminate|].
      apply String.eqb_eq in E2; subst. congruence.
    + rewrite dget_rename_key in G.
      destruct (String.eqb k' (us "time")) eqn:E3.
      * apply String.eqb_eq in E3; subst. destruct (dget "time" d) as [x|] eqn:Gt.
        -- inversion G; subst. exists "time". split; [reflexivity | assumption].
        -- exists "_time". split; [reflexivity | assumption].
      * destruct (String.eqb k' "time") eqn:E4.
        -- destruct (dget "time" d) eqn:Gt; [discriminate|]. apply String.eqb_eq in E4; subst. congruence.
        -- exists k'. split; [|assumption]. unfold ren. now rewrite E4, E2.
Qed.

Lemma ren_inj : forall a b, ren a = ren b ->
  a <> "_time" -> a <> "_seq_num" -> b <> "_time" -> b <> "_seq_num" -> a = b.
Proof.
  intros a b E A1 A2 B1 B2. unfold ren in E.
  destruct (String.eqb a "time") eqn:Ea1; destruct (String.eqb b "time") eqn:Eb1;
  destruct (String.eqb a "seq_num") eqn:Ea2; destruct (String.eqb b "seq_num") eqn:Eb2;
  repeat match goal with H : String.eqb _ _ = true |- _ => apply String.eqb_eq in H end;
  subst; try congruence; try discriminate.
Qed.

(* (b1) what the Event handler emits for an Event: the data are the received data, reserved names
   underscored, restricted to the keys to be kept inline - every internal value is there,
   nothing is invented; the other top-level fields (uid, descriptor, seq_num, time, ...) are
   passed on as received. *)
Theorem event_split_spec : forall i e d data fl ev ext du sq,
  event_split i e d = inl (ev, ext, du, sq) ->
  dget "data" d = Some (VDict data) -> dget "filled" d = Some (VDict fl) ->
  dget "_time" data = None -> dget "_seq_num" data = None ->
  dget "_time" fl = None -> dget "_seq_num" fl = None ->
  exists evdata,
    dget "data" ev = Some (VDict evdata) /\
    (forall k v, dget k data = Some v -> mem_str (ren k) i = true ->
                 (forall x, dget k fl = Some x -> truthy x = true) ->
                 dget (ren k) evdata = Some v) /\
    (forall k' v, dget k' evdata = Some v -> exists k, ren k = k' /\ dget k data = Some v) /\
    (forall k, String.eqb k "data" = false -> String.eqb k "timestamps" = false -> String.eqb k "filled" = false ->
               dget k ev = dget k d) /\
    dget "filled" ev = None.
Proof.
  intros i e d data fl ev ext du sq E Gd Gf T1 T2 F1 F2.
  unfold event_split in E.
  destruct (event_rename_one "time" d) as [d1|] eqn:R1; [|discriminate]. cbn [ebind] in E.
  destruct (event_rename_one "seq_num" d1) as [d2|] eqn:R2; [|discriminate]. cbn [ebind] in E.
  destruct (event_rename_one_spec _ _ _ R1 eq_refl eq_refl eq_refl) as (data0 & fl0 & A1 & A2 & A3 & A4 & A5).
  rewrite Gd in A1; inversion A1; subst data0. rewrite Gf in A2; inversion A2; subst fl0. clear A1 A2.
  destruct (event_rename_one_spec _ _ _ R2 eq_refl eq_refl eq_refl) as (data1 & fl1 & B1 & B2 & B3 & B4 & B5).
  rewrite A3 in B1; inversion B1; subst data1. rewrite A4 in B2; inversion B2; subst fl1. clear B1 B2.
  fold (renamed data) in B3. fold (renamed fl) in B4.
  rewrite B4 in E. cbn [as_dict ebind] in E.
  unfold egetitem, eopt in E. rewrite dget_ddel_other in E by reflexivity. rewrite B3 in E. cbn [as_dict ebind] in E.
  rewrite dget_ddel_other in E by reflexivity.
  destruct (dget "timestamps" d2) as [[]|] eqn:Gt; try discriminate. cbn [as_dict ebind] in E.
  rename kv into ts. inversion E; subst ev ext du sq; clear E.
  set (keep := fun kv : string * val => in_event_keys i e (renamed fl) (fst kv)).
  exists (filter keep (renamed data)). repeat split.
  - rewrite dget_dset_other by reflexivity. apply dget_dset_same.
  - intros k v G M Hf. unfold keep. rewrite (dget_filter_key (in_event_keys i e (renamed fl))).
    assert (K : in_event_keys i e (renamed fl) (ren k) = true).
    { unfold in_event_keys. rewrite M. cbn [andb].
      destruct (dget (ren k) (renamed fl)) as [x|] eqn:Gx; [|reflexivity].
      apply dget_renamed_bwd in Gx as (k2 & Rk & G2).
      assert (k2 = k).
      { apply ren_inj; auto; intros ->; congruence. }
      subst k2. rewrite (Hf _ G2). reflexivity. }
    rewrite K. now apply dget_renamed_fwd.
  - intros k' v G. unfold keep in G. rewrite (dget_filter_key (in_event_keys i e (renamed fl))) in G.
    destruct (in_event_keys i e (renamed fl) k'); [|discriminate]. now apply dget_renamed_bwd.
  - intros k K1 K2 K3. rewrite !dget_dset_other by assumption. rewrite dget_ddel_other by assumption.
    rewrite B5 by assumption. now apply A5.
  - rewrite !dget_dset_other by reflexivity. apply dget_ddel_same.
Qed.

(* ================================================================== inversion of successful executions *)

Definition upd_ns (x : mst) (n : nstate) : mst :=
  {| ns := n; st := st x; out := out x; fail_emit := fail_emit x |}.
Definition upd_out (x : mst) (o : list (string * val)) : mst :=
  {| ns := ns x; st := st x; out := o; fail_emit := fail_emit x |}.

Lemma bind_inl : forall A B (m : M A) (f : A -> M B) x x' b,
  bind m f x = (x', inl b) -> exists x1 a, m x = (x1, inl a) /\ f a x1 = (x', inl b).
Proof.
  intros A B m f x x' b E. unfold bind in E. destruct (m x) as [x1 [a|e]]; [|discriminate]. eauto.
Qed.
Lemma ret_inl : forall A (a b : A) x x', ret a x = (x', inl b) -> x' = x /\ b = a.
Proof. intros. inversion H; auto. Qed.
Lemma fail_inl : forall A e x x' (b : A), fail e x = (x', inl b) -> False.
Proof. intros. inversion H. Qed.
Lemma lift_inl : forall A (r : A + err) x x' a, lift r x = (x', inl a) -> x' = x /\ r = inl a.
Proof. intros. inversion H; auto. Qed.
Lemma of_opt_inl : forall A e (o : option A) x x' a, of_opt e o x = (x', inl a) -> x' = x /\ o = Some a.
Proof. intros A e [a'|] x x' a H; inversion H; auto. Qed.
Lemma get_ns_inl : forall x x' n, get_ns x = (x', inl n) -> x' = x /\ n = ns x.
Proof. intros. inversion H; auto. Qed.
Lemma put_ns_inl : forall n x x' u, put_ns n x = (x', inl u) -> x' = upd_ns x n.
Proof. intros. inversion H; auto. Qed.
Lemma get_st_inl : forall x x' s, get_st x = (x', inl s) -> x' = x /\ s = st x.
Proof. intros. inversion H; auto. Qed.
Lemma deepcopy_inl : forall v x x' c,
  deepcopy v x = (x', inl c) -> x' = x /\ readback (fuel_of (st x)) (st x) v = Some c.
Proof.
  intros v x x' c E. unfold deepcopy in E. apply bind_inl in E as (x1 & s & E1 & E2).
  apply get_st_inl in E1 as [-> ->]. apply of_opt_inl in E2 as [-> E2]. auto.
Qed.
Lemma load_dict_inl : forall kv x x' a, load_dict (VDict kv) x = (x', inl a) -> x' = x /\ a = kv.
Proof. intros. inversion H; auto. Qed.
Lemma mut_dict_inl : forall kv f x x' a, mut_dict (VDict kv) f x = (x', inl a) -> x' = x /\ a = VDict (f kv).
Proof. intros. inversion H; auto. Qed.
Lemma emit_inl : forall name v x x' u,
  emit name v x = (x', inl u) ->
  exists snap, readback (fuel_of (st x)) (st x) v = Some snap /\ x' = upd_out x (out x ++ [(name, snap)]).
Proof.
  intros name v x x' u E. unfold emit in E. apply bind_inl in E as (x1 & snap & E1 & E2).
  apply deepcopy_inl in E1 as [-> E1]. exists snap. split; [assumption|].
  destruct (existsb _ _); inversion E2; reflexivity.
Qed.

Lemma with_next_frame_id : forall n, with_next_frame n (next_frame n) = n.
Proof. now destruct n. Qed.
Lemma with_emitted_id : forall n, with_emitted n (emitted n) = n.
Proof. now destruct n. Qed.

(* the frame entry of a (private) Datum document *)
Definition datum_frame (ddk : dict) : option val :=
  match dget "datum_kwargs" ddk with
  | Some (VDict kw) => dget "frame" kw
  | _ => None
  end.

Definition no_frame (ddk : dict) : Prop := datum_frame ddk = None \/ datum_frame ddk = Some VNone.

(* (b2) the StreamDatum made from a Datum: its uid is the datum id, its descriptor the Event's,
   seq_nums = indices + 1 always, and without a frame entry indices = [seq_num - 1, seq_num).
   Nothing but the frame counters of the normalizer state is touched. *)
Lemma convert_datum_spec : forall ddk data_key desc_uid seq_num x x' sres sdat,
  noref (VDict ddk) = true ->
  convert_datum (VDict ddk) data_key desc_uid seq_num x = (x', inl (sres, sdat)) ->
  st x' = st x /\ out x' = out x /\ fail_emit x' = fail_emit x /\
  (exists t, ns x' = with_next_frame (ns x) t) /\
  exists did suid i0 i1,
    dget "datum_id" ddk = Some did /\ dget "resource" ddk = Some (VStr suid) /\
    sdat = VDict [("uid", did); ("stream_resource", VStr (suid +++ "-" +++ data_key)); ("descriptor", desc_uid);
                  ("indices", range_doc i0 i1); ("seq_nums", range_doc (i0 + 1) (i1 + 1))] /\
    (no_frame ddk -> ns x' = ns x /\ exists q, seq_num = VInt q /\ i0 = (q - 1)%Z /\ i1 = q).
Proof.
  intros ddk data_key desc_uid seq_num x x' sres sdat N E. unfold convert_datum in E.
  apply bind_inl in E as (x1 & dd & E1 & E). apply load_dict_inl in E1 as [-> ->].
  rewrite noref_dict in N.
  set (kwv := match dget "datum_kwargs" ddk with Some x => x | None => VDict [] end) in *.
  assert (Nk : noref kwv = true).
  { subst kwv. destruct (dget "datum_kwargs" ddk) eqn:G; [exact (allnoref_dget _ _ _ N G) | reflexivity]. }
  apply bind_inl in E as (x1 & kw & E1 & E).
  destruct kwv as [| | | | |kw0| |] eqn:Ekw; try (inversion E1; fail); try discriminate.
  apply load_dict_inl in E1 as [-> ->].
  apply bind_inl in E as (x1 & u & E1 & E). apply mut_dict_inl in E1 as [-> _].
  apply bind_inl in E as (x1 & rng & E1 & E). destruct rng as [i0 i1].
  assert (F : datum_frame ddk = dget "frame" kw0).
  { unfold datum_frame. subst kwv. destruct (dget "datum_kwargs" ddk) as [v|]; [now subst v | now inversion Ekw]. }
  assert (R : st x1 = st x /\ out x1 = out x /\ fail_emit x1 = fail_emit x /\
              (exists t, ns x1 = with_next_frame (ns x) t) /\
              (no_frame ddk -> ns x1 = ns x /\ exists q, seq_num = VInt q /\ i0 = (q - 1)%Z /\ i1 = q)).
  { unfold no_frame. rewrite F. destruct (dget "frame" kw0) as [[| |f| | | | |]|] eqn:Gf;
      try (exfalso; exact (fail_inl _ _ _ _ _ E1)).
    - destruct seq_num; try (exfalso; exact (fail_inl _ _ _ _ _ E1)).
      apply ret_inl in E1 as [-> E1]. inversion E1; subst.
      split; [reflexivity|]. split; [reflexivity|]. split; [reflexivity|].
      split; [exists (next_frame (ns x)); now rewrite with_next_frame_id|].
      intros _. split; [reflexivity|]. eauto.
    - apply bind_inl in E1 as (y1 & n & G1 & E1). apply get_ns_inl in G1 as [-> ->].
      apply bind_inl in E1 as (y1 & du & G1 & E1). apply lift_inl in G1 as [-> _].
      apply bind_inl in E1 as (y1 & dn & G1 & E1). apply of_opt_inl in G1 as [-> _].
      apply bind_inl in E1 as (y1 & dn' & G1 & E1). apply lift_inl in G1 as [-> _].
      destruct (frame_step _ _) as [ci' r].
      apply bind_inl in E1 as (y1 & u' & G1 & E1). apply put_ns_inl in G1 as ->.
      apply ret_inl in E1 as [-> E1].
      split; [reflexivity|]. split; [reflexivity|]. split; [reflexivity|]. split; [eexists; reflexivity|].
      intros [C|C]; discriminate.
    - destruct seq_num; try (exfalso; exact (fail_inl _ _ _ _ _ E1)).
      apply ret_inl in E1 as [-> E1]. inversion E1; subst.
      split; [reflexivity|]. split; [reflexivity|]. split; [reflexivity|].
      split; [exists (next_frame (ns x)); now rewrite with_next_frame_id|].
      intros _. split; [reflexivity|]. eauto. }
  destruct R as (R1 & R2 & R3 & R4 & R5). clear E1.
  apply bind_inl in E as (x2 & sres_uid & E1 & E). apply lift_inl in E1 as [-> E1].
  apply bind_inl in E as (x2 & suid & E2 & E). apply lift_inl in E2 as [-> E2].
  apply bind_inl in E as (x2 & n & E3 & E). apply get_ns_inl in E3 as [-> ->].
  apply bind_inl in E as (x2 & sr & E4 & E).
  assert (X : x2 = x1).
  { destruct (vget sres_uid (sres_cache (ns x1))); [|now apply ret_inl in E4].
    destruct (mem_str _ _); [now apply ret_inl in E4|].
    apply bind_inl in E4 as (y & c & G & E4). apply deepcopy_inl in G as [-> _].
    apply bind_inl in E4 as (y & cd & G & E4). apply lift_inl in G as [-> _].
    apply bind_inl in E4 as (y & p & G & E4). apply lift_inl in G as [-> _].
    apply bind_inl in E4 as (y & pd & G & E4). apply lift_inl in G as [-> _].
    now apply ret_inl in E4. }
  subst x2.
  apply bind_inl in E as (x2 & did & E5 & E). apply lift_inl in E5 as [-> E5].
  apply ret_inl in E as [-> E]. inversion E; subst sres sdat.
  repeat split; auto.
  unfold egetitem, eopt in E1, E5. destruct (dget "resource" ddk) as [rv|] eqn:Gr; [|discriminate].
  inversion E1; subst rv. destruct sres_uid; try discriminate. inversion E2; subst.
  destruct (dget "datum_id" ddk) as [dv|] eqn:Gi; [|discriminate]. inversion E5; subst dv.
  exists did, suid, i0, i1. split; [reflexivity|]. split; [reflexivity|]. split; [reflexivity|]. exact R5.
Qed.

(* ================================================================== emission bookkeeping *)

Definition is_sdat (p : string * val) : bool := String.eqb (fst p) "stream_datum".
Definition nsd (o : list (string * val)) : nat := length (filter is_sdat o).
Definition sres_or_sdat (p : string * val) : Prop := fst p = "stream_resource" \/ fst p = "stream_datum".

Lemma nsd_app : forall a b, nsd (a ++ b) = nsd a + nsd b.
Proof. intros. unfold nsd. now rewrite filter_app, app_length. Qed.

Lemma rb_kvs_get : forall f s kv kv' k v,
  rb_kvs (readback f s) kv = Some kv' -> dget k kv = Some v -> noref v = true -> dget k kv' = Some v.
Proof.
  induction kv as [|[k0 v0] kv IH]; intros kv' k v R G N; simpl in *; [discriminate|].
  destruct (readback f s v0) as [v0'|] eqn:R0; [|discriminate].
  destruct (rb_kvs (readback f s) kv) as [r|] eqn:Rr; [|discriminate]. inversion R; subst kv'. simpl.
  destruct (String.eqb k k0).
  - inversion G; subst v0. rewrite readback_id in R0 by assumption. now inversion R0.
  - eapply IH; eauto.
Qed.

(* what a subscriber sees of a StreamDatum built by convert_datum *)
Definition sdat_seen (snap did : val) (i0 i1 : Z) : Prop :=
  exists kv, snap = VDict kv /\ dget "uid" kv = Some did /\
             dget "indices" kv = Some (range_doc i0 i1) /\ dget "seq_nums" kv = Some (range_doc (i0 + 1) (i1 + 1)).

Lemma emit_converted_spec : forall sres sdat x x',
  emit_converted (sres, sdat) x = (x', inl tt) ->
  exists l snap,
    out x' = out x ++ l ++ [("stream_datum", snap)] /\
    (l = [] \/ exists s, l = [("stream_resource", s)]) /\
    readback (fuel_of (st x)) (st x) sdat = Some snap /\
    st x' = st x /\ fail_emit x' = fail_emit x /\ exists e, ns x' = with_emitted (ns x) e.
Proof.
  intros sres sdat x x' E. unfold emit_converted in E.
  apply bind_inl in E as (x1 & u & E1 & E).
  assert (A : exists l, out x1 = out x ++ l /\ (l = [] \/ exists s, l = [("stream_resource", s)]) /\
                        st x1 = st x /\ fail_emit x1 = fail_emit x /\ exists e, ns x1 = with_emitted (ns x) e).
  { destruct sres as [sd|].
    - apply bind_inl in E1 as (y & d & G & E1). apply lift_inl in G as [-> _].
      apply bind_inl in E1 as (y & uid & G & E1). apply lift_inl in G as [-> _].
      apply bind_inl in E1 as (y & uid' & G & E1). apply lift_inl in G as [-> _].
      apply bind_inl in E1 as (y & n & G & E1). apply get_ns_inl in G as [-> ->].
      destruct (mem_str uid' (emitted (ns x))).
      + apply ret_inl in E1 as [-> _]. exists []. rewrite app_nil_r. repeat split; auto.
        exists (emitted (ns x)). now rewrite with_emitted_id.
      + apply bind_inl in E1 as (y & u1 & G & E1). apply emit_inl in G as (snap & _ & ->).
        apply bind_inl in E1 as (y & n & G & E1). apply get_ns_inl in G as [-> ->].
        apply put_ns_inl in E1 as ->. exists [("stream_resource", snap)]. repeat split; eauto.
        eexists; reflexivity.
    - apply ret_inl in E1 as [-> _]. exists []. rewrite app_nil_r. repeat split; auto.
      exists (emitted (ns x)). now rewrite with_emitted_id. }
  destruct A as (l & A1 & A2 & A3 & A4 & A5).
  apply emit_inl in E as (snap & R & ->). exists l, snap. cbn [out st ns fail_emit upd_out].
  rewrite A1, <- app_assoc. rewrite A3 in R. repeat split; auto.
Qed.

Lemma pop_datum_spec : forall id x x' od,
  pop_datum id x = (x', inl od) ->
  od = vget id (datum_cache (ns x)) /\ st x' = st x /\ out x' = out x /\ fail_emit x' = fail_emit x /\
  ext_refs (ns x') = ext_refs (ns x).
Proof.
  intros id x x' od E. unfold pop_datum in E.
  apply bind_inl in E as (y & k & G & E). apply lift_inl in G as [-> G].
  unfold hashable in G. destruct (is_atom id); [|discriminate]. inversion G; subst k.
  apply bind_inl in E as (y & n & G2 & E). apply get_ns_inl in G2 as [-> ->].
  destruct (vget id (datum_cache (ns x))) as [d|] eqn:V.
  - apply bind_inl in E as (y & u & G2 & E). apply put_ns_inl in G2 as ->.
    apply ret_inl in E as [-> ->]. repeat split; auto.
  - apply ret_inl in E as [-> ->]. repeat split; auto.
Qed.

(* one external reference of an Event: exactly one of
   - its Datum is cached: one StreamDatum is emitted (preceded by at most one StreamResource),
     with the datum's id as uid, seq_nums = indices + 1, and indices = [seq_num-1, seq_num) when the
     datum has no frame entry;  the list of cached references is unchanged;
   - otherwise nothing is emitted and exactly this reference is recorded for the stop. *)
Lemma ext_item_spec : forall d du sq k id x x',
  inv (ns x) ->
  ext_item d du sq (k, id) x = (x', inl tt) ->
  (exists ddk did i0 i1 l snap,
      vget id (datum_cache (ns x)) = Some (VDict ddk) /\ dget "datum_id" ddk = Some did /\
      out x' = out x ++ l ++ [("stream_datum", snap)] /\
      (l = [] \/ exists s, l = [("stream_resource", s)]) /\
      sdat_seen snap did i0 i1 /\
      (no_frame ddk -> exists q, sq = VInt q /\ i0 = (q - 1)%Z /\ i1 = q) /\
      ext_refs (ns x') = ext_refs (ns x))
  \/ (out x' = out x /\ ext_refs (ns x') = ext_refs (ns x) ++ [(id, k, du, sq)]).
Proof.
  intros d du sq k id x x' I E. unfold ext_item in E.
  apply bind_inl in E as (x1 & od & E1 & E). apply pop_datum_spec in E1 as (-> & P1 & P2 & P3 & P4).
  apply bind_inl in E as (x2 & u & E2 & E).
  assert (x2 = x1) by (destruct (_ && _); [now apply ret_inl in E2 | exfalso; exact (fail_inl _ _ _ _ _ E2)]).
  subst x2. clear E2.
  destruct (vget id (datum_cache (ns x))) as [dd|] eqn:V.
  - destruct (cache_vget _ _ _ I V) as [N Dd]. destruct dd as [| | | | |ddk| |]; try discriminate.
    destruct (truthy (VDict ddk)).
    + left. apply bind_inl in E as (x2 & [sres sdat] & E3 & E).
      apply convert_datum_spec in E3 as (C1 & C2 & C3 & (t & C4) & did & suid & i0 & i1 & C5 & C6 & C7 & C8); [|assumption].
      apply emit_converted_spec in E as (l & snap & F1 & F2 & F3 & F4 & F5 & (e & F6)).
      exists ddk, did, i0, i1, l, snap. repeat split; auto.
      * rewrite F1, C2, P2. reflexivity.
      * subst sdat. rewrite readback_dict in F3.
        destruct (rb_kvs _ _) as [kv'|] eqn:R; [|discriminate]. inversion F3; subst snap.
        rewrite noref_dict in N. assert (Nd : noref did = true) by exact (allnoref_dget _ _ _ N C5).
        exists kv'. repeat split; try (eapply rb_kvs_get; [exact R | reflexivity | auto]).
      * intros NF. destruct (C8 NF) as (_ & q & Q). eauto.
      * rewrite F6, C4. cbn. exact P4.
    + right. apply bind_inl in E as (x2 & n & G & E). apply get_ns_inl in G as [-> ->].
      apply put_ns_inl in E as ->. cbn. rewrite P4. auto.
  - right. apply bind_inl in E as (x2 & n & G & E). apply get_ns_inl in G as [-> ->].
    apply put_ns_inl in E as ->. cbn. rewrite P4. auto.
Qed.

(* one cached reference at stop: the same StreamDatum as above, from the recorded seq_num -
   it does not matter whether the Datum or the Event arrived first; a missing Datum makes the handler raise *)
Lemma stop_item_spec : forall id k du sq x x',
  inv (ns x) ->
  stop_item (id, k, du, sq) x = (x', inl tt) ->
  exists ddk did i0 i1 l snap,
      vget id (datum_cache (ns x)) = Some (VDict ddk) /\ dget "datum_id" ddk = Some did /\
      out x' = out x ++ l ++ [("stream_datum", snap)] /\
      (l = [] \/ exists s, l = [("stream_resource", s)]) /\
      sdat_seen snap did i0 i1 /\
      (no_frame ddk -> exists q, sq = VInt q /\ i0 = (q - 1)%Z /\ i1 = q) /\
      ext_refs (ns x') = ext_refs (ns x).
Proof.
  intros id k du sq x x' I E. unfold stop_item in E.
  apply bind_inl in E as (x1 & od & E1 & E). apply pop_datum_spec in E1 as (-> & P1 & P2 & P3 & P4).
  destruct (vget id (datum_cache (ns x))) as [dd|] eqn:V; [|exfalso; exact (fail_inl _ _ _ _ _ E)].
  destruct (cache_vget _ _ _ I V) as [N Dd]. destruct dd as [| | | | |ddk| |]; try discriminate.
  destruct (truthy (VDict ddk)); [|exfalso; exact (fail_inl _ _ _ _ _ E)].
  apply bind_inl in E as (x2 & [sres sdat] & E3 & E).
  apply convert_datum_spec in E3 as (C1 & C2 & C3 & (t & C4) & did & suid & i0 & i1 & C5 & C6 & C7 & C8); [|assumption].
  apply emit_converted_spec in E as (l & snap & F1 & F2 & F3 & F4 & F5 & (e & F6)).
  exists ddk, did, i0, i1, l, snap. repeat split; auto.
  - rewrite F1, C2, P2. reflexivity.
  - subst sdat. rewrite readback_dict in F3.
    destruct (rb_kvs _ _) as [kv'|] eqn:R; [|discriminate]. inversion F3; subst snap.
    rewrite noref_dict in N. assert (Nd : noref did = true) by exact (allnoref_dget _ _ _ N C5).
    exists kv'. repeat split; try (eapply rb_kvs_get; [exact R | reflexivity | auto]).
  - intros NF. destruct (C8 NF) as (_ & q & Q). eauto.
  - rewrite F6, C4. cbn. exact P4.
Qed.

Lemma Forall_sres_or_sdat_item : forall l snap,
  (l = [] \/ exists s, l = [("stream_resource", s)]) ->
  Forall sres_or_sdat (l ++ [("stream_datum", snap)]) /\ nsd (l ++ [("stream_datum", snap)]) = 1.
Proof.
  intros l snap [->|[s ->]]; split; try reflexivity; simpl.
  - constructor; [right; reflexivity | constructor].
  - constructor; [left; reflexivity | constructor; [right; reflexivity | constructor]].
Qed.

(* all the external references of one Event *)
Lemma forM_ext_items_spec : forall d du sq ext x x',
  inv (ns x) ->
  forM ext (ext_item d du sq) x = (x', inl tt) ->
  exists rest, out x' = out x ++ rest /\ Forall sres_or_sdat rest /\
               nsd rest + length (ext_refs (ns x')) = length (ext_refs (ns x)) + length ext /\
               inv (ns x').
Proof.
  intros d du sq ext; induction ext as [|[k id] ext IH]; intros x x' I E; simpl in E.
  - apply ret_inl in E as [-> _]. exists []. rewrite app_nil_r. repeat split; auto; simpl; lia.
  - apply bind_inl in E as (x1 & u & E1 & E). destruct u.
    destruct (keeps_ext_item d du sq (k, id) _ _ _ I E1) as (_ & I1 & _).
    destruct (IH _ _ I1 E) as (rest & R1 & R2 & R3 & R4).
    apply ext_item_spec in E1; [|assumption].
    destruct E1 as [(ddk & did & i0 & i1 & l & snap & _ & _ & O & L & _ & _ & X) | [O X]].
    + destruct (Forall_sres_or_sdat_item l snap L) as [F1 F2].
      exists ((l ++ [("stream_datum", snap)]) ++ rest). repeat split; auto.
      * rewrite R1, O. now rewrite <- !app_assoc.
      * apply Forall_app; auto.
      * rewrite nsd_app, F2. rewrite X in R3. simpl. lia.
    + exists rest. repeat split; auto.
      * now rewrite R1, O.
      * rewrite X, app_length in R3. simpl in *. lia.
Qed.

(* all the cached references at stop: each yields exactly one StreamDatum (or the handler raises) *)
Lemma forM_stop_items_spec : forall refs x x',
  inv (ns x) ->
  forM refs stop_item x = (x', inl tt) ->
  exists rest, out x' = out x ++ rest /\ Forall sres_or_sdat rest /\ nsd rest = length refs /\
               ext_refs (ns x') = ext_refs (ns x) /\ inv (ns x').
Proof.
  induction refs as [|[[[id k] du] sq] refs IH]; intros x x' I E; simpl in E.
  - apply ret_inl in E as [-> _]. exists []. rewrite app_nil_r. repeat split; auto.
  - apply bind_inl in E as (x1 & u & E1 & E). destruct u.
    destruct (keeps_stop_item (id, k, du, sq) _ _ _ I E1) as (_ & I1 & _).
    destruct (IH _ _ I1 E) as (rest & R1 & R2 & R3 & R4 & R5).
    apply stop_item_spec in E1; [|assumption].
    destruct E1 as (ddk & did & i0 & i1 & l & snap & _ & _ & O & L & _ & _ & X).
    destruct (Forall_sres_or_sdat_item l snap L) as [F1 F2].
    exists ((l ++ [("stream_datum", snap)]) ++ rest). repeat split; auto.
    + rewrite R1, O. now rewrite <- !app_assoc.
    + apply Forall_app; auto.
    + rewrite nsd_app, F2, R3. reflexivity.
    + congruence.
Qed.

(* (b) the Event handler as a whole: exactly one Event document goes out - the one described by
   [event_split_spec] - followed only by StreamResource / StreamDatum documents; every external
   reference of the Event is accounted for exactly once: either its StreamDatum has been emitted
   or it is now in the list of cached references. *)
Theorem h_event_tree_spec : forall d x x',
  inv (ns x) ->
  h_event_tree (VDict d) x = (x', inl tt) ->
  exists ev ext du sq snap rest,
    event_split (int_keys (ns x)) (ext_keys (ns x)) d = inl (ev, ext, du, sq) /\
    readback (fuel_of (st x)) (st x) (VDict ev) = Some snap /\
    out x' = out x ++ ("event", snap) :: rest /\
    Forall sres_or_sdat rest /\
    nsd rest + length (ext_refs (ns x')) = length (ext_refs (ns x)) + length ext /\
    inv (ns x').
Proof.
  intros d x x' I E. unfold h_event_tree in E.
  apply bind_inl in E as (y & d' & G & E). apply lift_inl in G as [-> G]. inversion G; subst d'.
  apply bind_inl in E as (y & n & G2 & E). apply get_ns_inl in G2 as [-> ->].
  apply bind_inl in E as (y & sp & G3 & E). apply lift_inl in G3 as [-> G3].
  destruct sp as [[[ev ext] du] sq].
  apply bind_inl in E as (y & u & G4 & E). apply emit_inl in G4 as (snap & R & ->).
  apply forM_ext_items_spec in E as (rest & R1 & R2 & R3 & R4); [|exact I].
  exists ev, ext, du, sq, snap, rest. cbn in *. repeat split; auto.
  rewrite R1. now rewrite <- app_assoc.
Qed.

(* (b) the stop handler: when it succeeds, every cached reference (an Event that arrived before its
   Datum) has produced exactly one StreamDatum, then the stop document goes out; if a Datum never
   arrived the handler raises instead of dropping the reference silently. *)
Theorem h_stop_spec : forall doc x x',
  inv (ns x) ->
  h_stop doc x = (x', inl tt) ->
  exists rest snap,
    out x' = out x ++ rest ++ [("stop", snap)] /\ Forall sres_or_sdat rest /\
    nsd rest = length (ext_refs (ns x)).
Proof.
  intros doc x x' I E. unfold h_stop in E.
  apply bind_inl in E as (y & d & G & E).
  assert (y = x).
  { destruct doc; try (now apply ret_inl in G). unfold shallow in G.
    apply bind_inl in G as (z & s & G1 & G). apply get_st_inl in G1 as [-> ->]. now apply of_opt_inl in G. }
  subst y. clear G.
  apply bind_inl in E as (y & n & G2 & E). apply get_ns_inl in G2 as [-> ->].
  apply bind_inl in E as (y & u & G3 & E). destruct u.
  apply forM_stop_items_spec in G3 as (rest & R1 & R2 & R3 & R4 & R5); [|exact I].
  apply emit_inl in E as (snap & _ & ->). exists rest, snap. cbn. rewrite R1, <- app_assoc. auto.
Qed.
