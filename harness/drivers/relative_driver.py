"""Implementation-side driver for C24 (relative_set_wrapper, reset_positions_wrapper, rel_set, mvr, rel_* scans).

Fake movable devices of the three kinds __read_and_stash_a_motor distinguishes:
  kind 0  Locatable      (has set + locate)            initial position = answer to an inserted 'locate'
  kind 1  has .position  (has set, attribute position)  initial position = obj.position, nothing inserted
  kind 2  neither        (has set + read, no hints)     initial position = first field of the answer to an inserted 'read'
Numbers are Python ints (model instance Z) or floats (model instance binary64, compared through float.hex()):
JSON form  ["i", n]  /  ["f", hex].
Message content:  ["set", d, num, g] | ["locate", d] | ["read", d] | ["wait", g] | ["other", c]
Answers a script can send: None, an int k < 50 = an object reporting position POS[k] in every form the code may look
at (location dict / reading dict), 50 = a Status.
"""
from bluesky.utils import Msg
from harness.drivers import gen_dsl as G
from harness.drivers import paired_driver as D


def num_py(n):
    if n[0] == "t":
        return tuple(n[1])
    return n[1] if n[0] == "i" else float.fromhex(n[1])


def num_js(x):
    if isinstance(x, tuple) and all(isinstance(v, int) and not isinstance(v, bool) for v in x):
        return ["t", [int(v) for v in x]]
    if isinstance(x, bool):
        return ["?", repr(x)]
    if isinstance(x, int):
        return ["i", int(x)]
    if isinstance(x, float):           # includes numpy.float64
        return ["f", float(x).hex()]
    try:
        import numpy as np
        if isinstance(x, np.integer):
            return ["i", int(x)]
        if isinstance(x, np.floating):
            return ["f", float(x).hex()]
    except Exception:  # noqa: BLE001
        pass
    return ["?", repr(x)]


class _Base:
    def __init__(self, idx, pos=None):
        self.idx = idx
        self.name = "m%d" % idx
        self.parent = None
        self._pos = pos
        self.calls = []

    def __repr__(self):
        return "Motor(%d)" % self.idx

    def _move(self, v):
        self.calls.append(num_js(v))
        self._pos = v
        return D.FakeStatus(50)

    # every motor is Readable (grid scans insist on it); which of locate / .position / read the relative wrappers
    # use is decided by the kind-specific attributes below
    def read(self):
        return {self.name: {"value": self._pos, "timestamp": 0.0}}

    def describe(self):
        return {self.name: {"source": "fake", "dtype": "number", "shape": []}}


class Holder:
    """An ordinary parent device (stage.x, stage.y are its children): only .name / .parent matter."""

    def __init__(self, idx):
        self.idx = idx
        self.name = "h%d" % idx
        self.parent = None

    def __repr__(self):
        return "Holder(%d)" % self.idx


class Pseudo(Holder):
    """A fake pseudo-positioner: merge_axis recognises it by the attribute RealPosition; its pseudo axes are its
    children; its position is the tuple of their positions."""
    RealPosition = tuple

    def __init__(self, idx):
        super().__init__(idx)
        self.pseudo_positioners = []
        self.real_positioners = []

    @property
    def position(self):
        return tuple(c._pos for c in self.pseudo_positioners)

    def set(self, v):
        for c, x in zip(self.pseudo_positioners, v):
            c._pos = x
        return D.FakeStatus(50)


def add_holders(devs, case):
    """case["holders"] = [{"id": k, "type": "ordinary"|"pseudo", "children": [...]}]; ids follow the motors'."""
    out = list(devs)
    for h in case.get("holders", []):
        obj = Pseudo(h["id"]) if h["type"] == "pseudo" else Holder(h["id"])
        for c in h["children"]:
            devs[c].parent = obj
        if h["type"] == "pseudo":
            obj.pseudo_positioners = [devs[c] for c in h["children"]]
        assert h["id"] == len(out)
        out.append(obj)
    return out


def normalise(case, devs):
    """Independent restatement of _normalize_devices for these fakes: (eligible ids or None, coupled parent ids)."""
    if devs is None:
        return None, []
    hs = [h for h in case.get("holders", []) if h["type"] == "pseudo"]
    coupled = [h["id"] for h in hs if h["id"] in devs or any(c in devs for c in h["children"])]
    elig = set(devs) | set(coupled)
    for h in hs:
        if h["id"] in coupled:
            elig |= set(h["children"])
    return sorted(elig), coupled


class LocMotor(_Base):
    def set(self, v):
        return self._move(v)

    def locate(self):
        return {"setpoint": self._pos, "readback": self._pos}


class PosMotor(_Base):
    def set(self, v):
        return self._move(v)

    @property
    def position(self):
        return self._pos


class ReadMotor(_Base):
    def set(self, v):
        return self._move(v)


class HintedReadMotor(ReadMotor):
    """read-kind motor with ONE hinted field which is not the first key of its reading (see Answer)"""
    hints = {"fields": ["pos_field"]}


KINDS = [LocMotor, PosMotor, ReadMotor]


def kinds_for(case):
    """cases flagged "hinted" use hinted read-kind motors: the position is the hinted field, not the first key"""
    return [LocMotor, PosMotor, HintedReadMotor] if case.get("hinted") else KINDS


class Answer(dict):
    """An answer reporting one position, readable as a Location and as a reading with one field."""

    def __init__(self, pos, k=None, hinted=False):
        super().__init__()
        self.k = k
        if hinted:
            self["decoy"] = {"value": 12345, "timestamp": 0.0}
            self["pos_field"] = {"value": pos, "timestamp": 0.0}
        self["value_field"] = {"value": pos, "timestamp": 0.0}
        self["setpoint"] = pos
        self["readback"] = pos

    # generated plans compare what they are sent with small ints (`x == 1`, `x != 0`): the answer object stands for
    # the script's integer k there
    def __eq__(self, other):
        return self.k == other if isinstance(other, int) else dict.__eq__(self, other)

    def __ne__(self, other):
        return not self.__eq__(other)

    __hash__ = None


class RCtx:
    def __init__(self, case):
        self.case = case
        self.pos = [num_py(p) for p in case["pos"]]
        self.devs = add_holders([kinds_for(case)[k](i, num_py(case["init"][i])) for i, k in enumerate(case["kinds"])], case)
        self.views = [list(v) for v in case["msgs"]]
        self.msgs = [self.msg_of(v) for v in self.views]
        self.msg_id = {id(m): i for i, m in enumerate(self.msgs)}
        self.groups = {}
        self.log = []
        self.alive = []           # every object seen stays alive for the run, so that id() identifies it
        self.ids = {}

    def pid(self, m):
        self.alive.append(m)
        return self.ids.setdefault(id(m), len(self.ids))

    def msg_of(self, v):
        t = v[0]
        if t == "set":
            return Msg("set", self.devs[v[1]], num_py(v[2]), group=v[3])
        if t == "locate":
            return Msg("locate", self.devs[v[1]])
        if t == "read":
            return Msg("read", self.devs[v[1]])
        if t == "wait":
            return Msg("wait", None, group=v[1])
        if t == "other":
            return Msg("null")
        raise ValueError(v)

    def group(self, g):
        if g is None:
            return 0
        if isinstance(g, int):
            return g
        if g in self.groups:
            return self.groups[g]
        if isinstance(g, str) and g.startswith("reset-"):
            k = sum(1 for x in self.groups.values() if x % 1000 == 104)
            self.groups[g] = 104 + 1000 * k
        else:
            k = sum(1 for x in self.groups.values() if x >= 200)
            self.groups[g] = 200 + k
        return self.groups[g]

    def view(self, m):
        if not isinstance(m, Msg):
            return ["bad", "not a Msg: %r" % (m,)]
        c, o, a, k = m.command, m.obj, m.args, dict(m.kwargs)
        dev = o.idx if isinstance(o, (_Base, Holder)) else None
        if c == "set" and dev is not None and len(a) == 1 and set(k) <= {"group"}:
            n = num_js(a[0])
            if n[0] == "?":
                return ["bad", "set to %s" % n[1]]
            return ["set", dev, n, self.group(k.get("group"))]
        if c in ("locate", "read") and dev is not None and not a and not k:
            return [c, dev]
        if c == "wait" and o is None and not a and set(k) <= {"group", "timeout"} and k.get("timeout") is None:
            return ["wait", self.group(k.get("group"))]
        return ["bad", repr(m)]

    def observe(self, m):
        i = self.msg_id.get(id(m))
        if i is not None:
            return ["id", i]
        return ["v", self.view(m)]

    def plan(self, prog, rec=None):
        g = D.compile_prog(prog)(self.msgs, [], self.log, 0)
        G.KEEP.append(g)
        if rec is not None:
            return _spy(g, self, rec)
        return g

    def spy(self, gen, rec):
        return _spy(gen, self, rec)

    def answer(self, k):
        if k is None:
            return None
        if k >= 50:
            return D.FakeStatus(k)
        return Answer(self.pos[k], k, bool(self.case.get("hinted")))


def canon_reply(ans):
    if ans is None:
        return None
    return getattr(ans, "k", "?")


def _spy(gen, ctx, rec):
    """Transparent delegation that records what passes through it: [observation, id() of the object, reply] (for the
    oracle only; the reply is ["send", k] / ["throw", class] / ["close"])."""
    ret = None
    try:
        m = gen.send(None)
        while True:
            ev = [ctx.observe(m), ctx.pid(m), None]
            rec.append(ev)
            try:
                ans = yield m
            except GeneratorExit:
                ev[2] = ["close"]
                gen.close()
                raise
            except BaseException as e:  # noqa: BLE001
                ev[2] = ["throw", D.exc_name(e)]
                m = gen.throw(e)
            else:
                ev[2] = ["send", canon_reply(ans)]
                m = gen.send(ans)
    except StopIteration as e:
        ret = e.value
    return ret


def step(ctx, gen, inp):
    try:
        if inp[0] == "send":
            m = gen.send(ctx.answer(inp[1]))
        elif inp[0] == "throw":
            m = gen.throw(D.TEXC[inp[1]]())
        else:
            gen.close()
            return ["c"], False
    except StopIteration as e:
        return ["r", canon_ret(e.value)], False
    except BaseException as e:  # noqa: BLE001
        return ["e", D.exc_name(e)], False
    ctx.last_id = ctx.pid(m)
    return ["y"] + ctx.observe(m), True


def canon_ret(v):
    if v is None or (isinstance(v, int) and not isinstance(v, bool)):
        return v
    if isinstance(v, D.FakeStatus):
        return v.k
    if isinstance(v, Answer):
        return v.k
    if isinstance(v, tuple):
        return "tuple"
    return "?" + type(v).__name__


def run_script(case, build, script):
    """build(ctx, rec) -> generator; rec = {"plan": [...], "mid": [...]} filled by the spies.
    Returns (consumed script, trace, rec, python ids of the yielded objects)."""
    ctx = RCtx(case)
    rec = {"plan": [], "mid": []}
    gen = build(ctx, rec)
    G.KEEP.append(gen)
    trace, ids = [], []
    for inp in script:
        o, alive = step(ctx, gen, inp)
        trace.append(o)
        ids.append(ctx.last_id if alive else None)
        if not alive:
            break
    return script[:len(trace)], trace, rec, ids


def inject_scripts(case, build, base, deviations, maxlen, pairs=0, rng=None):
    full = [["send", None]] + [base] * (maxlen - 1)
    s0 = run_script(case, build, full)[0]
    out, seen = [s0], {repr(s0)}
    n = len(s0)
    for k in range(n):
        for a in deviations:
            s = full[:k] + [a] + full[k + 1:]
            s1 = run_script(case, build, s)[0]
            if repr(s1) not in seen:
                seen.add(repr(s1))
                out.append(s1)
    for _ in range(pairs):
        s = list(full)
        for _ in range(2):
            s[rng.randrange(max(1, n))] = rng.choice(deviations)
        s1 = run_script(case, build, s)[0]
        if repr(s1) not in seen:
            seen.add(repr(s1))
            out.append(s1)
    return out


# ------------------------------------------------------------------------------ Coq printing

TUPLES = [False]          # cases with tuple-valued positions print every number in the model's type tv


def c_num(n):
    if TUPLES[0]:
        return "(TS %s)" % G.cz(n[1]) if n[0] == "i" else "(TT [%s])" % "; ".join(G.cz(v) for v in n[1])
    if n[0] == "i":
        return G.cz(n[1])
    h = n[1]
    x = float.fromhex(h)
    if x != x:
        return "nan%float"
    if x in (float("inf"), float("-inf")):
        return "(-infinity)%float" if x < 0 else "infinity%float"
    return "(%s)%%float" % h if h.startswith("-") else "%s%%float" % h


def c_view(v):
    t = v[0]
    if t == "set":
        return "(RSet %d %s %d)" % (v[1], c_num(v[2]), v[3])
    if t == "locate":
        return "(RLocate %d)" % v[1]
    if t == "read":
        return "(RRead %d)" % v[1]
    if t == "wait":
        return "(RWait %d)" % v[1]
    if t == "other":
        return "(ROther %d)" % v[1]
    raise ValueError("message content outside the modelled vocabulary: %r" % (v,))


def c_tbl(tbl):
    return "[" + "; ".join(c_view(v) for v in tbl) + "]"


def c_nums(ns):
    return "[" + "; ".join(c_num(n) for n in ns) + "]"
