(* C11 - suspension holds the plan until release, then runs the post-plan and rewinds.

   Model: Engine/RE.v (all plan coalgebras, device oracles).  The whole property as a decidable statement on traces is
   [hold_ok] (Proofs/RE_Hold.v): while an accepted suspension is unreleased no plan other than a suspender's pre/post
   plan is advanced and no plan message is executed or replayed.

   The unchanged code VIOLATES it in two classes (both confirmed on the real RunEngine, witnesses replayed by the check):
     C11-a  a second suspension accepted while an earlier one is unreleased: it cancels the first helper's wait_for,
            the cancelled wait counts as completed, and the plan resumes when the SECOND suspender releases;
     C11-b  a hard pause accepted while a suspension is unreleased, followed by resume(): same cancelled wait_for, the
            helper goes on to _resume_from_suspender although the suspender never released.
   [C11_a_refuted], [C11_b_refuted]: schedules in the class on which the model (agreeing with the recorded real run)
   breaks [hold_ok].

   END TO END ([C11_hold_ok_all_runs], Proofs/RE_C11.v): for EVERY schedule outside C11-a / C11-b, without
   impossible-step markers, and inside three explicit decidable conditions, [hold_ok] holds on the whole trace.
   The conditions are needed: [C11_full] as first stated is false on the model ([C11_full_refuted]: a suspension accepted
   in the final sleep of `_run`, never released; the next RE(...) call advances its plan -- the real __call__ would make
   the plan wait for a tripped *installed* suspender, install_suspender is not in Engine/RE.v):
     call_while_suspended evs = false   no RE(...) call is started while a requested suspension is unreleased;
     stale_future evs = false           a suspension is not requested with a future that was released before
                                        ([C11_stale_future_needed]: otherwise the helper's wait_for passes at once);
     plain_susp_plans tr = true         pre/post plans of suspenders do not issue pause / checkpoint / _start_suspender.
   Still proved separately, for all states/plans/devices, the steps a suspension is made of: the accepted request (frame pushed, suspending,
   task cancelled, caller not woken), the top of the loop (back to running, next message is _start_suspender),
   _start_suspender (interruption records, then stop() on EVERY moved device, then pause(); the cache goes to the
   helper), the exact message sequence of the helper plan, the wait (a task step before the release is impossible:
   OBad 7; the release enables it), and the replay after `rewindable <was>` (C04). *)
From Coq Require Import List.
From BV Require Import Engine.RE Engine.REInst Proofs.RE_Ctl Proofs.RE_Replay Proofs.RE_Susp Proofs.RE_Hold Proofs.RE_Wake Proofs.RE_CtlExamples
  Proofs.RE_C11 Proofs.RE_C11Ex.
Import ListNotations.

(* request accepted + top of the loop: the engine reaches `_start_suspender` without touching the plan *)
Theorem C11_suspension_reaches_wait :
  forall (P : Type) (presume : P -> input -> outcome P) (plan_of : nat -> P) (D : Type) (dev : D -> nat -> devmeth -> D * devres),
    (forall (s : st P D) (l : list msg) (sid : nat) (pre post : bool) (s' : st P D) (o : list obs),
        state P D s = Running -> cache P D s = Some l -> (pc P D s = PcSleep0 \/ exists k, pc P D s = PcCmd k) ->
        step P presume plan_of D dev s (EvReqSuspend sid pre post) = (s', o) ->
        o = [OState Running Suspending; OReq true] /\ state P D s' = Suspending /\ must_cancel P D s' = true /\
        plans P D s' = FSingle (mk (CStartSuspender sid pre post)) false :: plans P D s /\ resps P D s' = RVal VNone :: resps P D s /\
        cache P D s' = Some l /\ blocking P D s' = blocking P D s /\ permit P D s' = permit P D s /\ pc P D s' = pc P D s /\
        rewindable P D s' = rewindable P D s /\ moved P D s' = moved P D s /\ interrupted P D s' = interrupted P D s) /\
    (forall (fuel : nat) (s : st P D) (os : list obs) (l : list msg),
        state P D s = Suspending -> cache P D s = Some l -> permit P D s = true ->
        drive P presume plan_of D dev (S fuel) s CTop os =
        drive P presume plan_of D dev fuel (set_state_raw P D s Running) CBody (os ++ [OState Suspending Running])) /\
    (forall (fuel : nat) (s : st P D) (os : list obs) (rest : list resp) (m : msg) (tlp : list (frame P)),
        stashed P D s = None -> exc_slot P D s = None -> resps P D s = RVal VNone :: rest -> plans P D s = FSingle m false :: tlp ->
        drive P presume plan_of D dev (S fuel) s CAfterSleep os =
        drive P presume plan_of D dev fuel (replace_top P D (set_resps P D s rest) (FSingle m true)) (CProcess m) os).
Proof. exact suspension_reaches_start. Qed.
Print Assumptions C11_suspension_reaches_wait.

(* the helper's wait blocks: a task step before the release is marked impossible; the release enables it *)
Theorem C11_wait_blocks_until_release :
  forall (P : Type) (presume : P -> input -> outcome P) (plan_of : nat -> P) (D : Type) (dev : D -> nat -> devmeth -> D * devres)
         (s : st P D) (fs : list nat) (s' : st P D) (o : list obs),
    pc P D s = PcCmd (KWaitFor fs) -> must_cancel P D s = false -> all_released P D s fs = false ->
    task_step P presume plan_of D dev s = (s', o) -> In (OBad 7) o.
Proof. exact wait_blocks_until_release. Qed.
Print Assumptions C11_wait_blocks_until_release.

Theorem C11_release_then_post_rewind :
  forall (P : Type) (presume : P -> input -> outcome P) (plan_of : nat -> P) (D : Type) (dev : D -> nat -> devmeth -> D * devres),
    (forall (s : st P D) (sid : nat), all_released P D (fst (step P presume plan_of D dev s (EvRelease sid))) [sid] = true) /\
    (forall (s : st P D) (fs : list nat),
        pc P D s = PcCmd (KWaitFor fs) -> must_cancel P D s = false -> all_released P D s fs = true ->
        task_step P presume plan_of D dev s =
        drive P presume plan_of D dev (FUEL P D (set_must_cancel P D s false)) (set_must_cancel P D s false)
              (CContinue true (RVal (VFuts (length fs)))) [OResp (RVal (VFuts (length fs)))]).
Proof. exact release_then_continue. Qed.
Print Assumptions C11_release_then_post_rewind.

(* the helper plan without pre/post plans, whatever it is sent: rewindable(False); wait_for [sid];
   _resume_from_suspender; rewindable(was); then exactly the cached messages *)
Theorem C11_helper_plan_shape :
  forall (P : Type) (presume : P -> input -> outcome P) (h : helper P) (sid : nat) (was : bool) (l : list msg) (vs : list val),
    h = {| hph := H0; hsid := sid; hpre := None; hpost := None; hwas := was; hrw := l |} ->
    length vs = 4 + length l ->
    fst (drain P presume (FHelper h) vs) =
      [mk (CRewindable (Some false)); mk (CWaitFor [sid]); mk CResumeFromSuspender; mk (CRewindable (Some was))] ++ l.
Proof. exact helper_plan_shape. Qed.
Print Assumptions C11_helper_plan_shape.

(* _start_suspender: interruption records, then stop() on every device that was ever set(), then pause() calls *)
Theorem C11_start_suspender_stops_movers :
  forall (P : Type) (plan_of : nat -> P) (D : Type) (dev : D -> nat -> devmeth -> D * devres)
         (s : st P D) (sid : nat) (pre post : bool) (s' : st P D) (cr : cres) (o : list obs),
    exec_start_suspender P plan_of D dev s sid pre post = (s', cr, o) ->
    exists oi o3,
      (o = oi \/ o = oi ++ map (fun d => ODev d MStop) (moved P D s) ++ o3) /\
      Forall (fun x => match x with ODoc (DIntr _ _) => True | _ => False end) oi /\
      Forall (fun x => match x with ODev _ MPause => True | _ => False end) o3 /\
      (cr = Done (RVal VNone) -> o = oi ++ map (fun d => ODev d MStop) (moved P D s) ++ o3).
Proof. exact start_suspender_stops_movers. Qed.
Print Assumptions C11_start_suspender_stops_movers.

(* "all without returning control to the caller": whatever a step of the `_run` task does (serving a suspension
   included), the blocking event that wakes RE()/resume() is left alone unless the engine becomes paused or the task
   ends in that step; a request (pause, abort, stop, halt, release, status) never touches it -- for the suspension
   request see C11_suspension_reaches_wait *)
Theorem C11_caller_not_woken :
  forall (P : Type) (presume : P -> input -> outcome P) (plan_of : nat -> P) (D : Type) (dev : D -> nat -> devmeth -> D * devres)
         (s s' : st P D) (o : list obs),
    task_step P presume plan_of D dev s = (s', o) ->
    blocking P D s' = blocking P D s \/
    exists x, In x o /\ match x with OState _ Paused | OTask WReturn | OTask (WRaise _) => True | _ => False end.
Proof. exact task_step_wakes. Qed.
Print Assumptions C11_caller_not_woken.

(* the whole property, outside the two finding classes, on schedules the real engine can produce (no OBad): FALSE as
   stated ([C11_full_refuted] below); true with the three conditions of [C11_hold_ok_all_runs] *)
Definition C11_full : Prop :=
  forall (P : Type) (presume : P -> input -> outcome P) (plan_of : nat -> P) (D : Type) (dev : D -> nat -> devmeth -> D * devres)
         (d : D) (paus stag : list nat) (rec : bool) (evs : list event),
    finding_C11_a evs = false -> finding_C11_b evs = false ->
    no_bad (snd (run P presume plan_of D dev (init P D d paus stag rec) evs)) = true ->
    hold_ok (trace P presume plan_of D dev (init P D d paus stag rec) evs) = true.

Example C11_nonvacuous :
  hold_ok (itrace ex_susp_tapes ex_susp_ledger ex_susp_paus ex_susp_stag ex_susp_rec ex_susp_evs) = true /\
  finding_C11_a ex_susp_evs = false /\ finding_C11_b ex_susp_evs = false /\
  no_bad (snd (irun ex_susp_tapes ex_susp_ledger ex_susp_paus ex_susp_stag ex_susp_rec ex_susp_evs)) = true /\
  In (EvReqSuspend 0 false false) ex_susp_evs /\
  In (ODev 1 MStop) (snd (irun ex_susp_tapes ex_susp_ledger ex_susp_paus ex_susp_stag ex_susp_rec ex_susp_evs)) /\
  In (OMsg (mk (CWaitFor [0]))) (snd (irun ex_susp_tapes ex_susp_ledger ex_susp_paus ex_susp_stag ex_susp_rec ex_susp_evs)).
Proof. exact c11_suspension_holds. Qed.

(* finding C11-a: overlapping suspensions; sid 0 is never released, yet the plan is advanced *)
Example C11_a_refuted :
  exists tapes ledger paus stag rec evs,
    finding_C11_a evs = true /\ no_bad (snd (irun tapes ledger paus stag rec evs)) = true /\
    ~ hold_ok (itrace tapes ledger paus stag rec evs) = true.
Proof. exact c11_a_refuted. Qed.

(* finding C11-b: pause + resume while suspended; sid 0 is never released, yet the plan is advanced *)
Example C11_b_refuted :
  exists tapes ledger paus stag rec evs,
    finding_C11_b evs = true /\ finding_C11_a evs = false /\ no_bad (snd (irun tapes ledger paus stag rec evs)) = true /\
    ~ hold_ok (itrace tapes ledger paus stag rec evs) = true.
Proof. exact c11_b_refuted. Qed.

(* ------------------------------------------------------------------ end to end (Proofs/RE_C11.v) *)
Theorem C11_hold_ok_all_runs :
  forall (P : Type) (presume : P -> input -> outcome P) (plan_of : nat -> P) (D : Type) (dev : D -> nat -> devmeth -> D * devres)
         (d : D) (paus stag : list nat) (rec : bool) (evs : list event),
    finding_C11_a evs = false -> finding_C11_b evs = false ->
    call_while_suspended evs = false -> stale_future evs = false ->
    no_bad (snd (run P presume plan_of D dev (init P D d paus stag rec) evs)) = true ->
    plain_susp_plans (trace P presume plan_of D dev (init P D d paus stag rec) evs) = true ->
    hold_ok (trace P presume plan_of D dev (init P D d paus stag rec) evs) = true.
Proof. exact hold_ok_all_runs. Qed.
Print Assumptions C11_hold_ok_all_runs.

(* the statement without the three conditions is false on the model *)
Theorem C11_full_refuted : ~ C11_full.
Proof. exact c11_full_refuted. Qed.
Print Assumptions C11_full_refuted.

(* the hypotheses are met by recorded real runs: a suspension with pre-plan, post-plan and interruption records *)
Example C11_hold_ok_nonvacuous :
  check ex_susp_pp_tapes ex_susp_pp_ledger ex_susp_pp_paus ex_susp_pp_stag ex_susp_pp_rec ex_susp_pp_evs ex_susp_pp_obs = true /\
  finding_C11_a ex_susp_pp_evs = false /\ finding_C11_b ex_susp_pp_evs = false /\
  call_while_suspended ex_susp_pp_evs = false /\ stale_future ex_susp_pp_evs = false /\
  no_bad (snd (irun ex_susp_pp_tapes ex_susp_pp_ledger ex_susp_pp_paus ex_susp_pp_stag ex_susp_pp_rec ex_susp_pp_evs)) = true /\
  plain_susp_plans (itrace ex_susp_pp_tapes ex_susp_pp_ledger ex_susp_pp_paus ex_susp_pp_stag ex_susp_pp_rec ex_susp_pp_evs) = true /\
  hold_ok (itrace ex_susp_pp_tapes ex_susp_pp_ledger ex_susp_pp_paus ex_susp_pp_stag ex_susp_pp_rec ex_susp_pp_evs) = true /\
  existsb (fun e => match e with EvReqSuspend 0 true true => true | _ => false end) ex_susp_pp_evs = true /\
  has_obs (OPlanIn 1000 (Send VNone)) (snd (irun ex_susp_pp_tapes ex_susp_pp_ledger ex_susp_pp_paus ex_susp_pp_stag ex_susp_pp_rec ex_susp_pp_evs)) = true /\
  has_obs (OPlanIn 1001 (Send VNone)) (snd (irun ex_susp_pp_tapes ex_susp_pp_ledger ex_susp_pp_paus ex_susp_pp_stag ex_susp_pp_rec ex_susp_pp_evs)) = true.
Proof. vm_compute. repeat split. Qed.

(* ... and the plain suspension of [C11_nonvacuous] *)
Example C11_hold_ok_nonvacuous_plain :
  call_while_suspended ex_susp_evs = false /\ stale_future ex_susp_evs = false /\
  plain_susp_plans (itrace ex_susp_tapes ex_susp_ledger ex_susp_paus ex_susp_stag ex_susp_rec ex_susp_evs) = true.
Proof. vm_compute. repeat split. Qed.

(* the freshness of the future is needed too: all other hypotheses hold, [hold_ok] fails *)
Example C11_stale_future_needed :
  exists tapes evs,
    finding_C11_a evs = false /\ finding_C11_b evs = false /\ call_while_suspended evs = false /\ stale_future evs = true /\
    no_bad (snd (irun tapes [] [] [] false evs)) = true /\ plain_susp_plans (itrace tapes [] [] [] false evs) = true /\
    hold_ok (itrace tapes [] [] [] false evs) = false.
Proof. exists w_tapes2, w_stale_evs. vm_compute. repeat split. Qed.

(* ... and so is the restriction on pre/post plans: a pre-plan that re-enables rewinding, issues a message and pauses *)
Example C11_plain_plans_needed :
  exists tapes evs,
    finding_C11_a evs = false /\ finding_C11_b evs = false /\ call_while_suspended evs = false /\ stale_future evs = false /\
    no_bad (snd (irun tapes [] [] [] false evs)) = true /\ plain_susp_plans (itrace tapes [] [] [] false evs) = false /\
    hold_ok (itrace tapes [] [] [] false evs) = false.
Proof. exists w_tapes3, w_plain_evs. vm_compute. repeat split. Qed.
