"""C27 - spiral patterns stay in bounds and square spirals cover the grid."""
import itertools
import math
from fractions import Fraction

ID = "C27"
PROP_FILE = "Props/C27.v"
THEOREMS = ["C27_spiral_in_bounds", "C27_spiral_fermat_in_bounds", "C27_square_permutation", "C27_square_coordinates"]
COQ_IMPORTS = "From Coq Require Import PrimFloat.\nFrom BV Require Import Base.OrdField Pure.Spiral."
MODELLED = (
    "bluesky.plan_patterns.spiral / spiral_fermat (the latter WITH fixes/C27-a.diff) / spiral_square_pattern are modelled "
    "in coq/theories/Pure/Spiral.v over a record of field operations; theorems are over Q (exact), the binary64 instance "
    "of the same text is only tested bit-exactly: rounding, absorption and overflow are not covered by the theorems. "
    "np.cos/np.sin/np.tan, x**2 (libm pow) and the constants pi, 137.508 are not modelled: arbitrary functions/values in "
    "the theorems, tables recorded from the implementation run (cos/sin/tan/sqrt by intercepting plan_patterns.np; "
    "x**2 recomputed by the harness on the same operands) in the tie; np.sqrt is PrimFloat.sqrt and every recorded "
    "np.sqrt call is re-checked against it. spiral_square_pattern's half-integer comparisons abs(k-offset) < num/2 are "
    "modelled on doubled integers. cycler (+) is trusted to zip the two point lists. Inputs are finite Python floats of "
    "moderate magnitude (no inf/nan/overflow); x_num, y_num are Python ints.")
RULE = (
    "square: exhaustive x_num,y_num in 2..12 (121 grids) x 2 random float parameter sets (quick) / 2..16 x 4 (thorough), "
    "plus random grids up to 40, plus malformed (num in {1,0,-1}); spiral/spiral_fermat: random finite float parameters "
    "(ranges, dr, nth/factor incl. non-integers, dr_y absent or ratio 0.25..4, tilt incl. 0 and -pi/2, negative ranges/dr) "
    "bounded to about 300 loop iterations, plus error stream (dr=0, nth=0, factor=0, dr_y=0); every case compares the whole "
    "angle sequence and point list bit-exactly; non-trivial = at least 4 points emitted and (spiral) at least one candidate rejected")


# ------------------------------------------------------------------ helpers
def fx(x):
    return float(x).hex()


def unfx(h):
    return float.fromhex(h)


def cfl(h):
    """Coq literal of a float given as float.hex() string (or 'nan'/'inf'/'-inf')."""
    if h == "nan":
        return "nan"
    if h == "inf":
        return "infinity"
    if h == "-inf":
        return "neg_infinity"
    return "(%s)%%float" % h


def cpairs(ps):
    return "[" + "; ".join("(%s, %s)" % (cfl(a), cfl(b)) for a, b in ps) + "]"


def clist(xs):
    return "[" + "; ".join(cfl(a) for a in xs) + "]"


def copt(h):
    return "None" if h is None else "(Some %s)" % cfl(h)


ERR = {"ZeroDivisionError": "ZeroDiv", "OverflowError": "OverflowErr", "ValueError": "ValueErr", "StopIteration": "StopIter"}


# ------------------------------------------------------------------ cases
def _rf(rng, lo, hi):
    return rng.uniform(lo, hi)


def _spiral_case(rng, kind):
    while True:
        xr = _rf(rng, 0.2, 4.0)
        yr = _rf(rng, 0.2, 4.0)
        dr = _rf(rng, 0.15, 1.2)
        c = {"kind": kind, "x0": fx(_rf(rng, -5, 5)), "y0": fx(_rf(rng, -5, 5))}
        r = rng.random()
        if r < 0.45:
            dr_y = None
        else:
            dr_y = dr * rng.choice([0.25, 0.5, 0.6, 0.8, 1.0, 1.25, 2.0, 4.0, rng.uniform(0.3, 3.0)])
        t = rng.random()
        tilt = 0.0 if t < 0.4 else (rng.uniform(-1.2, 1.2) if t < 0.95 else -math.pi / 2)
        if rng.random() < 0.08:
            xr = -xr
        if rng.random() < 0.08:
            yr = -yr
        if rng.random() < 0.06:
            dr = -dr
        if dr_y is not None and rng.random() < 0.08:
            dr_y = -dr_y
        if kind == "spiral":
            nth = rng.choice([1.0, 2.0, 3.0, 4.0, 5.0, 6.0, rng.uniform(0.6, 7.0)])
            if rng.random() < 0.04:
                nth = -nth
            p = nth
        else:
            p = rng.choice([1.0, 2.0, 3.0, rng.uniform(0.5, 3.0)])
            if rng.random() < 0.04:
                p = -p
        c.update({"xr": fx(xr), "yr": fx(yr), "dr": fx(dr), "p": fx(p),
                  "dr_y": None if dr_y is None else fx(dr_y), "tilt": fx(tilt)})
        # bound the work: estimate the number of loop iterations
        a = 1.0 if dr_y is None else dr_y / dr
        hy = yr / (2 * a)
        diag = math.hypot(xr / 2, hy)
        if kind == "spiral":
            nr = 3 + abs(diag / dr)
            est = abs(p) * nr * nr / 2
        else:
            est = (1.5 * diag / (dr / p)) ** 2
        if est <= (300 if kind == "spiral" else 260):
            return c


def cases(rng, tier):
    out = []
    # ---- square grids: exhaustive small scope
    hi, nsets = (12, 2) if tier == "quick" else (16, 4)
    for xn in range(2, hi + 1):
        for yn in range(2, hi + 1):
            for s in range(nsets):
                if s == 0:   # unit grid: coordinates are the integer indices (minus the offset)
                    xc, yc, xr, yr = 0.0, 0.0, float(xn - 1), float(yn - 1)
                else:
                    xc, yc = _rf(rng, -10, 10), _rf(rng, -10, 10)
                    xr, yr = _rf(rng, 0.1, 20), _rf(rng, 0.1, 20)
                    if rng.random() < 0.1:
                        xr = -xr
                out.append({"kind": "square", "xc": fx(xc), "yc": fx(yc), "xr": fx(xr), "yr": fx(yr), "xn": xn, "yn": yn})
    for _ in range(30 if tier == "quick" else 400):
        xn, yn = rng.randint(2, 40), rng.randint(2, 40)
        out.append({"kind": "square", "xc": fx(_rf(rng, -10, 10)), "yc": fx(_rf(rng, -10, 10)),
                    "xr": fx(_rf(rng, 0.1, 20)), "yr": fx(_rf(rng, 0.1, 20)), "xn": xn, "yn": yn})
    for xn, yn in [(1, 3), (3, 1), (1, 1), (0, 3), (3, 0), (-1, 4), (2, -2), (0, 0)]:   # malformed / degenerate
        out.append({"kind": "square", "xc": fx(0.5), "yc": fx(-1.0), "xr": fx(2.0), "yr": fx(3.0), "xn": xn, "yn": yn})
    # ---- spirals
    n = 70 if tier == "quick" else 1500
    for _ in range(n):
        out.append(_spiral_case(rng, "spiral"))
        out.append(_spiral_case(rng, "fermat"))
    # documented-style parameter sets (those of the test-suite) and C27-a style ones
    for kind, p in (("spiral", 4.0), ("fermat", 1.0)):
        out.append({"kind": kind, "x0": fx(0.0), "y0": fx(0.0), "xr": fx(1.0), "yr": fx(1.0), "dr": fx(0.1), "p": fx(p),
                    "dr_y": None, "tilt": fx(0.0)})
        out.append({"kind": kind, "x0": fx(0.5), "y0": fx(0.5), "xr": fx(1.0), "yr": fx(1.0), "dr": fx(0.1), "p": fx(p),
                    "dr_y": fx(0.06), "tilt": fx(0.3)})
    # error stream
    base = {"x0": fx(0.0), "y0": fx(1.0), "xr": fx(2.0), "yr": fx(2.0), "dr": fx(0.5), "p": fx(3.0), "dr_y": None, "tilt": fx(0.0)}
    for kind in ("spiral", "fermat"):
        for ch in ({"dr": fx(0.0)}, {"dr": fx(0.0), "dr_y": fx(0.5)}, {"p": fx(0.0)}, {"dr_y": fx(0.0)},
                   {"dr": fx(0.0), "xr": fx(0.0), "yr": fx(0.0)}, {"dr": fx(-0.0), "dr_y": fx(1.0)},
                   {"xr": fx(0.0), "yr": fx(0.0)}, {"tilt": fx(-math.pi / 2)}, {"p": fx(-2.0)}, {"dr": fx(-0.5)},
                   {"dr": fx(-0.5), "dr_y": fx(-0.25), "yr": fx(-2.0)}):
            c = dict(base)
            c.update(ch)
            c["kind"] = kind
            out.append(c)
    return out


# ------------------------------------------------------------------ implementation side
class _NPProxy:
    """stands in for the `np` global of bluesky.plan_patterns: records cos/sin/tan/sqrt calls"""

    def __init__(self, np, log):
        self._np = np
        self._log = log

    def __getattr__(self, name):
        v = getattr(self._np, name)
        if name in ("cos", "sin", "tan", "sqrt"):
            log = self._log[name]

            def rec(x, _f=v):
                r = _f(x)
                log.append((float(x).hex(), float(r).hex()))
                return r
            return rec
        return v


def _hex(v):
    v = float(v)
    if v != v:
        return "nan"
    if v in (float("inf"), float("-inf")):
        return "inf" if v > 0 else "-inf"
    return v.hex()


def impl(case):
    import warnings
    import numpy as np
    import bluesky.plan_patterns as pp
    if case["kind"] == "square":
        try:
            cyc = pp.spiral_square_pattern("x", "y", unfx(case["xc"]), unfx(case["yc"]), unfx(case["xr"]), unfx(case["yr"]),
                                           case["xn"], case["yn"])
        except (ZeroDivisionError, OverflowError, ValueError) as e:
            return {"error": type(e).__name__}
        return {"pts": [[_hex(d["x"]), _hex(d["y"])] for d in cyc]}
    log = {"cos": [], "sin": [], "tan": [], "sqrt": []}
    x0, y0, xr, yr, dr, p = (unfx(case[k]) for k in ("x0", "y0", "xr", "yr", "dr", "p"))
    dr_y = None if case["dr_y"] is None else unfx(case["dr_y"])
    tilt = unfx(case["tilt"])
    fn = pp.spiral if case["kind"] == "spiral" else pp.spiral_fermat
    saved = pp.np
    pp.np = _NPProxy(np, log)
    obs = {}
    try:
        with warnings.catch_warnings():
            warnings.simplefilter("ignore")
            cyc = fn("x", "y", x0, y0, xr, yr, dr, p, dr_y=dr_y, tilt=tilt)
        obs["pts"] = [[_hex(d["x"]), _hex(d["y"])] for d in cyc]
    except (ZeroDivisionError, OverflowError, ValueError, StopIteration) as e:
        obs["error"] = type(e).__name__
    finally:
        pp.np = saved
    obs.update({k: [list(t) for t in v] for k, v in log.items()})
    # x**2 is libm pow, which cannot be intercepted: recompute it on the same operands
    sq = []
    try:
        with warnings.catch_warnings():
            warnings.simplefilter("ignore")
            a = 1 if dr_y is None else dr_y / dr
            half_x = xr / 2
            half_y = yr / (2 * a)
            sq.append((_hex(half_x), _hex(half_x ** 2)))
            sq.append((_hex(half_y), _hex(half_y ** 2)))
            if case["kind"] == "fermat":
                diag = np.sqrt(half_x ** 2 + half_y ** 2)
                v = 1.5 * diag / (dr / p)
                sq.append((_hex(v), _hex(v ** 2)))
    except (ZeroDivisionError, OverflowError, ValueError):
        pass
    obs["sq"] = [list(t) for t in sq]
    return obs


# ------------------------------------------------------------------ model side
def coq_term(case, obs):
    if case["kind"] == "square":
        exp = ERR[obs["error"]] if "error" in obs else "Ok " + cpairs(obs["pts"])
        return "check_square %s %s %s %s (%d) (%d) (%s)" % (
            cfl(case["xc"]), cfl(case["yc"]), cfl(case["xr"]), cfl(case["yr"]), case["xn"], case["yn"], exp)
    if "error" in obs:
        exp = ERR[obs["error"]]
    else:
        if [a for a, _ in obs["cos"]] != [a for a, _ in obs["sin"]]:
            return "false"      # the code no longer feeds the same angles to cos and sin: outside the model
        exp = "Ok (%s, %s)" % (clist([a for a, _ in obs["cos"]]), cpairs(obs["pts"]))
    fn = "check_spiral" if case["kind"] == "spiral" else "check_fermat"
    return "%s %s %s %s %s %s %s %s %s %s %s %s %s %s (%s)" % (
        fn, cfl(case["x0"]), cfl(case["y0"]), cfl(case["xr"]), cfl(case["yr"]), cfl(case["dr"]), cfl(case["p"]),
        copt(case["dr_y"]), cfl(case["tilt"]), cpairs(obs["cos"]), cpairs(obs["sin"]), cpairs(obs["tan"]),
        cpairs(obs["sq"]), cpairs(obs["sqrt"]), exp)


# ------------------------------------------------------------------ the property, on the observation
def _fr(h):
    return Fraction(unfx(h))


def oracle(case, obs):
    if case["kind"] == "square":
        xn, yn = case["xn"], case["yn"]
        if xn < 2 or yn < 2:
            return None                      # outside the property's domain (no x_num by y_num grid)
        if "error" in obs:
            return "valid grid rejected: " + obs["error"]
        pts = obs["pts"]
        if len(pts) != xn * yn:
            return "%d points for a %d x %d grid" % (len(pts), xn, yn)
        xc, yc, xr, yr = (_fr(case[k]) for k in ("xc", "yc", "xr", "yr"))
        seen = set()
        for hx, hy in pts:
            idx = []
            for v, c, r, n in ((_fr(hx), xc, xr, xn), (_fr(hy), yc, yr, yn)):
                lo = c - r / 2
                step = r / (n - 1)
                j = round((v - lo) / step)
                tol = Fraction(1, 10 ** 9) * (abs(c) + abs(r) + 1)
                if not (0 <= j < n) or abs(lo + j * step - v) > tol:
                    return "point (%s, %s) is not on the linspace grid" % (unfx(hx), unfx(hy))
                idx.append(j)
            if tuple(idx) in seen:
                return "grid point %s produced twice" % (tuple(idx),)
            seen.add(tuple(idx))
        if len(seen) != xn * yn:
            return "grid not covered"
        return None
    if "error" in obs:
        return None                          # degenerate parameters rejected with an exception: nothing emitted
    x0, y0, xr, yr, dr = (_fr(case[k]) for k in ("x0", "y0", "xr", "yr", "dr"))
    a = Fraction(1) if case["dr_y"] is None else _fr(case["dr_y"]) / dr
    tt = unfx(obs["tan"][0][1]) if obs["tan"] else None
    scale = abs(x0) + abs(y0) + abs(xr) + abs(yr) + 1
    tol = Fraction(1, 10 ** 9) * scale
    for hx, hy in obs["pts"]:
        x, y = _fr(hx) - x0, _fr(hy) - y0
        if abs(y) > abs(yr) / 2 + tol:
            return "point (%s, %s): |y - y_start| = %s exceeds y_range/2 = %s" % (
                unfx(hx), unfx(hy), float(abs(y)), float(abs(yr) / 2))
        if a > 0 and abs(y) > yr / 2 + tol:
            return "point (%s, %s): |y - y_start| = %s exceeds y_range/2 = %s" % (unfx(hx), unfx(hy), float(abs(y)), float(yr / 2))
        shear = (y / a) / Fraction(tt) if (tt not in (None, 0.0) and tt == tt and abs(tt) != float("inf")) else 0
        if abs(x - shear) > xr / 2 + tol * (1 + abs(shear)):
            return "point (%s, %s): |x - shear| = %s exceeds x_range/2 = %s" % (
                unfx(hx), unfx(hy), float(abs(x - shear)), float(xr / 2))
    return None


def finding(case, obs):
    return None      # C27-a is repaired by fixes/C27-a.diff; no recorded finding class


def nontrivial(case, obs):
    if "pts" not in obs or len(obs["pts"]) < 4:
        return False
    if case["kind"] == "square":
        return True
    return len(obs["cos"]) > len(obs["pts"])


def describe(case):
    if case["kind"] == "square":
        xn, yn = case["xn"], case["yn"]
        if xn < 2 or yn < 2:
            return "square malformed"
        return "square %s par=%d%d" % ("<=12" if max(xn, yn) <= 12 else ">12", xn % 2, yn % 2)
    return "%s dr_y=%s tilt=%s" % (case["kind"], "none" if case["dr_y"] is None else
                                   ("<dr" if abs(unfx(case["dr_y"])) < abs(unfx(case["dr"])) else ">=dr"),
                                   "0" if unfx(case["tilt"]) == 0 else "nz")
