"""A recording TracerProvider/Tracer/Span written against the OpenTelemetry *API* (the SDK is not
installed).  `install()` registers it with `trace.set_tracer_provider` (possible once per process);
bluesky.tracing.tracer is a module-level ProxyTracer that resolves to the installed provider lazily
(at the first span started after the installation), so the order of imports does not matter.

Every span gets a serial number; the log holds, in order,
    ("start", serial, name), ("attr", serial, key, value), ("end", serial)
`LOG.reset()` starts a new recording (serials restart at 0)."""
import threading

from opentelemetry import trace
from opentelemetry.trace import INVALID_SPAN_CONTEXT, Span, Tracer, TracerProvider
from opentelemetry.util._decorator import _agnosticcontextmanager


class _Log:
    def __init__(self):
        self.lock = threading.Lock()
        self.reset()

    def reset(self):
        with self.lock:
            self.events = []
            self.n = 0

    def new_serial(self):
        with self.lock:
            s = self.n
            self.n += 1
            return s

    def add(self, ev):
        with self.lock:
            self.events.append(ev)


LOG = _Log()


class RecSpan(Span):
    def __init__(self, name):
        self.name = name
        self.serial = LOG.new_serial()
        self.ends = 0
        LOG.add(("start", self.serial, name))

    def end(self, end_time=None):
        self.ends += 1
        LOG.add(("end", self.serial))

    def get_span_context(self):
        return INVALID_SPAN_CONTEXT

    def set_attributes(self, attributes):
        for k, v in attributes.items():
            self.set_attribute(k, v)

    def set_attribute(self, key, value):
        LOG.add(("attr", self.serial, key, value))

    def add_event(self, name, attributes=None, timestamp=None):
        pass

    def add_link(self, context, attributes=None):
        pass

    def update_name(self, name):
        self.name = name

    def is_recording(self):
        return self.ends == 0

    def set_status(self, status, description=None):
        pass

    def record_exception(self, exception, attributes=None, timestamp=None, escaped=False):
        pass


class RecTracer(Tracer):
    def start_span(self, name, context=None, kind=None, attributes=None, links=None, start_time=None,
                   record_exception=True, set_status_on_exception=True):
        sp = RecSpan(name)
        if attributes:
            sp.set_attributes(attributes)
        return sp

    @_agnosticcontextmanager
    def start_as_current_span(self, name, context=None, kind=None, attributes=None, links=None, start_time=None,
                              record_exception=True, set_status_on_exception=True, end_on_exit=True):
        sp = self.start_span(name, attributes=attributes)
        with trace.use_span(sp, end_on_exit=end_on_exit, record_exception=record_exception,
                            set_status_on_exception=set_status_on_exception) as s:
            yield s


class RecProvider(TracerProvider):
    def get_tracer(self, instrumenting_module_name, instrumenting_library_version=None, schema_url=None,
                   attributes=None):
        return RecTracer()


_installed = []


def install():
    """Idempotent.  Returns True when our provider is the global one."""
    if not _installed:
        trace.set_tracer_provider(RecProvider())
        _installed.append(isinstance(trace.get_tracer_provider(), RecProvider))
    return _installed[0]
