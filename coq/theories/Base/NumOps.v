(* Generic arithmetic: numeric plan code (adaptive_scan, tune_centroid) is written ONCE over a
   record of operations.  The [Q] instance is what the theorems are proved about (exact ordered
   field); the [PrimFloat] instance of the same Gallina text is what the correspondence runs
   bit-exactly against CPython / numpy binary64.  Self-contained; no proofs in this file. *)
From Coq Require Import ZArith QArith Qabs Qround List Bool.
From Coq Require Import PrimFloat Uint63 FloatOps SpecFloat.

Record Ops (F : Type) : Type := mkOps {
  o_zero : F;
  o_one : F;
  o_add : F -> F -> F;
  o_sub : F -> F -> F;
  o_mul : F -> F -> F;
  o_div : F -> F -> F;
  o_abs : F -> F;
  o_ltb : F -> F -> bool;      (* Python  a < b  *)
  o_leb : F -> F -> bool;      (* Python  a <= b *)
  o_eqb : F -> F -> bool;      (* Python  a == b *)
  o_of_Z : Z -> F              (* int -> float conversion of small literals *)
}.
Arguments o_zero {F}. Arguments o_one {F}. Arguments o_add {F}. Arguments o_sub {F}.
Arguments o_mul {F}. Arguments o_div {F}. Arguments o_abs {F}. Arguments o_ltb {F}.
Arguments o_leb {F}. Arguments o_eqb {F}. Arguments o_of_Z {F}.

Section Derived.
  Context {F : Type} (O : Ops F).

  (* numpy.clip(x, lo, hi) on scalars = minimum(maximum(x, lo), hi): x itself when it compares
     inside (so a NaN x stays NaN, signed zeros at a bound are kept) *)
  Definition clip (x lo hi : F) : F :=
    if o_ltb O x lo then lo else if o_ltb O hi x then hi else x.

  (* numpy.min([a, b]) for non-NaN a *)
  Definition npmin2 (a b : F) : F := if o_ltb O a b then a else b.

  (* the Python builtins min(a, b) / max(a, b): the first argument wins ties *)
  Definition pymin (a b : F) : F := if o_ltb O b a then b else a.
  Definition pymax (a b : F) : F := if o_ltb O a b then b else a.

  (* decimal literals k/10: in binary64 the correctly rounded quotient of the two exactly
     representable integers IS the literal (0.2 = 2/10, 0.8 = 8/10, 1.1 = 11/10) *)
  Definition tenths (k : Z) : F := o_div O (o_of_Z O k) (o_of_Z O 10).
End Derived.

(* ---------------------------------------------------------------- exact rationals *)
Definition Qltb (a b : Q) : bool := negb (Qle_bool b a).

Definition Qops : Ops Q :=
  mkOps Q 0%Q 1%Q Qplus Qminus Qmult Qdiv Qabs Qltb Qle_bool Qeq_bool inject_Z.

(* ---------------------------------------------------------------- IEEE binary64 *)
Definition float_of_Z (z : Z) : float :=
  match z with
  | Z0 => PrimFloat.zero
  | Zpos _ => PrimFloat.of_uint63 (Uint63.of_Z z)
  | Zneg p => PrimFloat.opp (PrimFloat.of_uint63 (Uint63.of_Z (Zpos p)))
  end.

Definition Fops : Ops float :=
  mkOps float PrimFloat.zero PrimFloat.one PrimFloat.add PrimFloat.sub PrimFloat.mul PrimFloat.div
        PrimFloat.abs PrimFloat.ltb PrimFloat.leb PrimFloat.eqb float_of_Z.

(* bit-exact comparison of floats (all NaNs identified, as float.hex() prints them) *)
Definition sf_beq (a b : spec_float) : bool :=
  match a, b with
  | S754_zero s, S754_zero s' => Bool.eqb s s'
  | S754_infinity s, S754_infinity s' => Bool.eqb s s'
  | S754_nan, S754_nan => true
  | S754_finite s m e, S754_finite s' m' e' => Bool.eqb s s' && Pos.eqb m m' && Z.eqb e e'
  | _, _ => false
  end.
Definition fbits_eqb (x y : float) : bool := sf_beq (Prim2SF x) (Prim2SF y).
