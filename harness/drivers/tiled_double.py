"""Recording client double for the real bluesky.callbacks.tiled_writer._RunWriter / TiledWriter.

The double implements exactly the part of the tiled client API that tiled_writer.py calls and records
every call in `client.records` (an append log).  Nothing is sent anywhere.

    client = ClientDouble(fail_at={3})          # optional fault injection: the call with index 3 raises
    rw = _RunWriter(client, batch_size=2)        # or TiledWriter(client, ...)
    with ConsolidatorSpy(client): rw("start", doc) ...

Calls are numbered 0,1,2,... in the order they reach the double (create_container, update_metadata,
create_appendable_table, append_partition, new, put); a call whose index is in `fail_at` raises
RuntimeError *before* it is recorded or has any effect.  ConsolidatorSpy additionally records (without
numbering them as client calls) every Consolidator construction, consume_stream_datum and
update_from_stream_resource call, so the log shows which StreamDatum went into which array node.

Semantics copied from the tiled client:
  * node.metadata is a read-only view; update_metadata(metadata=..) merges like dict.update, recursively
    for nested dicts (tiled.client.metadata_update.apply_update_patch, the function the real client uses);
  * create_container(...).base is the plain container client (here: the same object);
  * array nodes have .uri containing "/metadata/", .data_sources()[0].id and
    .context.http_client.put(url, content=bytes) returning a response accepted by
    tiled.client.utils.handle_error and having .json().
Duplicate keys are NOT rejected (a real server answers 409).
"""
import copy
import json


def _jsonable(x):
    from tiled.utils import safe_json_dump
    return json.loads(safe_json_dump(x))


class InjectedFault(RuntimeError):
    pass


class _Response:
    is_error = False
    status_code = 200
    headers = {"Content-Type": "application/json"}

    def __init__(self, payload):
        self._payload = payload

    def json(self):
        return self._payload

    def raise_for_status(self):
        return self


class _HttpClient:
    def __init__(self, client):
        self._client = client

    def put(self, url, content=None, **kwargs):
        body = json.loads(content) if content is not None else None
        self._client._call({"op": "put", "url": url, "body": body})
        return _Response({})


class _Context:
    def __init__(self, client):
        self.http_client = _HttpClient(client)


class _DataSourceRef:
    def __init__(self, id_):
        self.id = id_


class _NodeBase:
    def __init__(self, client, path, key, metadata, specs):
        from tiled.utils import DictView
        self._DictView = DictView
        self._client = client
        self.path = path                       # tuple of keys from the client root
        self._metadata = copy.deepcopy(metadata) if metadata is not None else {}
        self.specs = list(specs or [])
        self.item = {"id": key, "attributes": {"metadata": self._metadata}}
        self.context = client.context
        self.uri = "http://double/api/v1/metadata/" + "/".join(path)

    @property
    def metadata(self):
        return self._DictView(self._metadata)

    def update_metadata(self, metadata=None, specs=None, access_tags=None, *, drop_revision=False):
        from tiled.client.metadata_update import apply_update_patch
        self._client._call({"op": "update_metadata", "path": list(self.path),
                            "metadata": _jsonable(metadata), "drop_revision": drop_revision})
        if metadata is not None:
            self._metadata = apply_update_patch(copy.deepcopy(self._metadata), _jsonable(metadata))
            self.item["attributes"]["metadata"] = self._metadata


class ArrayDouble(_NodeBase):
    def __init__(self, client, path, key, metadata, specs, ds_id):
        super().__init__(client, path, key, metadata, specs)
        self._ds = [_DataSourceRef(ds_id)]

    def data_sources(self):
        return self._ds


class TableDouble(_NodeBase):
    def append_partition(self, table, partition):
        self._client._call({"op": "append_partition", "path": list(self.path), "partition": partition,
                            "columns": list(table.column_names), "rows": table.to_pylist()})


class ContainerDouble(_NodeBase):
    @property
    def base(self):
        return self

    def create_container(self, key=None, *, metadata=None, specs=None, access_tags=None, **kwargs):
        return self._client._create_container(self.path, key, metadata, specs, access_tags)

    def create_appendable_table(self, schema, npartitions=1, *, key=None, metadata=None, specs=None,
                                access_tags=None, **kwargs):
        self._client._call({"op": "create_appendable_table", "path": list(self.path), "key": key,
                            "columns": list(schema.names), "types": [str(t) for t in schema.types],
                            "metadata": _jsonable(metadata), "access_tags": _jsonable(access_tags)})
        return TableDouble(self._client, self.path + (key,), key, metadata, specs)

    def new(self, structure_family=None, data_sources=None, *, key=None, metadata=None, specs=None,
            access_tags=None, **kwargs):
        self._client._call({"op": "new", "path": list(self.path), "key": key,
                            "structure_family": getattr(structure_family, "value", structure_family),
                            "data_sources": _jsonable(list(data_sources or [])),
                            "metadata": _jsonable(metadata), "specs": _jsonable(list(specs or [])),
                            "access_tags": _jsonable(access_tags)})
        self._client._next_ds_id += 1
        return ArrayDouble(self._client, self.path + (key,), key, metadata, specs, self._client._next_ds_id)


class ClientDouble:
    def __init__(self, fail_at=None):
        self.records = []
        self.ncalls = 0
        self.fail_at = set(fail_at or ())
        self.context = _Context(self)
        self._next_ds_id = 0
        self.path = ()

    def _call(self, rec):
        idx = self.ncalls
        self.ncalls += 1
        if idx in self.fail_at:
            raise InjectedFault("injected fault at client call %d (%s)" % (idx, rec["op"]))
        rec["call"] = idx
        self.records.append(rec)

    def include_data_sources(self):
        return self

    def _create_container(self, parent, key, metadata, specs, access_tags):
        self._call({"op": "create_container", "path": list(parent), "key": key, "metadata": _jsonable(metadata),
                    "specs": [getattr(s, "name", s) for s in (specs or [])], "access_tags": _jsonable(access_tags)})
        return ContainerDouble(self, tuple(parent) + (key,), key, _jsonable(metadata), specs)

    def create_container(self, key=None, *, metadata=None, specs=None, access_tags=None, **kwargs):
        return self._create_container((), key, metadata, specs, access_tags)


class ConsolidatorSpy:
    """Context manager: record Consolidator construction / consume_stream_datum /
    update_from_stream_resource calls of the real consolidators into client.records
    (records carry the consolidator object under "obj"; they are not numbered as client calls)."""

    def __init__(self, client):
        self.client = client
        self._saved = []

    def __enter__(self):
        from bluesky import consolidators as C
        client = self.client

        def wrap(cls, name, kind, after):
            orig = cls.__dict__[name]

            def wrapper(self_, *a, **kw):
                if not after:
                    client.records.append({"op": kind, "obj": self_, "arg": copy.deepcopy(a[0]) if a else None})
                    return orig(self_, *a, **kw)
                out = orig(self_, *a, **kw)
                client.records.append({"op": kind, "obj": self_, "arg": None})
                return out
            self._saved.append((cls, name, orig))
            setattr(cls, name, wrapper)

        wrap(C.ConsolidatorBase, "__init__", "cons_init", True)
        wrap(C.ConsolidatorBase, "consume_stream_datum", "consume", False)
        wrap(C.ConsolidatorBase, "update_from_stream_resource", "update_from_sres", False)
        wrap(C.HDF5Consolidator, "update_from_stream_resource", "update_from_sres", False)
        return self

    def __exit__(self, *exc):
        for cls, name, orig in reversed(self._saved):
            setattr(cls, name, orig)
        self._saved = []
        return False
