"""Minimal deterministic fake devices and a generator driver for step-scan plans (C25, C26).

FakeMotor satisfies bluesky's Movable + Readable (+ `position`, `parent`, `hints`); FakeDet is Readable and
optionally Triggerable.  Nothing here touches an event loop: plans are plain generators that are iterated
with `send`, and the driver answers each message the way the RunEngine would for these devices.
"""


class _Base:
    parent = None

    def __init__(self, name):
        self.name = name

    def __repr__(self):
        return "<%s>" % self.name

    def read(self):
        return {self.name: {"value": 0.0, "timestamp": 0.0}}

    def describe(self):
        return {self.name: {"source": "fake", "dtype": "number", "shape": []}}

    def read_configuration(self):
        return {}

    def describe_configuration(self):
        return {}


class FakeMotor(_Base):
    """Movable + Readable; `position` is what the relative wrappers look at."""

    def __init__(self, name, position=0.0):
        super().__init__(name)
        self.position = position
        self.hints = {"fields": [name]}

    def set(self, value):
        self.position = value
        return None

    def read(self):
        return {self.name: {"value": self.position, "timestamp": 0.0}}


class FakeDet(_Base):
    """Readable, not triggerable."""


class FakeTrigDet(_Base):
    """Readable and Triggerable."""

    def trigger(self):
        return None


def make_det(name, triggerable):
    return FakeTrigDet(name) if triggerable else FakeDet(name)


def drive(plan, on_set=True, limit=200000):
    """Iterate a plan generator to exhaustion, answering messages like the RunEngine would
    (old-style devices: stage/unstage return a list, set/trigger return None; read returns the
    device's reading; open_run returns a uid).  Returns (list of Msg, return value)."""
    msgs = []
    resp = None
    try:
        msg = plan.send(None)
        while True:
            msgs.append(msg)
            if len(msgs) > limit:
                raise RuntimeError("plan does not terminate")
            cmd = msg.command
            if cmd == "read":
                resp = msg.obj.read()
            elif cmd == "set":
                if on_set:
                    msg.obj.set(*msg.args)
                resp = None
            elif cmd == "open_run":
                resp = "uid-0"
            elif cmd in ("stage", "unstage"):
                resp = [msg.obj]
            elif cmd == "rewindable":
                resp = True
            else:
                resp = None
            msg = plan.send(resp)
    except StopIteration as e:
        return msgs, e.value


def drive_into(plan, msgs, limit=200000):
    """Like drive(), but appends to `msgs` so that messages yielded before an exception are kept."""
    resp = None
    try:
        msg = plan.send(None)
        while True:
            msgs.append(msg)
            if len(msgs) > limit:
                raise RuntimeError("plan does not terminate")
            cmd = msg.command
            if cmd == "read":
                resp = msg.obj.read()
            elif cmd == "set":
                msg.obj.set(*msg.args)
                resp = None
            elif cmd == "open_run":
                resp = "uid-0"
            elif cmd in ("stage", "unstage"):
                resp = [msg.obj]
            elif cmd == "rewindable":
                resp = True
            else:
                resp = None
            msg = plan.send(resp)
    except StopIteration as e:
        return e.value
