(* C13 / C12(i), part A: algebra of the response monitor (Engine/RespMon.v) and the facts about the
   engine's helper functions the coupling proof (RE_RespB.v, RE_Resp.v) needs: they leave the two
   stacks alone and emit only observations the monitor does not interpret. *)
From Coq Require Import List String ZArith Bool Arith Lia.
From BV Require Import Engine.RE Engine.REInst Engine.RespMon Proofs.RE_Small.
Import ListNotations.
(* file-local implicit arguments for the model's functions (the model file itself is untouched) *)
Local Arguments upd {P D}.
Local Arguments set_state_raw {P D}.
Local Arguments set_pc {P D}.
Local Arguments set_must_cancel {P D}.
Local Arguments set_permit {P D}.
Local Arguments set_blocking {P D}.
Local Arguments set_plans {P D}.
Local Arguments set_resps {P D}.
Local Arguments set_cache {P D}.
Local Arguments set_rewindable {P D}.
Local Arguments set_exc_slot {P D}.
Local Arguments set_stashed {P D}.
Local Arguments set_interrupted {P D}.
Local Arguments set_deferred {P D}.
Local Arguments set_exit {P D}.
Local Arguments upd2 {P D}.
Local Arguments set_bundlers {P D}.
Local Arguments set_staged {P D}.
Local Arguments set_moved {P D}.
Local Arguments set_seen {P D}.
Local Arguments set_groups {P D}.
Local Arguments set_statuses {P D}.
Local Arguments set_futs {P D}.
Local Arguments set_uids {P D}.
Local Arguments set_pardon {P D}.
Local Arguments set_dst {P D}.
Local Arguments set_task_set {P D}.
Local Arguments set_ghost {P D}.
Local Arguments interrupt {P D}.
Local Arguments resumable {P D}.
Local Arguments set_state {P D}.
Local Arguments cancel_task {P D}.
Local Arguments map_bundlers {P D}.
Local Arguments record_interruptions {P D}.
Local Arguments reset_checkpoint {P D}.
Local Arguments rewind {P D}.
Local Arguments dcall {P D}.
Local Arguments stop_movables {P D}.
Local Arguments call_pausables {P D}.
Local Arguments get_bundler {P D}.
Local Arguments put_bundler {P D}.
Local Arguments any_bundling {P D}.
Local Arguments add_status {P D}.
Local Arguments request_pause {P D}.
Local Arguments request_pause_in_task {P D}.
Local Arguments finish_read {P D}.
Local Arguments mark_cached {P D}.
Local Arguments exec_cmd {P D}.
Local Arguments set_main {P D}.
Local Arguments set_mreq {P D}.
Local Arguments set_ers {P D}.
Local Arguments push_frame {P D}.
Local Arguments pop_plan {P D}.
Local Arguments replace_top {P D}.
Local Arguments all_resolved {P D}.
Local Arguments all_released {P D}.
Local Arguments close_runs {P D}.
Local Arguments FUEL {P D}.
Local Arguments req_result {P D}.
Local Arguments clear_call {P D}.
Local Arguments state {P D}.
Local Arguments pc {P D}.
Local Arguments must_cancel {P D}.
Local Arguments permit {P D}.
Local Arguments blocking {P D}.
Local Arguments task_set {P D}.
Local Arguments plans {P D}.
Local Arguments resps {P D}.
Local Arguments cache {P D}.
Local Arguments rewindable {P D}.
Local Arguments exc_slot {P D}.
Local Arguments stashed {P D}.
Local Arguments interrupted {P D}.
Local Arguments deferred {P D}.
Local Arguments exit_status {P D}.
Local Arguments reason {P D}.
Local Arguments bundlers {P D}.
Local Arguments staged {P D}.
Local Arguments moved {P D}.
Local Arguments pausables {P D}.
Local Arguments stageables {P D}.
Local Arguments seen {P D}.
Local Arguments groups {P D}.
Local Arguments statuses {P D}.
Local Arguments failed_seen {P D}.
Local Arguments futs {P D}.
Local Arguments uid_supply {P D}.
Local Arguments run_uids {P D}.
Local Arguments record_intr {P D}.
Local Arguments pardon {P D}.
Local Arguments mreq {P D}.
Local Arguments was_paused {P D}.
Local Arguments main_err {P D}.
Local Arguments exit_reason_set {P D}.
Local Arguments icause {P D}.
Local Arguments late_pause {P D}.
Local Arguments intr_err {P D}.
Local Arguments dst {P D}.
Local Arguments start_sub {P}.
Local Arguments helper_after_pre {P}.
Local Arguments helper_after_post {P}.
Local Arguments helper_set {P}.
Local Arguments helper_rewind_next {P}.
Local Arguments helper_resume {P}.
Local Arguments frame_resume {P}.
Local Arguments exec_start_suspender {P} plan_of {D} dev.
Local Arguments close_frames {P} presume {D}.
Local Arguments finalize {P} presume {D} dev.
Local Arguments drive {P} presume plan_of {D} dev.
Local Arguments task_step {P} presume plan_of {D} dev.
Local Arguments step {P} presume plan_of {D} dev.
Local Arguments run {P} presume plan_of {D} dev.

(* ------------------------------------------------------------------ monitor: algebra *)
Definition qobs (o : obs) : Prop := match o with OPlanIn _ _ | OMsg _ | OResp _ => False | _ => True end.
Definition track (a : rstate) (os : list obs) : rstate :=
  fold_left (fun a o => match o with OState _ b => b | _ => a end) os a.

Lemma track_app a x y : track a (x ++ y) = track (track a x) y.
Proof. unfold track. apply fold_left_app. Qed.

Lemma mon_list_app pid ms a b :
  mon_list pid ms (a ++ b) =
  match mon_list pid ms a with
  | None => None
  | Some (ms1, f1) => match mon_list pid ms1 b with None => None | Some (ms2, f2) => Some (ms2, f1 ++ f2) end
  end.
Proof.
  revert ms; induction a as [|o a IH]; intros ms; cbn [mon_list app].
  - destruct (mon_list pid ms b) as [[ms2 f2]|]; reflexivity.
  - destruct (mon_obs pid ms o) as [[ms1 f1]|]; [|reflexivity]. rewrite IH.
    destruct (mon_list pid ms1 a) as [[ms2 f2]|]; [|reflexivity].
    destruct (mon_list pid ms2 b) as [[ms3 f3]|]; [|reflexivity]. rewrite app_assoc. reflexivity.
Qed.

(* the monitor accepts os from ms and ends in ms' *)
Definition MA (pid : nat) (ms : mon) (os : list obs) (ms' : mon) : Prop := exists fl, mon_list pid ms os = Some (ms', fl).

Lemma MA_nil pid ms : MA pid ms [] ms.
Proof. exists []. reflexivity. Qed.
Lemma MA_app pid ms a ms1 b ms2 : MA pid ms a ms1 -> MA pid ms1 b ms2 -> MA pid ms (a ++ b) ms2.
Proof. intros [f1 H1] [f2 H2]. exists (f1 ++ f2). rewrite mon_list_app, H1, H2. reflexivity. Qed.
Lemma MA_one pid ms o ms' fl : mon_obs pid ms o = Some (ms', fl) -> MA pid ms [o] ms'.
Proof. intros H. exists (fl ++ []). cbn [mon_list]. rewrite H. reflexivity. Qed.

Definition dead3 (x : pst) : Prop := x = SNone \/ x = SIn \/ x = SDead.
Definition dead2 (x : pst) : Prop := x = SNone \/ x = SDead.

Lemma mon_quiet_one pid ms o : qobs o -> mp ms <> SIn ->
  mon_obs pid ms o = Some (set_mstate ms (track (mstate ms) [o]), []).
Proof.
  intros Hq Hn. unfold mon_obs, settle. destruct (mp ms) eqn:E; try congruence;
    destruct o; cbn in Hq; try contradiction; cbn; unfold set_mstate; rewrite ?E; destruct ms; cbn in *; subst; reflexivity.
Qed.

Lemma mon_quiet pid os : forall ms, Forall qobs os -> mp ms <> SIn ->
  mon_list pid ms os = Some (set_mstate ms (track (mstate ms) os), []).
Proof.
  induction os as [|o os IH]; intros ms Hq Hn; cbn [mon_list].
  - destruct ms; reflexivity.
  - inversion Hq; subst. rewrite (mon_quiet_one pid ms o); [|assumption|assumption].
    rewrite IH; [|assumption|exact Hn]. cbn. reflexivity.
Qed.

Lemma MA_quiet pid ms os : Forall qobs os -> mp ms <> SIn -> MA pid ms os (set_mstate ms (track (mstate ms) os)).
Proof. intros. exists []. apply mon_quiet; assumption. Qed.

(* quiet observations when the plan may just have died *)
Lemma mon_quiet_dead pid os : forall ms, Forall qobs os -> dead3 (mp ms) ->
  exists ms', MA pid ms os ms' /\ dead3 (mp ms') /\ mstate ms' = track (mstate ms) os /\ (os <> [] -> dead2 (mp ms')) /\
              (mp ms <> SIn -> ms' = set_mstate ms (track (mstate ms) os)).
Proof.
  intros ms Hq Hd. destruct os as [|o os].
  - exists ms. split; [apply MA_nil|]. split; [exact Hd|]. split; [reflexivity|]. split; [congruence|]. intros _. destruct ms; reflexivity.
  - destruct (mp ms) eqn:E; try (destruct Hd as [Hd|[Hd|Hd]]; congruence).
    + exists (set_mstate ms (track (mstate ms) (o :: os))). split; [apply MA_quiet; [assumption|congruence]|].
      cbn. rewrite E. repeat split; try (left; reflexivity); unfold dead3; auto.
    + (* SIn: the first observation settles it *)
      inversion Hq as [|? ? Hqo Hqs]; subst.
      set (ms1 := set_mstate (set_mp ms SDead) (track (mstate ms) [o])).
      exists (set_mstate ms1 (track (mstate ms1) os)).
      split.
      { change (o :: os) with ([o] ++ os). eapply MA_app with (ms1 := ms1).
        - eapply MA_one with (fl := []). unfold mon_obs, settle. rewrite E.
          destruct o; cbn in Hqo; try contradiction; reflexivity.
        - apply MA_quiet; [assumption|]. cbn. congruence. }
      cbn. repeat split; try (right; right; reflexivity); try (intros; right; reflexivity); try congruence.
    + exists (set_mstate ms (track (mstate ms) (o :: os))). split; [apply MA_quiet; [assumption|congruence]|].
      cbn. rewrite E. repeat split; try (right; right; reflexivity); try (intros; right; reflexivity).
Qed.

Ltac bm_hyp H :=
  match type of H with
  | context [match ?x with _ => _ end] => destruct x eqn:?
  end.
Ltac inv_pairs :=
  repeat match goal with
         | H : (_, _) = (_, _) |- _ => inversion H; subst; clear H
         | H : Some _ = Some _ |- _ => inversion H; subst; clear H
         end.

Section Proofs.
Variable P : Type.
Variable presume : P -> input -> outcome P.
Variable plan_of : nat -> P.
Variable D : Type.
Variable dev : D -> nat -> devmeth -> D * devres.
Notation st := (st P D).

(* ------------------------------------------------------------------ helpers leave the stacks alone and are quiet *)
Definition same_stacks (s s' : st) : Prop :=
  plans s' = plans s /\ resps s' = resps s /\ stashed s' = stashed s /\ exc_slot s' = exc_slot s.
(* HQ s s' o: the helper went from s to s' emitting o *)
Definition HQ (s s' : st) (o : list obs) : Prop :=
  same_stacks s s' /\ Forall qobs o /\ track (state s) o = state s' /\ (state s' = Paused -> state s = Paused).

Lemma same_stacks_refl s : same_stacks s s.
Proof. repeat split. Qed.
Lemma same_stacks_trans s1 s2 s3 : same_stacks s1 s2 -> same_stacks s2 s3 -> same_stacks s1 s3.
Proof. intros (a1 & a2 & a3 & a4) (b1 & b2 & b3 & b4). repeat split; congruence. Qed.
Lemma HQ_refl s : HQ s s [].
Proof. split; [apply same_stacks_refl|]. split; [constructor|]. split; [reflexivity|]. auto. Qed.
Lemma HQ_trans s1 s2 s3 o1 o2 : HQ s1 s2 o1 -> HQ s2 s3 o2 -> HQ s1 s3 (o1 ++ o2).
Proof.
  intros (a & qa & ta & pa) (b & qb & tb & pb). split; [eapply same_stacks_trans; eassumption|].
  split; [apply Forall_app; split; assumption|]. split; [rewrite track_app, ta; exact tb|]. auto.
Qed.

Lemma set_state_HQ (s : st) x s' o : set_state s x = Some (s', o) ->
  same_stacks s s' /\ o = [OState (state s) x] /\ state s' = x /\ pc s' = pc s /\ must_cancel s' = must_cancel s.
Proof.
  unfold set_state. destruct (allowed (state s) x); intros H; inversion H; subst. repeat split.
Qed.
Lemma set_state_HQ' (s : st) x s' o : set_state s x = Some (s', o) -> x <> Paused -> HQ s s' o.
Proof.
  intros H Hx. apply set_state_HQ in H. destruct H as (a & -> & b & _). split; [exact a|].
  split; [repeat constructor|]. split; [cbn; congruence|]. intros; congruence.
Qed.

(* helpers that do not even change the lifecycle state, the task's pc or the pending cancellation *)
Definition HQ2 (s s' : st) (o : list obs) : Prop :=
  HQ s s' o /\ state s' = state s /\ pc s' = pc s /\ must_cancel s' = must_cancel s.
Lemma HQ2_refl s : HQ2 s s [].
Proof. split; [apply HQ_refl|repeat split]. Qed.
Lemma HQ2_trans s1 s2 s3 o1 o2 : HQ2 s1 s2 o1 -> HQ2 s2 s3 o2 -> HQ2 s1 s3 (o1 ++ o2).
Proof.
  intros (a & a1 & a2 & a3) (b & b1 & b2 & b3). split; [eapply HQ_trans; eassumption|]. repeat split; congruence.
Qed.

Lemma dcall_HQ (s : st) d m s' r o : dcall dev s d m = (s', r, o) -> HQ2 s s' o.
Proof.
  unfold dcall. destruct (dev (dst s) d m). intros H; inversion H; subst.
  split; [|repeat split]. split; [repeat split|]. split; [repeat constructor|]. split; [reflexivity|]. auto.
Qed.

Lemma stop_movables_HQ (s : st) s' o : stop_movables dev s = (s', o) -> HQ2 s s' o.
Proof.
  unfold stop_movables.
  assert (G : forall l (s0 : st) o0 s1 o1,
             fold_left (fun acc d => let '(s0, os) := acc in
                                     let '(s1, _, o) := dcall dev s0 d MStop in (s1, os ++ o)) l (s0, o0) = (s1, o1) ->
             exists o', o1 = o0 ++ o' /\ HQ2 s0 s1 o').
  { induction l as [|d l IH]; intros s0 o0 s1 o1 H; cbn in H.
    - inversion H; subst. exists []. rewrite app_nil_r. split; [reflexivity|apply HQ2_refl].
    - destruct (dcall dev s0 d MStop) as [[sa ra] oa] eqn:E. apply IH in H. destruct H as (o' & -> & Hq).
      apply dcall_HQ in E. exists (oa ++ o'). rewrite app_assoc. split; [reflexivity|].
      eapply HQ2_trans; eassumption. }
  intros H. apply G in H. destruct H as (o' & -> & Hq). cbn. assumption.
Qed.

Lemma call_pausables_HQ (s : st) m s' e o : call_pausables dev s m = (s', e, o) -> HQ2 s s' o.
Proof.
  unfold call_pausables.
  assert (G : forall l (s0 : st) e0 o0 s1 e1 o1,
             fold_left (fun acc d =>
               let '(s0, e, os) := acc in
               match e with
               | Some _ => acc
               | None => if mem_nat d (seen s0)
                         then let '(s1, r, o) := dcall dev s0 d m in
                              (s1, match r with DRaise x => Some x | _ => None end, os ++ o)
                         else acc
               end) l (s0, e0, o0) = (s1, e1, o1) ->
             exists o', o1 = o0 ++ o' /\ HQ2 s0 s1 o').
  { induction l as [|d l IH]; intros s0 e0 o0 s1 e1 o1 H; cbn in H.
    - inversion H; subst. exists []. rewrite app_nil_r. split; [reflexivity|apply HQ2_refl].
    - destruct e0.
      + apply IH in H. exact H.
      + destruct (mem_nat d (seen s0)).
        * destruct (dcall dev s0 d m) as [[sa ra] oa] eqn:E. apply IH in H. destruct H as (o' & -> & Hq).
          apply dcall_HQ in E. exists (oa ++ o'). rewrite app_assoc. split; [reflexivity|].
          eapply HQ2_trans; eassumption.
        * apply IH in H. exact H. }
  intros H. apply G in H. destruct H as (o' & -> & Hq). cbn. assumption.
Qed.

Lemma b_record_intr_q b b' o : b_record_intr b = Some (b', o) -> Forall qobs o.
Proof.
  unfold b_record_intr. destruct (bintr b); [destruct (alookup INTR (bseq b))|]; intros H; inversion H; subst;
    repeat constructor.
Qed.
Lemma record_intr_list_q l r o ok : record_intr_list l = (r, o, ok) -> Forall qobs o.
Proof.
  revert r o ok; induction l as [|[k b] l IH]; intros r o ok H; cbn in H.
  - inversion H; subst; constructor.
  - destruct (b_record_intr b) as [[b' o']|] eqn:E.
    + destruct (record_intr_list l) as [[r0 os] ok0] eqn:E2. inversion H; subst.
      apply Forall_app; split; [eapply b_record_intr_q; eassumption | eapply IH; reflexivity].
    + inversion H; subst; constructor.
Qed.
Lemma track_quiet_nostate a o : Forall (fun x => match x with OState _ _ => False | _ => True end) o -> track a o = a.
Proof.
  revert a; induction o as [|x o IH]; intros a H; [reflexivity|]. inversion H; subst. cbn.
  destruct x; try contradiction; apply IH; assumption.
Qed.
Lemma b_record_intr_ns b b' o : b_record_intr b = Some (b', o) -> Forall (fun x => match x with OState _ _ => False | _ => True end) o.
Proof.
  unfold b_record_intr. destruct (bintr b); [destruct (alookup INTR (bseq b))|]; intros H; inversion H; subst;
    repeat constructor.
Qed.
Lemma record_intr_list_ns l r o ok : record_intr_list l = (r, o, ok) -> Forall (fun x => match x with OState _ _ => False | _ => True end) o.
Proof.
  revert r o ok; induction l as [|[k b] l IH]; intros r o ok H; cbn in H.
  - inversion H; subst; constructor.
  - destruct (b_record_intr b) as [[b' o']|] eqn:E.
    + destruct (record_intr_list l) as [[r0 os] ok0] eqn:E2. inversion H; subst.
      apply Forall_app; split; [eapply b_record_intr_ns; eassumption | eapply IH; reflexivity].
    + inversion H; subst; constructor.
Qed.
Lemma record_interruptions_HQ (s : st) s' o ok : record_interruptions s = (s', o, ok) ->
  HQ s s' o /\ state s' = state s /\ pc s' = pc s /\ must_cancel s' = must_cancel s.
Proof.
  unfold record_interruptions. destruct (record_intr_list (bundlers s)) as [[bs os] ok0] eqn:E.
  intros H; inversion H; subst. split; [|repeat split]. split; [repeat split|].
  split; [eapply record_intr_list_q; eassumption|]. split; [|auto].
  cbn. apply track_quiet_nostate. eapply record_intr_list_ns; eassumption.
Qed.

(* pure bookkeeping functions: nothing the response discipline looks at changes *)
Definition eqv (s s' : st) : Prop :=
  plans s' = plans s /\ resps s' = resps s /\ stashed s' = stashed s /\ exc_slot s' = exc_slot s /\
  state s' = state s /\ pc s' = pc s /\ must_cancel s' = must_cancel s.
Lemma eqv_refl s : eqv s s. Proof. repeat split. Qed.
Lemma eqv_trans a b c : eqv a b -> eqv b c -> eqv a c.
Proof. unfold eqv. intros (a1&a2&a3&a4&a5&a6&a7) (b1&b2&b3&b4&b5&b6&b7). repeat split; congruence. Qed.
Lemma eqv_HQ s s' : eqv s s' -> HQ s s' [].
Proof.
  intros (a1&a2&a3&a4&a5&a6&a7). split; [repeat split; assumption|]. split; [constructor|]. split; [cbn; congruence|]. congruence.
Qed.

Lemma reset_checkpoint_eqv (s : st) : eqv s (reset_checkpoint s).
Proof. unfold reset_checkpoint. destruct (cache s); repeat split. Qed.
Lemma cancel_task_eqv (s : st) :
  plans (cancel_task s) = plans s /\ resps (cancel_task s) = resps s /\ stashed (cancel_task s) = stashed s /\
  exc_slot (cancel_task s) = exc_slot s /\ state (cancel_task s) = state s /\ pc (cancel_task s) = pc s.
Proof. unfold cancel_task. destruct (pc s) eqn:E; cbn; repeat split; try reflexivity; congruence. Qed.

Lemma HQ_of_parts (s s' : st) o :
  plans s' = plans s -> resps s' = resps s -> stashed s' = stashed s -> exc_slot s' = exc_slot s ->
  Forall qobs o -> track (state s) o = state s' -> (state s' = Paused -> state s = Paused) -> HQ s s' o.
Proof. intros. split; [repeat split; assumption|]. auto. Qed.

Lemma request_pause_HQ (s : st) d s' e o : request_pause s d = (s', e, o) -> HQ s s' o /\ pc s' = pc s.
Proof.
  unfold request_pause. intros H.
  destruct (negb (allowed (state s) Pausing)); [inversion H; subst; split; [apply HQ_refl|reflexivity]|].
  destruct d; [inversion H; subst; split; [apply eqv_HQ; repeat split|reflexivity]|].
  match type of H with context [set_state ?x Pausing] => set (s1 := x) in * end.
  assert (E1 : eqv s s1 /\ True).
  { split; [|exact I]. subst s1. destruct (pc (interrupt (set_deferred s false) CzPause)); repeat split. }
  destruct E1 as [E1 _].
  destruct (set_state s1 Pausing) as [[s2 o1]|] eqn:E2.
  - apply set_state_HQ in E2. destruct E2 as (ss2 & -> & st2 & pc2 & mc2).
    destruct (record_interruptions s2) as [[s3 o2] ok] eqn:E3. apply record_interruptions_HQ in E3.
    destruct E3 as (hq3 & st3 & pc3 & mc3).
    destruct E1 as (a1&a2&a3&a4&a5&a6&a7). destruct ss2 as (b1&b2&b3&b4). destruct hq3 as ((c1&c2&c3&c4)&cq&ct&cp).
    destruct ok; inversion H; subst; clear H.
    + destruct (cancel_task_eqv s3) as (d1&d2&d3&d4&d5&d6).
      split; [|congruence]. apply HQ_of_parts; try congruence;
        try (constructor; [exact I|exact cq]);
        try (rewrite d5; cbn; rewrite <- ct, st2; reflexivity);
        try (rewrite d5, st3, st2; discriminate).
    + split; [|cbn; congruence]. apply HQ_of_parts; cbn; try congruence;
        try (constructor; [exact I|exact cq]);
        try (rewrite <- ct, st2; reflexivity);
        try (rewrite st3, st2; discriminate).
  - inversion H; subst. split; [apply eqv_HQ; exact E1|]. destruct E1 as (a1&a2&a3&a4&a5&a6&a7). exact a6.
Qed.

Lemma request_pause_in_task_HQ (s : st) d s' e o : request_pause_in_task s d = (s', e, o) -> HQ s s' o /\ pc s' = pc s.
Proof.
  unfold request_pause_in_task. destruct (request_pause s d) as [[s1 e1] o1] eqn:E.
  apply request_pause_HQ in E. intros H; inversion H; subst; clear H.
  destruct (resumable s); [exact E|]. destruct E as (((a1&a2&a3&a4)&q&t&p)&c).
  split; [|exact c]. apply HQ_of_parts; assumption.
Qed.

Lemma finish_read_HQ (s : st) run d z o0 s' c o : finish_read s run d z o0 = (s', c, o) -> eqv s s' /\ o = o0.
Proof.
  unfold finish_read. intros H. repeat bm_hyp H; inversion H; subst; split; try reflexivity; repeat split.
Qed.

Lemma mark_cached_eqv (s : st) run d : eqv s (mark_cached s run d).
Proof. unfold mark_cached. destruct (get_bundler s run); repeat split. Qed.

Ltac norm_hyps :=
  repeat match goal with
         | H : (if ?c then _ else _) = _ |- _ => destruct c eqn:?
         | H : match ?x with _ => _ end = (_, _) |- _ => destruct x eqn:?
         | H : (_, _) = (_, _) |- _ => inversion H; subst; clear H
         | H : Some _ = Some _ |- _ => inversion H; subst; clear H
         end.
Ltac unfold_pure := unfold reset_checkpoint, put_bundler, get_bundler, map_bundlers, add_status, mark_cached, finish_read in *.
Ltac pure_goal :=
  unfold_pure; repeat break_match_goal; cbn; repeat split; try reflexivity; try (repeat constructor; fail); try congruence; try tauto.

Lemma exec_cmd_HQ (s : st) m s' c o : exec_cmd dev s m = (s', c, o) -> HQ s s' o /\ pc s' = pc s.
Proof.
  unfold exec_cmd. intros H. destruct (mcmd m) eqn:Em.
  6: { destruct (request_pause_in_task s defer) as [[s1 e] o1] eqn:E. inversion H; subst. eapply request_pause_in_task_HQ; eassumption. }
  20: { destruct (call_pausables dev s MResume) as [[s1 e] o1] eqn:E. inversion H; subst. apply call_pausables_HQ in E.
        destruct E as (E & _ & E2 & _). split; assumption. }
  all: unfold dcall, finish_read in H.
  all: try (repeat bm_hyp H; inversion H; subst; clear H; norm_hyps; (split; [apply HQ_of_parts|]); pure_goal; fail).
Qed.

End Proofs.

Arguments same_stacks {P D}.
Arguments HQ {P D}.
Arguments HQ2 {P D}.
Arguments eqv {P D}.
