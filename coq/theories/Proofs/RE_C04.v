(* C04, end to end: after resume() (or when the suspender helper plan reaches its rewind tail) the engine re-executes
   exactly the cached messages, in order, and then hands the pending response to the interrupted frame.
   Over whole schedules of the engine model Engine/RE.v, for all plan coalgebras and device oracles.
   Also: the implicit-checkpoint clause at trace level (on the specification monitor of Proofs/RE_Ctl.v).
   Built on Proofs/RE_Small.v (dstep), Proofs/RE_Inv.v (reachable-state invariant), Proofs/RE_Ctl.v (cache = trace
   specification), Proofs/RE_Replay.v, Proofs/RE_C10.v (inert events). *)
From Coq Require Import List String ZArith Bool Arith Lia.
From BV Require Import Engine.RE Engine.REInst Proofs.RE_Small Proofs.RE_Inv Proofs.RE_Ctl Proofs.RE_Shape Proofs.RE_Replay.
From BV Require Proofs.RE_C10.
Import ListNotations.
(* file-local implicit arguments for the model's functions (the model file itself is untouched) *)
Local Arguments upd {P D}.
Local Arguments set_state_raw {P D}.
Local Arguments set_pc {P D}.
Local Arguments set_must_cancel {P D}.
Local Arguments set_permit {P D}.
Local Arguments set_blocking {P D}.
Local Arguments set_plans {P D}.
Local Arguments set_resps {P D}.
Local Arguments set_cache {P D}.
Local Arguments set_rewindable {P D}.
Local Arguments set_exc_slot {P D}.
Local Arguments set_stashed {P D}.
Local Arguments set_interrupted {P D}.
Local Arguments set_deferred {P D}.
Local Arguments set_exit {P D}.
Local Arguments upd2 {P D}.
Local Arguments set_bundlers {P D}.
Local Arguments set_staged {P D}.
Local Arguments set_moved {P D}.
Local Arguments set_seen {P D}.
Local Arguments set_groups {P D}.
Local Arguments set_statuses {P D}.
Local Arguments set_futs {P D}.
Local Arguments set_uids {P D}.
Local Arguments set_pardon {P D}.
Local Arguments set_dst {P D}.
Local Arguments set_task_set {P D}.
Local Arguments set_ghost {P D}.
Local Arguments interrupt {P D}.
Local Arguments resumable {P D}.
Local Arguments set_state {P D}.
Local Arguments cancel_task {P D}.
Local Arguments map_bundlers {P D}.
Local Arguments record_interruptions {P D}.
Local Arguments reset_checkpoint {P D}.
Local Arguments rewind {P D}.
Local Arguments dcall {P D}.
Local Arguments stop_movables {P D}.
Local Arguments call_pausables {P D}.
Local Arguments get_bundler {P D}.
Local Arguments put_bundler {P D}.
Local Arguments any_bundling {P D}.
Local Arguments add_status {P D}.
Local Arguments request_pause {P D}.
Local Arguments finish_read {P D}.
Local Arguments mark_cached {P D}.
Local Arguments exec_cmd {P D}.
Local Arguments set_main {P D}.
Local Arguments set_mreq {P D}.
Local Arguments set_ers {P D}.
Local Arguments push_frame {P D}.
Local Arguments pop_plan {P D}.
Local Arguments replace_top {P D}.
Local Arguments all_resolved {P D}.
Local Arguments all_released {P D}.
Local Arguments close_runs {P D}.
Local Arguments FUEL {P D}.
Local Arguments req_result {P D}.
Local Arguments clear_call {P D}.
Local Arguments state {P D}.
Local Arguments pc {P D}.
Local Arguments must_cancel {P D}.
Local Arguments permit {P D}.
Local Arguments blocking {P D}.
Local Arguments task_set {P D}.
Local Arguments plans {P D}.
Local Arguments resps {P D}.
Local Arguments cache {P D}.
Local Arguments rewindable {P D}.
Local Arguments exc_slot {P D}.
Local Arguments stashed {P D}.
Local Arguments interrupted {P D}.
Local Arguments deferred {P D}.
Local Arguments exit_status {P D}.
Local Arguments reason {P D}.
Local Arguments bundlers {P D}.
Local Arguments staged {P D}.
Local Arguments moved {P D}.
Local Arguments pausables {P D}.
Local Arguments stageables {P D}.
Local Arguments seen {P D}.
Local Arguments groups {P D}.
Local Arguments statuses {P D}.
Local Arguments failed_seen {P D}.
Local Arguments futs {P D}.
Local Arguments uid_supply {P D}.
Local Arguments run_uids {P D}.
Local Arguments record_intr {P D}.
Local Arguments pardon {P D}.
Local Arguments mreq {P D}.
Local Arguments was_paused {P D}.
Local Arguments main_err {P D}.
Local Arguments exit_reason_set {P D}.
Local Arguments icause {P D}.
Local Arguments late_pause {P D}.
Local Arguments intr_err {P D}.
Local Arguments dst {P D}.
Local Arguments start_sub {P}.
Local Arguments helper_after_pre {P}.
Local Arguments helper_after_post {P}.
Local Arguments helper_set {P}.
Local Arguments helper_rewind_next {P}.
Local Arguments helper_resume {P}.
Local Arguments frame_resume {P}.
Local Arguments exec_start_suspender {P} plan_of {D} dev.
Local Arguments close_frames {P} presume {D}.
Local Arguments finalize {P} presume {D} dev.
Local Arguments drive {P} presume plan_of {D} dev.
Local Arguments task_step {P} presume plan_of {D} dev.
Local Arguments step {P} presume plan_of {D} dev.
Local Arguments run {P} presume plan_of {D} dev.
Local Arguments init {P D}.

Ltac simp_st :=
  cbn [state pc must_cancel permit blocking task_set plans resps cache rewindable
       exc_slot stashed interrupted deferred exit_status reason bundlers staged moved
       pausables stageables seen groups statuses failed_seen futs uid_supply run_uids
       record_intr pardon mreq was_paused main_err exit_reason_set icause late_pause
       intr_err dst
       upd upd2 set_ghost set_main set_mreq set_ers interrupt
       set_state_raw set_pc set_must_cancel set_permit set_blocking set_plans set_resps
       set_cache set_rewindable set_exc_slot set_stashed set_interrupted set_deferred set_exit
       set_bundlers set_staged set_moved set_seen set_groups set_statuses set_futs set_uids
       set_pardon set_dst set_task_set map_bundlers put_bundler push_frame pop_plan
       replace_top] in *.

(* ------------------------------------------------------------------ observation projections *)
(* the messages executed (msg_hook), in order *)
Definition msgs (o : list obs) : list msg := flat_map (fun x => match x with OMsg m => [m] | _ => [] end) o.
(* messages executed and inputs handed to user plans, in order *)
Definition is_pm (x : obs) : bool := match x with OMsg _ | OPlanIn _ _ => true | _ => false end.
Definition pm (o : list obs) : list obs := filter is_pm o.

Lemma msgs_app a b : msgs (a ++ b) = msgs a ++ msgs b.
Proof. unfold msgs. apply flat_map_app. Qed.
Lemma pm_app a b : pm (a ++ b) = pm a ++ pm b.
Proof. unfold pm. apply filter_app. Qed.
Lemma pm_cons_msg m l : pm (OMsg m :: l) = OMsg m :: pm l.
Proof. reflexivity. Qed.
Lemma msgs_pm o : msgs (pm o) = msgs o.
Proof. unfold msgs, pm. induction o as [|x o IH]; cbn; [reflexivity|]. destruct x; cbn; rewrite ?IH; reflexivity. Qed.
Lemma msgs_map l : msgs (map OMsg l) = l.
Proof. unfold msgs. induction l; cbn; [reflexivity | rewrite IHl; reflexivity]. Qed.

(* what may be observed while the replay is under way: no failing response, no unknown command (its failure has no
   response observation), no lifecycle change other than to running *)
Definition okob (x : obs) : Prop :=
  match x with
  | OResp (RExn _) => False
  | OState _ b => b = Running
  | OMsg m => mcmd m <> CUnknown
  | _ => True
  end.
Definition okobs (o : list obs) : Prop := Forall okob o.
Definition okobb (x : obs) : bool :=
  match x with
  | OResp (RExn _) => false
  | OState _ b => rstate_eqb b Running
  | OMsg m => match mcmd m with CUnknown => false | _ => true end
  | _ => true
  end.
Lemma okobb_ok x : okobb x = true <-> okob x.
Proof.
  destruct x; cbn; try tauto.
  - destruct (mcmd m); split; intros; try reflexivity; try discriminate; congruence.
  - destruct r; split; intros; try reflexivity; try discriminate; tauto.
  - apply RE_Ctl.rstate_eqb_eq.
Qed.
Lemma okobs_app a b : okobs (a ++ b) <-> okobs a /\ okobs b.
Proof. apply Forall_app. Qed.

Lemma cacheable_cmd c : cacheable c = true ->
  (forall d, c <> CPause d) /\ (forall a b c0, c <> CStartSuspender a b c0).
Proof. intros H. split; intros; intros ->; vm_compute in H; discriminate. Qed.


(* ------------------------------------------------------------------ the specification's cache (Proofs/RE_Ctl.v [mon]):
   every message in it was appended by an OMsg item of the trace read so far *)
Definition mc_all (S : msg -> Prop) (m : mon) : Prop := forall l, mcache m = Some l -> Forall S l.

Lemma reset_spec_all (S : msg -> Prop) c l : reset_spec c = Some l -> Forall S l.
Proof. destruct c; cbn; intros H; invc H; constructor. Qed.

Lemma mon_item_all (S : msg -> Prop) m t :
  mc_all S m -> (forall x, t = TObs (OMsg x) -> cacheable (mcmd x) = true -> S x) -> mc_all S (mon_item m t).
Proof.
  intros Hm Hx l. destruct t as [e|o]; cbn [mon_item].
  - unfold mon_ev. destruct e as [a|a| | |defer|rs| | |sid pre post|sid|sid ok| |]; try destruct a; try destruct defer;
      cbn; repeat bmg; cbn; intros H;
      first [ apply Hm; exact H | invc H; constructor | eapply reset_spec_all; exact H ].
  - destruct o as [x|r|a b|dd|dd mm|pid i|ou st0 df rs|w|ok|n]; cbn [mon_obs]; try (apply Hm).
    + cbn. destruct (mcache m) as [l0|] eqn:E; [|discriminate].
      destruct (mrw m && cacheable (mcmd x)) eqn:Eb; intros H; invc H; [|apply Hm; exact E].
      apply Forall_app. split; [apply Hm; exact E|]. constructor; [|constructor].
      apply Hx; [reflexivity|]. apply andb_true_iff in Eb. tauto.
    + destruct (mpend m) as [x|]; cbn; [|apply Hm].
      unfold cache_after. intros H. repeat bmh H;
        first [ apply Hm; exact H | invc H; constructor | eapply reset_spec_all; exact H | discriminate H ].
    + destruct w; try apply Hm. destruct (mpend m) as [x|]; [|apply Hm]. cbn.
      destruct (is_checkpoint (mcmd x)); intros H; [invc H; constructor | apply Hm; exact H].
Qed.

Lemma mon_run_all (S : msg -> Prop) t : forall m,
  mc_all S m -> (forall x, In (TObs (OMsg x)) t -> cacheable (mcmd x) = true -> S x) -> mc_all S (mon_run m t).
Proof.
  induction t as [|it t IH]; intros m Hm Hx; [exact Hm|].
  change (mon_run m (it :: t)) with (mon_run (mon_item m it) t). apply IH.
  - apply mon_item_all; [exact Hm|]. intros x -> Hc. apply Hx; [left; reflexivity | exact Hc].
  - intros x Hin. apply Hx. right; exact Hin.
Qed.

Lemma mon0_all (S : msg -> Prop) : mc_all S mon0.
Proof. intros l H. cbn in H. invc H. constructor. Qed.

(* only cacheable commands are ever in the cache *)
Lemma spec_cache_cacheable t l : mcache (mon_run mon0 t) = Some l -> Forall (fun x => cacheable (mcmd x) = true) l.
Proof. apply (mon_run_all (fun x => cacheable (mcmd x) = true) t mon0 (mon0_all _)). intros x _ H; exact H. Qed.

(* the trace items at which the specification takes an explicit or implicit checkpoint, or clears it:
   the response of checkpoint (unless refused inside a bundle), clear_checkpoint, a rewindable message that toggles the flag,
   close_run, a stage/unstage that staged/unstaged something; and a checkpoint that starts its grace sleep *)
Definition ckpt_resp (c : cmd) (r : resp) (rw : bool) : bool :=
  match c, r with
  | CCheckpoint, RExn EIMS => false
  | CCheckpoint, _ => true
  | CClearCheckpoint, _ => true
  | CRewindable (Some b), _ => negb (Bool.eqb b rw)
  | CCloseRun _ _, RVal _ => true
  | (CStage | CUnstage), RVal (VDevs (_ :: _)) => true
  | _, _ => false
  end.
Definition ckpt_item (m : mon) (t : titem) : bool :=
  match t with
  | TObs (OResp r) => match mpend m with Some x => ckpt_resp (mcmd x) r (mrw m) | None => false end
  | TObs (OTask WFuture) => match mpend m with Some x => is_checkpoint (mcmd x) | None => false end
  | _ => false
  end.

Lemma ckpt_item_empties m t :
  ckpt_item m t = true -> mcache (mon_item m t) = Some [] \/ mcache (mon_item m t) = None.
Proof.
  destruct t as [e|o]; [discriminate|]. destruct o as [x|r|a b|dd|dd mm|pid i|ou st0 df rs|w|ok|n]; try discriminate; cbn.
  - destruct (mpend m) as [x|]; [|discriminate]. cbn. unfold ckpt_resp, cache_after, reset_spec.
    intros H. repeat bmh H; try discriminate H; repeat bmg; auto; try discriminate.
  - destruct w; try discriminate. destruct (mpend m) as [x|]; [|discriminate]. cbn. intros ->. auto.
Qed.

(* IMPLICIT CHECKPOINTS, trace level: whatever the cache holds later was executed after the last such item *)
Theorem spec_cache_after_checkpoint t1 it t2 l :
  ckpt_item (mon_run mon0 t1) it = true ->
  mcache (mon_run mon0 (t1 ++ it :: t2)) = Some l ->
  Forall (fun y => In (TObs (OMsg y)) t2) l.
Proof.
  intros Hc. rewrite mon_run_app. change (mon_run (mon_run mon0 t1) (it :: t2)) with (mon_run (mon_item (mon_run mon0 t1) it) t2).
  apply (mon_run_all (fun y => In (TObs (OMsg y)) t2) t2).
  - intros l0 H. destruct (ckpt_item_empties _ _ Hc) as [E|E]; rewrite E in H; invc H. constructor.
  - intros x Hin _. exact Hin.
Qed.

Section C04.
Variable P : Type.
Variable presume : P -> input -> outcome P.
Variable plan_of : nat -> P.
Variable D : Type.
Variable dev : D -> nat -> devmeth -> D * devres.
Notation st := (st P D).
Local Notation dstep := (RE_Small.dstep P presume plan_of D dev).

(* ------------------------------------------------------------------ the control fields the replay depends on *)
Definition ctlf (s : st) := (state s, pc s, must_cancel s, permit s, plans s, resps s, stashed s, exc_slot s).

Lemma ctlf_fields (s s' : st) : ctlf s' = ctlf s ->
  state s' = state s /\ pc s' = pc s /\ must_cancel s' = must_cancel s /\ permit s' = permit s /\
  plans s' = plans s /\ resps s' = resps s /\ stashed s' = stashed s /\ exc_slot s' = exc_slot s.
Proof. unfold ctlf. intros H. injection H. intros. repeat split; assumption. Qed.

Lemma dcall_ctlf (s : st) d m s' r o : dcall dev s d m = (s', r, o) -> ctlf s' = ctlf s.
Proof. unfold dcall. destruct (dev _ _ _). intros H; invc H. reflexivity. Qed.

Lemma call_pausables_ctlf (s : st) m s' e o : call_pausables dev s m = (s', e, o) -> ctlf s' = ctlf s.
Proof.
  unfold call_pausables.
  assert (G : forall l (s0 : st) e0 o0 s1 e1 o1,
             fold_left (fun acc d =>
               let '(s0, e, os) := acc in
               match e with
               | Some _ => acc
               | None => if mem_nat d (seen s0)
                         then let '(s1, r, o) := dcall dev s0 d m in
                              (s1, match r with DRaise x => Some x | _ => None end, os ++ o)
                         else acc
               end) l (s0, e0, o0) = (s1, e1, o1) -> ctlf s1 = ctlf s0).
  { induction l as [|d l IH]; intros s0 e0 o0 s1 e1 o1 H; cbn in H.
    - invc H. reflexivity.
    - destruct e0.
      + eapply IH; eassumption.
      + destruct (mem_nat d (seen s0)).
        * destruct (dcall dev s0 d m) as [[sa ra] oa] eqn:E. apply IH in H. apply dcall_ctlf in E. congruence.
        * eapply IH; eassumption. }
  intros H. apply G in H. exact H.
Qed.

Lemma reset_checkpoint_ctlf (s : st) : ctlf (reset_checkpoint s) = ctlf s.
Proof. unfold reset_checkpoint. destruct (cache s); reflexivity. Qed.
Lemma finish_read_ctlf (s : st) r d z o0 s' c o : finish_read s r d z o0 = (s', c, o) -> ctlf s' = ctlf s.
Proof. unfold finish_read. repeat bmg; intros H; invc H; reflexivity. Qed.
Lemma mark_cached_ctlf (s : st) r d : ctlf (mark_cached s r d) = ctlf s.
Proof. unfold mark_cached. destruct (get_bundler s r); reflexivity. Qed.

Ltac ctlf_tac :=
  repeat match goal with
         | H : dcall dev _ _ _ = _ |- _ => apply dcall_ctlf in H
         | H : call_pausables dev _ _ = _ |- _ => apply call_pausables_ctlf in H
         | H : finish_read _ _ _ _ _ = _ |- _ => apply finish_read_ctlf in H
         end.

Lemma exec_cmd_ctlf (s : st) m s' c o :
  exec_cmd dev s m = (s', c, o) -> (forall d, mcmd m <> CPause d) -> ctlf s' = ctlf s.
Proof.
  unfold RE.exec_cmd. destruct (mcmd m) eqn:Ec; try (intros _ Hn; exfalso; eapply Hn; reflexivity);
    repeat bmg; intros H; invc H; intros _; ctlf_tac; rewrite ?reset_checkpoint_ctlf; try reflexivity; try assumption;
      try (etransitivity; [|eassumption]; rewrite ?reset_checkpoint_ctlf; reflexivity); try congruence.
Qed.

(* a hard pause request on a running engine is visible as the lifecycle change running -> pausing *)
Lemma request_pause_running (s : st) s' e o :
  state s = Running -> request_pause s false = (s', e, o) -> exists o1, o = OState Running Pausing :: o1.
Proof.
  intros Hs. unfold request_pause. rewrite Hs, RE_C10.allowed_running_pausing. cbn [negb].
  change (pc (interrupt (set_deferred s false) CzPause)) with (pc s).
  match goal with |- context [set_state ?x Pausing] => remember x as s1 eqn:Es1 end.
  assert (Hst : state s1 = Running) by (subst s1; destruct (pc s) eqn:Epc; cbn; auto).
  unfold set_state. rewrite Hst, RE_C10.allowed_running_pausing.
  destruct (record_interruptions (set_state_raw s1 Pausing)) as [[s3 o2] ok] eqn:Er.
  destruct ok; intros H; invc H; eexists; reflexivity.
Qed.

Lemma process_pre_ctlf (s : st) (m : msg) :
  let s1 := match mobj m with Some d => set_seen s (insert_sorted d (seen s)) | None => s end in
  let s2 := match cache s1 with
            | Some l => if rewindable s1 && cacheable (mcmd m) then set_cache s1 (Some (l ++ [m])) else s1
            | None => s1
            end in
  ctlf s2 = ctlf s.
Proof. cbv zeta. repeat bmg; reflexivity. Qed.

(* ------------------------------------------------------------------ frames that replay a list of messages:
   the rewind plan pushed by resume(), and the tail of the suspender helper plan *)
Definition replaying (f : frame P) (ms : list msg) : Prop :=
  f = FList ms \/ exists h, f = FHelper h /\ (hph h = HRewind ms \/ (hph h = HRwBack /\ hrw h = ms)).

Lemma replaying_next f m ms v : replaying f (m :: ms) ->
  exists f', frame_resume presume f (Send v) = (Yielded m f', []) /\ replaying f' ms.
Proof.
  intros [->|(h & -> & [Hh|[Hh Hr]])].
  - eexists; split; [reflexivity | left; reflexivity].
  - cbn [frame_resume]. unfold helper_resume. rewrite Hh. cbn.
    eexists; split; [reflexivity|]. right. eexists; split; [reflexivity|]. left; reflexivity.
  - cbn [frame_resume]. unfold helper_resume. rewrite Hh, Hr. cbn.
    eexists; split; [reflexivity|]. right. eexists; split; [reflexivity|]. left; reflexivity.
Qed.

Lemma replaying_end f v : replaying f [] -> frame_resume presume f (Send v) = (Returned VNone, []).
Proof.
  intros [->|(h & -> & [Hh|[Hh Hr]])]; [reflexivity| |]; cbn [frame_resume]; unfold helper_resume.
  - rewrite Hh. reflexivity.
  - rewrite Hh, Hr. reflexivity.
Qed.

(* ------------------------------------------------------------------ single iterations of the loop *)
Definition al (s : st) : Prop := List.length (resps s) = List.length (plans s).

Lemma dstep_top_running (s : st) : state s = Running -> permit s = true -> dstep s CTop = inl (s, CBody, []).
Proof.
  intros Hs Hp. cbn [RE_Small.dstep]. rewrite Hs.
  change (rstate_eqb Running Pausing) with false. change (rstate_eqb Running Suspending) with false.
  cbn [orb andb]. rewrite Hp. reflexivity.
Qed.

Lemma dstep_body (s : st) : al s -> stashed s = None -> dstep s CBody = inr (set_pc s PcSleep0, [OTask WSleep0]).
Proof. intros Ha Hst. cbn [RE_Small.dstep]. unfold al in Ha. rewrite Ha, Nat.eqb_refl, Hst. reflexivity. Qed.

Lemma drive_continue fuel (s : st) (p : bool) r os :
  state s = Running -> permit s = true -> stashed s = None ->
  al (if p then set_resps s (r :: resps s) else s) ->
  drive presume plan_of dev (S (S (S fuel))) s (CContinue p r) os =
  (set_pc (if p then set_resps s (r :: resps s) else s) PcSleep0, os ++ [OTask WSleep0]).
Proof.
  intros Hs Hp Hst Ha. rewrite RE_Small.drive_dstep. cbn [RE_Small.dstep].
  set (s1 := if p then set_resps s (r :: resps s) else s) in *.
  assert (K : state s1 = Running /\ permit s1 = true /\ stashed s1 = None) by (subst s1; destruct p; simp_st; auto).
  destruct K as (A & B & C).
  rewrite RE_Small.drive_dstep, (dstep_top_running s1 A B). rewrite RE_Small.drive_dstep, (dstep_body s1 Ha C).
  rewrite !app_nil_r. reflexivity.
Qed.

Lemma dstep_after_yield (s : st) v rest top tl m f' :
  resps s = RVal v :: rest -> plans s = top :: tl -> exc_slot s = None -> stashed s = None ->
  frame_resume presume top (Send v) = (Yielded m f', []) ->
  dstep s CAfterSleep = inl (replace_top (set_resps s rest) f', CProcess m, []).
Proof.
  intros Hr Hp He Hst Hf. cbn [RE_Small.dstep]. rewrite Hr, Hp. simp_st. rewrite He. simp_st. rewrite Hst, Hf. reflexivity.
Qed.

Lemma dstep_after_return (s : st) v rest top t1 tl :
  resps s = RVal v :: rest -> plans s = top :: t1 :: tl -> exc_slot s = None -> stashed s = None ->
  frame_resume presume top (Send v) = (Returned VNone, []) ->
  dstep s CAfterSleep = inl (pop_plan (set_resps s rest), CContinue false (RVal VNone), []).
Proof.
  intros Hr Hp He Hst Hf. cbn [RE_Small.dstep]. rewrite Hr, Hp. simp_st. rewrite He. simp_st. rewrite Hst, Hf.
  simp_st. rewrite Hp. reflexivity.
Qed.

Lemma dstep_process (s : st) m :
  cacheable (mcmd m) = true ->
  exists s3 cr o3,
    dstep s (CProcess m) =
      match cr with
      | Done r => inl (s3, CContinue true r, [OMsg m] ++ o3 ++ match mcmd m with CUnknown => [] | _ => [OResp r] end)
      | Susp k => inr (set_pc s3 (PcCmd k), [OMsg m] ++ o3 ++ [OTask WFuture])
      end /\
    ctlf s3 = ctlf s /\ pm o3 = [].
Proof.
  intros Hc. destruct (cacheable_cmd _ Hc) as [Hnp Hns].
  cbn [RE_Small.dstep]. cbv zeta.
  pose proof (process_pre_ctlf s m) as E2. cbv zeta in E2.
  match type of E2 with ctlf ?x = _ => set (s2 := x) in * end. clearbody s2.
  assert (Ex : (match mcmd m with
                | CStartSuspender sid pre post => exec_start_suspender plan_of dev s2 sid pre post
                | _ => exec_cmd dev s2 m
                end) = exec_cmd dev s2 m).
  { destruct (mcmd m) eqn:Ec; try reflexivity. exfalso; eapply Hns; reflexivity. }
  rewrite Ex. destruct (exec_cmd dev s2 m) as [[s3 cr] o3] eqn:E.
  exists s3, cr, o3. split; [destruct cr; reflexivity|]. split.
  - apply exec_cmd_ctlf in E; [congruence | exact Hnp].
  - apply exec_cmd_rpq in E. clear -E. induction E as [|x o Hx _ IH]; [reflexivity|]. destruct x; cbn in *; try contradiction; exact IH.
Qed.

Lemma drive_prefix fuel (s : st) c os s' o :
  drive presume plan_of dev fuel s c os = (s', o) -> exists x, o = os ++ x.
Proof.
  intros H.
  refine (RE_Small.drive_inv P presume plan_of D dev (fun _ _ os1 => exists x, os1 = os ++ x) (fun _ o1 => exists x, o1 = os ++ x)
            _ _ _ fuel s c os s' o _ H).
  - intros s0 c0 os0 s1 c1 o1 [x ->] _. exists (x ++ o1). rewrite app_assoc. reflexivity.
  - intros s0 c0 os0 s1 o1 [x ->] _. exists (x ++ o1). rewrite app_assoc. reflexivity.
  - intros s0 c0 os0 [x ->]. exists (x ++ [OBad 1]). rewrite app_assoc. reflexivity.
  - exists []. rewrite app_nil_r. reflexivity.
Qed.

Lemma FUEL_S (s : st) : FUEL s = S (S (S (S (S (S (S (S (4 * List.length (plans s) + 8)))))))).
Proof. unfold FUEL. lia. Qed.

(* ------------------------------------------------------------------ the phases of a replay *)
Definition quiet_ctl (s : st) : Prop := stashed s = None /\ exc_slot s = None /\ must_cancel s = false.

Section Phases.
Variable B : list (frame P).       (* the plan stack under the replaying frame: the interrupted frame on top *)
Variable RB : list resp.           (* the responses pending for those frames *)
Hypothesis HL : List.length RB = List.length B.
Hypothesis HB : B <> [].

(* resume() has pushed the replaying frame; the task still waits for the run permit *)
Definition PhStart (ms : list msg) (s : st) : Prop :=
  state s = Paused /\ pc s = PcPaused /\ (exists f, replaying f ms /\ plans s = f :: B) /\
  (exists v, resps s = RVal v :: RB) /\ quiet_ctl s.
(* the replaying frame is on top and still has [ms] to yield; the task sleeps or waits for a command *)
Definition PhRun (ms : list msg) (s : st) : Prop :=
  state s = Running /\ permit s = true /\ (exists f, replaying f ms /\ plans s = f :: B) /\ quiet_ctl s /\
  ((pc s = PcSleep0 /\ exists v, resps s = RVal v :: RB) \/ (exists k, pc s = PcCmd k /\ resps s = RB)).
Definition PhI (ms : list msg) (s : st) : Prop := PhStart ms s \/ PhRun ms s.
(* the replaying frame has returned: the interrupted frame is on top again with its pending response *)
Definition PhFin (s : st) : Prop :=
  state s = Running /\ permit s = true /\ plans s = B /\ resps s = RB /\ quiet_ctl s /\ pc s = PcSleep0.

Lemma inert_PhStart ms (s : st) e s' o :
  RE_C10.inert e = true -> step presume plan_of dev s e = (s', o) -> PhStart ms s -> PhStart ms s' /\ o = [].
Proof.
  intros Hi H (A1 & A2 & A3 & A4 & A5 & A6 & A7).
  destruct (RE_C10.step_inert _ _ _ _ _ _ _ _ _ Hi H) as (-> & I1 & I2 & I3 & I4 & I5 & I6 & I7 & I8 & I9 & _).
  split; [|reflexivity]. unfold PhStart, quiet_ctl. rewrite I1, I2, I3, I4, I5, I6, I8. repeat split; assumption.
Qed.
Lemma inert_PhRun ms (s : st) e s' o :
  RE_C10.inert e = true -> step presume plan_of dev s e = (s', o) -> PhRun ms s -> PhRun ms s' /\ o = [].
Proof.
  intros Hi H (A1 & A2 & A3 & (A5 & A6 & A7) & A8).
  destruct (RE_C10.step_inert _ _ _ _ _ _ _ _ _ Hi H) as (-> & I1 & I2 & I3 & I4 & I5 & I6 & I7 & I8 & I9 & _).
  split; [|reflexivity]. unfold PhRun, quiet_ctl. rewrite I1, I2, I3, I4, I5, I6, I8. repeat split; auto.
Qed.
Lemma inert_PhFin (s : st) e s' o :
  RE_C10.inert e = true -> step presume plan_of dev s e = (s', o) -> PhFin s -> PhFin s' /\ o = [].
Proof.
  intros Hi H (A1 & A2 & A3 & A4 & (A5 & A6 & A7) & A8).
  destruct (RE_C10.step_inert _ _ _ _ _ _ _ _ _ Hi H) as (-> & I1 & I2 & I3 & I4 & I5 & I6 & I7 & I8 & I9 & _).
  split; [|reflexivity]. unfold PhFin, quiet_ctl. rewrite I1, I2, I3, I4, I5, I6, I8. repeat split; auto.
Qed.

(* the first task step after resume(): lifecycle paused -> running, then the loop's sleep(0) *)
Lemma task_PhStart ms (s : st) s' o :
  PhStart ms s -> task_step presume plan_of dev s = (s', o) ->
  (PhStart ms s' \/ PhRun ms s') /\ pm o = [].
Proof.
  intros (A1 & A2 & (f & Hf & A3) & (v & A4) & (A5 & A6 & A7)) H.
  unfold task_step in H. cbv zeta in H. rewrite A2, A7 in H. simp_st.
  destruct (permit s) eqn:Hp; cbn [negb] in H.
  2:{ invc H. split; [|reflexivity]. left. unfold PhStart, quiet_ctl. repeat split; eauto. }
  rewrite A1 in H. change (rstate_eqb Paused Paused) with true in H. cbv iota in H.
  unfold set_state in H. simp_st. rewrite A1, RE_Inv.allowed_paused_running in H.
  rewrite FUEL_S in H. rewrite RE_Small.drive_dstep in H.
  rewrite dstep_body in H.
  - invc H. split; [|reflexivity]. right. unfold PhRun, quiet_ctl. simp_st. repeat split; eauto.
  - unfold al. simp_st. rewrite A3, A4. cbn [List.length]. rewrite HL. reflexivity.
  - simp_st. exact A5.
Qed.

(* a task step while the replaying frame still has messages: exactly the next message is executed *)
Lemma task_PhRun_sleep m ms (s : st) s' o :
  PhRun (m :: ms) s -> pc s = PcSleep0 -> cacheable (mcmd m) = true ->
  task_step presume plan_of dev s = (s', o) -> okobs o ->
  PhRun ms s' /\ pm o = [OMsg m].
Proof.
  intros (A1 & A2 & (f & Hf & A3) & (A5 & A6 & A7) & A8) Hpc Hc H Hok.
  destruct A8 as [(_ & v & A4)|(k & Hk & _)]; [|congruence].
  unfold task_step in H. cbv zeta in H. rewrite Hpc, A7 in H.
  set (s0 := set_must_cancel s false) in *.
  destruct (replaying_next _ _ _ v Hf) as (f' & Ef & Hf').
  rewrite FUEL_S in H. rewrite RE_Small.drive_dstep in H.
  rewrite (dstep_after_yield s0 v RB f B m f') in H; try assumption.
  set (s1 := replace_top (set_resps s0 RB) f') in *.
  rewrite RE_Small.drive_dstep in H.
  destruct (dstep_process s1 m Hc) as (s3 & cr & o3 & Ed & Ec & Eo). rewrite Ed in H.
  apply ctlf_fields in Ec. destruct Ec as (C1 & C2 & C3 & C4 & C5 & C6 & C7 & C8). subst s1 s0. simp_st.
  destruct cr as [r|k].
  - rewrite drive_continue in H.
    + inversion H; clear H; subst s' o.
      assert (Hr : exists v', r = RVal v').
      { unfold okobs in Hok. rewrite Forall_forall in Hok.
        assert (Hm : okob (OMsg m)) by (apply Hok; cbn [In]; repeat rewrite in_app_iff; cbn [In]; auto 10). cbn in Hm.
        match type of Hok with forall x, In x ?L -> _ => assert (Hin : In (OResp r) L) end.
        { destruct (mcmd m) eqn:Em; try (cbn [In]; repeat rewrite in_app_iff; cbn [In]; auto 10; fail).
          all: exfalso; apply Hm; reflexivity. }
        specialize (Hok _ Hin). destruct r; [eexists; reflexivity | contradiction Hok]. }
      destruct Hr as [v' ->]. split.
      * unfold PhRun, quiet_ctl. simp_st. rewrite C1, C4, C5, C7, C8, C3, A3. cbn [List.tl]. repeat split; eauto.
        left. split; [reflexivity|]. rewrite C6. eauto.
      * cbn [app]. rewrite pm_cons_msg, !pm_app, Eo. destruct (mcmd m); reflexivity.
    + congruence.
    + congruence.
    + congruence.
    + unfold al. simp_st. rewrite C6, C5, A3. cbn [List.length List.tl]. rewrite HL. reflexivity.
  - inversion H; clear H; subst s' o. split.
    + unfold PhRun, quiet_ctl. simp_st. rewrite C1, C4, C5, C7, C8, C3, A3. cbn [List.tl]. repeat split; eauto.
    + cbn [app]. rewrite pm_cons_msg, !pm_app, Eo. reflexivity.
Qed.

(* a task step that completes a suspended command of the replay *)
Lemma task_PhRun_cmd ms (s : st) k s' o :
  PhRun ms s -> pc s = PcCmd k ->
  task_step presume plan_of dev s = (s', o) -> okobs o ->
  PhRun ms s' /\ pm o = [].
Proof.
  intros (A1 & A2 & (f & Hf & A3) & (A5 & A6 & A7) & A8) Hpc H Hok.
  destruct A8 as [(Hk & _)|(k' & Hk & A4)]; [congruence|].
  unfold task_step in H. cbv zeta in H. rewrite Hpc, A7 in H.
  set (s0 := set_must_cancel s false) in *.
  assert (K : forall (s1 : st) r o1, ctlf s1 = ctlf s0 -> pm o1 = [] ->
              drive presume plan_of dev (FUEL s1) s1 (CContinue true r) (o1 ++ [OResp r]) = (s', o) ->
              PhRun ms s' /\ pm o = []).
  { intros s1 r o1 Ec Eo Hd. apply ctlf_fields in Ec. destruct Ec as (C1 & C2 & C3 & C4 & C5 & C6 & C7 & C8).
    subst s0. simp_st. rewrite FUEL_S in Hd. rewrite drive_continue in Hd; try congruence.
    - inversion Hd; clear Hd; subst s' o.
      assert (Hr : exists v', r = RVal v').
      { unfold okobs in Hok. rewrite Forall_forall in Hok.
        assert (Hx : okob (OResp r)) by (apply Hok; repeat rewrite in_app_iff; cbn [In]; auto 10).
        destruct r; [eexists; reflexivity | contradiction Hx]. }
      destruct Hr as [v' ->]. split.
      + unfold PhRun, quiet_ctl. simp_st. rewrite C1, C4, C5, C7, C8, C3. repeat split; eauto.
        left. split; [reflexivity|]. rewrite C6, A4. eauto.
      + rewrite !pm_app, Eo. reflexivity.
    - unfold al. simp_st. rewrite C6, C5, A3, A4. cbn [List.length]. rewrite HL. reflexivity. }
  destruct k as [| |sids|fs|rn dd z].
  - eapply (K s0 (RVal VNone) []); [reflexivity | reflexivity | exact H].
  - (* the grace sleep of a deferred pause ends: a hard pause request, visible as running -> pausing *)
    destruct (request_pause s0 false) as [[s1 e] o1] eqn:Er.
    apply request_pause_running in Er; [|subst s0; simp_st; exact A1]. destruct Er as [o2 ->].
    apply drive_prefix in H. destruct H as [x ->].
    unfold okobs in Hok. rewrite Forall_forall in Hok.
    assert (Hx : okob (OState Running Pausing)) by (apply Hok; cbn [app In]; auto). discriminate Hx.
  - eapply (K s0 (RVal (VBool true)) (if all_resolved s0 sids then [] else [OBad 6])); [reflexivity | destruct (all_resolved s0 sids); reflexivity | exact H].
  - eapply (K s0 (RVal (VFuts (List.length fs))) (if all_released s0 fs then [] else [OBad 7])); [reflexivity | destruct (all_released s0 fs); reflexivity | exact H].
  - destruct (finish_read (mark_cached s0 rn dd) rn dd z []) as [[s1 cr] o1] eqn:Efr.
    pose proof (finish_read_obs _ _ _ _ _ _ _ _ _ _ Efr) as ->. apply finish_read_ctlf in Efr.
    rewrite mark_cached_ctlf in Efr. eapply (K s1 _ []); [exact Efr | reflexivity | exact H].
Qed.

(* the replaying frame has nothing left: it returns, is popped, and the loop sleeps once more *)
Lemma task_PhRun_end (s : st) s' o :
  PhRun [] s -> pc s = PcSleep0 ->
  task_step presume plan_of dev s = (s', o) ->
  PhFin s' /\ pm o = [].
Proof.
  intros (A1 & A2 & (f & Hf & A3) & (A5 & A6 & A7) & A8) Hpc H.
  destruct A8 as [(_ & v & A4)|(k & Hk & _)]; [|congruence].
  unfold task_step in H. cbv zeta in H. rewrite Hpc, A7 in H.
  set (s0 := set_must_cancel s false) in *.
  destruct B as [|t1 tl] eqn:EB; [contradiction HB; reflexivity|].
  rewrite FUEL_S in H. rewrite RE_Small.drive_dstep in H.
  rewrite (dstep_after_return s0 v RB f t1 tl) in H; try assumption; [|apply replaying_end; exact Hf].
  rewrite drive_continue in H; subst s0; simp_st; try assumption.
  - inversion H; clear H; subst s' o. split; [|reflexivity].
    unfold PhFin, quiet_ctl. simp_st. rewrite A3. cbn [List.tl]. repeat split; auto.
  - unfold al. simp_st. rewrite A3. cbn [List.tl]. exact HL.
Qed.

(* one event of a calm window *)
Lemma step_phase ms (s : st) e s' o :
  PhI ms s -> Forall (fun x => cacheable (mcmd x) = true) ms ->
  RE_C10.cont_ev e = true -> step presume plan_of dev s e = (s', o) -> okobs o ->
  (PhI ms s' /\ pm o = []) \/
  (exists m ms', ms = m :: ms' /\ PhI ms' s' /\ pm o = [OMsg m]) \/
  (ms = [] /\ PhFin s' /\ pm o = []).
Proof.
  intros HI Hc He H Hok. unfold RE_C10.cont_ev in He.
  destruct (RE_C10.inert e) eqn:Hi.
  { destruct HI as [HI|HI].
    - destruct (inert_PhStart _ _ _ _ _ Hi H HI) as [K ->]. left. split; [left; exact K | reflexivity].
    - destruct (inert_PhRun _ _ _ _ _ Hi H HI) as [K ->]. left. split; [right; exact K | reflexivity]. }
  destruct e; try discriminate He. cbn [step] in H.
  destruct HI as [HI|HI].
  - left. eapply task_PhStart; eassumption.
  - pose proof HI as (_ & _ & _ & _ & A8). destruct A8 as [(Hpc & _)|(k & Hpc & _)].
    + destruct ms as [|m ms'].
      * right; right. split; [reflexivity|]. eapply task_PhRun_end; eassumption.
      * right; left. exists m, ms'. split; [reflexivity|]. inversion Hc; subst.
        destruct (task_PhRun_sleep m ms' s s' o HI Hpc H2 H Hok) as [K1 K2]. split; [right; exact K1 | exact K2].
    + left. destruct (task_PhRun_cmd ms s k s' o HI Hpc H Hok) as [K1 K2]. split; [right; exact K1 | exact K2].
Qed.

(* a calm window: either the replay is still under way and exactly a prefix of the list has been executed, or the
   window reaches the point where the replaying frame has returned, having executed exactly the list *)
Lemma replay_window w : forall ms (s : st),
  PhI ms s -> Forall (fun x => cacheable (mcmd x) = true) ms ->
  Forall (fun e => RE_C10.cont_ev e = true) w -> okobs (snd (run presume plan_of dev s w)) ->
  (exists ms', PhI ms' (fst (run presume plan_of dev s w)) /\
               map OMsg ms = pm (snd (run presume plan_of dev s w)) ++ map OMsg ms') \/
  (exists w1 w2, w = w1 ++ w2 /\ PhFin (fst (run presume plan_of dev s w1)) /\
                 pm (snd (run presume plan_of dev s w1)) = map OMsg ms).
Proof.
  induction w as [|e w IH]; intros ms s HI Hc Hw Hok.
  - left. exists ms. split; [exact HI | reflexivity].
  - inversion Hw as [|e0 w0 He Hw']; subst. cbn [run] in *.
    destruct (step presume plan_of dev s e) as [s1 o1] eqn:Es.
    destruct (run presume plan_of dev s1 w) as [s2 o2] eqn:Er. cbn [fst snd] in *.
    apply okobs_app in Hok. destruct Hok as [Hok1 Hok2].
    destruct (step_phase ms s e s1 o1 HI Hc He Es Hok1) as [(K1 & K2)|[(m & ms' & -> & K1 & K2)|(-> & K1 & K2)]].
    + specialize (IH ms s1 K1 Hc Hw'). rewrite Er in IH. cbn [fst snd] in IH. specialize (IH Hok2).
      destruct IH as [(ms' & I1 & I2)|(w1 & w2 & -> & I1 & I2)].
      * left. exists ms'. split; [exact I1|]. rewrite pm_app, K2. exact I2.
      * right. exists (e :: w1), w2. split; [reflexivity|]. cbn [run]. rewrite Es.
        destruct (run presume plan_of dev s1 w1) as [s3 o3]. cbn [fst snd] in *. split; [exact I1|].
        rewrite pm_app, K2. exact I2.
    + inversion Hc; subst. specialize (IH ms' s1 K1 H2 Hw'). rewrite Er in IH. cbn [fst snd] in IH. specialize (IH Hok2).
      destruct IH as [(ms'' & I1 & I2)|(w1 & w2 & -> & I1 & I2)].
      * left. exists ms''. split; [exact I1|]. rewrite pm_app, K2. cbn [map app]. rewrite I2. reflexivity.
      * right. exists (e :: w1), w2. split; [reflexivity|]. cbn [run]. rewrite Es.
        destruct (run presume plan_of dev s1 w1) as [s3 o3]. cbn [fst snd] in *. split; [exact I1|].
        rewrite pm_app, K2, I2. reflexivity.
    + right. exists [e], w. split; [reflexivity|]. cbn [run]. rewrite Es. cbn [fst snd]. split; [exact K1|].
      rewrite app_nil_r. exact K2.
Qed.
End Phases.

(* ------------------------------------------------------------------ then the plan continues where it was interrupted *)
Definition resp_input (r : resp) : input := match r with RVal v => Send v | RExn e => Throw e end.
(* what the interrupted frame is handed, and (if it answers with a message) the message executed next *)
Definition cont_pm (top : frame P) (r : resp) : list obs :=
  pm (snd (frame_resume presume top (resp_input r))) ++
  match fst (frame_resume presume top (resp_input r)) with Yielded m _ => [OMsg m] | _ => [] end.

Lemma as_post_obs (s2 : st) thr ou po :
  snd (as_post P D s2 thr ou po) = po /\
  (forall m f', ou = Yielded m f' -> snd (fst (as_post P D s2 thr ou po)) = CProcess m).
Proof. split; [unfold as_post; repeat bmg; reflexivity | intros m f' ->; reflexivity]. Qed.

Lemma dstep_process_head (s : st) m :
  match dstep s (CProcess m) with
  | inl (_, _, o) => exists x, o = OMsg m :: x
  | inr (_, o) => exists x, o = OMsg m :: x
  end.
Proof.
  cbn [RE_Small.dstep]. cbv zeta.
  match goal with |- context [match ?X with (_, _) => _ end] =>
    match type of X with (_ * cres * _)%type => destruct X as [[s3 cr] o3] end end.
  destruct cr; eexists; reflexivity.
Qed.

Lemma task_PhFin B RB top tl r rest (s : st) s' o :
  B = top :: tl -> RB = r :: rest -> PhFin B RB s ->
  task_step presume plan_of dev s = (s', o) -> exists o', pm o = cont_pm top r ++ o'.
Proof.
  intros -> -> (A1 & A2 & A3 & A4 & (A5 & A6 & A7) & A8) H.
  unfold task_step in H. cbv zeta in H. rewrite A8, A7 in H.
  set (s0 := set_must_cancel s false) in *.
  rewrite FUEL_S in H. rewrite RE_Small.drive_dstep in H.
  rewrite (dstep_aftersleep _ presume plan_of _ dev s0 r rest top tl A4 A3) in H. cbv zeta in H.
  assert (E1 : as_state P D s0 rest = set_resps s0 rest) by (unfold as_state; cbv zeta; subst s0; simp_st; rewrite A6; reflexivity).
  rewrite E1 in H.
  assert (E2 : as_input P D (set_resps s0 rest) r = resp_input r) by (unfold as_input; subst s0; simp_st; rewrite A5; destruct r; reflexivity).
  rewrite E2 in H. unfold cont_pm.
  destruct (frame_resume presume top (resp_input r)) as [ou po] eqn:Ef. cbn [fst snd].
  destruct (as_post P D (set_resps s0 rest) (is_throw (resp_input r)) ou po) as [[s4 c4] o4] eqn:Ea.
  destruct (as_post_obs (set_resps s0 rest) (is_throw (resp_input r)) ou po) as [Eo Ec]. rewrite Ea in Eo, Ec. cbn [fst snd] in Eo, Ec. subst o4.
  destruct ou as [m f'|v'|e'].
  - specialize (Ec m f' eq_refl). subst c4. rewrite RE_Small.drive_dstep in H.
    pose proof (dstep_process_head s4 m) as Hh.
    destruct (dstep s4 (CProcess m)) as [[[s5 c5] o5]|[s5 o5]]; destruct Hh as [x ->].
    + apply drive_prefix in H. destruct H as [y ->]. exists (pm x ++ pm y). rewrite !pm_app. cbn [app pm filter is_pm].
      rewrite <- !app_assoc. reflexivity.
    + inversion H; subst. exists (pm x). rewrite !pm_app. cbn [app pm filter is_pm]. rewrite <- !app_assoc. reflexivity.
  - apply drive_prefix in H. destruct H as [y ->]. exists (pm y). rewrite !pm_app. cbn [app pm filter is_pm]. rewrite app_nil_r. reflexivity.
  - apply drive_prefix in H. destruct H as [y ->]. exists (pm y). rewrite !pm_app. cbn [app pm filter is_pm]. rewrite app_nil_r. reflexivity.
Qed.

Lemma fin_window B RB top tl r rest w : forall (s : st),
  B = top :: tl -> RB = r :: rest -> PhFin B RB s -> Forall (fun e => RE_C10.cont_ev e = true) w ->
  pm (snd (run presume plan_of dev s w)) = [] \/ exists o', pm (snd (run presume plan_of dev s w)) = cont_pm top r ++ o'.
Proof.
  induction w as [|e w IH]; intros s EB ER HF Hw; [left; reflexivity|].
  inversion Hw as [|e0 w0 He Hw']; subst e0 w0. cbn [run].
  destruct (step presume plan_of dev s e) as [s1 o1] eqn:Es.
  destruct (run presume plan_of dev s1 w) as [s2 o2] eqn:Er. cbn [fst snd].
  unfold RE_C10.cont_ev in He. destruct (RE_C10.inert e) eqn:Hi.
  - destruct (inert_PhFin B RB _ _ _ _ Hi Es HF) as [K ->]. specialize (IH s1 EB ER K Hw'). rewrite Er in IH. exact IH.
  - destruct e; try discriminate He. cbn [step] in Es.
    destruct (task_PhFin B RB top tl r rest s s1 o1 EB ER HF Es) as [o' Eo]. right. exists (o' ++ pm o2).
    rewrite pm_app, Eo, app_assoc. reflexivity.
Qed.

(* ------------------------------------------------------------------ resume() *)
Lemma dq_pm o : Forall dq o -> pm o = [].
Proof. induction 1 as [|x o Hx _ IH]; [reflexivity|]. destruct x; cbn in *; try contradiction; exact IH. Qed.

Lemma resume_ctl (s : st) s' o :
  state s = Paused -> step presume plan_of dev s (EvMain AResume) = (s', o) ->
  pc s' = pc s /\ stashed s' = stashed s /\ exc_slot s' = exc_slot s /\ must_cancel s' = must_cancel s /\ pm o = [].
Proof.
  intros Hs. cbn [step]. rewrite Hs. change (rstate_eqb Paused Paused) with true. cbn [negb].
  match goal with |- context [record_interruptions ?sx] => set (s1 := sx) end.
  destruct (record_interruptions s1) as [[s2 o2] ok] eqn:E2.
  pose proof E2 as Q2. apply record_interruptions_dq in Q2.
  assert (F2 : pc s2 = pc s /\ stashed s2 = stashed s /\ exc_slot s2 = exc_slot s /\ must_cancel s2 = must_cancel s).
  { unfold record_interruptions in E2. destruct (record_intr_list (bundlers s1)) as [[bs os] ok0]. invc E2. subst s1. simp_st. auto. }
  destruct F2 as (F21 & F22 & F23 & F24).
  destruct ok; cbn [negb].
  2:{ intros H; invc H. simp_st. repeat split; try assumption. apply dq_pm; exact Q2. }
  destruct (cache s2) eqn:Ec.
  2:{ intros H; invc H. simp_st. repeat split; try assumption. apply dq_pm; exact Q2. }
  destruct (rewind s2) as [s3 l0] eqn:E3.
  assert (F3 : pc s3 = pc s2 /\ stashed s3 = stashed s2 /\ exc_slot s3 = exc_slot s2 /\ must_cancel s3 = must_cancel s2).
  { unfold rewind in E3. rewrite Ec in E3. invc E3. destruct (Nat.eqb _ _); simp_st; auto. }
  destruct F3 as (F31 & F32 & F33 & F34).
  destruct (call_pausables dev (push_frame s3 (FList l0)) MResume) as [[s5 e] o5] eqn:E5.
  pose proof E5 as Q5. apply call_pausables_dq in Q5. apply call_pausables_ctlf in E5. apply ctlf_fields in E5. simp_st.
  destruct E5 as (_ & C2 & C3 & _ & _ & _ & C7 & C8).
  destruct e; intros H; invc H; simp_st; (repeat split; try congruence); rewrite pm_app, (dq_pm _ Q2), (dq_pm _ Q5); reflexivity.
Qed.

End C04.

(* ================================================================== whole schedules *)
Lemma firstn_len_app {A} (l x : list A) : firstn (List.length l) (l ++ x) = l.
Proof. induction l as [|a l IH]; cbn; [reflexivity | rewrite IH; reflexivity]. Qed.
Lemma firstn_app_le {A} (a b : list A) : firstn (List.length a) (a ++ b) = a.
Proof. apply firstn_len_app. Qed.

Section E2E.
Variable P : Type.
Variable presume : P -> input -> outcome P.
Variable plan_of : nat -> P.
Variable D : Type.
Variable dev : D -> nat -> devmeth -> D * devres.
Variables (d : D) (paus stag : list nat) (rec : bool).
Notation st := (st P D).

(* only cacheable commands are ever in the engine's cache *)
Theorem cache_cacheable evs l :
  cache (fst (run presume plan_of dev (init d paus stag rec) evs)) = Some l ->
  Forall (fun x => cacheable (mcmd x) = true) l.
Proof. rewrite (cache_is_trace_spec P presume plan_of D dev d paus stag rec evs). apply spec_cache_cacheable. Qed.

(* the window lemma from an arbitrary state whose top frame replays [l] *)
Theorem replay_then_continue (B : list (frame P)) (RB : list resp) (s : st) l w :
  List.length RB = List.length B -> B <> [] ->
  PhI P D B RB l s -> Forall (fun x => cacheable (mcmd x) = true) l ->
  Forall (fun e => RE_C10.cont_ev e = true) w ->
  okobs (snd (run presume plan_of dev s w)) ->
  (exists ms', map OMsg l = pm (snd (run presume plan_of dev s w)) ++ map OMsg ms') \/
  (exists o', pm (snd (run presume plan_of dev s w)) = map OMsg l ++ o' /\
     (o' = [] \/ exists top tl r rest o'', B = top :: tl /\ RB = r :: rest /\ o' = cont_pm P presume top r ++ o'')).
Proof.
  intros HL HB HI Hc Hw Hok.
  destruct (replay_window P presume plan_of D dev B RB HL HB w l s HI Hc Hw Hok) as [(ms' & _ & E)|(w1 & w2 & -> & HF & E)].
  - left. exists ms'. exact E.
  - right. rewrite RE_Small.run_app.
    destruct (run presume plan_of dev s w1) as [s3 o1] eqn:E1. cbn [fst snd] in *.
    destruct (run presume plan_of dev s3 w2) as [s4 o2] eqn:E2. cbn [snd].
    exists (pm o2). rewrite pm_app, E. split; [reflexivity|].
    destruct B as [|top tl]; [contradiction HB; reflexivity|].
    destruct RB as [|r rest]; [discriminate HL|].
    apply Forall_app in Hw. destruct Hw as [_ Hw2].
    destruct (fin_window P presume plan_of D dev (top :: tl) (r :: rest) top tl r rest w2 s3 eq_refl eq_refl HF Hw2) as [K|[o' K]];
      rewrite E2 in K; cbn [snd] in K.
    + left. exact K.
    + right. exists top, tl, r, rest, o'. repeat split. exact K.
Qed.

(* END TO END, resume(): a schedule reaches a paused engine whose cache is [l]; resume(); then any window of task steps
   and events that do not interrupt (permit, releases, successful statuses, ...) in which nothing fails: the messages and
   plan inputs observed are a prefix of [l], or exactly [l] followed by nothing, or by the interrupted frame being handed
   its pending response and (if it yields) its next message *)
Theorem resume_replays_e2e evs1 w l :
  let s0 := init d paus stag rec in
  let s1 := fst (run presume plan_of dev s0 evs1) in
  let s2 := fst (step presume plan_of dev s1 (EvMain AResume)) in
  let ow := snd (run presume plan_of dev s2 w) in
  ~ In (OBad 1) (snd (run presume plan_of dev s0 evs1)) ->
  state s1 = Paused -> cache s1 = Some l -> stashed s1 = None -> exc_slot s1 = None ->
  Forall (fun e => RE_C10.cont_ev e = true) w -> okobs ow ->
  pm (snd (step presume plan_of dev s1 (EvMain AResume))) = [] /\
  ((exists ms', map OMsg l = pm ow ++ map OMsg ms') \/
   (exists o', pm ow = map OMsg l ++ o' /\
      (o' = [] \/ exists top tl r rest o'',
                    plans s1 = top :: tl /\ resps s1 = r :: rest /\ o' = cont_pm P presume top r ++ o''))).
Proof.
  cbv zeta. intros Hnb Hs Hc Hst Hex Hw Hok.
  set (s1 := fst (run presume plan_of dev (init d paus stag rec) evs1)) in *.
  destruct (RE_Inv.paused_is_resumable P presume plan_of D dev d paus stag rec evs1 Hnb Hs) as [_ Hpc].
  destruct (RE_Inv.paused_pc_checkpoint P presume plan_of D dev d paus stag rec evs1 Hnb Hpc) as [Hmc _].
  pose proof (RE_Inv.stacks_aligned P presume plan_of D dev d paus stag rec evs1 Hnb) as Ha.
  unfold RE_Inv.stack_a in Ha. fold s1 in Hpc, Hmc, Ha. rewrite Hpc in Ha. destruct Ha as [Ha1 Ha2].
  pose proof (reachable_bintr_ok P presume plan_of D dev d paus stag rec evs1) as Hb. fold s1 in Hb.
  destruct (step presume plan_of dev s1 (EvMain AResume)) as [s2 o2] eqn:Es. cbn [fst snd] in *.
  destruct (resume_pushes_cache P presume plan_of D dev s1 l s2 o2 Hs Hc Hb Es) as (R1 & R2 & _ & _ & R5).
  destruct (resume_ctl P presume plan_of D dev s1 s2 o2 Hs Es) as (C1 & C2 & C3 & C4 & C5).
  split; [exact C5|].
  apply (replay_then_continue (plans s1) (resps s1) s2 l w Ha1).
  - intros E. rewrite E in Ha2. cbn in Ha2. lia.
  - left. unfold PhStart, quiet_ctl. rewrite R5, C1, C2, C3, C4, R1, R2. repeat split; auto.
    + exists (FList l). split; [left; reflexivity | reflexivity].
    + exists VNone. reflexivity.
  - eapply cache_cacheable. exact Hc.
  - exact Hw.
  - exact Hok.
Qed.

(* ... in terms of the executed messages alone (the shape of C04_full): within the window the executed messages are a
   prefix of [l]; once |l| messages have been executed they are exactly [l], whatever the schedule does afterwards *)
Corollary resume_replays_msgs evs1 w rest l :
  let s0 := init d paus stag rec in
  let s1 := fst (run presume plan_of dev s0 evs1) in
  let s2 := fst (step presume plan_of dev s1 (EvMain AResume)) in
  let ow := snd (run presume plan_of dev s2 w) in
  ~ In (OBad 1) (snd (run presume plan_of dev s0 evs1)) ->
  state s1 = Paused -> cache s1 = Some l -> stashed s1 = None -> exc_slot s1 = None ->
  Forall (fun e => RE_C10.cont_ev e = true) w -> okobs ow ->
  firstn (List.length l) (msgs ow) = firstn (List.length (msgs ow)) l /\
  (List.length l <= List.length (msgs ow) ->
   firstn (List.length l) (msgs (snd (run presume plan_of dev s1 (EvMain AResume :: w ++ rest)))) = l).
Proof.
  cbv zeta. intros Hnb Hs Hc Hst Hex Hw Hok.
  destruct (resume_replays_e2e evs1 w l Hnb Hs Hc Hst Hex Hw Hok) as [K0 K]. cbv zeta in K0, K.
  set (s1 := fst (run presume plan_of dev (init d paus stag rec) evs1)) in *.
  cbn [run]. destruct (step presume plan_of dev s1 (EvMain AResume)) as [s2 o2] eqn:Es. cbn [fst snd] in *.
  rewrite RE_Small.run_app. destruct (run presume plan_of dev s2 w) as [s3 ow] eqn:Ew. cbn [fst snd] in *.
  destruct (run presume plan_of dev s3 rest) as [s4 orest]. cbn [snd].
  assert (M0 : msgs o2 = []) by (rewrite <- msgs_pm, K0; reflexivity).
  rewrite !msgs_app, M0. cbn [app].
  destruct K as [(ms' & E)|(o' & E & _)].
  - apply (f_equal msgs) in E. rewrite msgs_app, msgs_pm, !msgs_map in E. split.
    + rewrite E. rewrite app_length. rewrite firstn_all2 by lia. rewrite firstn_len_app. reflexivity.
    + intros Hle. rewrite E in Hle. rewrite app_length in Hle.
      assert (ms' = []) by (destruct ms'; [reflexivity | cbn in Hle; lia]). subst ms'. rewrite app_nil_r in E.
      rewrite <- E. apply firstn_len_app.
  - apply (f_equal msgs) in E. rewrite msgs_pm, msgs_app, msgs_map in E. rewrite E. split.
    + rewrite firstn_len_app. rewrite app_length. rewrite firstn_all2 by lia. reflexivity.
    + intros _. rewrite <- app_assoc. apply firstn_len_app.
Qed.
End E2E.

(* IMPLICIT CHECKPOINTS, end to end: if the trace of a run contains a checkpointing item (see [ckpt_item]), every message in
   the engine's cache at the end of the run -- what a resume() at that point replays -- was executed after that item *)
Theorem implicit_checkpoint_e2e (P : Type) (presume : P -> input -> outcome P) (plan_of : nat -> P) (D : Type)
  (dev : D -> nat -> devmeth -> D * devres) (d : D) (paus stag : list nat) (rec : bool) (evs : list event) t1 it t2 l :
  trace P presume plan_of D dev (init d paus stag rec) evs = t1 ++ it :: t2 ->
  ckpt_item (mon_run mon0 t1) it = true ->
  cache (fst (run presume plan_of dev (init d paus stag rec) evs)) = Some l ->
  Forall (fun y => In (TObs (OMsg y)) t2) l.
Proof.
  intros E Hc Hl. rewrite (cache_is_trace_spec P presume plan_of D dev d paus stag rec evs), E in Hl.
  eapply spec_cache_after_checkpoint; eassumption.
Qed.

(* the tail of the suspender helper plan (after the release: post-plan done, rewindable restored) replays the messages
   captured by _start_suspender in the same way *)
Theorem suspender_tail_replays (P : Type) (presume : P -> input -> outcome P) (plan_of : nat -> P) (D : Type)
  (dev : D -> nat -> devmeth -> D * devres) (s : st P D) h B RB v w :
  state s = Running -> permit s = true -> pc s = PcSleep0 -> plans s = FHelper h :: B -> hph h = HRwBack ->
  resps s = RVal v :: RB -> stashed s = None -> exc_slot s = None -> must_cancel s = false ->
  List.length RB = List.length B -> B <> [] ->
  Forall (fun x => cacheable (mcmd x) = true) (hrw h) ->
  Forall (fun e => RE_C10.cont_ev e = true) w ->
  okobs (snd (run presume plan_of dev s w)) ->
  (exists ms', map OMsg (hrw h) = pm (snd (run presume plan_of dev s w)) ++ map OMsg ms') \/
  (exists o', pm (snd (run presume plan_of dev s w)) = map OMsg (hrw h) ++ o' /\
     (o' = [] \/ exists top tl r rest o'', B = top :: tl /\ RB = r :: rest /\ o' = cont_pm P presume top r ++ o'')).
Proof.
  intros Hs Hp Hpc Hpl Hh Hr Hst Hex Hmc HL HB Hc Hw Hok.
  apply (replay_then_continue P presume plan_of D dev B RB s (hrw h) w HL HB); try assumption.
  right. unfold PhRun, quiet_ctl. repeat split; try assumption.
  - exists (FHelper h). split; [|exact Hpl]. right. exists h. split; [reflexivity|]. right. split; [exact Hh | reflexivity].
  - left. split; [exact Hpc|]. exists v. exact Hr.
Qed.
