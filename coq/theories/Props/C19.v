(* C19 - callbacks see every document once, in order; errors follow policy.
   Model and observations as for C18 (Engine/Dispatcher.v).  The property has three parts:
   (1) who is invoked for ONE document and in which order, under each policy      -> C19_delivery_policy
       (registered callables = live subscriptions, in subscription order: C18_live_subscriptions
        + C19_subscription_order; that link needs C18's finding class excluded)
   (2) what a raising callback does to the CALL under each policy                 -> C19_calls_follow_policy
   (3) with exceptions ignored nothing but the raise itself differs               -> C19_ignored_exceptions_change_nothing
   Parts (1)-(3) hold for every history, including those of C18's class; only (2) excludes class C19-a. *)
From Coq Require Import Sorted.
From BV Require Import Base.Prelude Engine.Dispatcher Proofs.Dispatcher Proofs.DispatchPolicy.

(* (1) For every dispatcher state and document: every callable registered for the document's kind WHEN THE
   DOCUMENT IS EMITTED is invoked exactly once, in registration (cid) order - whatever the callbacks do to
   the subscriptions while it is being delivered (unsubscribe themselves or others, subscribe new callables);
   a raising one does not stop the others when exceptions are ignored; otherwise delivery stops right after
   the first raising one and the emitting command raises that callable's exception. *)
Theorem C19_delivery_policy : forall d dc,
  let fs := registered (reg d) (doc_sig dc) in
  let calls := snd (fst (process d dc)) in let x := snd (process d dc) in
  (ign (reg d) = true -> calls = calls_of dc fs /\ x = None) /\
  (ign (reg d) = false -> (forall f, In f fs -> raises_on f dc = false) -> calls = calls_of dc fs /\ x = None) /\
  (ign (reg d) = false -> forall pre f post, fs = pre ++ f :: post ->
     (forall g, In g pre -> raises_on g dc = false) -> raises_on f dc = true ->
     calls = calls_of dc (pre ++ [f]) /\ x = Some (ExCb (fn_id f))).
Proof. exact delivery_policy. Qed.
Print Assumptions C19_delivery_policy.

(* ... and the registered callables are the live subscriptions asking for that kind, in the order the
   subscriptions were made: outside C18-a the model's whole observation equals the specification's
   (C18_live_subscriptions), whose sp_process delivers along the live list, and the live list is always
   in subscription order (tokens strictly increase along it). *)
Theorem C19_subscription_order : forall h,
  (finding_C18_a h = false -> run_hist h = spec_hist h) /\
  let s := fst (sp_run_from spec0 h) in
  StronglySorted lt (map s_tok (live s)) /\ (forall x, In x (live s) -> s_tok x < next_tok s).
Proof. intros h. split; [apply live_ok | apply (spec_subscription_order h spec0 ordered0)]. Qed.
Print Assumptions C19_subscription_order.

(* (2) For every history outside class C19-a, every call obeys the policy in force when it is made
   ([policy_ok_from] walks the history, tracking SetIgnore, and checks [call_ok] on each call's observation):
   - exceptions ignored: the call never ends with a callback's exception;
   - exceptions not ignored: no callable raises until one emission is cut short by a raising callable; then
     the call raises exactly that callable's exception, no later plan message emits anything, and exactly one
     more document follows: the stop document of that same run with exit status fail, delivered to everyone. *)
Theorem C19_calls_follow_policy : forall h,
  finding_C19_a h = false -> policy_ok_from false h (run_hist h) = true.
Proof. exact calls_follow_policy. Qed.
Print Assumptions C19_calls_follow_policy.

(* (3) With exceptions ignored from the start and never un-ignored, replacing every callable of the history by
   one that never raises changes nothing that is observed - tokens, documents, callables invoked and their
   order, outcomes - except the raise flags: the plan's trace is unchanged. *)
Theorem C19_ignored_exceptions_change_nothing : forall h, no_strict h = true ->
  run_hist (SetIgnore true :: map quiet_op h) = map strip_obs (run_hist (SetIgnore true :: h)).
Proof. exact ignored_exceptions_change_nothing. Qed.
Print Assumptions C19_ignored_exceptions_change_nothing.

(* Class C19-a is not empty and the unchanged code violates the policy inside it: b raises on the stop
   document of close_run; a has seen stop(success), c never sees a stop, no stop(fail) is ever emitted. *)
Definition C19_a_witness : list op :=
  let a := mk_fn 0 0 [] in let b := mk_fn 1 1 [(SStop, None, None)] in let c := mk_fn 2 2 [] in
  [SetIgnore false; Subscribe a NAll; Subscribe b NAll; Subscribe c NAll; RunCall [] [POpen; PEvent; PClose]].

Theorem C19_a_refuted :
  exists h, finding_C19_a h = true /\ finding_C18_a h = false /\ policy_ok_from false h (run_hist h) = false.
Proof. exists C19_a_witness. repeat split; vm_compute; reflexivity. Qed.
Print Assumptions C19_a_refuted.

(* Non-vacuity: outside both classes, a callable raising on the second event under the strict policy ends
   the call with its exception and the run is closed as failed for everyone; under the ignoring policy the
   same history runs to completion and every callable sees every document. *)
Definition C19_example (ignore : bool) : list op :=
  let a := mk_fn 0 0 [] in let b := mk_fn 1 1 [(SEvent, None, Some 2)] in let c := mk_fn 2 2 [] in
  [SetIgnore ignore; Subscribe a NAll; Subscribe b NAll; Subscribe c NAll;
   RunCall [] [POpen; PEvent; PEvent; PEvent; PClose]].

Example C19_nonvacuous_strict :
  finding_C19_a (C19_example false) = false /\ finding_C18_a (C19_example false) = false /\
  nth 4 (run_hist (C19_example false)) ONone =
    OCall [E (DStart 0) [(0, false); (1, false); (2, false)];
           E (DDescriptor 0) [(0, false); (1, false); (2, false)];
           E (DEvent 0 1) [(0, false); (1, false); (2, false)];
           E (DEvent 0 2) [(0, false); (1, true)];
           E (DStop 0 false) [(0, false); (1, false); (2, false)]] [] (Raised (ExCb 1)).
Proof. repeat split; vm_compute; reflexivity. Qed.

Example C19_nonvacuous_ignore :
  no_strict (tl (C19_example true)) = true /\
  nth 4 (run_hist (C19_example true)) ONone =
    OCall [E (DStart 0) [(0, false); (1, false); (2, false)];
           E (DDescriptor 0) [(0, false); (1, false); (2, false)];
           E (DEvent 0 1) [(0, false); (1, false); (2, false)];
           E (DEvent 0 2) [(0, false); (1, true); (2, false)];
           E (DEvent 0 3) [(0, false); (1, false); (2, false)];
           E (DStop 0 true) [(0, false); (1, false); (2, false)]] [] Done.
Proof. split; vm_compute; reflexivity. Qed.

(* Non-vacuity with callbacks that change the subscriptions during delivery: callable 1 is a one-shot that
   unsubscribes its own token (1) on the first event; callable 0 on the start document unsubscribes token 2
   and subscribes callable 3.  Snapshot semantics: 2 still gets the start document and nothing after it, 3 gets
   everything after the start document, 1 gets the first event and nothing after it; the plan completes. *)
Definition C19_example_mutating : list op :=
  let a := mk_fn_a 0 0 [] [((SStart, None, None), CbUnsub 2);
                           ((SStart, None, None), CbSub 3 3 (pats_fun []) None)] in
  let b := mk_fn_a 1 1 [] [((SEvent, None, Some 1), CbUnsub 1)] in
  let c := mk_fn 2 2 [] in
  [SetIgnore true; Subscribe a NAll; Subscribe b NAll; Subscribe c NAll;
   RunCall [] [POpen; PEvent; PEvent; PClose]].

Example C19_nonvacuous_mutating :
  finding_C18_a C19_example_mutating = false /\
  nth 4 (run_hist C19_example_mutating) ONone =
    OCall [E (DStart 0) [(0, false); (1, false); (2, false)];
           E (DDescriptor 0) [(0, false); (1, false); (3, false)];
           E (DEvent 0 1) [(0, false); (1, false); (3, false)];
           E (DEvent 0 2) [(0, false); (3, false)];
           E (DStop 0 true) [(0, false); (3, false)]] [] Done.
Proof. split; vm_compute; reflexivity. Qed.
