"""C39 - a LiveDispatcher's re-emitted stream is a valid run.

Raw runs (any number of streams, events in any interleaving, event pages, several runs through
one dispatcher object) are fed to the real bluesky.callbacks.stream.LiveDispatcher (pass-through)
and to a transforming subclass whose event() makes case-prescribed process_event calls; every
document handed to the subscribers is projected and compared with Pure/LiveDisp.v."""
import itertools

ID = "C39"
PROP_FILE = "Props/C39.v"
THEOREMS = ["C39_reemitted_run_valid", "C39_descriptor_precedes_events"]
COQ_IMPORTS = "From BV Require Import Base.ChainMap Pure.LiveDisp."
MODELLED = ("LiveDispatcher.start/descriptor/process_event/stop are modelled on projected documents (uids -> emission "
            "index, no timestamps, strings interned); event_model schema validation inside emit() is trusted to accept "
            "the documents (the harness feeds schema-valid raw documents), event_model.DocumentRouter's event_page "
            "unpacking (stops at the first event() returning NotImplemented) is modelled as page_events; the "
            "bluesky Dispatcher delivering to subscribers is trusted.  A subclass is anything that turns each raw "
            "event into a list of process_event calls; the theorem quantifies over all such lists.")
RULE = ("exhaustive: pass-through runs over <=2 raw descriptors (same/different stream names) x every interleaving of "
        "<=4 events/pages; random: 1-3 runs x 1-4 raw descriptors x <=10 items, pass-through and transforming "
        "(0-3 process_event calls per event, stream_name/id_args/config given or not, new/renamed data keys); "
        "malformed: events with unknown descriptors, re-registered descriptor uids, empty data (empty pages are rejected by event_model itself). "
        "non-trivial = some stream of the re-emitted run has >= 2 events or the run has >= 2 streams")

RESERVED = {"primary": 0, "string": 1, "array": 2, "number": 3}
KEYS = ["k0", "k1", "k2", "k3"]
STREAMS = ["primary", "baseline", "avg"]
DTYPES = ["number", "integer", "string", "array"]
KINDS = ["KNum", "KStr", "KArr"]


# ------------------------------------------------------------------ case generation

def _desc(uid, name, keys):
    d = {"t": "desc", "uid": uid, "keys": [[k, "number"] for k in keys]}
    if name is not None:
        d["name"] = name
    return d


def _ev(desc, data, reqs=None):
    return {"t": "event", "desc": desc, "data": data, "reqs": reqs or []}


def _run(uid, items, md=None, md_over=None, stop=None):
    return {"uid": uid, "md": md or [], "md_over": md_over or [], "items": items,
            "stop": stop or [["exit_status", "success"]]}


def _exhaustive(tier):
    out = []
    maxev = 3 if tier == "quick" else 4
    for names in (["primary"], ["primary", "baseline"], ["primary", "primary"], ["baseline", None]):
        descs = [_desc("d%d" % i, n, ["k%d" % i]) for i, n in enumerate(names)]
        for n in range(0, maxev + 1):
            for pick in itertools.product(range(len(names)), repeat=n):
                for paged in ([False, True] if n >= 2 else [False]):
                    items = list(descs)
                    evs = [_ev("d%d" % i, [["k%d" % i, "KNum"]]) for i in pick]
                    if paged:
                        # consecutive events of one descriptor go into one page
                        cur = []
                        for e in evs:
                            if cur and cur[-1]["desc"] != e["desc"]:
                                items.append({"t": "page", "desc": cur[0]["desc"], "events": cur})
                                cur = []
                            cur.append(e)
                        if cur:
                            items.append({"t": "page", "desc": cur[0]["desc"], "events": cur})
                    else:
                        items += evs
                    out.append({"mode": "pass", "ret_none": False, "runs": [_run("r0", items)]})
    return out


def _rand_data(rng, pool):
    ks = [k for k in pool if rng.random() < 0.6]
    rng.shuffle(ks)
    return [[k, rng.choice(KINDS)] for k in ks]


def _rand_req(rng, desc_uids, raw_keys):
    pool = list(raw_keys) + [k for k in KEYS if k not in raw_keys][:2]
    data = _rand_data(rng, pool)
    r = {"desc": rng.choice(desc_uids) if rng.random() < 0.15 else None, "data": data}
    x = rng.random()
    if x < 0.55:
        r["stream"] = rng.choice(STREAMS)
    x = rng.random()
    if x < 0.15:
        r["idargs"] = []
    elif x < 0.45:
        r["idargs"] = [rng.choice(KEYS + desc_uids) for _ in range(rng.randint(1, 2))]
    if rng.random() < 0.3:
        r["config"] = rng.randint(1, 3)
    return r


def _rand_case(rng, big):
    mode = "pass" if rng.random() < 0.4 else "xf"
    ret_none = rng.random() < 0.5
    runs = []
    for ri in range(rng.randint(1, 3)):
        nd = rng.randint(1, 4)
        descs, uids, keysof = [], [], {}
        for i in range(nd):
            uid = "d%d" % i
            name = rng.choice(["primary", "primary", "baseline", "avg", None])
            keys = [k for k in KEYS if rng.random() < 0.5]
            d = {"t": "desc", "uid": uid, "keys": [[k, rng.choice(DTYPES)] for k in keys]}
            if name is not None:
                d["name"] = name
            descs.append(d)
            uids.append(uid)
            keysof[uid] = keys
        items = []
        pending = list(descs)
        rng.shuffle(pending)
        # mostly: descriptors first; sometimes late / re-registered descriptors
        early = [d for d in pending if rng.random() < 0.8] or pending[:1]
        late = [d for d in pending if d not in early]
        items += early
        known = [d["uid"] for d in early]
        nitems = rng.randint(0, 14 if big else 8)
        for _ in range(nitems):
            x = rng.random()
            if late and x < 0.15:
                d = late.pop()
                items.append(d)
                known.append(d["uid"])
                continue
            if x < 0.2 and known:
                # re-register a uid with another name / other keys
                u = rng.choice(known)
                d = {"t": "desc", "uid": u, "keys": [[k, rng.choice(DTYPES)] for k in KEYS if rng.random() < 0.5]}
                if rng.random() < 0.8:
                    d["name"] = rng.choice(STREAMS)
                items.append(d)
                keysof[u] = [k for k, _ in d["keys"]]
                continue
            du = rng.choice(known) if (known and rng.random() < 0.93) else rng.choice(uids + ["dX"])

            def mk_event():
                raw_keys = keysof.get(du, [])
                data = [[k, rng.choice(KINDS)] for k in raw_keys] if rng.random() < 0.85 else _rand_data(rng, KEYS)
                reqs = []
                if mode == "xf":
                    for _ in range(rng.choice([0, 1, 1, 1, 2, 3])):
                        reqs.append(_rand_req(rng, uids, raw_keys))
                return _ev(du, data, reqs)
            if x < 0.4:
                items.append({"t": "page", "desc": du, "events": [mk_event() for _ in range(rng.randint(1, 3))]})
            else:
                items.append(mk_event())
        md = [[k, "v%d" % rng.randint(0, 2)] for k in ["m0", "m1", "m2"] if rng.random() < 0.5]
        md_over = [[k, "w%d" % rng.randint(0, 2)] for k in ["m1", "m2", "m3"] if rng.random() < 0.4] if mode == "xf" else []
        stop = [["exit_status", rng.choice(["success", "abort", "fail"])]]
        if rng.random() < 0.5:
            stop.append(["reason", "r%d" % rng.randint(0, 2)])
        runs.append(_run("r%d" % ri, items, md, md_over, stop))
    return {"mode": mode, "ret_none": ret_none, "runs": runs}


def cases(rng, tier):
    out = _exhaustive(tier)
    n = 350 if tier == "quick" else 6000
    for i in range(n):
        out.append(_rand_case(rng, big=(i % 3 == 0)))
    # malformed / edge stream
    d0 = _desc("d0", "primary", ["k0"])
    out.append({"mode": "pass", "ret_none": False, "runs": [_run("r0", [_ev("dX", [["k0", "KNum"]])])]})
    out.append({"mode": "pass", "ret_none": False, "runs": [_run("r0", [_ev("dX", [])])]})
    out.append({"mode": "pass", "ret_none": False, "runs": [_run("r0", [])]})
    out.append({"mode": "xf", "ret_none": True, "runs": [_run("r0", [d0, _ev("d0", [["k0", "KNum"]], [
        {"desc": None, "data": [["k1", "KNum"]], "idargs": ["k2"]},
        {"desc": None, "data": [["k2", "KNum"]], "idargs": ["k1"]}])])]})
    return out


# ------------------------------------------------------------------ running the implementation

_VALUES = {"KNum": 1.5, "KStr": "s", "KArr": [1, 2]}


def _make_dispatcher(case):
    from bluesky.callbacks.stream import LiveDispatcher
    if case["mode"] == "pass":
        return LiveDispatcher()
    ret_none = case["ret_none"]

    class Xf(LiveDispatcher):
        """Transforming subclass: what event() does with each raw event is prescribed by the case."""

        def start(self, doc):
            super().start(doc, _md=doc.pop("__md_over"))

        def event(self, doc):
            for r in doc.pop("__reqs"):
                new = dict(doc)
                new["data"] = {k: _VALUES[kind] for k, kind in r["data"]}
                if r.get("desc") is not None:
                    new["descriptor"] = r["desc"]
                kw = {}
                if "stream" in r:
                    kw["stream_name"] = r["stream"]
                if "idargs" in r:
                    kw["id_args"] = tuple(r["idargs"])
                if "config" in r:
                    kw["config"] = {"cfg%d" % r["config"]: {"data": {}, "timestamps": {}, "data_keys": {}}}
                self.process_event(new, **kw)
            return None if ret_none else NotImplemented

        def stop(self, doc):
            super().stop(doc)

    return Xf()


def _raw_event(e, n):
    return {"uid": "e%d" % n, "time": 0.0, "descriptor": e["desc"], "seq_num": n + 1,
            "data": {k: _VALUES[kind] for k, kind in e["data"]},
            "timestamps": {k: 0.0 for k, _ in e["data"]}, "__reqs": e.get("reqs", [])}


def impl(case):
    ld = _make_dispatcher(case)
    xf = case["mode"] == "xf"
    seg = []
    ld.subscribe(lambda name, doc: seg.append((name, doc)))
    segments = []
    nev = [0]

    def call(name, doc):
        try:
            ld(name, doc)
        except Exception as e:  # noqa: BLE001
            seg.append(("error", type(e).__name__))

    seen_desc = {}
    for run in case["runs"]:
        seg = []
        start = {"uid": run["uid"], "time": 0.0}
        start.update({k: v for k, v in run["md"]})
        if xf:
            start["__md_over"] = {k: v for k, v in run["md_over"]}
        call("start", start)
        for it in run["items"]:
            if it["t"] == "desc":
                d = {"uid": it["uid"], "time": 0.0, "run_start": run["uid"],
                     "data_keys": {k: {"dtype": dt, "shape": [], "source": "raw"} for k, dt in it["keys"]},
                     "object_keys": {}, "configuration": {}, "hints": {}}
                if "name" in it:
                    d["name"] = it["name"]
                call("descriptor", d)
            elif it["t"] == "event":
                ev = _raw_event(it, nev[0])
                nev[0] += 1
                if not xf:
                    ev.pop("__reqs")
                call("event", ev)
            else:
                evs = []
                for e in it["events"]:
                    evs.append(_raw_event(e, nev[0]))
                    nev[0] += 1
                if xf:
                    # an event_page cannot carry per-event extras: keep the prescriptions by uid
                    reqs_by_uid = {e["uid"]: e["__reqs"] for e in evs}
                    orig_event = type(ld).event

                    def patched(self, doc, _o=orig_event, _r=reqs_by_uid):
                        doc = dict(doc)
                        doc["__reqs"] = _r[doc["uid"]]
                        return _o(self, doc)
                    type(ld).event = patched
                page = {"uid": [e["uid"] for e in evs], "time": [0.0] * len(evs), "descriptor": it["desc"],
                        "seq_num": [e["seq_num"] for e in evs],
                        "data": {}, "timestamps": {}}
                if evs:
                    ks = list(evs[0]["data"].keys())
                    # a page needs one key set: events of a page use the first event's keys
                    page["data"] = {k: [e["data"].get(k, 1.5) for e in evs] for k in ks}
                    page["timestamps"] = {k: [0.0] * len(evs) for k in ks}
                call("event_page", page)
                if xf:
                    type(ld).event = orig_event
        stop = {"uid": "stop-" + run["uid"], "time": 0.0, "run_start": run["uid"], "num_events": {"raw": 99}}
        stop.update({k: v for k, v in run["stop"]})
        call("stop", stop)
        segments.append(_project(seg, run, seen_desc))
    return {"runs": segments}


def _kind(v):
    if isinstance(v, str):
        return "KStr"
    if isinstance(v, (list, tuple)):
        return "KArr"
    return "KNum"


def _project(seg, run, seen_desc):
    out = []
    start_uid = None
    for name, doc in seg:
        if name == "error":
            out.append({"n": "error", "cls": doc})
            continue
        name = getattr(name, "name", name)
        if name == "start":
            start_uid = doc["uid"]
            ok = isinstance(doc["uid"], str) and doc["uid"] != run["uid"] and "time" in doc
            md = {k: v for k, v in doc.items() if k not in ("uid", "time", "original_run_uid")}
            out.append({"n": "start", "orig": doc["original_run_uid"], "md": md, "ok": ok})
        elif name == "descriptor":
            idx = seen_desc.setdefault(doc["uid"], len(seen_desc))
            dk = doc["data_keys"]
            ok = (doc["run_start"] == start_uid and all(v.get("source") == "Stream" for v in dk.values())
                  and doc["object_keys"] == {"stream": list(dk.keys())})
            cfg = int(sorted(doc["configuration"])[0][3:]) if doc["configuration"] else 0
            out.append({"n": "descriptor", "idx": idx, "name": doc.get("name"),
                        "keys": [[k, v["dtype"]] for k, v in dk.items()], "cfg": cfg, "ok": ok})
        elif name == "event":
            ok = (list(doc["timestamps"].keys()) == list(doc["data"].keys()) and isinstance(doc["uid"], str)
                  and len(doc["uid"]) > 16)
            out.append({"n": "event", "didx": seen_desc.get(doc["descriptor"], -1), "seq": doc["seq_num"],
                        "data": [[k, _kind(v)] for k, v in doc["data"].items()], "ok": ok})
        elif name == "stop":
            ok = doc["run_start"] == start_uid and doc["uid"] != "stop-" + run["uid"]
            rest = {k: v for k, v in doc.items() if k not in ("uid", "time", "run_start", "num_events")}
            out.append({"n": "stop", "num_events": doc["num_events"], "rest": rest, "ok": ok})
        else:
            out.append({"n": "other:" + str(name), "ok": False})
    return out


# ------------------------------------------------------------------ Coq terms

class Interner:
    def __init__(self):
        self.t = dict(RESERVED)

    def __call__(self, s):
        if s not in self.t:
            self.t[s] = len(self.t) + 10
        return "%d%%N" % self.t[s]


def cl(xs, f=str):
    return "[" + "; ".join(f(x) for x in xs) + "]"


def cb(b):
    return "true" if b else "false"


def copt(x, f):
    return "None" if x is None else "(Some %s)" % f(x)


def _cdict(I, kv):
    items = kv.items() if isinstance(kv, dict) else kv
    return cl(items, lambda p: "(%s, %s)" % (I(p[0]), I(p[1])))


def _creq(I, r, default_desc):
    return ("{| pe_desc := %s; pe_data := %s; pe_stream := %s; pe_idargs := %s; pe_config := %s |}" % (
        I(r["desc"] if r.get("desc") is not None else default_desc),
        cl(r["data"], lambda p: "(%s, %s)" % (I(p[0]), p[1])),
        copt(r.get("stream"), I),
        copt(r.get("idargs"), lambda l: cl(l, I)),
        copt(r.get("config"), lambda c: "%d%%N" % c)))


def _cevent(I, e, page_keys=None):
    data = e["data"]
    if page_keys is not None:
        # events unpacked from a page all carry the page's key set (see impl)
        have = dict((k, kind) for k, kind in data)
        data = [[k, have.get(k, "KNum")] for k in page_keys]
    return "{| re_desc := %s; re_data := %s; re_reqs := %s |}" % (
        I(e["desc"]), cl(data, lambda p: "(%s, %s)" % (I(p[0]), p[1])),
        cl(e.get("reqs", []), lambda r: _creq(I, r, e["desc"])))


def _citem(I, it):
    if it["t"] == "desc":
        return "IDesc {| rd_uid := %s; rd_name := %s; rd_keys := %s |}" % (
            I(it["uid"]), copt(it.get("name"), I), cl(it["keys"], lambda p: "(%s, %s)" % (I(p[0]), I(p[1]))))
    if it["t"] == "event":
        return "IEvent " + _cevent(I, it)
    pk = [k for k, _ in it["events"][0]["data"]] if it["events"] else []
    return "IPage " + cl(it["events"], lambda e: _cevent(I, dict(e, desc=it["desc"]), pk))


def _crun(I, run):
    return "{| rr_uid := %s; rr_md := %s; rr_md_over := %s; rr_items := %s; rr_stop := %s |}" % (
        I(run["uid"]), _cdict(I, run["md"]), _cdict(I, run["md_over"]), cl(run["items"], lambda it: _citem(I, it)),
        _cdict(I, run["stop"]))


def _cdoc(I, d):
    n = d["n"]
    if n == "error":
        return "EKeyError" if d["cls"] == "KeyError" else None
    if not d.get("ok", False):
        return None
    if n == "start":
        return "EStart %s %s" % (I(d["orig"]), _cdict(I, d["md"]))
    if n == "descriptor":
        if d["name"] is None:
            return None
        return "EDescriptor %d %s %s %d%%N" % (d["idx"], I(d["name"]),
                                               cl(d["keys"], lambda p: "(%s, DtRaw %s)" % (I(p[0]), I(p[1]))), d["cfg"])
    if n == "event":
        if d["didx"] < 0 or not isinstance(d["seq"], int) or d["seq"] < 0:
            return None
        return "EEvent %d %d%%N %s" % (d["didx"], d["seq"], cl(d["data"], lambda p: "(%s, %s)" % (I(p[0]), p[1])))
    if n == "stop":
        ne = d["num_events"]
        if not all(isinstance(v, int) and v >= 0 for v in ne.values()):
            return None
        return "EStop %s %s" % (cl(ne.items(), lambda p: "(%s, %d%%N)" % (I(p[0]), p[1])), _cdict(I, d["rest"]))
    return None


def coq_term(case, obs):
    I = Interner()
    runs = cl(case["runs"], lambda r: _crun(I, r))
    segs = []
    names = set()
    for seg in obs["runs"]:
        docs = [_cdoc(I, d) for d in seg]
        if any(x is None for x in docs):
            return "false"   # an observation the model cannot even express: correspondence broken
        segs.append(cl(docs))
        for d in seg:
            if d["n"] == "descriptor":
                names.add(d["name"])
            if d["n"] == "stop":
                names.update(d["num_events"].keys())
    model = "do_runs %s %s st0 %s" % (cb(case["mode"] == "pass"), cb(case["ret_none"]), runs)
    # the model reproduces the observation exactly, and its output satisfies the boolean restatement
    return "(let m := %s in runs_beq m %s && forallb (fun o => valid_run_b o %s) m)" % (
        model, cl(segs), cl(sorted(names), I))


# ------------------------------------------------------------------ impl-side oracle (the property itself)

def oracle(case, obs):
    for ri, seg in enumerate(obs["runs"]):
        if not seg or seg[0]["n"] != "start":
            return "run %d: first re-emitted document is not a RunStart" % ri
        if seg[-1]["n"] != "stop":
            return "run %d: last re-emitted document is not a RunStop" % ri
        for d in seg:
            if d["n"] not in ("error",) and not d.get("ok", False):
                return "run %d: malformed re-emitted %s document: %r" % (ri, d["n"], d)
            if d["n"] == "error" and d["cls"] != "KeyError":
                return "run %d: unexpected %s" % (ri, d["cls"])
        name_of = {}
        seqs = {}
        for d in seg:
            if d["n"] == "descriptor":
                name_of[d["idx"]] = d["name"]
            elif d["n"] == "event":
                if d["didx"] not in name_of:
                    return "run %d: event references a descriptor that was not emitted before it in this run" % ri
                seqs.setdefault(name_of[d["didx"]], []).append(d["seq"])
        for name, q in sorted(seqs.items(), key=lambda kv: str(kv[0])):
            if q != list(range(1, len(q) + 1)):
                return "run %d: events of stream %r are numbered %s, not 1..%d" % (ri, name, q, len(q))
        expect = {name: len(q) for name, q in seqs.items()}
        got = seg[-1]["num_events"]
        if got != expect:
            return "run %d: stop.num_events = %r but the events emitted per stream are %r" % (ri, got, expect)
    return None


def nontrivial(case, obs):
    for seg in obs["runs"]:
        name_of, cnt = {}, {}
        for d in seg:
            if d["n"] == "descriptor":
                name_of[d["idx"]] = d["name"]
            elif d["n"] == "event":
                s = name_of.get(d["didx"])
                cnt[s] = cnt.get(s, 0) + 1
        if len(cnt) >= 2 or any(v >= 2 for v in cnt.values()):
            return True
    return False


def describe(case):
    nev = sum(1 if it["t"] == "event" else len(it["events"]) if it["t"] == "page" else 0
              for r in case["runs"] for it in r["items"])
    pages = any(it["t"] == "page" for r in case["runs"] for it in r["items"])
    return "%s runs=%d events=%s%s" % (case["mode"] + ("/None" if case["ret_none"] and case["mode"] == "xf" else ""),
                                       len(case["runs"]), "0" if nev == 0 else "1-3" if nev <= 3 else "4-8" if nev <= 8 else "9+",
                                       " pages" if pages else "")


def model_search(rng, tier):
    return None
