(* numpy.linspace over Q is the documented arithmetic progression (C25). *)
From Coq Require Import QArith Qminmax List Arith Lia Lqa ZArith.
From BV Require Import Base.OrdFieldS Pure.Linspace.
Import ListNotations.
Open Scope Q_scope.

(* the documented sequence: start + i*(stop-start)/(num-1)  (num = 1: just start) *)
Definition lin_spec (a b : Q) (num i : nat) : Q :=
  if (num =? 1)%nat then a
  else a + inject_Z (Z.of_nat i) * (b - a) / inject_Z (Z.of_nat (num - 1)).

Lemma linspace_length {F} (ops : Ops F) a b n : length (linspace ops a b n) = n.
Proof.
  destruct n as [|[|d]]; [reflexivity|reflexivity|].
  unfold linspace. rewrite app_length, map_length, seq_length. cbn [length]. lia.
Qed.

Lemma inject_nat_pos d : 0 < inject_Z (Z.of_nat (S d)).
Proof. change 0 with (inject_Z 0). rewrite <- Zlt_Qlt. lia. Qed.

Lemma Qpos_nz (D : Q) : 0 < D -> ~ D == 0.
Proof. intros H E. rewrite E in H. exact (Qlt_irrefl 0 H). Qed.

Lemma linspace_at_spec a b d i :
  linspace_at QOps a b (S (S d)) i == a + inject_Z (Z.of_nat i) * (b - a) / inject_Z (Z.of_nat (S d)).
Proof.
  unfold linspace_at. replace (S (S d) - 1)%nat with (S d) by lia.
  cbn [o_sub o_of_nat o_mul o_div o_add o_eqb o_zero QOps].
  pose proof (inject_nat_pos d) as Hpos.
  remember (inject_Z (Z.of_nat (S d))) as D eqn:HD. clear HD.
  destruct (Qeq_bool ((b - a) / D) 0); field; apply Qpos_nz; assumption.
Qed.

Lemma linspace_nth a b n i : (i < n)%nat -> nth i (linspace QOps a b n) 0 == lin_spec a b n i.
Proof.
  intros Hi. unfold lin_spec. destruct n as [|[|d]]; [lia| |].
  - assert (i = 0)%nat by lia. subst. cbn [Nat.eqb linspace nth].
    unfold linspace_at. cbn. ring.
  - cbn [Nat.eqb]. replace (S (S d) - 1)%nat with (S d) by lia.
    unfold linspace. destruct (Nat.eq_dec i (S d)) as [->|Hne].
    + rewrite app_nth2 by (rewrite map_length, seq_length; lia).
      rewrite map_length, seq_length, Nat.sub_diag. cbn [nth].
      pose proof (inject_nat_pos d). field. apply Qpos_nz; assumption.
    + rewrite app_nth1 by (rewrite map_length, seq_length; lia).
      rewrite (nth_indep _ 0 (linspace_at QOps a b (S (S d)) 0)) by (rewrite map_length, seq_length; lia).
      rewrite map_nth, seq_nth by lia. cbn [plus]. apply linspace_at_spec.
Qed.

Lemma linspace_first a b n : (1 <= n)%nat -> nth 0 (linspace QOps a b n) 0 == a.
Proof.
  intros Hn. rewrite linspace_nth by lia. unfold lin_spec.
  destruct (n =? 1)%nat eqn:E; [reflexivity|].
  apply Nat.eqb_neq in E. destruct n as [|[|d]]; try lia.
  replace (S (S d) - 1)%nat with (S d) by lia. pose proof (inject_nat_pos d).
  change (inject_Z (Z.of_nat 0)) with 0. field. apply Qpos_nz; assumption.
Qed.

Lemma linspace_last a b n : (2 <= n)%nat -> nth (n - 1) (linspace QOps a b n) 0 = b.
Proof.
  intros Hn. destruct n as [|[|d]]; try lia. unfold linspace.
  rewrite app_nth2 by (rewrite map_length, seq_length; lia).
  rewrite map_length, seq_length. replace (S (S d) - 1 - S d)%nat with 0%nat by lia. reflexivity.
Qed.

(* every point of the progression lies between the two end points *)
Lemma lin_spec_bounds a b n i : (i < n)%nat -> Qmin a b <= lin_spec a b n i <= Qmax a b.
Proof.
  intros Hi. unfold lin_spec. destruct (n =? 1)%nat eqn:E.
  - split; [apply Q.le_min_l|apply Q.le_max_l].
  - apply Nat.eqb_neq in E. destruct n as [|[|d]]; try lia.
    replace (S (S d) - 1)%nat with (S d) by lia.
    pose proof (inject_nat_pos d) as Hpos.
    assert (HI0 : 0 <= inject_Z (Z.of_nat i)) by (change 0 with (inject_Z 0); rewrite <- Zle_Qle; lia).
    assert (HID : inject_Z (Z.of_nat i) <= inject_Z (Z.of_nat (S d))) by (rewrite <- Zle_Qle; lia).
    remember (inject_Z (Z.of_nat (S d))) as D eqn:HD. clear HD.
    remember (inject_Z (Z.of_nat i)) as I eqn:HI. clear HI.
    assert (Ht : a + I * (b - a) / D == a * (1 - I / D) + b * (I / D)) by (field; apply Qpos_nz; assumption).
    assert (H0 : 0 <= I / D) by (apply Qle_shift_div_l; [assumption|rewrite Qmult_0_l; assumption]).
    assert (H1 : I / D <= 1) by (apply Qle_shift_div_r; [assumption|rewrite Qmult_1_l; assumption]).
    remember (I / D) as t eqn:Ht'. clear Ht'. rewrite Ht. clear Ht HI0 HID Hpos.
    pose proof (Q.le_min_l a b). pose proof (Q.le_min_r a b).
    pose proof (Q.le_max_l a b). pose proof (Q.le_max_r a b).
    remember (Qmin a b) as mn eqn:Hmn. remember (Qmax a b) as mx eqn:Hmx. clear Hmn Hmx.
    assert (0 <= (a - mn) * (1 - t)) by (apply Qmult_le_0_compat; lra).
    assert (0 <= (b - mn) * t) by (apply Qmult_le_0_compat; lra).
    assert (0 <= (mx - a) * (1 - t)) by (apply Qmult_le_0_compat; lra).
    assert (0 <= (mx - b) * t) by (apply Qmult_le_0_compat; lra).
    split; lra.
Qed.
